package PVM

// Witness for the C01 defect repaired by the "fix:" commit that makes mul_upper_s_s borrow from the low word.
// Place as PVM/c01_mul_upper_ss_test.go. GP A.5.13: ω'_D = Z_8^{-1}(⌊(Z_8(ω_A) · Z_8(ω_B)) ÷ 2^64⌋).
// Before the fix both engines computed −hi(|a|·|b|) for a negative product without borrowing from a non-zero low
// word: −1 · 1 gave 0 instead of 2^64 − 1 (the floor of −1 / 2^64 is −1).

import (
	"math/big"
	"testing"
)

func TestC01MulUpperSSNegativeProduct(t *testing.T) {
	cases := [][2]int64{{-1, 1}, {1, -1}, {-3, 5}, {-1 << 63, 1}, {7, -9}, {-1, -1}, {1 << 62, 4}, {-1 << 62, 8}, {0, -5}, {-5, 0}}
	for _, cs := range cases {
		p := big.NewInt(0).Mul(big.NewInt(cs[0]), big.NewInt(cs[1])) // (package PVM shadows the builtin new)
		q := big.NewInt(0).Rsh(p, 64)                                // arithmetic shift: floor division by 2^64
		want := big.NewInt(0).And(q, big.NewInt(0).SetUint64(^uint64(0))).Uint64()

		var in Interpreter
		in.Registers[1], in.Registers[2] = uint64(cs[0]), uint64(cs[1])
		meta := InstrMeta{Dst: 3, Src: [2]uint8{1, 2}}
		instMulUpperSSMeta(&in, &meta)
		if got := in.Registers[3]; got != want {
			t.Errorf("block engine: mul_upper_s_s(%d, %d) = %#x, GP gives %#x", cs[0], cs[1], got, want)
		}
	}
}
