package memory

import "testing"

func TestWMemBatchKeyRetained(t *testing.T) {
	db := NewDatabase().(*memoryDB)
	b := db.NewBatch()
	key := []byte("aaa")
	_ = b.Put(key, []byte("v"))
	copy(key, "zzz") // caller reuses its buffer
	_ = b.Commit()
	if ok, _ := db.Has([]byte("aaa")); !ok {
		t.Errorf("batch.Put retained the caller's key buffer: key aaa missing after commit")
	}
	if ok, _ := db.Has([]byte("zzz")); ok {
		t.Errorf("batch.Put retained the caller's key buffer: key zzz was written")
	}
}

func TestWMemIteratorPrefix(t *testing.T) {
	db := NewDatabase()
	_ = db.Put([]byte("pa"), []byte("1"))
	_ = db.Put([]byte("pb"), []byte("2"))
	_ = db.Put([]byte("q"), []byte("3"))
	it, _ := db.NewIterator([]byte("p"), []byte("a"))
	var got []string
	for it.Next() {
		got = append(got, string(it.Key()))
	}
	if len(got) != 2 || got[0] != "pa" || got[1] != "pb" {
		t.Errorf("iterator(prefix p, start a) yielded %v, expected [pa pb]", got)
	}
}
