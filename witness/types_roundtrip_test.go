package types

import (
	"bytes"
	"reflect"
	"testing"
)

func rt(t *testing.T, name string, in Encodable, out Decodable) []byte {
	e := NewEncoder()
	b, err := e.Encode(in)
	if err != nil {
		t.Fatalf("%s encode: %v", name, err)
	}
	d := NewDecoder()
	n, err := d.DecodeWithConsumed(b, out)
	if err != nil {
		t.Errorf("%s decode error: %v (enc=%x)", name, err, b)
		return b
	}
	if n != len(b) {
		t.Errorf("%s consumed %d of %d", name, n, len(b))
	}
	return b
}

func TestWOperand(t *testing.T) {
	in := Operand{GasLimit: 5, Result: WorkExecResult{}, AuthOutput: ByteSequence{1}}
	in.Result = WorkExecResult{Type: WorkExecResultOk, Data: []byte{1, 2}}
	var out Operand
	rt(t, "Operand", &in, &out)
	if out.GasLimit != 5 {
		t.Errorf("gas %v", out.GasLimit)
	}
}

func TestWWorkItem(t *testing.T) {
	e := NewEncoder()
	e.SetHashSegmentMap(HashSegmentMap{})
	in := WorkItem{Extrinsic: []ExtrinsicSpec{{Len: 7}}}
	b, err := e.Encode(&in)
	if err != nil {
		t.Fatal(err)
	}
	d := NewDecoder()
	d.SetHashSegmentMap(HashSegmentMap{})
	var out WorkItem
	n, err := d.DecodeWithConsumed(b, &out)
	if err != nil || n != len(b) || len(out.Extrinsic) != 1 {
		t.Errorf("WorkItem: err=%v consumed %d of %d, extrinsics=%d", err, n, len(b), len(out.Extrinsic))
	}
}

func TestWStorage(t *testing.T) {
	in := Storage{"": ByteSequence{9}, "k": ByteSequence{1}}
	var out Storage
	rt(t, "Storage", &in, &out)
	if !reflect.DeepEqual(in, out) {
		t.Errorf("Storage %v != %v", in, out)
	}
}

func TestWMetaCode(t *testing.T) {
	in := MetaCode{Code: ByteSequence{1, 2, 3}}
	var out MetaCode
	rt(t, "MetaCode", &in, &out)
	if !bytes.Equal(out.Code, in.Code) {
		t.Errorf("MetaCode code %x", out.Code)
	}
	var o2 MetaCode
	if err := NewDecoder().Decode(nil, &o2); err == nil {
		t.Errorf("MetaCode: empty input accepted")
	}
}

func TestWOODT(t *testing.T) {
	var out OperandOrDeferredTransfer
	if err := NewDecoder().Decode([]byte{7}, &out); err == nil {
		t.Errorf("OODT: discriminator 7 accepted")
	}
}

func TestWOODTNil(t *testing.T) {
	in := OperandOrDeferredTransfer{DeferredTransfer: &DeferredTransfer{}}
	var out OperandOrDeferredTransfer
	rt(t, "OODT", &in, &out)
}

func TestWAuthorizerHash(t *testing.T) {
	var a AuthorizerHash
	done := make(chan error, 1)
	go func() { done <- NewDecoder().Decode(make([]byte, 32), &a) }()
	<-done
}
