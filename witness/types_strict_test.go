package types

import "testing"

func accepts(data []byte, v Decodable) bool { return NewDecoder().Decode(data, v) == nil }

func TestWStrict(t *testing.T) {
	if accepts([]byte{5, 1, 2}, new(ByteSequence)) {
		t.Errorf("ByteSequence: 05 01 02 accepted (3 bytes missing)")
	}
	if accepts([]byte{7}, new(TicketsOrKeys)) {
		t.Errorf("TicketsOrKeys: discriminator 7 accepted")
	}
	// Mmr with one peak whose option flag is 2
	m := append([]byte{1, 2}, make([]byte, 32)...)
	if accepts(m, new(Mmr)) {
		t.Errorf("Mmr: option flag 2 accepted")
	}
	// Judgement: vote byte 2, index u16, signature 64
	j := append([]byte{2, 0, 0}, make([]byte, 64)...)
	if accepts(j, new(Judgement)) {
		t.Errorf("Judgement: vote byte 2 accepted")
	}
	// BoundaryNode: key 31, hash 32, parent flag 0, leaf byte 9
	b := append(make([]byte, 31+32), 0, 9)
	if accepts(b, new(BoundaryNode)) {
		t.Errorf("BoundaryNode: leaf byte 9 accepted")
	}
	// AvailabilityAssignments: CoresCount flags, first one = 3 followed by garbage that is not an assignment... use all-nil with flag 0 except last flag=... simply: flags [0,...,0] valid; replace first by 255 and give enough zero bytes for an assignment
	a := append([]byte{255}, make([]byte, 4096)...)
	var aa AvailabilityAssignments
	err := NewDecoder().Decode(a, &aa)
	if err == nil {
		t.Errorf("AvailabilityAssignments: option flag 255 accepted")
	} else {
		t.Logf("AvailabilityAssignments flag 255: %v", err)
	}
}
