package redis

import (
	"testing"

	"github.com/alicebob/miniredis/v2"
)

func TestWRedis(t *testing.T) {
	mr, err := miniredis.Run()
	if err != nil {
		t.Fatal(err)
	}
	defer mr.Close()
	db := NewDatabase(mr.Addr(), "", 0)
	b := db.NewBatch()
	val := []byte("good")
	_ = b.Put([]byte("k"), val)
	copy(val, "evil")
	_ = b.Commit()
	if v, _, _ := db.Get([]byte("k")); string(v) != "good" {
		t.Errorf("batch.Put retained the caller's value buffer: stored %q", v)
	}
	for _, k := range []string{"pb", "pa", "pc", "p*x", "q"} {
		_ = db.Put([]byte(k), []byte("1"))
	}
	it, _ := db.NewIterator([]byte("p"), []byte("b"))
	var got []string
	for it.Next() {
		got = append(got, string(it.Key()))
	}
	if len(got) != 2 || got[0] != "pb" || got[1] != "pc" {
		t.Errorf("iterator(prefix p, start b) yielded %v, expected [pb pc]", got)
	}
	it, _ = db.NewIterator([]byte("p*"), nil)
	got = nil
	for it.Next() {
		got = append(got, string(it.Key()))
	}
	if len(got) != 1 || got[0] != "p*x" {
		t.Errorf("iterator(prefix p*) yielded %v, expected [p*x]", got)
	}
	it, _ = db.NewIterator([]byte("p"), nil)
	got = nil
	for it.Next() {
		got = append(got, string(it.Key()))
	}
	for i := 1; i < len(got); i++ {
		if got[i-1] > got[i] {
			t.Errorf("iterator(prefix p) not in ascending order: %v", got)
			break
		}
	}
}
