package utilities_test

import (
	"testing"

	"github.com/New-JAMneration/JAM-Protocol/internal/utilities"

	"github.com/New-JAMneration/JAM-Protocol/PVM"
	"github.com/New-JAMneration/JAM-Protocol/internal/types"
)

func TestWNat(t *testing.T) {
	b := []byte{0xFF, 1, 0, 0, 0, 0, 0, 0, 0}
	if v, err := utilities.DeserializeU64(b); err == nil {
		t.Errorf("legacy: FF 01 00.. accepted as %d", v)
	}
	if v, err := types.NewDecoder().DecodeUint(b); err == nil {
		t.Errorf("types: FF 01 00.. accepted as %d", v)
	}
	if v, _, r := PVM.ReadUintVariable(b); r == PVM.ExitContinue {
		t.Errorf("pvm: FF 01 00.. accepted as %d", v)
	}
}
