package types

import "testing"

func TestWAlloc(t *testing.T) {
	defer func() {
		if r := recover(); r != nil {
			t.Errorf("panic: %v", r)
		}
	}()
	huge := []byte{0xFF, 0xFF, 0xFF, 0xFF, 0xFF, 0xFF, 0xFF, 0xFF, 0x7F}
	var ts TimeSlotSet
	if err := NewDecoder().Decode(huge, &ts); err == nil {
		t.Errorf("accepted")
	}
	var st Storage
	if err := NewDecoder().Decode(huge, &st); err == nil {
		t.Errorf("accepted")
	}
	// ticket attempt 2 as the last byte still decodes
	var tb TicketBody
	if err := NewDecoder().Decode(append(make([]byte, 32), 2), &tb); err != nil || tb.Attempt != 2 {
		t.Errorf("TicketBody: %v %v", err, tb.Attempt)
	}
}
