package fuzz

import "testing"

func TestWCompact(t *testing.T) {
	if v, n := compactDecode([]byte{0xFF, 1, 0, 0, 0, 0, 0, 0, 0}); n != 0 {
		t.Errorf("fuzz: FF 01 00.. accepted as %d", v)
	}
	if v, n := compactDecode([]byte{0x80, 1}); n != 0 {
		t.Errorf("fuzz: 80 01 accepted as %d", v)
	}
}
