package fuzz

import (
	"bytes"
	"runtime"
	"testing"
)

func try(t *testing.T, name string, f func() error) {
	defer func() {
		if r := recover(); r != nil {
			t.Errorf("%s: panic: %v", name, r)
		}
	}()
	if err := f(); err == nil {
		t.Errorf("%s: accepted", name)
	}
}

func TestWFrames(t *testing.T) {
	huge := []byte{0xFF, 0xFF, 0xFF, 0xFF, 0xFF, 0xFF, 0xFF, 0xFF, 0xFF}
	try(t, "ErrorMessage huge length", func() error { return new(ErrorMessage).UnmarshalBinary(append(huge, 'x')) })
	pi := append(make([]byte, 1+4+3+3), huge...)
	try(t, "PeerInfo huge name length", func() error { return new(PeerInfo).UnmarshalBinary(pi) })
	var before, after runtime.MemStats
	runtime.ReadMemStats(&before)
	try(t, "zero-length frame", func() error {
		_, err := new(Message).ReadFrom(bytes.NewReader([]byte{0, 0, 0, 0, 0}))
		return err
	})
	runtime.ReadMemStats(&after)
	if d := after.TotalAlloc - before.TotalAlloc; d > 1<<20 {
		t.Errorf("zero-length frame allocated %d bytes for a 5-byte input", d)
	}
}
