package PVM

// Witness for the C03 defect repaired by the "fix:" commit that makes DeBlobProgramCode reject a wrapped
// jump-table size product. Place as PVM/c03_jumptable_wrap_test.go; on the tree before the fix it fails with
// "slice bounds out of range [3:2]", after the fix the blob is rejected (ExitPanic) and the test passes.

import (
	"encoding/binary"
	"testing"
)

// |j| = 0x5555555555555556 (9-byte form), z = 3: 3·|j| wraps to 2 in 64 bits.
func TestC03JumpTableProductWrap(t *testing.T) {
	blob := []byte{0xFF}
	var s [8]byte
	binary.LittleEndian.PutUint64(s[:], 0x5555555555555556)
	blob = append(blob, s[:]...)
	blob = append(blob, 3)          // z
	blob = append(blob, 1)          // |c| = 1
	blob = append(blob, 0xAA, 0xBB) // "jump table": 2 octets
	blob = append(blob, 0)          // code: trap
	blob = append(blob, 1)          // bitmask
	prog, exit := DeBlobProgramCode(blob)
	if exit != ExitContinue {
		return // rejected: nothing can index the inconsistent table
	}
	defer func() {
		if r := recover(); r != nil {
			t.Fatalf("dynamic jump on an accepted blob (Size=%d Length=%d |Data|=%d) raised a Go panic: %v", prog.JumpTable.Size, prog.JumpTable.Length, len(prog.JumpTable.Data), r)
		}
	}()
	djump(0, 4, prog.JumpTable, prog.Bitmasks)
}
