package merkle_tree

import (
	"bytes"
	"testing"

	"github.com/New-JAMneration/JAM-Protocol/internal/types"
	"github.com/New-JAMneration/JAM-Protocol/internal/utilities/hash"
)

// fold a trace T(v,i) from element v[i] up to N(v): siblings are listed root-first
func fold(v []types.ByteSequence, i int, trace []types.ByteSequence) types.ByteSequence {
	// recompute positions: walk the ceil-split recursion
	type step struct{ left bool }
	var steps []step
	lo, hi := 0, len(v)
	for hi-lo > 1 {
		mid := lo + (hi-lo+1)/2
		if i < mid {
			steps = append(steps, step{true})
			hi = mid
		} else {
			steps = append(steps, step{false})
			lo = mid
		}
	}
	cur := v[i]
	for k := len(steps) - 1; k >= 0; k-- {
		var m []byte
		m = append(m, "node"...)
		if steps[k].left {
			m = append(m, cur...)
			m = append(m, trace[k]...)
		} else {
			m = append(m, trace[k]...)
			m = append(m, cur...)
		}
		h := hash.Blake2bHash(m)
		cur = h[:]
	}
	return cur
}

func TestWTraceReproducesRoot(t *testing.T) {
	for n := 2; n <= 9; n++ {
		v := make([]types.ByteSequence, n)
		for i := range v {
			h := hash.Blake2bHash([]byte{byte(i), byte(n)})
			v[i] = h[:]
		}
		root := N(v, hash.Blake2bHash)
		for i := 0; i < n; i++ {
			tr := T(v, types.U32(i), hash.Blake2bHash)
			lo, hi, depth := 0, n, 0
			for hi-lo > 1 {
				mid := lo + (hi-lo+1)/2
				if i < mid {
					hi = mid
				} else {
					lo = mid
				}
				depth++
			}
			if len(tr) != depth {
				t.Errorf("n=%d i=%d: trace length %d, path depth %d", n, i, len(tr), depth)
				continue
			}
			if got := fold(v, i, tr); !bytes.Equal(got, root) {
				t.Errorf("n=%d i=%d: folding the trace does not reproduce N(v)", n, i)
			}
		}
	}
}
