package extrinsic

import (
	"bytes"
	"testing"

	"github.com/New-JAMneration/JAM-Protocol/internal/types"
)

func TestWPsiSorted(t *testing.T) {
	var h3, h5 types.WorkReportHash
	h3[0], h5[0] = 3, 5
	prior := types.DisputesRecords{Good: []types.WorkReportHash{h5}, Bad: []types.WorkReportHash{h5}, Wonky: []types.WorkReportHash{h5}}
	upd := types.DisputesRecords{Good: []types.WorkReportHash{h3}, Bad: []types.WorkReportHash{h3}, Wonky: []types.WorkReportHash{h3}}
	for name, got := range map[string][]types.WorkReportHash{"good": UpdatePsiG(prior, upd), "bad": UpdatePsiB(prior, upd), "wonky": UpdatePsiW(prior, upd)} {
		for i := 1; i < len(got); i++ {
			if bytes.Compare(got[i-1][:], got[i][:]) >= 0 {
				t.Errorf("psi_%s not sorted after adding 03.. to [05..]: first bytes %d,%d", name, got[i-1][0], got[i][0])
			}
		}
	}
}
