package redis

import (
	"testing"

	"github.com/alicebob/miniredis/v2"
)

func TestWRedisGlob(t *testing.T) {
	mr, _ := miniredis.Run()
	defer mr.Close()
	db := NewDatabase(mr.Addr(), "", 0)
	for _, k := range []string{"p[x", "p\\y", "p?z", "pa"} {
		_ = db.Put([]byte(k), []byte("1"))
	}
	for _, pre := range []string{"p[", "p\\", "p?"} {
		it, err := db.NewIterator([]byte(pre), nil)
		if err != nil {
			t.Errorf("prefix %q: %v", pre, err)
			continue
		}
		var got []string
		for it.Next() {
			got = append(got, string(it.Key()))
		}
		if len(got) != 1 {
			t.Errorf("iterator(prefix %q) yielded %v, expected exactly the one key with that prefix", pre, got)
		}
	}
}
