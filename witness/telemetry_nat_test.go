package telemetry

import "testing"

func TestWNat(t *testing.T) {
	d := NewDecoder([]byte{0xFF, 1, 0, 0, 0, 0, 0, 0, 0})
	if v, err := d.ReadNatural(); err == nil {
		t.Errorf("telemetry: FF 01 00.. accepted as %d", v)
	}
}
