package main

import (
	"go/token"
	"go/types"

	"golang.org/x/tools/go/ssa"
)

// lowestAbsentKey decides "v = min(N \ keys(m))" from the shape of the search, wherever it is written (in the
// caller or in a helper that receives the map):
//
//   - v is a counter that enters its loop with 0 and is advanced by exactly 1 on every way round;
//   - every way round passes the edge on which the current value was found present in m (so every value below
//     the result is a key);
//   - every way out of the loop is an edge on which the current value is absent from m, an edge on which it is at
//     least len(m) (all of 0..len(m)−1 are then keys, so len(m) itself cannot be one), or an edge that cannot be
//     taken (counter > the largest value of its type);
//   - nothing in the loop, and nothing between the len(m) consulted and the loop, can change the map.
//
// isMap identifies the map in v's function.
func lowestAbsentKey(v ssa.Value, isMap func(ssa.Value) bool, depth int) (bool, string) {
	v = resolveLocal(stripConv(v))
	if call, ok := v.(*ssa.Call); ok && depth < 2 {
		g := call.Call.StaticCallee()
		if g == nil || len(g.Blocks) == 0 || !inModule(g) {
			return false, "the identifier comes from a call that is not a module helper"
		}
		pi := -1
		for i, a := range call.Call.Args {
			if isMap(a) {
				pi = i
			}
		}
		if pi < 0 {
			return false, "the helper computing the identifier does not receive the machine map"
		}
		par := g.Params[pi]
		n := 0
		okAll, why := true, ""
		allInstrs(g, func(in ssa.Instruction) {
			r, isR := in.(*ssa.Return)
			if !isR {
				return
			}
			rs := retResults(r)
			if len(rs) == 0 {
				return
			}
			n++
			if ok, w := lowestAbsentKey(rs[0], func(x ssa.Value) bool { return resolveLocal(stripConv(x)) == ssa.Value(par) }, depth+1); !ok {
				okAll, why = false, w
			}
		})
		if n == 0 {
			return false, "helper without a result"
		}
		return okAll, why
	}
	p, ok := v.(*ssa.Phi)
	if !ok {
		return false, "the identifier is not a search counter"
	}
	h, in := natLoop(p.Block())
	if h != p.Block() {
		return false, "the identifier is not the counter of its own loop"
	}
	// counter: 0 from outside, itself + 1 from inside
	for i, e := range p.Edges {
		pred := h.Preds[i]
		if !in[pred] {
			if k, isC := constInt(e); !isC || k != 0 {
				return false, "the search does not start at 0"
			}
			continue
		}
		b, isB := stripConv(e).(*ssa.BinOp)
		if !isB || b.Op != token.ADD {
			return false, "the search counter is not advanced by addition"
		}
		x, y := stripConv(b.X), stripConv(b.Y)
		if y == ssa.Value(p) {
			x, y = y, x
		}
		if k, isC := constInt(y); x != ssa.Value(p) || !isC || k != 1 {
			return false, "the search counter is not advanced by exactly 1"
		}
	}
	isCounter := func(x ssa.Value) bool { return stripConv(x) == ssa.Value(p) }
	// classify the loop's conditional edges
	present, exitOK := map[edge]bool{}, map[edge]bool{}
	var lens []*ssa.Call
	for b := range in {
		if len(b.Instrs) == 0 {
			continue
		}
		iff, isIf := b.Instrs[len(b.Instrs)-1].(*ssa.If)
		if !isIf {
			continue
		}
		cond, neg := iff.Cond, false
		for {
			u, isU := cond.(*ssa.UnOp)
			if !isU || u.Op != token.NOT {
				break
			}
			cond, neg = u.X, !neg
		}
		tIdx, fIdx := 0, 1
		if neg {
			tIdx, fIdx = 1, 0
		}
		switch c := cond.(type) {
		case *ssa.Extract:
			lk, isL := c.Tuple.(*ssa.Lookup)
			if isL && c.Index == 1 && lk.CommaOk && isMap(lk.X) && isCounter(lk.Index) {
				present[edge{b, tIdx}] = true
				exitOK[edge{b, fIdx}] = true
			}
		case *ssa.BinOp:
			x, y, op := c.X, c.Y, c.Op
			if isCounter(y) {
				x, y = y, x
				op = map[token.Token]token.Token{token.LSS: token.GTR, token.GTR: token.LSS, token.LEQ: token.GEQ, token.GEQ: token.LEQ, token.EQL: token.EQL, token.NEQ: token.NEQ}[op]
			}
			if !isCounter(x) {
				break
			}
			if lc, isC := stripConv(resolveLocal(y)).(*ssa.Call); isC {
				if bi, isB := lc.Call.Value.(*ssa.Builtin); isB && bi.Name() == "len" && isMap(lc.Call.Args[0]) {
					lens = append(lens, lc)
					switch op {
					case token.LSS, token.NEQ: // counter < len, counter != len: leaving on the false edge means counter ≥ len
						exitOK[edge{b, fIdx}] = true
					case token.GEQ, token.EQL, token.GTR:
						exitOK[edge{b, tIdx}] = true
					case token.LEQ:
						exitOK[edge{b, fIdx}] = true
					}
				}
				break
			}
			// counter <= max of its type: the false edge cannot be taken
			if k, isC := constU64(y); isC && op == token.LEQ {
				if bt, isBT := p.Type().Underlying().(*types.Basic); isBT && k == maxOfBasic(bt) {
					exitOK[edge{b, fIdx}] = true
				}
			}
		}
	}
	// every exit edge is justified
	for b := range in {
		for si, s := range b.Succs {
			if !in[s] && !exitOK[edge{b, si}] {
				return false, "the search can stop at a value that is still a key of the map"
			}
		}
	}
	// every way round passes a "present" edge: without those edges no back edge is reachable from the header
	seen := map[*ssa.BasicBlock]bool{}
	var walk func(b *ssa.BasicBlock) bool
	walk = func(b *ssa.BasicBlock) bool {
		for si, s := range b.Succs {
			if !in[s] || present[edge{b, si}] {
				continue
			}
			if s == h {
				return true
			}
			if !seen[s] {
				seen[s] = true
				if walk(s) {
					return true
				}
			}
		}
		return false
	}
	if walk(h) {
		return false, "the search can step over a value without having found it in the map"
	}
	// the map is not changed while searching
	mutates := func(x ssa.Instruction) bool {
		switch y := x.(type) {
		case *ssa.MapUpdate:
			return true
		case ssa.CallInstruction:
			if bi, isB := y.Common().Value.(*ssa.Builtin); isB {
				return bi.Name() == "delete" || bi.Name() == "clear"
			}
			for _, a := range y.Common().Args {
				if mentionsMap(a.Type(), 0) {
					return true
				}
			}
			if y.Common().IsInvoke() {
				return true
			}
		}
		return false
	}
	f := p.Parent()
	reach := func(from *ssa.BasicBlock) map[*ssa.BasicBlock]bool {
		out := map[*ssa.BasicBlock]bool{}
		work := append([]*ssa.BasicBlock{}, from.Succs...)
		for len(work) > 0 {
			x := work[len(work)-1]
			work = work[:len(work)-1]
			if out[x] {
				continue
			}
			out[x] = true
			work = append(work, x.Succs...)
		}
		return out
	}
	for _, b := range f.Blocks {
		for i, x := range b.Instrs {
			if !mutates(x) {
				continue
			}
			if in[b] {
				return false, "the map can change during the search"
			}
			rb := reach(b)
			if !rb[h] {
				continue
			}
			for _, lc := range lens {
				if in[lc.Block()] {
					continue
				}
				after := lc.Block() == b && indexIn(b, lc) < i || lc.Block() != b && reach(lc.Block())[b]
				if after {
					return false, "the map can change between taking its size and the search"
				}
			}
		}
	}
	return true, ""
}

func indexIn(b *ssa.BasicBlock, in ssa.Instruction) int {
	for i, x := range b.Instrs {
		if x == in {
			return i
		}
	}
	return -1
}

func maxOfBasic(bt *types.Basic) uint64 {
	switch bt.Kind() {
	case types.Uint8:
		return 1<<8 - 1
	case types.Uint16:
		return 1<<16 - 1
	case types.Uint32:
		return 1<<32 - 1
	case types.Uint64, types.Uint, types.Uintptr:
		return 1<<64 - 1
	case types.Int8:
		return 1<<7 - 1
	case types.Int16:
		return 1<<15 - 1
	case types.Int32:
		return 1<<31 - 1
	case types.Int64, types.Int:
		return 1<<63 - 1
	}
	return 0
}

// mentionsMap: a value of type t can give access to a map.
func mentionsMap(t types.Type, d int) bool {
	if d > 4 {
		return true
	}
	switch u := t.Underlying().(type) {
	case *types.Map:
		return true
	case *types.Pointer:
		return mentionsMap(u.Elem(), d+1)
	case *types.Struct:
		for i := 0; i < u.NumFields(); i++ {
			if mentionsMap(u.Field(i).Type(), d+1) {
				return true
			}
		}
	case *types.Slice:
		return mentionsMap(u.Elem(), d+1)
	case *types.Array:
		return mentionsMap(u.Elem(), d+1)
	case *types.Interface, *types.Signature:
		return true
	}
	return false
}

// regValue: one write of a host-call register with a constant index, seen from function f — a direct store, or a
// call of a module helper that stores one of its parameters (or a constant) into the register.
type regValue struct {
	k   int64
	val ssa.Value // in f's frame
	at  ssa.Instruction
}

func (e *omegaEnv) registerValues(f *ssa.Function) []regValue {
	var out []regValue
	allInstrs(f, func(in ssa.Instruction) {
		if _, k, isC, ok := e.registerStore(in); ok && isC {
			out = append(out, regValue{k, in.(*ssa.Store).Val, in})
			return
		}
		call, isCall := in.(ssa.CallInstruction)
		if !isCall {
			return
		}
		g := call.Common().StaticCallee()
		if g == nil || len(g.Blocks) == 0 || !inModule(g) || g == f {
			return
		}
		allInstrs(g, func(x ssa.Instruction) {
			_, k, isC, ok := e.registerStore(x)
			if !ok || !isC {
				return
			}
			v := resolveLocal(stripConv(x.(*ssa.Store).Val))
			for i, par := range g.Params {
				if v == ssa.Value(par) && i < len(call.Common().Args) {
					out = append(out, regValue{k, call.Common().Args[i], in})
				}
			}
		})
	})
	return out
}

// phiLeaves: the values that can arrive at v through phis.
func phiLeaves(v ssa.Value) []ssa.Value {
	var out []ssa.Value
	seen := map[ssa.Value]bool{}
	var walk func(x ssa.Value)
	walk = func(x ssa.Value) {
		if seen[x] {
			return
		}
		seen[x] = true
		if p, ok := stripConvKeep(x).(*ssa.Phi); ok {
			for _, e := range p.Edges {
				walk(e)
			}
			return
		}
		out = append(out, x)
	}
	walk(v)
	return out
}

// stripConvKeep: like stripConv but only for finding a phi behind conversions.
func stripConvKeep(v ssa.Value) ssa.Value {
	if p, ok := stripConv(v).(*ssa.Phi); ok {
		return p
	}
	return v
}
