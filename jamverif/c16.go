package main

import (
	"fmt"
	"sort"
	"strings"

	"golang.org/x/tools/go/ssa"
)

const bcPkg = "internal/blockchain"
const mzPkg = "internal/utilities/merklization"

func checkC16(c *Ctx) (string, []string) {
	get := c.Fn(bcPkg, "KeyLevelCache.GetLeafHash")
	put := c.Fn(bcPkg, "KeyLevelCache.PutLeafHash")
	clr := c.Fn(bcPkg, "KeyLevelCache.Clear")
	goc := c.Fn(bcPkg, "KeyLevelCache.GetOrComputeLeafHash")
	mk := c.Fn(bcPkg, "ChainState.merklizeWithKeyCache")
	mz := c.Fn(mzPkg, "merklize")
	mzc := c.Fn(mzPkg, "merklizeWithCache")
	elh := c.Fn(mzPkg, "EncodeLeafNodeHash")
	msc := c.Fn(mzPkg, "MerklizationSerializedStateWithCache")
	ms := c.Fn(mzPkg, "MerklizationSerializedState")
	if len(c.fatal) > 0 {
		return "", nil
	}
	K := "(*internal/blockchain.KeyLevelCache)."

	c.Rule("C16.hit-condition", "GetLeafHash reports a hit only when the entry stored under the key parameter exists and its fingerprint equals Blake2b of the whole value parameter; the fingerprint it returns is that same Blake2b(value); on a hit it returns the stored leaf hash of that entry (decided as a truth table over the two tests)", 1)
	{
		o := robustOpts
		fp, stored := "hash.Blake2bHash(p2)", "p0.entries[p1]#0.valueHash"
		bad := ""
		rows := 0
		for found := int64(0); found <= 1 && bad == ""; found++ {
			for equal := int64(0); equal <= 1; equal++ {
				r, ok := runWithAtoms(get, o, func(s string) (int64, bool) {
					if s == "p0.entries[p1]#1" {
						return found, true
					}
					if is, neg := eqAtom(s, fp, stored); is {
						if neg {
							return 1 - equal, true
						}
						return equal, true
					}
					return 0, false
				}, nil)
				if !ok || len(retResults(r)) != 3 {
					bad = "the hit decision depends on something other than (the entry stored under the key parameter exists, its fingerprint equals Blake2b of the whole value parameter)"
					break
				}
				rows++
				res := retResults(r)
				hit, isC := res[2].(*ssa.Const)
				hitV := isC && hit.Value != nil && hit.Value.String() == "true"
				if !isC {
					k, okk := evalInt(res[2], intEnv{params: map[ssa.Value]int64{}}, 0)
					if !okk {
						bad = "the reported hit flag is not decided by the two tests"
						break
					}
					hitV = k != 0
				}
				if hitV != (found == 1 && equal == 1) {
					bad = fmt.Sprintf("with entry present=%d and fingerprint equal=%d GetLeafHash reports hit=%v", found, equal, hitV)
					break
				}
				if s := abbr(exprStr(res[1], o)); s != fp {
					bad = "the fingerprint returned is " + s + ", not Blake2b of the value parameter"
					break
				}
				if hitV {
					if s := abbr(exprStr(res[0], o)); s != "p0.entries[p1]#0.leafHash" {
						bad = "on a hit the returned leaf hash is " + s + ", not the one stored under the key"
						break
					}
				}
			}
		}
		c.Check(bad == "" && rows == 4, "C16.hit-condition", K+"GetLeafHash · decision", get.Pos(), "hit ⇔ entry present ∧ stored fingerprint = Blake2b(value) (4/4 rows); fingerprint returned is Blake2b(value); hit returns the stored leaf hash", bad)
	}

	c.Rule("C16.store", "PutLeafHash stores (valueHash, leafHash) parameters under the key parameter; the entries map is written only there and replaced (not emptied in place) by Clear; the miss path of merklizeWithKeyCache computes EncodeLeafNodeHash(key, value) of the callback's own arguments, stores it under that key with the fingerprint returned by the lookup of that same value, and returns it; the hit path returns the looked-up leaf hash and is the only other return", 8)
	c.checkShapes("C16.store", K+"PutLeafHash · entry", put, literalStores(put, "blockchain.leafCacheEntry"), map[string][]string{"valueHash": {"p2"}, "leafHash": {"p3"}})
	c.checkEffects("C16.store", K+"PutLeafHash", put, abbrAll(effectShapes(put, nil)), []string{"mapset p0.entries[p1] ← *alloc:internal/blockchain.leafCacheEntry"})
	c.checkEffects("C16.store", K+"Clear", clr, abbrAll(effectShapes(clr, nil)), []string{"store &p0.entries ← makemap"})
	// who-may-write entries
	entries := c.Field(bcPkg, "KeyLevelCache.entries")
	writers := map[string]bool{}
	for _, f0 := range c.SrcFuncs(bcPkg) {
		for _, f := range withClosures(f0) {
			allInstrs(f, func(in ssa.Instruction) {
				switch x := in.(type) {
				case *ssa.MapUpdate:
					if _, ok := fieldOf(x.Map, entries); ok {
						writers[funcKey(f)] = true
					}
				case *ssa.Store:
					if fieldAddrVar(x.Addr) == entries {
						writers[funcKey(f)] = true
					}
				case *ssa.Call:
					if b, ok := x.Call.Value.(*ssa.Builtin); ok && b.Name() == "delete" {
						if _, ok := fieldOf(x.Call.Args[0], entries); ok {
							writers[funcKey(f)] = true
						}
					}
				}
			})
		}
	}
	var ws []string
	for w := range writers {
		ws = append(ws, w)
	}
	sort.Strings(ws)
	wantW := []string{K + "Clear", K + "PutLeafHash", "internal/blockchain.NewKeyLevelCache"}
	c.Check(strings.Join(ws, ",") == strings.Join(wantW, ","), "C16.store", "internal/blockchain.KeyLevelCache.entries · writers", 0, "written only by "+strings.Join(ws, ", "), fmt.Sprintf("entries map is written by %v, expected %v", ws, wantW))

	// the callback handed to the cached merklization (a closure or a bound method)
	var cb *ssa.Function
	allInstrs(mk, func(in ssa.Instruction) {
		call, ok := in.(*ssa.Call)
		if !ok || call.Call.StaticCallee() != msc || len(call.Call.Args) != 2 {
			return
		}
		switch x := stripConv(call.Call.Args[1]).(type) {
		case *ssa.MakeClosure:
			if fn, ok := x.Fn.(*ssa.Function); ok {
				cb = boundTarget(fn)
			}
		case *ssa.Function:
			cb = x
		}
	})
	if cb == nil {
		c.Unknown("C16.store", "merklizeWithKeyCache · callback", mk.Pos(), "the function handed to MerklizationSerializedStateWithCache could not be resolved")
	} else {
		o := robustOpts
		np := len(cb.Params)
		kp, vp := fmt.Sprintf("p%d", np-2), fmt.Sprintf("p%d", np-1)
		// the lookup
		var look *ssa.Call
		allInstrs(cb, func(in ssa.Instruction) {
			if call, ok := in.(*ssa.Call); ok && call.Call.StaticCallee() == get {
				look = call
			}
		})
		if look == nil {
			// the callback may delegate to GetOrComputeLeafHash(cache, key, value, compute): then that method is the protocol and compute must be the leaf encoder
			var del *ssa.Call
			allInstrs(cb, func(in ssa.Instruction) {
				if call, ok := in.(*ssa.Call); ok && call.Call.StaticCallee() == goc {
					del = call
				}
			})
			okDel := false
			why := "the callback does not consult GetLeafHash"
			if del != nil && len(del.Call.Args) == 4 {
				okDel = abbr(exprStr(del.Call.Args[1], o)) == kp && abbr(exprStr(del.Call.Args[2], o)) == vp
				why = "the callback delegates to GetOrComputeLeafHash with other arguments than its own key and value"
				var comp *ssa.Function
				carg := stripConv(resolveFreeVar(del.Call.Args[3], cb, mk))
				if u, isU := carg.(*ssa.UnOp); isU {
					if a, isA := u.X.(*ssa.Alloc); isA {
						if sv := uniqueStore(a); sv != nil {
							carg = stripConv(sv)
						}
					}
				}
				switch x := carg.(type) {
				case *ssa.MakeClosure:
					comp, _ = x.Fn.(*ssa.Function)
					comp = boundTarget(comp)
				case *ssa.Function:
					comp = x
				}
				if okDel && comp != nil && len(comp.Params) >= 2 {
					np2 := len(comp.Params)
					want := fmt.Sprintf("merklization.EncodeLeafNodeHash(p%d, p%d)", np2-2, np2-1)
					rs := abbrMap(returnShapesO(comp, o))["ret"]
					okDel = len(rs) == 1 && rs[0] == want
					why = fmt.Sprintf("the compute function handed to GetOrComputeLeafHash returns %v, not %s", rs, want)
				} else if okDel {
					okDel, why = false, "the compute function handed to GetOrComputeLeafHash could not be resolved"
				}
				// the value returned is the delegate's result
				if okDel {
					rs := abbrMap(returnShapesO(cb, o))["ret"]
					okDel = len(rs) == 1 && rs[0] == abbr(exprStr(del, o))
					why = "the callback does not return GetOrComputeLeafHash's result"
				}
			}
			if okDel {
				// GetOrComputeLeafHash itself follows the protocol
				G := K + "GetLeafHash(p0, p1, p2)"
				bad := ""
				for hit := int64(0); hit <= 1 && bad == ""; hit++ {
					var puts []string
					r, ok := runWithAtoms(goc, o, func(s string) (int64, bool) {
						if s == G+"#2" {
							return hit, true
						}
						return 0, false
					}, func(in ssa.Instruction) {
						if ci, ok := in.(ssa.CallInstruction); ok && calleeFunc(ci) == put {
							var as []string
							for _, a := range ci.Common().Args {
								as = append(as, abbr(exprStr(a, o)))
							}
							puts = append(puts, strings.Join(as, ", "))
						}
					})
					if !ok || len(retResults(r)) != 1 {
						bad = "GetOrComputeLeafHash's arms are selected by something other than the lookup's hit flag"
						break
					}
					alts := expandAlts(abbr(exprStr(retResults(r)[0], o)))
					if hit == 1 && (len(puts) != 0 || !contains(alts, G+"#0")) {
						bad = fmt.Sprintf("on a hit GetOrComputeLeafHash returns %v and stores %v", alts, puts)
					}
					if hit == 0 && (len(puts) != 1 || puts[0] != "p0, p1, "+G+"#1, p3(p1, p2)" || !contains(alts, "p3(p1, p2)")) {
						bad = fmt.Sprintf("on a miss GetOrComputeLeafHash stores %v and returns %v", puts, alts)
					}
				}
				okDel, why = bad == "", bad
			}
			c.Check(okDel, "C16.store", "merklizeWithKeyCache · callback arms", cb.Pos(), "delegates to GetOrComputeLeafHash(cache, key, value, leaf encoder), which returns the cached hash on a hit and stores then returns the computed one on a miss", why)
			c.OK("C16.store", "merklizeWithKeyCache · callback stores", cb.Pos(), "PutLeafHash arguments checked inside GetOrComputeLeafHash")
		} else {
			G := abbr(exprStr(look, o))
			cache := abbr(exprStr(look.Call.Args[0], o))
			E := "merklization.EncodeLeafNodeHash(" + kp + ", " + vp + ")"
			okLook := G == K+"GetLeafHash("+cache+", "+kp+", "+vp+")"
			bad := ""
			if !okLook {
				bad = "the lookup is " + G + ", not GetLeafHash(cache, key, value) of the callback's own arguments"
			}
			for hf := int64(0); hf <= 3 && bad == ""; hf++ {
				hit, full := hf&1, hf>>1
				var puts []string
				r, ok := runWithAtoms(cb, o, func(s string) (int64, bool) {
					switch {
					case s == G+"#2":
						return hit, true
					case strings.HasPrefix(s, "(") && strings.Contains(s, ".Len("+cache+")"):
						return full, true // capacity guard (either outcome must leave the protocol intact)
					}
					return 0, false
				}, func(in ssa.Instruction) {
					if ci, ok := in.(ssa.CallInstruction); ok && calleeFunc(ci) == put {
						var as []string
						for _, a := range ci.Common().Args {
							as = append(as, abbr(exprStr(a, o)))
						}
						puts = append(puts, strings.Join(as, ", "))
					}
				})
				if !ok || len(retResults(r)) != 1 {
					bad = "the callback's arms are selected by something other than the lookup's hit flag (and the capacity guard)"
					break
				}
				ret := abbr(exprStr(retResults(r)[0], o))
				alts := expandAlts(ret)
				if hit == 1 {
					if len(puts) != 0 || !(len(alts) >= 1 && contains(alts, G+"#0")) {
						bad = fmt.Sprintf("on a hit the callback returns %s and stores %v; it must return the looked-up leaf hash and store nothing", ret, puts)
					}
				} else {
					want := cache + ", " + kp + ", " + G + "#1, " + E
					if len(puts) != 1 || puts[0] != want || !contains(alts, E) {
						bad = fmt.Sprintf("on a miss the callback stores %v and returns %s; it must store (key, fingerprint of the same lookup, EncodeLeafNodeHash(key, value)) and return that hash", puts, ret)
					}
				}
			}
			c.Check(bad == "", "C16.store", "merklizeWithKeyCache · callback arms", cb.Pos(), "hit ⇒ looked-up hash, nothing stored; miss ⇒ EncodeLeafNodeHash(key, value) stored under the key with the lookup's fingerprint, then returned", bad)
			c.OK("C16.store", "merklizeWithKeyCache · callback stores", cb.Pos(), "PutLeafHash arguments checked on the miss path")
		}
	}
	// GetOrComputeLeafHash: same protocol
	{
		G := K + "GetLeafHash(p0, p1, p2)"
		var rets []string
		for _, s := range abbrMap(returnShapesO(goc, robustOpts))["ret"] {
			rets = append(rets, expandAlts(s)...)
		}
		c.requireSet("C16.store", K+"GetOrComputeLeafHash", goc.Pos(), "GetOrComputeLeafHash returns", uniqSorted(rets), []string{G + "#0", "p3(p1, p2)"})
	}

	c.Rule("C16.sibling-trees", "merklizeWithCache is merklize with the leaf arm replaced by the cache callback applied to (key, value) of the single entry: same case analysis, same partition, same depth step, same branch encoding; EncodeLeafNodeHash is exactly merklize's leaf arm; both entry points copy the key-values and start at depth 0", 6)
	so := robustOpts
	so.inline = func(f *ssa.Function) bool { return f == elh || helperInlinableLoops(f) }
	norm := func(ss []string) []string {
		var out []string
		for _, s := range ss {
			for _, e := range expandAlts(s) {
				e = strings.ReplaceAll(e, "merklizeWithCache(", "merklize(")
				e = strings.ReplaceAll(e, ", p2)", ")")
				out = append(out, e)
			}
		}
		return uniqSorted(out)
	}
	a := norm(abbrMap(returnShapesO(mz, so))["ret"])
	bn := norm(abbrMap(returnShapesO(mzc, so))["ret"])
	// b has one extra arm: the callback
	var extra []string
	inA := map[string]bool{}
	for _, s := range a {
		inA[s] = true
	}
	for _, s := range bn {
		if !inA[s] {
			extra = append(extra, s)
		}
	}
	missing := 0
	inB := map[string]bool{}
	for _, s := range bn {
		inB[s] = true
	}
	for _, s := range a {
		if !inB[s] {
			missing++
		}
	}
	c.Check(missing == 0 && len(extra) == 1 && extra[0] == "p2(p0[0].Key, p0[0].Value)", "C16.sibling-trees", "merklization.merklize ~ merklizeWithCache · arms", mzc.Pos(), "identical arms; cached variant adds cache(key, value) of the single entry", fmt.Sprintf("arms differ: uncached %v ;; cached %v", a, bn))
	ca, cb2 := abbrAll(condAtoms(mz, so)), abbrAll(condAtoms(mzc, so))
	c.Check(strings.Join(uniqSorted(append(append([]string{}, ca...), "(nil == p2)")), ";") == strings.Join(cb2, ";"), "C16.sibling-trees", "merklization.merklize ~ merklizeWithCache · cases", mzc.Pos(), "same tests (+ nil-callback test)", fmt.Sprintf("tests differ: %v vs %v", ca, cb2))
	leafArm := "hash.Blake2bHash(merklization.encodeLeafNode(p0[0].Key, p0[0].Value)[:])"
	c.Check(inA[leafArm], "C16.sibling-trees", "merklization.merklize · leaf arm", mz.Pos(), "leaf arm is Blake2b(encodeLeafNode(key, value))", "merklize has no leaf arm of the expected form")
	c.checkShapes("C16.sibling-trees", "merklization.EncodeLeafNodeHash", elh, abbrMap(returnShapes(elh)), map[string][]string{"ret": {"hash.Blake2bHash(merklization.encodeLeafNode(p0, p1)[:])"}})
	c.checkShapes("C16.sibling-trees", "merklization.MerklizationSerializedStateWithCache", msc, abbrMap(returnShapes(msc)), map[string][]string{"ret": {"merklization.merklize(make([]types.StateKeyVal, len(p0)), 0)", "merklization.merklizeWithCache(make([]types.StateKeyVal, len(p0)), 0, p1)"}})
	c.checkShapes("C16.sibling-trees", "merklization.MerklizationSerializedState", ms, abbrMap(returnShapes(ms)), map[string][]string{"ret": {"merklization.merklize(make([]types.StateKeyVal, len(p0)), 0)"}})
	for _, f := range []*ssa.Function{msc, ms} {
		has := false
		for _, e := range abbrAll(effectShapesOpt(f, nil, true)) {
			if e == "copy(make([]types.StateKeyVal, len(p0)), p0)" {
				has = true
			}
		}
		c.Check(has, "C16.sibling-trees", funcKey(f)+" · private copy", f.Pos(), "sorts/partitions a private copy of the key-values", "partitions the caller's slice in place")
	}
	return "Leaf-cache mechanisms decided statically: the hit condition (key lookup ∧ Blake2b fingerprint of the whole value), what is stored and by whom (PutLeafHash only; Clear replaces the map), the callback's two arms (hit ⇒ stored hash, miss ⇒ EncodeLeafNodeHash(key,value) stored under the same key with the same lookup's fingerprint, then returned), and sibling agreement of cached and uncached tree recursions including the leaf arm.",
		[]string{"canonical SSA renderer", "not decided: hash collisions, Go map semantics, eviction policy effects on performance"}
}

func calleeFunc2(in ssa.Instruction) *ssa.Function {
	if ci, ok := in.(ssa.CallInstruction); ok {
		return calleeFunc(ci)
	}
	return nil
}

func contains(xs []string, s string) bool {
	for _, x := range xs {
		if x == s {
			return true
		}
	}
	return false
}
