package main

import (
	"fmt"
	"sort"
	"strings"

	"golang.org/x/tools/go/ssa"
)

const bcPkg = "internal/blockchain"
const mzPkg = "internal/utilities/merklization"

func checkC16(c *Ctx) (string, []string) {
	get := c.Fn(bcPkg, "KeyLevelCache.GetLeafHash")
	put := c.Fn(bcPkg, "KeyLevelCache.PutLeafHash")
	clr := c.Fn(bcPkg, "KeyLevelCache.Clear")
	goc := c.Fn(bcPkg, "KeyLevelCache.GetOrComputeLeafHash")
	mk := c.Fn(bcPkg, "ChainState.merklizeWithKeyCache")
	mz := c.Fn(mzPkg, "merklize")
	mzc := c.Fn(mzPkg, "merklizeWithCache")
	elh := c.Fn(mzPkg, "EncodeLeafNodeHash")
	msc := c.Fn(mzPkg, "MerklizationSerializedStateWithCache")
	ms := c.Fn(mzPkg, "MerklizationSerializedState")
	if len(c.fatal) > 0 {
		return "", nil
	}
	K := "(*internal/blockchain.KeyLevelCache)."

	c.Rule("C16.hit-condition", "GetLeafHash reports a hit only when the entry stored under the key parameter exists and its fingerprint equals Blake2b of the whole value parameter; the fingerprint it returns is that same Blake2b(value); on a hit it returns the stored leaf hash of that entry", 5)
	c.checkCondSet("C16.hit-condition", K+"GetLeafHash", get, []string{"(hash.Blake2bHash(p2) != p0.entries[p1]#0.valueHash)", "p0.entries[p1]#1"})
	c.checkShapes("C16.hit-condition", K+"GetLeafHash", get, abbrMap(returnShapes(get)), map[string][]string{
		"ret#0": {"nil", "p0.entries[p1]#0.leafHash"}, "ret#1": {"hash.Blake2bHash(p2)"}, "ret#2": {"false", "true"},
	})
	{
		// the ok=true return is behind found ∧ equal
		found := condEdges(get, func(v ssa.Value) (bool, bool) { return exprStr(v, shapeOpts) == "p0.entries[p1]#1", true })
		equal := condEdges(get, func(v ssa.Value) (bool, bool) {
			return abbr(exprStr(v, shapeOpts)) == "(hash.Blake2bHash(p2) != p0.entries[p1]#0.valueHash)", false
		})
		ok := len(found) > 0 && len(equal) > 0
		allInstrs(get, func(in ssa.Instruction) {
			r, isR := in.(*ssa.Return)
			if !isR {
				return
			}
			res := retResults(r)
			if k, isC := res[2].(*ssa.Const); isC && k.Value != nil && k.Value.String() == "true" {
				if !guardedBy(get, r, found) || !guardedBy(get, r, equal) {
					ok = false
				}
			} else if !isC {
				ok = false
			}
		})
		c.Check(ok, "C16.hit-condition", K+"GetLeafHash · hit arm", get.Pos(), "ok=true only behind found ∧ fingerprint equal", "a hit can be reported without both the presence test and the fingerprint comparison")
	}

	c.Rule("C16.store", "PutLeafHash stores (valueHash, leafHash) parameters under the key parameter; the entries map is written only there and replaced (not emptied in place) by Clear; the miss path of merklizeWithKeyCache computes EncodeLeafNodeHash(key, value) of the callback's own arguments, stores it under that key with the fingerprint returned by the lookup of that same value, and returns it; the hit path returns the looked-up leaf hash and is the only other return", 8)
	c.checkShapes("C16.store", K+"PutLeafHash · entry", put, literalStores(put, "blockchain.leafCacheEntry"), map[string][]string{"valueHash": {"p2"}, "leafHash": {"p3"}})
	c.checkEffects("C16.store", K+"PutLeafHash", put, abbrAll(effectShapes(put, nil)), []string{"mapset p0.entries[p1] ← *alloc:internal/blockchain.leafCacheEntry"})
	c.checkEffects("C16.store", K+"Clear", clr, abbrAll(effectShapes(clr, nil)), []string{"store &p0.entries ← makemap"})
	// who-may-write entries
	entries := c.Field(bcPkg, "KeyLevelCache.entries")
	writers := map[string]bool{}
	for _, f0 := range c.SrcFuncs(bcPkg) {
		for _, f := range withClosures(f0) {
			allInstrs(f, func(in ssa.Instruction) {
				switch x := in.(type) {
				case *ssa.MapUpdate:
					if _, ok := fieldOf(x.Map, entries); ok {
						writers[funcKey(f)] = true
					}
				case *ssa.Store:
					if fieldAddrVar(x.Addr) == entries {
						writers[funcKey(f)] = true
					}
				case *ssa.Call:
					if b, ok := x.Call.Value.(*ssa.Builtin); ok && b.Name() == "delete" {
						if _, ok := fieldOf(x.Call.Args[0], entries); ok {
							writers[funcKey(f)] = true
						}
					}
				}
			})
		}
	}
	var ws []string
	for w := range writers {
		ws = append(ws, w)
	}
	sort.Strings(ws)
	wantW := []string{K + "Clear", K + "PutLeafHash", "internal/blockchain.NewKeyLevelCache"}
	c.Check(strings.Join(ws, ",") == strings.Join(wantW, ","), "C16.store", "internal/blockchain.KeyLevelCache.entries · writers", 0, "written only by "+strings.Join(ws, ", "), fmt.Sprintf("entries map is written by %v, expected %v", ws, wantW))

	// the callback
	if len(mk.AnonFuncs) != 1 {
		c.Unknown("C16.store", "merklizeWithKeyCache · callback", mk.Pos(), "expected exactly one closure")
	} else {
		cb := mk.AnonFuncs[0]
		G := K + "GetLeafHash(*fv0.keyLevelCache, p0, p1)"
		E := "merklization.EncodeLeafNodeHash(p0, p1)"
		rs := abbrMap(returnShapes(cb))
		c.checkShapes("C16.store", "merklizeWithKeyCache · callback", cb, rs, map[string][]string{"ret": {G + "#0", E}})
		hit := condEdges(cb, func(v ssa.Value) (bool, bool) { return abbr(exprStr(v, shapeOpts)) == G+"#2", true })
		okHit := len(hit) == 1
		var putCalls []string
		allInstrs(cb, func(in ssa.Instruction) {
			if r, isR := in.(*ssa.Return); isR {
				s := abbr(exprStr(retResults(r)[0], shapeOpts))
				if s == G+"#0" && !guardedBy(cb, r, hit) {
					okHit = false
				}
				if s == E {
					// must have stored it first
					isPut := func(i ssa.Instruction) bool { return calleeFunc2(i) == put }
					if _, skip := findPath(pathQuery{fn: cb, target: func(i ssa.Instruction) bool { return i == in }, blocker: isPut}); skip {
						okHit = false
					}
				}
			}
			if ci, ok := in.(ssa.CallInstruction); ok && calleeFunc(ci) == put {
				var as []string
				for _, a := range ci.Common().Args {
					as = append(as, abbr(exprStr(a, shapeOpts)))
				}
				putCalls = append(putCalls, strings.Join(as, ", "))
			}
		})
		c.Check(okHit, "C16.store", "merklizeWithKeyCache · callback arms", cb.Pos(), "looked-up hash returned only on a hit; computed hash returned only after it was stored", "the callback can return the lookup's leaf hash without a hit, or return a computed hash it did not store")
		wantPut := "*fv0.keyLevelCache, p0, " + G + "#1, " + E
		c.Check(len(putCalls) == 1 && putCalls[0] == wantPut, "C16.store", "merklizeWithKeyCache · callback stores", cb.Pos(), "PutLeafHash(key, fingerprint of the same lookup, EncodeLeafNodeHash(key, value))", fmt.Sprintf("callback stores %v, expected [%s]", putCalls, wantPut))
	}
	// GetOrComputeLeafHash: same protocol
	{
		G := K + "GetLeafHash(p0, p1, p2)"
		c.checkShapes("C16.store", K+"GetOrComputeLeafHash", goc, abbrMap(returnShapes(goc)), map[string][]string{"ret": {G + "#0", "p3(p1, p2)"}})
	}

	c.Rule("C16.sibling-trees", "merklizeWithCache is merklize with the leaf arm replaced by the cache callback applied to (key, value) of the single entry: same case analysis, same partition, same depth step, same branch encoding; EncodeLeafNodeHash is exactly merklize's leaf arm; both entry points copy the key-values and start at depth 0", 6)
	norm := func(ss []string) []string {
		var out []string
		for _, s := range ss {
			s = strings.ReplaceAll(s, "merklizeWithCache(", "merklize(")
			s = strings.ReplaceAll(s, ", p2)", ")")
			out = append(out, s)
		}
		sort.Strings(out)
		return out
	}
	a := abbrMap(returnShapes(mz))["ret"]
	b := abbrMap(returnShapes(mzc))["ret"]
	sort.Strings(a)
	bn := norm(b)
	// b has one extra arm: the callback
	var extra []string
	inA := map[string]bool{}
	for _, s := range a {
		inA[s] = true
	}
	for _, s := range bn {
		if !inA[s] {
			extra = append(extra, s)
		}
	}
	missing := 0
	inB := map[string]bool{}
	for _, s := range bn {
		inB[s] = true
	}
	for _, s := range a {
		if !inB[s] {
			missing++
		}
	}
	c.Check(missing == 0 && len(extra) == 1 && extra[0] == "p2(p0[0].Key, p0[0].Value)", "C16.sibling-trees", "merklization.merklize ~ merklizeWithCache · arms", mzc.Pos(), "identical arms; cached variant adds cache(key, value) of the single entry", fmt.Sprintf("arms differ: uncached %v ;; cached %v", a, bn))
	ca, cb2 := abbrAll(condShapes(mz)), abbrAll(condShapes(mzc))
	sort.Strings(ca)
	sort.Strings(cb2)
	c.Check(strings.Join(append(ca, "(nil != p2)"), ";") == strings.Join(cb2, ";"), "C16.sibling-trees", "merklization.merklize ~ merklizeWithCache · cases", mzc.Pos(), "same case analysis (+ nil-callback test)", fmt.Sprintf("case analyses differ: %v vs %v", ca, cb2))
	leafArm := "hash.Blake2bHash(merklization.encodeLeafNode(p0[0].Key, p0[0].Value)[:])"
	c.Check(inA[leafArm], "C16.sibling-trees", "merklization.merklize · leaf arm", mz.Pos(), "leaf arm is Blake2b(encodeLeafNode(key, value))", "merklize has no leaf arm of the expected form")
	c.checkShapes("C16.sibling-trees", "merklization.EncodeLeafNodeHash", elh, abbrMap(returnShapes(elh)), map[string][]string{"ret": {"hash.Blake2bHash(merklization.encodeLeafNode(p0, p1)[:])"}})
	c.checkShapes("C16.sibling-trees", "merklization.MerklizationSerializedStateWithCache", msc, abbrMap(returnShapes(msc)), map[string][]string{"ret": {"merklization.merklize(make([]types.StateKeyVal, len(p0)), 0)", "merklization.merklizeWithCache(make([]types.StateKeyVal, len(p0)), 0, p1)"}})
	c.checkShapes("C16.sibling-trees", "merklization.MerklizationSerializedState", ms, abbrMap(returnShapes(ms)), map[string][]string{"ret": {"merklization.merklize(make([]types.StateKeyVal, len(p0)), 0)"}})
	for _, f := range []*ssa.Function{msc, ms} {
		has := false
		for _, e := range abbrAll(effectShapesOpt(f, nil, true)) {
			if e == "copy(make([]types.StateKeyVal, len(p0)), p0)" {
				has = true
			}
		}
		c.Check(has, "C16.sibling-trees", funcKey(f)+" · private copy", f.Pos(), "sorts/partitions a private copy of the key-values", "partitions the caller's slice in place")
	}
	return "Leaf-cache mechanisms decided statically: the hit condition (key lookup ∧ Blake2b fingerprint of the whole value), what is stored and by whom (PutLeafHash only; Clear replaces the map), the callback's two arms (hit ⇒ stored hash, miss ⇒ EncodeLeafNodeHash(key,value) stored under the same key with the same lookup's fingerprint, then returned), and sibling agreement of cached and uncached tree recursions including the leaf arm.",
		[]string{"canonical SSA renderer", "not decided: hash collisions, Go map semantics, eviction policy effects on performance"}
}

func calleeFunc2(in ssa.Instruction) *ssa.Function {
	if ci, ok := in.(ssa.CallInstruction); ok {
		return calleeFunc(ci)
	}
	return nil
}
