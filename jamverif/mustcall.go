package main

import (
	"go/token"
	"go/types"

	"golang.org/x/tools/go/ssa"
)

// isFailureReturn: the return certainly reports failure through its last
// result (error or *ErrorCode): a constructed error / address of a local
// code, or a value on the taken branch of v != nil.
func isFailureReturn(f *ssa.Function, r *ssa.Return) bool {
	res := retResults(r)
	if len(res) == 0 {
		return false
	}
	v := res[len(res)-1]
	t := v.Type()
	isErr := types.Identical(t, types.Universe.Lookup("error").Type())
	_, isPtr := t.Underlying().(*types.Pointer)
	if !isErr && !isPtr {
		return false
	}
	if isErr {
		return isErrorReturn(f, r)
	}
	if c, ok := v.(*ssa.Const); ok {
		return !c.IsNil()
	}
	if _, ok := v.(*ssa.Alloc); ok {
		return true
	}
	pass := condEdges(f, func(cv ssa.Value) (bool, bool) {
		b, ok := cv.(*ssa.BinOp)
		if !ok || (b.Op != token.NEQ && b.Op != token.EQL) {
			return false, false
		}
		isNil := func(x ssa.Value) bool { c, ok := x.(*ssa.Const); return ok && c.IsNil() }
		if (b.X == v && isNil(b.Y)) || (b.Y == v && isNil(b.X)) {
			return true, b.Op == token.NEQ
		}
		return false, false
	})
	return guardedBy(f, r, pass)
}

// mustCalls computes, for every function reachable from root through static
// calls inside the module, the set of labels that are certainly produced on
// every path from entry to every non-failure return. label(g) names a target
// callee ("" = not a target). Least fixed point (sound under recursion).
type mustCallAnalysis struct {
	label   func(*ssa.Function) []string
	summary map[*ssa.Function]map[string]bool
	inScope func(*ssa.Function) bool
}

func (m *mustCallAnalysis) run(root *ssa.Function) map[string]bool {
	m.summary = map[*ssa.Function]map[string]bool{}
	reach := map[*ssa.Function]bool{}
	var order []*ssa.Function
	var visit func(f *ssa.Function)
	visit = func(f *ssa.Function) {
		if f == nil || reach[f] || len(f.Blocks) == 0 || !m.inScope(f) {
			return
		}
		reach[f] = true
		allInstrs(f, func(in ssa.Instruction) {
			if ci, ok := in.(ssa.CallInstruction); ok {
				if _, isDefer := in.(*ssa.Defer); isDefer {
					return
				}
				visit(calleeFunc(ci))
			}
		})
		order = append(order, f)
	}
	visit(root)
	for _, f := range order {
		m.summary[f] = map[string]bool{}
	}
	for changed := true; changed; {
		changed = false
		for _, f := range order {
			s := m.analyse(f)
			if len(s) != len(m.summary[f]) {
				m.summary[f] = s
				changed = true
			}
		}
	}
	return m.summary[root]
}

func (m *mustCallAnalysis) analyse(f *ssa.Function) map[string]bool {
	type set = map[string]bool
	out := map[*ssa.BasicBlock]set{}
	have := map[*ssa.BasicBlock]bool{}
	inter := func(a, b set) set {
		r := set{}
		for k := range a {
			if b[k] {
				r[k] = true
			}
		}
		return r
	}
	transfer := func(b *ssa.BasicBlock, s set) set {
		r := set{}
		for k := range s {
			r[k] = true
		}
		for _, in := range b.Instrs {
			ci, ok := in.(ssa.CallInstruction)
			if !ok {
				continue
			}
			if _, isGo := in.(*ssa.Go); isGo && !joined(f, in) {
				continue
			}
			if _, isDefer := in.(*ssa.Defer); isDefer {
				continue
			}
			g := calleeFunc(ci)
			if g == nil {
				continue
			}
			for _, l := range m.label(g) {
				r[l] = true
			}
			for l := range m.summary[g] {
				r[l] = true
			}
		}
		return r
	}
	for changed := true; changed; {
		changed = false
		for _, b := range f.Blocks {
			var s set
			if b.Index == 0 {
				s = set{}
			} else {
				first := true
				for _, p := range b.Preds {
					if !have[p] {
						continue
					}
					if first {
						s, first = out[p], false
					} else {
						s = inter(s, out[p])
					}
				}
				if first {
					continue
				}
			}
			o := transfer(b, s)
			if !have[b] || len(o) != len(out[b]) {
				have[b] = true
				out[b] = o
				changed = true
			}
		}
	}
	var res set
	first := true
	for _, b := range f.Blocks {
		if !have[b] || len(b.Instrs) == 0 {
			continue
		}
		r, ok := b.Instrs[len(b.Instrs)-1].(*ssa.Return)
		if !ok || isFailureReturn(f, r) {
			continue
		}
		if f.Recover != nil && b == f.Recover {
			continue
		}
		if first {
			res, first = out[b], false
		} else {
			res = inter(res, out[b])
		}
	}
	if first {
		return set{}
	}
	return res
}

// joined: every path from the go statement to a return of f passes a
// (*sync.WaitGroup).Wait call, i.e. the goroutine's effects are complete
// before f returns (the goroutines in this code base signal with wg.Done).
func joined(f *ssa.Function, goInstr ssa.Instruction) bool {
	isWait := func(in ssa.Instruction) bool {
		ci, ok := in.(ssa.CallInstruction)
		if !ok {
			return false
		}
		sc := calleeFunc(ci)
		return sc != nil && (sc.String() == "(*sync.WaitGroup).Wait" || sc.String() == "(*golang.org/x/sync/errgroup.Group).Wait")
	}
	_, escapes := findPath(pathQuery{start: goInstr, target: isReturn, blocker: isWait})
	return !escapes
}
