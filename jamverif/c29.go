package main

import (
	"fmt"
	"go/token"
	"go/types"
	"sort"
	"strings"

	"golang.org/x/tools/go/ssa"
)

const valPkg = "internal/networking/validator"

func condSetSwapped(f *ssa.Function, a, b int) (plain, swapped []string) {
	o := shapeOpts
	o2 := shapeOpts
	o2.swap = [2]int{a, b}
	allInstrs(f, func(in ssa.Instruction) {
		if i, ok := in.(*ssa.If); ok {
			plain = append(plain, exprStr(i.Cond, o))
			swapped = append(swapped, exprStr(i.Cond, o2))
		}
	})
	sort.Strings(plain)
	sort.Strings(swapped)
	return
}

func checkC29(c *Ctx) (string, []string) {
	V := "internal/networking/validator."
	cw := c.Fn(valPkg, "ComputeWidth")
	nb := c.Fn(valPkg, "GridMapper.NeighborIndicesInEpoch")
	isn := c.Fn(valPkg, "GridMapper.IsNeighborInEpoch")
	all := c.Fn(valPkg, "GridMapper.AllNeighborValidators")
	pi := c.Fn(valPkg, "PreferredInitiator")
	vmn := c.Fn(valPkg, "ValidatorManager.IsNeighbor")
	cross := c.Fn(valPkg, "GridMapper.IsSameIndexCrossEpoch")
	if len(c.fatal) > 0 {
		return "", nil
	}
	W := V + "ComputeWidth(len(p0.Current))"

	c.Rule("C29.width", "the grid width is the truncation of math.Sqrt(float64(n)) (no rounding, ceiling or offset), at least 1; both neighbour functions use ComputeWidth(len(Current))", 3)
	c.checkShapes("C29.width", V+"ComputeWidth", cw, abbrMap(returnShapes(cw)), map[string][]string{"ret": {"1", "int(math.Sqrt(p0))"}})
	{
		// the conversion is a direct float→int truncation of the Sqrt call
		ok := false
		allInstrs(cw, func(in ssa.Instruction) {
			if cv, isC := in.(*ssa.Convert); isC && isIntegerT(cv.Type()) {
				if call, isCall := cv.X.(*ssa.Call); isCall && call.Call.StaticCallee() != nil && call.Call.StaticCallee().String() == "math.Sqrt" {
					if inner, isCv := call.Call.Args[0].(*ssa.Convert); isCv && inner.X == ssa.Value(cw.Params[0]) {
						ok = true
					}
				}
			}
		})
		c.Check(ok, "C29.width", V+"ComputeWidth · truncation", cw.Pos(), "int(math.Sqrt(float64(n))) with nothing in between", "the width is not the plain truncation of the square root (rounding changes it whenever frac(√V) ≥ 0.5)")
	}
	for _, f := range []*ssa.Function{nb, isn} {
		ws := callArgShapes(f, func(ci ssa.CallInstruction) bool { return calleeFunc(ci) == cw }, 0)
		c.Check(len(ws) == 1 && ws[0] == "len(p0.Current)", "C29.width", funcKey(f)+" · width argument", f.Pos(), "width of the current validator set", fmt.Sprintf("width computed from %v", ws))
	}

	c.Rule("C29.neighbour-relation", "IsNeighborInEpoch is symmetric (its set of tests is invariant under exchanging the two indices), irreflexive (a == b ⇒ false) and holds exactly for a shared row (a/w == b/w) or column (a%w == b%w); NeighborIndicesInEpoch applies the same predicate to (i, index) and skips i == index; AllNeighborValidators adds Previous[index] and Next[index] when they exist; ValidatorManager.IsNeighbor uses the in-epoch relation for current validators and the same-index cross-epoch relation otherwise", 7)
	plain, swapped := condSetSwapped(isn, 1, 2)
	c.Check(strings.Join(plain, ";") == strings.Join(swapped, ";"), "C29.neighbour-relation", funcKey(isn)+" · symmetry", isn.Pos(), "tests invariant under a ↔ b", fmt.Sprintf("tests are not symmetric: %v vs %v after exchanging a and b", abbrAll(plain), abbrAll(swapped)))
	o2 := shapeOpts
	o2.swap = [2]int{1, 2}
	var retPlain, retSwap []string
	allInstrs(isn, func(in ssa.Instruction) {
		if r, ok := in.(*ssa.Return); ok {
			retPlain = append(retPlain, exprStr(r.Results[0], shapeOpts))
			retSwap = append(retSwap, exprStr(r.Results[0], o2))
		}
	})
	sort.Strings(retPlain)
	sort.Strings(retSwap)
	c.Check(strings.Join(retPlain, ";") == strings.Join(retSwap, ";"), "C29.neighbour-relation", funcKey(isn)+" · symmetric result", isn.Pos(), "result expression invariant under a ↔ b", "the returned expression changes when a and b are exchanged")
	c.checkCondSet("C29.neighbour-relation", funcKey(isn), isn, []string{"((p1 / " + W + ") == (p2 / " + W + "))", "(0 == len(p0.Current))", "(len(p0.Current) <= p1)", "(len(p0.Current) <= p2)", "(p1 < 0)", "(p1 == p2)", "(p2 < 0)"})
	c.checkShapes("C29.neighbour-relation", funcKey(isn), isn, abbrMap(returnShapes(isn)), map[string][]string{"ret": {"false", "phi(((p1 % " + W + ") == (p2 % " + W + ")) | true)"}})
	{
		// a == b leads to false
		eq := condEdges(isn, func(v ssa.Value) (bool, bool) { return exprStr(v, shapeOpts) == "(p1 == p2)", true })
		ok := len(eq) == 1
		if ok {
			_, reachTrue := findPath(pathQuery{startEdges: eq, target: func(in ssa.Instruction) bool {
				r, isR := in.(*ssa.Return)
				if !isR {
					return false
				}
				k, isC := r.Results[0].(*ssa.Const)
				return !(isC && k.Value != nil && k.Value.String() == "false")
			}})
			ok = !reachTrue
		}
		c.Check(ok, "C29.neighbour-relation", funcKey(isn)+" · irreflexive", isn.Pos(), "a == b ⇒ false", "a validator can be its own neighbour")
	}
	c.checkCondSet("C29.neighbour-relation", funcKey(nb), nb, []string{"((* % " + W + ") == (p1 % " + W + "))", "((* / " + W + ") == (p1 / " + W + "))", "(* < len(p0.Current))", "(* == p1)", "(0 == len(p0.Current))", "(len(p0.Current) <= p1)", "(p1 < 0)"})
	{
		// the append is skipped when i == index and performed when row or column matches
		var app ssa.Instruction
		allInstrs(nb, func(in ssa.Instruction) {
			if call, ok := in.(*ssa.Call); ok {
				if b, ok := call.Call.Value.(*ssa.Builtin); ok && b.Name() == "append" {
					app = in
				}
			}
		})
		self := condEdges(nb, func(v ssa.Value) (bool, bool) { return exprStr(v, shapeOpts) == "(* == p1)", false })
		row := condEdges(nb, func(v ssa.Value) (bool, bool) { return strings.HasPrefix(exprStr(v, shapeOpts), "((* / "), true })
		col := condEdges(nb, func(v ssa.Value) (bool, bool) { return strings.HasPrefix(exprStr(v, shapeOpts), "((* % "), true })
		ok := app != nil && len(self) == 1 && len(row) == 1 && len(col) == 1 && guardedBy(nb, app, self) && guardedBy(nb, app, append(append([]edge{}, row...), col...)) && !guardedBy(nb, app, row) && !guardedBy(nb, app, col)
		elem := ""
		if app != nil {
			elem = exprStr(app.(*ssa.Call).Call.Args[1], shapeOpts)
		}
		c.Check(ok && elem == "[*][:]", "C29.neighbour-relation", funcKey(nb)+" · selection", nb.Pos(), "index i collected iff i ≠ index ∧ (same row ∨ same column)", "NeighborIndicesInEpoch does not collect exactly the other indices sharing a row or a column")
	}
	c.checkCondSet("C29.neighbour-relation", funcKey(all), all, []string{"(* < len((*" + valPkg + ".GridMapper).NeighborIndicesInEpoch(p0, p1)))", "(p1 < 0)", "(p1 < len(p0.Next))", "(p1 < len(p0.Previous))"})
	{
		var elems []string
		allInstrs(all, func(in ssa.Instruction) {
			if call, ok := in.(*ssa.Call); ok {
				if b, ok := call.Call.Value.(*ssa.Builtin); ok && b.Name() == "append" {
					elems = append(elems, abbr(exprStr(call.Call.Args[1], shapeOpts)))
				}
			}
		})
		sort.Strings(elems)
		want := []string{"[p0.Current[(*" + valPkg + ".GridMapper).NeighborIndicesInEpoch(p0, p1)[*]]][:]", "[p0.Next[p1]][:]", "[p0.Previous[p1]][:]"}
		c.Check(strings.Join(elems, ";") == strings.Join(want, ";"), "C29.neighbour-relation", funcKey(all)+" · members", all.Pos(), "in-epoch neighbours ∪ {Previous[index], Next[index]}", fmt.Sprintf("AllNeighborValidators collects %v", elems))
	}
	G := "(*" + valPkg + ".GridMapper)."
	c.checkShapes("C29.neighbour-relation", funcKey(vmn), vmn, abbrMap(returnShapes(vmn)), map[string][]string{"ret": {G + "IsNeighborInEpoch(p0.Grid, p0.SelfIndex, " + G + "FindIndex(p0.Grid, p1)#0)", G + "IsSameIndexCrossEpoch(p0.Grid, p0.SelfIndex, p1)", "false"}})
	c.checkCondSet("C29.neighbour-relation", funcKey(cross), cross, []string{"(p0.Next[p1].Ed25519 == p2)", "(p0.Previous[p1].Ed25519 == p2)", "(p1 < 0)", "(p1 < len(p0.Next))", "(p1 < len(p0.Previous))"})

	c.Rule("C29.initiator", "PreferredInitiator returns its first argument exactly when (a[31] > 127) ⊕ (b[31] > 127) ⊕ (a < b) with a < b the comparison of all 32 bytes, and its second argument otherwise; with a ≠ b the order test is antisymmetric, so the eight-row truth table gives P(a,b) = P(b,a) ∈ {a, b}", 3)
	{
		var cond ssa.Value
		allInstrs(pi, func(in ssa.Instruction) {
			if i, ok := in.(*ssa.If); ok {
				cond = i.Cond
			}
		})
		// flatten the XOR tree
		var atoms []ssa.Value
		var flat func(v ssa.Value)
		flat = func(v ssa.Value) {
			if b, ok := v.(*ssa.BinOp); ok && b.Op == token.NEQ && isBoolT(b.X.Type()) {
				flat(b.X)
				flat(b.Y)
				return
			}
			atoms = append(atoms, v)
		}
		if cond != nil {
			flat(cond)
		}
		var kinds []string
		fullCompare := false
		for _, a := range atoms {
			s := exprStr(a, shapeOpts)
			switch s {
			case "(127 < cell(p0)[31])":
				kinds = append(kinds, "A")
			case "(127 < cell(p1)[31])":
				kinds = append(kinds, "B")
			case "(bytes.Compare(cell(p0)[:], cell(p1)[:]) < 0)":
				kinds = append(kinds, "L")
				// both operands are the whole 32-byte arrays
				if bo, ok := a.(*ssa.BinOp); ok {
					if call, ok := bo.X.(*ssa.Call); ok {
						full := true
						for _, arg := range call.Call.Args {
							sl, ok := arg.(*ssa.Slice)
							if !ok || sl.Low != nil || sl.High != nil {
								full = false
							}
						}
						fullCompare = full
					}
				}
			default:
				kinds = append(kinds, "?"+s)
			}
		}
		sort.Strings(kinds)
		okX := strings.Join(kinds, "") == "ABL" && fullCompare
		// truth table: with G = ¬L (a ≠ b), P(a,b) picks a iff A⊕B⊕L; P(b,a) picks b iff B⊕A⊕G = ¬(A⊕B⊕L): same key in all 8 rows
		rows := 0
		if okX {
			for m := 0; m < 8; m++ {
				A, B, L := m&1 == 1, m&2 == 2, m&4 == 4
				pickAB := (A != B) != L  // P(a,b) returns a
				pickBA := (B != A) != !L // P(b,a) returns b
				if pickAB == !pickBA {
					rows++
				}
			}
		}
		c.Check(okX && rows == 8, "C29.initiator", V+"PreferredInitiator · condition", pi.Pos(), "A ⊕ B ⊕ (a < b over all 32 bytes); 8/8 truth-table rows agree for both argument orders", fmt.Sprintf("selection condition has atoms %v (full-width comparison=%v): the two peers can disagree", kinds, fullCompare))
		// arms: true → a, false → b
		pass := condEdges(pi, func(v ssa.Value) (bool, bool) { return v == cond, true })
		okArms := len(pass) == 1
		allInstrs(pi, func(in ssa.Instruction) {
			if r, ok := in.(*ssa.Return); ok {
				s := exprStr(r.Results[0], shapeOpts)
				if (s == "*cell(p0)") != guardedBy(pi, r, pass) {
					okArms = false
				}
				if s != "*cell(p0)" && s != "*cell(p1)" {
					okArms = false
				}
			}
		})
		c.Check(okArms, "C29.initiator", V+"PreferredInitiator · arms", pi.Pos(), "a on the true arm, b on the false arm, nothing else", "the result is not a on the true arm and b on the false arm")
		c.checkShapes("C29.initiator", V+"PreferredInitiator", pi, abbrMap(returnShapes(pi)), map[string][]string{"ret": {"*cell(p0)", "*cell(p1)"}})
	}
	return "Grid-neighbour and initiator mechanisms decided statically: the width is the plain truncation of the square root; IsNeighborInEpoch's tests and result are invariant under exchanging its two indices, exclude a == b and consist of the row and column equalities; NeighborIndicesInEpoch uses the same predicate and width; cross-epoch members are Previous[index]/Next[index]; PreferredInitiator's condition is the three-way XOR of the two high-bit tests and a full-width byte comparison, whose truth table makes both argument orders pick the same key.",
		[]string{"canonical renderer with a parameter-exchange option", "not decided: floating-point exactness of ⌊√V⌋ for every V"}
}

func isBoolT(t types.Type) bool {
	b, ok := t.Underlying().(*types.Basic)
	return ok && b.Kind() == types.Bool
}
