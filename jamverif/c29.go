package main

import (
	"bytes"
	"fmt"
	"go/token"
	"go/types"
	"math"
	"sort"
	"strings"

	"golang.org/x/tools/go/ssa"
)

const valPkg = "internal/networking/validator"

// C29 is decided by evaluating the decision functions themselves (pure
// integer/boolean code: compile-time style evaluation over SSA, helpers and
// closures seen through) on a domain that is exhaustive for the abstraction
// the specification uses, so that extracting helpers, reordering tests or
// rewriting the boolean algebra does not change the verdict.

func refWidth(n int64) int64 {
	if n <= 0 {
		return 1
	}
	w := int64(math.Sqrt(float64(n)))
	for w*w > n {
		w--
	}
	for (w+1)*(w+1) <= n {
		w++
	}
	if w < 1 {
		w = 1
	}
	return w
}

func refNeighbour(a, b, n int64) bool {
	if n == 0 || a < 0 || b < 0 || a >= n || b >= n || a == b {
		return false
	}
	w := refWidth(n)
	return a/w == b/w || a%w == b%w
}

func checkC29(c *Ctx) (string, []string) {
	V := "internal/networking/validator."
	cw := c.Fn(valPkg, "ComputeWidth")
	nb := c.Fn(valPkg, "GridMapper.NeighborIndicesInEpoch")
	isn := c.Fn(valPkg, "GridMapper.IsNeighborInEpoch")
	all := c.Fn(valPkg, "GridMapper.AllNeighborValidators")
	pi := c.Fn(valPkg, "PreferredInitiator")
	vmn := c.Fn(valPkg, "ValidatorManager.IsNeighbor")
	cross := c.Fn(valPkg, "GridMapper.IsSameIndexCrossEpoch")
	if len(c.fatal) > 0 {
		return "", nil
	}
	o := robustOpts

	c.Rule("C29.width", "ComputeWidth(n) evaluates to max(1, ⌊√n⌋) (no rounding, ceiling or offset) for every n in the validator-count range", 1)
	{
		bad := ""
		maxN := c.Deep(1100, 70000)
		for n := int64(-2); n <= maxN; n++ {
			rs, ok := runFunc(cw, intEnv{params: map[ssa.Value]int64{cw.Params[0]: n}, lens: map[ssa.Value]int64{}, unknown: map[ssa.Value]bool{}, closed: true, cells: map[ssa.Value]int64{}})
			if !ok || len(rs) != 1 {
				bad = fmt.Sprintf("ComputeWidth is not a pure integer function of n (evaluation stops at n=%d)", n)
				break
			}
			if rs[0] != refWidth(n) {
				bad = fmt.Sprintf("ComputeWidth(%d) evaluates to %d; the grid is ⌊√V⌋ = %d wide", n, rs[0], refWidth(n))
				break
			}
		}
		c.Check(bad == "", "C29.width", V+"ComputeWidth", cw.Pos(), fmt.Sprintf("= max(1, ⌊√n⌋) for n = -2..%d", maxN), bad)
	}

	c.Rule("C29.neighbour-relation", "IsNeighborInEpoch(a, b), evaluated for every validator-set size n and every pair of indices (including out-of-range ones), is true exactly when a ≠ b are both in range and share a row (a/w == b/w) or a column (a%w == b%w) of the ⌊√n⌋-wide grid: hence symmetric and irreflexive; NeighborIndicesInEpoch(index) collects exactly those indices in ascending order; AllNeighborValidators adds Previous[index] and Next[index] when they exist; ValidatorManager.IsNeighbor uses the in-epoch relation for current validators and the same-index cross-epoch relation otherwise", 7)
	{
		bad := ""
		maxN := c.Deep(40, 140)
		for n := int64(0); n <= maxN && bad == ""; n++ {
			for a := int64(-1); a <= n && bad == ""; a++ {
				for b := int64(-1); b <= n; b++ {
					env := intEnv{params: map[ssa.Value]int64{isn.Params[1]: a, isn.Params[2]: b}, flens: map[string]int64{"Current": n}, lens: map[ssa.Value]int64{}, unknown: map[ssa.Value]bool{}, closed: true, cells: map[ssa.Value]int64{}}
					rs, ok := runFunc(isn, env)
					if !ok || len(rs) != 1 {
						bad = fmt.Sprintf("IsNeighborInEpoch is not a pure function of (a, b, |Current|) (evaluation stops at n=%d a=%d b=%d)", n, a, b)
						break
					}
					if (rs[0] != 0) != refNeighbour(a, b, n) {
						bad = fmt.Sprintf("IsNeighborInEpoch(%d, %d) with %d validators evaluates to %v; sharing a row or column of the %d-wide grid gives %v", a, b, n, rs[0] != 0, refWidth(n), refNeighbour(a, b, n))
						break
					}
				}
			}
		}
		c.Check(bad == "", "C29.neighbour-relation", funcKey(isn)+" · relation", isn.Pos(), fmt.Sprintf("equals the row/column relation for n = 0..%d and all a, b in -1..n (symmetric, irreflexive)", maxN), bad)
	}
	{
		// NeighborIndicesInEpoch: the indices appended, in order
		bad := ""
		maxN := c.Deep(40, 140)
		for n := int64(0); n <= maxN && bad == ""; n++ {
			for idx := int64(-1); idx <= n; idx++ {
				var got []int64
				evalOK := true
				env := intEnv{params: map[ssa.Value]int64{nb.Params[1]: idx}, flens: map[string]int64{"Current": n}, lens: map[ssa.Value]int64{}, unknown: map[ssa.Value]bool{}, closed: true, cells: map[ssa.Value]int64{}}
				env.watch = func(in ssa.Instruction, e intEnv) {
					call, ok := in.(*ssa.Call)
					if !ok {
						return
					}
					if b, ok := call.Call.Value.(*ssa.Builtin); !ok || b.Name() != "append" || len(call.Call.Args) != 2 {
						return
					}
					for _, ev := range appendedElems(call.Call.Args[1]) {
						k, ok := evalInt(ev, e, 0)
						if !ok {
							evalOK = false
						}
						got = append(got, k)
					}
				}
				_, ok := runFunc(nb, env)
				if !ok || !evalOK {
					bad = fmt.Sprintf("NeighborIndicesInEpoch is not a pure function of (index, |Current|) (evaluation stops at n=%d index=%d)", n, idx)
					break
				}
				var want []int64
				for i := int64(0); i < n; i++ {
					if refNeighbour(i, idx, n) {
						want = append(want, i)
					}
				}
				if fmt.Sprint(got) != fmt.Sprint(want) {
					bad = fmt.Sprintf("NeighborIndicesInEpoch(%d) with %d validators collects %v; the row/column neighbours are %v", idx, n, got, want)
					break
				}
			}
		}
		c.Check(bad == "", "C29.neighbour-relation", funcKey(nb)+" · selection", nb.Pos(), fmt.Sprintf("collects exactly the other indices sharing a row or a column, ascending (n = 0..%d, every index)", maxN), bad)
		c.Check(returnsItsAppends(nb), "C29.neighbour-relation", funcKey(nb)+" · result", nb.Pos(), "the collected list is what is returned", "NeighborIndicesInEpoch does not return the list it collects")
	}
	{
		var elems []string
		allInstrs(all, func(in ssa.Instruction) {
			if call, ok := in.(*ssa.Call); ok {
				if b, ok := call.Call.Value.(*ssa.Builtin); ok && b.Name() == "append" {
					elems = append(elems, expandAlts(abbr(exprStr(call.Call.Args[1], o)))...)
				}
			}
		})
		elems = uniqSorted(elems)
		NB := "(*" + valPkg + ".GridMapper).NeighborIndicesInEpoch(p0, p1)"
		c.requireSet("C29.neighbour-relation", funcKey(all)+" · members", all.Pos(), "AllNeighborValidators collects", elems, []string{"[p0.Current[" + NB + "[*]]][:]", "[p0.Next[p1]][:]", "[p0.Previous[p1]][:]"})
		c.requireAtoms("C29.neighbour-relation", funcKey(all), all, o, []string{"(p1 < len(p0.Next))", "(p1 < len(p0.Previous))"})
	}
	G := "(*" + valPkg + ".GridMapper)."
	{
		var rets []string
		for _, s := range abbrMap(returnShapesO(vmn, o))["ret"] {
			rets = append(rets, expandAlts(s)...)
		}
		c.requireSet("C29.neighbour-relation", funcKey(vmn)+" · results", vmn.Pos(), "IsNeighbor returns", uniqSorted(rets), []string{G + "IsNeighborInEpoch(p0.Grid, p0.SelfIndex, " + G + "FindIndex(p0.Grid, p1)#0)", G + "IsSameIndexCrossEpoch(p0.Grid, p0.SelfIndex, p1)", "false"})
		// the in-epoch relation is used exactly when FindIndex reports the key as a current validator
		okSel := true
		found := condEdges(vmn, func(v ssa.Value) (bool, bool) {
			return strings.HasSuffix(abbr(exprStr(v, o)), "FindIndex(p0.Grid, p1)#1"), true
		})
		nfound := condEdges(vmn, func(v ssa.Value) (bool, bool) {
			return strings.HasSuffix(abbr(exprStr(v, o)), "FindIndex(p0.Grid, p1)#1"), false
		})
		allInstrs(vmn, func(in ssa.Instruction) {
			call, ok := in.(*ssa.Call)
			if !ok || call.Call.StaticCallee() == nil {
				return
			}
			switch call.Call.StaticCallee() {
			case isn:
				if !guardedBy(vmn, call, found) {
					okSel = false
				}
			case cross:
				if !guardedBy(vmn, call, nfound) {
					okSel = false
				}
			}
		})
		c.Check(okSel && len(found) > 0, "C29.neighbour-relation", funcKey(vmn)+" · dispatch", vmn.Pos(), "in-epoch relation iff the key is a current validator, cross-epoch relation otherwise", "IsNeighbor does not select the relation by whether the key is a current validator")
	}
	c.requireAtoms("C29.neighbour-relation", funcKey(cross), cross, o, []string{"(p0.Next[p1].Ed25519 == p2)", "(p0.Previous[p1].Ed25519 == p2)", "(p1 < len(p0.Next))", "(p1 < len(p0.Previous))"})

	c.Rule("C29.initiator", "PreferredInitiator(a, b), evaluated on keys whose first and last bytes range over {0, 127, 128, 255} (all combinations of the two high bits and of a < b / a > b, with the order decided at either end of the key), returns a exactly when (a[31] > 127) ⊕ (b[31] > 127) ⊕ (a < b) over all 32 bytes and b otherwise; consequently P(a,b) = P(b,a) ∈ {a, b}", 2)
	{
		vals := []byte{0, 127, 128, 255}
		bad := ""
		nEval := 0
		pick := func(a, b [32]byte) (string, bool) {
			env := intEnv{params: map[ssa.Value]int64{}, lens: map[ssa.Value]int64{}, unknown: map[ssa.Value]bool{}, closed: true, cells: map[ssa.Value]int64{}}
			arr := func(v ssa.Value) (*[32]byte, bool) {
				switch abbr(exprStr(v, shapeOpts)) {
				case "cell(p0)", "p0", "&cell(p0)":
					return &a, true
				case "cell(p1)", "p1", "&cell(p1)":
					return &b, true
				}
				return nil, false
			}
			sliceOf := func(v ssa.Value) ([]byte, bool) {
				sl, ok := v.(*ssa.Slice)
				if !ok {
					return nil, false
				}
				base, ok := arr(sl.X)
				if !ok {
					return nil, false
				}
				lo, hi := int64(0), int64(32)
				if sl.Low != nil {
					if lo, ok = constInt(sl.Low); !ok {
						return nil, false
					}
				}
				if sl.High != nil {
					if hi, ok = constInt(sl.High); !ok {
						return nil, false
					}
				}
				if lo < 0 || hi > 32 || lo > hi {
					return nil, false
				}
				return base[lo:hi], true
			}
			env.opaque = func(v ssa.Value) (int64, bool) {
				switch x := v.(type) {
				case *ssa.UnOp:
					if ia, ok := x.X.(*ssa.IndexAddr); ok && x.Op == token.MUL {
						if base, ok := arr(ia.X); ok {
							if k, ok := constInt(ia.Index); ok && k >= 0 && k < 32 {
								return int64(base[k]), true
							}
						}
					}
				case *ssa.Index:
					if base, ok := arr(x.X); ok {
						if k, ok := constInt(x.Index); ok && k >= 0 && k < 32 {
							return int64(base[k]), true
						}
					}
				case *ssa.Call:
					if sc := x.Call.StaticCallee(); sc != nil && len(x.Call.Args) == 2 {
						switch sc.String() {
						case "bytes.Compare", "bytes.Equal":
							p, ok1 := sliceOf(x.Call.Args[0])
							q, ok2 := sliceOf(x.Call.Args[1])
							if ok1 && ok2 {
								if sc.String() == "bytes.Equal" {
									if bytes.Equal(p, q) {
										return 1, true
									}
									return 0, true
								}
								return int64(bytes.Compare(p, q)), true
							}
						}
					}
				}
				return 0, false
			}
			n := 20000
			env.fuel = &n
			last := walkBlocks(pi.Blocks[0], nil, env, func(*ssa.BasicBlock) bool { return false })
			if last == nil {
				return "", false
			}
			r, ok := last.Instrs[len(last.Instrs)-1].(*ssa.Return)
			if !ok || len(r.Results) != 1 {
				return "", false
			}
			switch abbr(exprStr(r.Results[0], shapeOpts)) {
			case "*cell(p0)", "p0", "cell(p0)":
				return "a", true
			case "*cell(p1)", "p1", "cell(p1)":
				return "b", true
			}
			return abbr(exprStr(r.Results[0], shapeOpts)), true
		}
	outer:
		for _, a0 := range vals {
			for _, a31 := range vals {
				for _, b0 := range vals {
					for _, b31 := range vals {
						for _, mid := range []int{0, 1, 2} { // middle byte: equal / a smaller / a larger
							var a, b [32]byte
							a[0], a[31], b[0], b[31] = a0, a31, b0, b31
							switch mid {
							case 1:
								b[15] = 1
							case 2:
								a[15] = 1
							}
							if a == b {
								continue
							}
							nEval++
							got, ok := pick(a, b)
							if !ok {
								bad = "the selection is not a function of key bytes and a byte-wise comparison of the two whole keys (evaluation stops)"
								break outer
							}
							wantA := ((a[31] > 127) != (b[31] > 127)) != (bytes.Compare(a[:], b[:]) < 0)
							want := "b"
							if wantA {
								want = "a"
							}
							if got != want {
								bad = fmt.Sprintf("for a = %02x…%02x…%02x and b = %02x…%02x…%02x PreferredInitiator returns %s; (a[31] > 127) ⊕ (b[31] > 127) ⊕ (a < b) selects %s, so the two peers can disagree", a[0], a[15], a[31], b[0], b[15], b[31], got, want)
								break outer
							}
						}
					}
				}
			}
		}
		c.Check(bad == "", "C29.initiator", V+"PreferredInitiator · selection", pi.Pos(), fmt.Sprintf("returns a iff A ⊕ B ⊕ (a < b), else b, on %d key pairs covering every combination of high bits and orderings", nEval), bad)
		rs := abbrMap(returnShapesO(pi, shapeOpts))["ret"]
		okR := len(rs) > 0
		for _, s := range rs {
			for _, alt := range expandAlts(s) {
				if alt != "*cell(p0)" && alt != "*cell(p1)" {
					okR = false
				}
			}
		}
		c.Check(okR, "C29.initiator", V+"PreferredInitiator · results", pi.Pos(), "every result is one of the two keys", fmt.Sprintf("PreferredInitiator can return %v", rs))
	}
	return "Grid-neighbour and initiator mechanisms decided statically by evaluating the decision functions over SSA (helpers and closures seen through): ComputeWidth = max(1, ⌊√n⌋) over the validator-count range; IsNeighborInEpoch equals the row/column relation (symmetric, irreflexive) for every set size up to the bound and every index pair; NeighborIndicesInEpoch collects exactly those indices; cross-epoch members are Previous[index]/Next[index]; PreferredInitiator selects by the three-way XOR of the two high-bit tests and the full-width comparison on key pairs covering every combination.",
		[]string{"compile-time style evaluation of pure integer/boolean SSA (no program state; inputs enumerated over the stated finite domains)", "not decided: sizes beyond the evaluated bound; keys that differ only in bytes other than 0, 15, 31"}
}

// appendedElems: the element values of append's variadic argument when it is
// a literal element list ([e1, e2][:]).
func appendedElems(v ssa.Value) []ssa.Value {
	if sl, ok := v.(*ssa.Slice); ok {
		if a, ok := sl.X.(*ssa.Alloc); ok {
			if es := arrayLiteral(a); es != nil {
				return es
			}
		}
	}
	return nil
}

// returnsItsAppends: every non-nil return value of f is built from f's append calls.
func returnsItsAppends(f *ssa.Function) bool {
	ok := true
	seenAppend := false
	var fromAppend func(v ssa.Value, seen map[ssa.Value]bool) bool
	fromAppend = func(v ssa.Value, seen map[ssa.Value]bool) bool {
		if seen[v] {
			return true
		}
		seen[v] = true
		switch x := v.(type) {
		case *ssa.Const:
			return x.Value == nil
		case *ssa.MakeSlice:
			return true
		case *ssa.Call:
			if b, isB := x.Call.Value.(*ssa.Builtin); isB && b.Name() == "append" {
				seenAppend = true
				return fromAppend(x.Call.Args[0], seen)
			}
			return false
		case *ssa.Phi:
			for _, e := range x.Edges {
				if !fromAppend(e, seen) {
					return false
				}
			}
			return true
		case *ssa.ChangeType:
			return fromAppend(x.X, seen)
		case *ssa.Slice:
			return fromAppend(x.X, seen)
		}
		return false
	}
	allInstrs(f, func(in ssa.Instruction) {
		if r, isR := in.(*ssa.Return); isR && len(r.Results) == 1 {
			if !fromAppend(r.Results[0], map[ssa.Value]bool{}) {
				ok = false
			}
		}
	})
	return ok && seenAppend
}

func uniqSorted(xs []string) []string {
	m := map[string]bool{}
	for _, x := range xs {
		m[x] = true
	}
	var out []string
	for x := range m {
		out = append(out, x)
	}
	sort.Strings(out)
	return out
}

// expandAlts distributes phi(a | b) alternatives outward: the set of terms a
// rendered value may denote ("phi(x | y)[i]" ↦ {"x[i]", "y[i]"}).
func expandAlts(s string) []string {
	i := strings.Index(s, "phi(")
	if i < 0 {
		return []string{s}
	}
	// matching paren
	depth, j := 0, -1
	for k := i + 3; k < len(s); k++ {
		switch s[k] {
		case '(':
			depth++
		case ')':
			depth--
			if depth == 0 {
				j = k
			}
		}
		if j >= 0 {
			break
		}
	}
	if j < 0 {
		return []string{s}
	}
	inner := s[i+4 : j]
	var alts []string
	depth, start := 0, 0
	for k := 0; k < len(inner); k++ {
		switch inner[k] {
		case '(', '[', '{':
			depth++
		case ')', ']', '}':
			depth--
		case '|':
			if depth == 0 && k > 0 && inner[k-1] == ' ' && k+1 < len(inner) && inner[k+1] == ' ' {
				alts = append(alts, inner[start:k-1])
				start = k + 2
			}
		}
	}
	alts = append(alts, inner[start:])
	var out []string
	for _, a := range alts {
		for _, e := range expandAlts(s[:i] + a + s[j+1:]) {
			out = append(out, e)
			if len(out) > 64 {
				return out
			}
		}
	}
	return uniqSorted(out)
}

func isBoolT(t types.Type) bool {
	b, ok := t.Underlying().(*types.Basic)
	return ok && b.Kind() == types.Bool
}
