package main

import (
	"fmt"
	"go/token"
	"go/types"
	"os"
	"strings"

	"golang.org/x/tools/go/ssa"
)

const stfPkg = "internal/stf"

func checkC26(c *Ctx) (string, []string) {
	dump := os.Getenv("JAMVERIF_DUMP") != ""
	runSTF := c.Fn(stfPkg, "RunSTF")
	imp := c.Fn(fuzzPkg, "FuzzServiceStub.ImportBlock")
	restore := c.Fn(bcPkg, "ChainState.RestoreBlockAndState")
	rws := c.Fn(bcPkg, "ChainState.restoreWithState")
	addBlock := c.Fn(bcPkg, "ChainState.AddBlock")
	commitA := c.Fn(bcPkg, "ChainState.StateCommit")
	commitB := c.Fn(bcPkg, "ChainState.StateCommitWithPreComputedState")
	persist := c.Fn(bcPkg, "ChainState.PersistStateForBlock")
	prune := c.Fn(bcPkg, "ChainState.PruneOldData")
	if len(c.fatal) > 0 {
		return "", nil
	}
	inModule := func(f *ssa.Function) bool { return f.Pkg != nil && strings.HasPrefix(f.Pkg.Pkg.Path(), modPath) }
	B := "(*internal/blockchain.ChainState)."

	// ---- rule 1
	c.Rule("C26.commit-on-success", "ImportBlock reaches the commit functions (StateCommit, StateCommitWithPreComputedState, PersistStateForBlock, PruneOldData) only on the err == nil edge of RunSTF; nothing reachable from RunSTF writes state to the store; the state-writing repository methods are called only by the commit functions, the genesis seeding and the pruner", 6)
	var stfCall *ssa.Call
	allInstrs(imp, func(in ssa.Instruction) {
		if cl, ok := in.(*ssa.Call); ok && calleeFunc(cl) == runSTF {
			stfCall = cl
		}
	})
	if stfCall == nil {
		c.Bad("C26.commit-on-success", fuzzPkg+".ImportBlock · RunSTF", imp.Pos(), "ImportBlock does not call RunSTF")
	} else {
		var errV ssa.Value
		for _, r := range *stfCall.Referrers() {
			if ex, ok := r.(*ssa.Extract); ok && ex.Index == 1 {
				errV = ex
			}
		}
		failE := condEdges(imp, func(v ssa.Value) (bool, bool) {
			bo, ok := v.(*ssa.BinOp)
			if !ok || bo.X != errV {
				return false, false
			}
			return true, bo.Op.String() == "!="
		})
		for _, cf := range []*ssa.Function{commitA, commitB, persist, prune} {
			key := fuzzPkg + ".ImportBlock · " + cf.Name()
			if len(failE) != 1 {
				c.Bad("C26.commit-on-success", key, imp.Pos(), "the STF error is not tested exactly once")
				continue
			}
			_, leak := findPath(pathQuery{startEdges: failE, target: func(in ssa.Instruction) bool { return calleeFunc2(in) == cf }})
			// and never before the STF ran
			_, early := findPath(pathQuery{fn: imp, target: func(in ssa.Instruction) bool { return calleeFunc2(in) == cf }, blocker: func(in ssa.Instruction) bool { return in == ssa.Instruction(stfCall) }})
			c.Check(!leak && !early, "C26.commit-on-success", key, imp.Pos(), "unreachable from the STF-error edge and not called before the STF", fmt.Sprintf("%s is reachable on the STF-error edge (%v) or before the STF ran (%v): a rejected block's state is committed", cf.Name(), leak, early))
		}
	}
	writers := map[string]bool{}
	isStateWriter := func(f *ssa.Function) bool {
		if f == nil || f.Signature.Recv() == nil || !typeIs(f.Signature.Recv().Type(), modPath+"/internal/store", "Repository") {
			return false
		}
		switch f.Name() {
		case "SaveStateData", "SaveStateRootByHeaderHash", "DeleteStateData":
			return true
		}
		return false
	}
	for _, p := range c.Pkgs {
		if !strings.HasPrefix(p.PkgPath, modPath) {
			continue
		}
		rel := strings.TrimPrefix(strings.TrimPrefix(p.PkgPath, modPath), "/")
		if strings.HasPrefix(rel, "internal/store") || strings.HasPrefix(rel, "cmd") {
			continue
		}
		for _, f0 := range c.SrcFuncs(rel) {
			for _, f := range withClosures(f0) {
				allInstrs(f, func(in ssa.Instruction) {
					if ci, ok := in.(ssa.CallInstruction); ok && isStateWriter(calleeFunc(ci)) {
						writers[funcKey(f0)] = true
					}
				})
			}
		}
	}
	wantW := []string{B + "PersistStateForBlock", B + "PruneOldData", B + "SeedGenesisToBackend", B + "StateCommitWithPreComputedState"}
	c.Check(strings.Join(keysOf(writers), ",") == strings.Join(wantW, ","), "C26.commit-on-success", "internal/store.Repository state writers · callers", 0, "state is written to the store only by "+strings.Join(keysOf(writers), ", "), fmt.Sprintf("state-writing repository methods are called by %v, expected %v", keysOf(writers), wantW))
	// nothing under RunSTF writes state
	reach := map[*ssa.Function]bool{}
	var grow func(f *ssa.Function)
	grow = func(f *ssa.Function) {
		if f == nil || reach[f] || !inModule(f) {
			return
		}
		reach[f] = true
		allInstrs(f, func(in ssa.Instruction) {
			if ci, ok := in.(ssa.CallInstruction); ok {
				grow(calleeFunc(ci))
			}
		})
		for _, a := range f.AnonFuncs {
			grow(a)
		}
	}
	grow(runSTF)
	var leakers []string
	for f := range reach {
		if isStateWriter(f) || f == commitA || f == commitB || f == persist {
			leakers = append(leakers, funcKey(f))
		}
	}
	c.extra["functions_reachable_from_RunSTF"] = len(reach)
	c.Check(len(leakers) == 0, "C26.commit-on-success", stfPkg+".RunSTF · no store writes", runSTF.Pos(), fmt.Sprintf("none of the %d functions reachable from RunSTF commits or writes state", len(reach)), fmt.Sprintf("RunSTF reaches %v", leakers))

	// ---- rule 2
	c.Rule("C26.restore-on-fork", "when the block's parent is not the in-memory head (and the block is not the head itself), ImportBlock adds the block and runs the STF only after RestoreBlockAndState(block.Header.Parent) succeeded", 2)
	{
		var restoreCall *ssa.Call
		allInstrs(imp, func(in ssa.Instruction) {
			if cl, ok := in.(*ssa.Call); ok && calleeFunc(cl) == restore {
				restoreCall = cl
			}
		})
		if restoreCall == nil {
			// the fork handling may live in a helper of the package: the helper must restore before it reports success, and ImportBlock must go on only on that success
			ho := robustOpts
			ho.inline = func(g *ssa.Function) bool {
				return g != nil && g != imp && len(g.Blocks) > 0 && g.Pkg != nil && g.Pkg == imp.Pkg && !token.IsExported(g.Name())
			}
			var hf *ssa.Function
			var hsubst map[ssa.Value]string
			visitWithHelpers(imp, ho, func(g *ssa.Function, subst map[ssa.Value]string, in ssa.Instruction) {
				if cl, ok := in.(*ssa.Call); ok && calleeFunc(cl) == restore && g != imp {
					restoreCall, hf, hsubst = cl, g, subst
				}
			})
			if restoreCall == nil {
				c.Bad("C26.restore-on-fork", fuzzPkg+".ImportBlock · restore", imp.Pos(), "ImportBlock never restores the parent's state")
			} else {
				arg := abbr(exprStrSubst(restoreCall.Call.Args[1], robustOpts, hsubst))
				c.Check(arg == "p1.Header.Parent" || arg == "cell(p1).Header.Parent", "C26.restore-on-fork", fuzzPkg+".ImportBlock · restore argument", restoreCall.Pos(), "restores the state of the block's parent (in helper "+hf.Name()+")", "restores "+arg+" instead of the block's parent")
				seenA, seenB := false, false
				av := func(s string) (int64, bool) {
					if strings.HasPrefix(s, "len(") && strings.Contains(s, "GetBlocks(") {
						return 1, true
					}
					if len(s) > 2 && s[0] == '(' && (strings.Contains(s, " == ") || strings.Contains(s, " != ")) && !strings.HasSuffix(s, " nil)") && !strings.HasPrefix(s, "(nil ") && !strings.Contains(s, "RestoreBlockAndState(") {
						neg := strings.Contains(s, " != ")
						val := int64(0)
						if neg {
							val = 1
						}
						switch {
						case strings.HasSuffix(s, ".Header.Parent)") || strings.Contains(s, ".Header.Parent == ") || strings.Contains(s, ".Header.Parent != "):
							seenA = true
							return val, true
						case strings.Contains(s, "ComputeBlockHeaderHash("):
							seenB = true
							return val, true
						}
					}
					return 0, false
				}
				ok, why := true, ""
				// (1) inside the helper: with a head that is neither the parent nor the block, no successful return avoids the restore; a failed restore is reported
				allInstrs(hf, func(in ssa.Instruction) {
					if r, isR := in.(*ssa.Return); isR && !isErrorReturn(hf, r) {
						if reachAvoiding(r, restoreCall, robustOpts, av) {
							ok, why = false, "helper "+hf.Name()+" can report success on a parent mismatch without restoring the parent's state"
						}
					}
				})
				failR := condEdges(hf, func(v ssa.Value) (bool, bool) {
					bo, isB := v.(*ssa.BinOp)
					if !isB || bo.X != ssa.Value(restoreCall) {
						return false, false
					}
					return true, bo.Op.String() == "!="
				})
				if len(failR) != 1 {
					ok, why = false, "the restore result is not tested"
				} else if _, leak := findPath(pathQuery{startEdges: failR, target: func(in ssa.Instruction) bool {
					r, isR := in.(*ssa.Return)
					return isR && !isErrorReturn(hf, r)
				}}); leak {
					ok, why = false, "helper "+hf.Name()+" reports success after the restore failed"
				}
				if ok && (!seenA || !seenB) {
					ok, why = false, "the 'block extends the current head' / 'block is the current head' tests were not found in "+hf.Name()
				}
				// (2) in ImportBlock: AddBlock / RunSTF only behind the helper's success
				if ok {
					var hcall *ssa.Call
					allInstrs(imp, func(in ssa.Instruction) {
						if cl, isC := in.(*ssa.Call); isC && calleeFunc(cl) == hf {
							hcall = cl
						}
					})
					if hcall == nil {
						ok, why = false, "ImportBlock does not call "+hf.Name()+" directly"
					} else {
						pass := condEdges(imp, func(v ssa.Value) (bool, bool) {
							bo, isB := v.(*ssa.BinOp)
							if !isB || (bo.X != ssa.Value(hcall)) {
								return false, false
							}
							return true, bo.Op.String() == "=="
						})
						allInstrs(imp, func(in ssa.Instruction) {
							if f := calleeFunc2(in); f == addBlock || f == runSTF {
								if len(pass) == 0 || !guardedBy(imp, in, pass) {
									ok, why = false, "ImportBlock adds the block / runs the STF without "+hf.Name()+" having succeeded"
								}
							}
						})
					}
				}
				c.Check(ok, "C26.restore-on-fork", fuzzPkg+".ImportBlock · restore before STF", restoreCall.Pos(), "parent mismatch ⇒ restore (in helper "+hf.Name()+"), and only its success leads to AddBlock/RunSTF", why)
			}
		} else {
			arg := abbr(exprStr(restoreCall.Call.Args[1], shapeOpts))
			c.Check(arg == "p1.Header.Parent", "C26.restore-on-fork", fuzzPkg+".ImportBlock · restore argument", restoreCall.Pos(), "restores the state of the block's parent", "restores "+arg+" instead of the block's parent")
			// mismatch edges: the two != tests
			mis := condEdges(imp, func(v ssa.Value) (bool, bool) {
				s := abbr(exprStr(v, shapeOpts))
				return strings.Contains(s, "!= cell(p1).Header.Parent)") || strings.Contains(s, "cell(p1).Header.Parent !=") || strings.HasPrefix(s, "(cell(p1).Header.Parent != "), true
			})
			failR := condEdges(imp, func(v ssa.Value) (bool, bool) {
				bo, ok := v.(*ssa.BinOp)
				if !ok || bo.X != ssa.Value(restoreCall) {
					return false, false
				}
				return true, bo.Op.String() == "!="
			})
			ok := len(failR) == 1
			why := ""
			if ok {
				isAdd := func(in ssa.Instruction) bool { f := calleeFunc2(in); return f == addBlock || f == runSTF }
				if _, leak := findPath(pathQuery{startEdges: failR, target: isAdd}); leak {
					ok, why = false, "the block is added / the STF runs after the restore failed"
				}
			} else {
				why = "the restore result is not tested"
			}
			if ok {
				// block extends neither the head nor is the head itself ⇒ AddBlock / RunSTF only after the restore
				head, parent, self := "hash.ComputeBlockHeaderHash(BLOCK.Header)#0", "cell(p1).Header.Parent", "hash.ComputeBlockHeaderHash(p1.Header)#0"
				seenA, seenB := false, false
				av := func(s string) (int64, bool) {
					if strings.HasPrefix(s, "len(") && strings.Contains(s, "GetBlocks(") {
						return 1, true // there is an in-memory head
					}
					for _, par := range []string{parent, "p1.Header.Parent"} {
						if is, neg := eqAtom(s, head, par); is {
							seenA = true
							if neg {
								return 1, true
							}
							return 0, true
						}
					}
					if is, neg := eqAtom(s, head, self); is {
						seenB = true
						if neg {
							return 1, true
						}
						return 0, true
					}
					return 0, false
				}
				leak := false
				allInstrs(imp, func(in ssa.Instruction) {
					if f := calleeFunc2(in); f == addBlock || f == runSTF {
						if reachAvoiding(in, restoreCall, robustOpts, av) {
							leak = true
						}
					}
				})
				if !seenA || !seenB {
					ok, why = false, "the 'block extends the current head' / 'block is the current head' tests were not found"
				} else if leak {
					ok, why = false, "on the parent-mismatch path the block can be added without restoring the parent's state"
				}
			}
			_ = mis
			c.Check(ok, "C26.restore-on-fork", fuzzPkg+".ImportBlock · restore before STF", restoreCall.Pos(), "parent mismatch ⇒ restore, and only a successful restore leads to AddBlock/RunSTF", why)
		}
	}

	// ---- rule 2b
	c.Rule("C26.head-after-rejection", "after a rejected STF run ImportBlock leaves the rejected block as the in-memory head (so that the next import sees a parent mismatch and restores the prior state from the store): on the STF-error edge nothing reachable moves the head back (KeepBlocksUpTo, GenerateGenesisBlock, SetHeader, SetExtrinsic) unless the prior state is restored on the same edge", 1)
	if stfCall != nil {
		var errV ssa.Value
		for _, r := range *stfCall.Referrers() {
			if ex, ok := r.(*ssa.Extract); ok && ex.Index == 1 {
				errV = ex
			}
		}
		failE := condEdges(imp, func(v ssa.Value) (bool, bool) {
			bo, ok := v.(*ssa.BinOp)
			if !ok || bo.X != errV {
				return false, false
			}
			return true, bo.Op.String() == "!="
		})
		headMovers := map[string]bool{"KeepBlocksUpTo": true, "GenerateGenesisBlock": true, "SetHeader": true, "SetExtrinsic": true}
		var moved, restored []string
		seenF := map[*ssa.Function]bool{}
		var scan func(f *ssa.Function)
		scan = func(f *ssa.Function) {
			if f == nil || seenF[f] || !inModule(f) {
				return
			}
			seenF[f] = true
			if f.Signature.Recv() != nil && typeIs(f.Signature.Recv().Type(), modPath+"/"+bcPkg, "UnfinalizedBlocks") && headMovers[f.Name()] {
				moved = append(moved, funcKey(f))
			}
			if f == restore || f == rws {
				restored = append(restored, funcKey(f))
			}
			allInstrs(f, func(in ssa.Instruction) {
				if ci, ok := in.(ssa.CallInstruction); ok {
					scan(calleeFunc(ci))
				}
			})
		}
		// calls on the error edge: walk blocks reachable from the failing edge
		if len(failE) == 1 {
			seenB := map[*ssa.BasicBlock]bool{}
			work := []*ssa.BasicBlock{failE[0].from.Succs[failE[0].succ]}
			for len(work) > 0 {
				b := work[len(work)-1]
				work = work[:len(work)-1]
				if seenB[b] {
					continue
				}
				seenB[b] = true
				for _, in := range b.Instrs {
					if _, isDefer := in.(*ssa.Defer); isDefer {
						continue
					}
					if ci, ok := in.(ssa.CallInstruction); ok {
						scan(calleeFunc(ci))
					}
				}
				work = append(work, b.Succs...)
			}
		}
		c.Check(len(failE) == 1 && (len(moved) == 0 || len(restored) > 0), "C26.head-after-rejection", fuzzPkg+".ImportBlock · STF-error edge", imp.Pos(), "the rejected block stays the in-memory head (no head-moving operation on the error edge)", fmt.Sprintf("the STF-error edge reaches %v without restoring the prior state: the next child of the head is imported on the in-memory prior state the failed STF run already wrote through, with no restore from the store", moved))
	}

	// ---- rule 3
	c.Rule("C26.restore-complete", "restoreWithState re-establishes everything RunSTF reads as input: prior state, prior and posterior raw key-value pools (C17.restore shapes), the in-memory block list and ancestry cut at the restored block, and the verifier cache cleared", 5)
	{
		effs := abbrAll(effectShapesOpt(rws, func(n string) bool { return true }, false))
		has := func(sub string) bool {
			for _, e := range effs {
				if strings.Contains(e, sub) {
					return true
				}
			}
			return false
		}
		for _, need := range [][2]string{
			{"prior.SetState(" + B + "GetPriorStates(p0), p3)", "prior state ← parsed state"},
			{B + "SetPriorStateUnmatchedKeyVals(p0, *cell(p4))", "prior raw pool ← parsed raw entries"},
			{B + "SetPostStateUnmatchedKeyVals(p0, (*types.StateKeyVals).DeepCopy(cell(p4)))", "posterior raw pool ← deep copy of the same entries"},
			{"KeepBlocksUpTo(p0.unfinalizedBlocks, p1)", "block list cut at the restored block"},
			{B + "KeepAncestryUpTo(p0, p1)", "ancestry cut at the restored block"},
			{"internal/blockchain.ClearVerifierCache()", "verifier cache cleared"},
		} {
			c.Check(has(need[0]), "C26.restore-complete", B+"restoreWithState · "+need[1], rws.Pos(), need[1], "restoreWithState no longer performs: "+need[1])
		}
	}

	// the restored state comes from the store, never from memory
	{
		g := B + "GetBlockAndState(p0, p1)"
		st := "merklization.StateKeyValsToState(" + g + "#1)"
		var calls []string
		usesMemory := ""
		seenF := map[*ssa.Function]bool{}
		var scan func(f *ssa.Function, top bool)
		scan = func(f *ssa.Function, top bool) {
			if f == nil || seenF[f] || !inModule(f) {
				return
			}
			seenF[f] = true
			allInstrs(f, func(in ssa.Instruction) {
				ci, ok := in.(ssa.CallInstruction)
				if !ok {
					return
				}
				sc := calleeFunc(ci)
				if sc == nil {
					return
				}
				if top && (sc == rws || sc.Name() == "RestoreStateFromSnapshot") {
					var as []string
					for _, a := range ci.Common().Args[2:] {
						as = append(as, abbr(exprStr(a, shapeOpts)))
					}
					calls = append(calls, sc.Name()+"("+strings.Join(as, ", ")+")")
				}
				if sc.Signature.Recv() != nil && typeIs(sc.Signature.Recv().Type(), modPath+"/"+bcPkg, "PriorStates") && strings.HasPrefix(sc.Name(), "Get") {
					usesMemory = funcKey(f) + " reads " + sc.Name()
				}
				if sc.Name() == "GetPriorStateUnmatchedKeyVals" || sc.Name() == "GetPriorStateUnmatchedKeyValsRef" || sc.Name() == "GetPostStateUnmatchedKeyVals" || sc.Name() == "GetPostStateUnmatchedKeyValsRef" {
					usesMemory = funcKey(f) + " reads " + sc.Name()
				}
			})
		}
		scan(restore, true)
		want := "restoreWithState(" + g + "#0, " + st + "#0, " + st + "#1)"
		c.Check(len(calls) == 1 && calls[0] == want && usesMemory == "", "C26.restore-complete", B+"RestoreBlockAndState · source of the restored state", restore.Pos(), "the only restore is restoreWithState(stored block, state and raw entries parsed from the stored key-values); the in-memory prior state is not consulted", fmt.Sprintf("RestoreBlockAndState restores via %v (%s): a restore that reuses in-memory state keeps whatever a rejected STF run wrote through it", calls, usesMemory))
	}

	// ---- rule 4
	c.Rule("C26.posterior-rebuilt", "a posterior component written by a rejected import cannot survive into the next accepted block: every component of the posterior state has a setter that is called on every path of RunSTF to its success return (interprocedural must-call; goroutines joined by WaitGroup.Wait count), and both commit functions end by copying posterior→prior, posterior raw pool→prior raw pool and installing a fresh posterior", 22)
	m := &mustCallAnalysis{
		label: func(g *ssa.Function) []string {
			if g.Signature.Recv() != nil && typeIs(g.Signature.Recv().Type(), modPath+"/"+bcPkg, "PosteriorStates") && strings.HasPrefix(g.Name(), "Set") {
				return []string{g.Name()}
			}
			return nil
		},
		inScope: inModule,
	}
	must := m.run(runSTF)
	if dump {
		fmt.Println("MUST(RunSTF) =", keysOf(must))
	}
	components := []struct {
		name    string
		setters []string
	}{
		{"α (Alpha)", []string{"SetAlpha"}}, {"φ (Varphi)", []string{"SetVarphi"}}, {"β_H", []string{"SetBetaH", "SetBeta"}}, {"β_B", []string{"SetBetaB", "SetBeta"}},
		{"γ_k", []string{"SetGammaK", "SetGamma"}}, {"γ_s", []string{"SetGammaS", "SetGamma"}}, {"γ_a", []string{"SetGammaA", "SetGamma"}},
		{"ψ_g", []string{"SetPsiG", "SetPsi"}}, {"ψ_b", []string{"SetPsiB", "SetPsi"}}, {"ψ_w", []string{"SetPsiW", "SetPsi"}}, {"ψ_o", []string{"SetPsiO", "SetPsi"}},
		{"η", []string{"SetEta"}}, {"ι", []string{"SetIota"}}, {"κ", []string{"SetKappa"}}, {"λ", []string{"SetLambda"}}, {"ρ", []string{"SetRho"}}, {"τ", []string{"SetTau"}}, {"χ", []string{"SetChi"}},
		{"π current", []string{"SetPiCurrent", "SetPi"}}, {"π last", []string{"SetPiLast", "SetPi"}}, {"π cores", []string{"SetCoresStatistics", "SetPi"}}, {"π services", []string{"SetServicesStatistics", "SetPi"}},
		{"ϑ", []string{"SetVartheta"}}, {"ξ", []string{"SetXi"}}, {"δ", []string{"SetDelta"}}, {"θ (last accumulation outputs)", []string{"SetLastAccOut"}},
	}
	for _, comp := range components {
		ok := false
		for _, s := range comp.setters {
			if must[s] {
				ok = true
			}
		}
		c.Check(ok, "C26.posterior-rebuilt", stfPkg+".RunSTF · "+comp.name, runSTF.Pos(), "set on every successful path", fmt.Sprintf("no setter of %s (%v) is called on every successful path of RunSTF: a value written by a rejected block can be committed by the next accepted one", comp.name, comp.setters))
	}
	c.Note("γ_z is not in the must-set: on the epoch-change arm SetGammaZ is conditional on the ring commitment being computed (an error there is logged, not returned); on the same-epoch arm it is copied from the prior state. Reported as an observation: it needs a failing ring verifier to matter, which cannot be constructed offline.")
	getterReturnsState := false
	if g := c.TryFn(bcPkg, "PosteriorStates.GetState"); g != nil {
		rs := returnShapes(g)["ret"]
		getterReturnsState = len(rs) == 1 && (rs[0] == "*p0.state" || rs[0] == "p0.state")
	}
	for _, cf := range []*ssa.Function{commitA, commitB} {
		ho := robustOpts
		ho.inline = func(g *ssa.Function) bool {
			return g != nil && g != cf && len(g.Blocks) > 0 && g.Pkg != nil && g.Pkg == cf.Pkg && !token.IsExported(g.Name())
		}
		effs := abbrAll(robustCalls(cf, ho, func(n string) bool { return strings.Contains(n, "SetState") || strings.Contains(n, "UnmatchedKeyVals") }))
		want := []string{
			B + "SetPriorStateUnmatchedKeyVals(p0, " + B + "GetPostStateUnmatchedKeyVals(p0))",
			"post.SetState(" + B + "GetPosteriorStates(p0), *internal/blockchain.NewPosteriorStates().state)",
			"prior.SetState(" + B + "GetPriorStates(p0), post.GetState(" + B + "GetPosteriorStates(p0)))",
		}
		has := map[string]bool{}
		for _, e := range effs {
			has[e] = true
			// the state of a fresh posterior container read through its getter is the same value as read from the field
			// (the getter is checked to return the field)
			if getterReturnsState {
				has[strings.ReplaceAll(e, "post.GetState(internal/blockchain.NewPosteriorStates())", "*internal/blockchain.NewPosteriorStates().state")] = true
			}
		}
		ok := true
		for _, w := range want {
			if !has[w] {
				ok = false
			}
		}
		c.Check(ok, "C26.posterior-rebuilt", funcKey(cf)+" · hand-over", cf.Pos(), "prior ← posterior, prior raw pool ← posterior raw pool, fresh posterior", fmt.Sprintf("commit hand-over effects are %v", effs))
	}

	// ---- rule 5
	c.Rule("C26.rejection-is-an-error", "every unchecked assertion err.(*types.ErrorCode) in RunSTF is applied to an error that can only be nil or a *types.ErrorCode (all returns of the producing function, transitively); the producers that can return another error type are a closed, reviewed list", 5)
	{
		okType := func(t types.Type) bool { return typeIs(t, modPath+"/"+typesPkg, "ErrorCode") }
		memo := map[*ssa.Function]int{}
		offenders := map[string]bool{}
		var onlyEC func(f *ssa.Function, d int) (bool, string)
		var valOK func(f *ssa.Function, v ssa.Value, seen map[ssa.Value]bool, d int) (bool, string)
		valOK = func(f *ssa.Function, v ssa.Value, seen map[ssa.Value]bool, d int) (bool, string) {
			if seen[v] || d > 12 {
				return true, ""
			}
			seen[v] = true
			switch x := v.(type) {
			case *ssa.Const:
				if x.IsNil() {
					return true, ""
				}
			case *ssa.MakeInterface:
				if okType(x.X.Type()) {
					return true, ""
				}
				offenders[funcKey(f)+" returns "+typeStr(x.X.Type())] = true
				return false, "a " + typeStr(x.X.Type()) + " is returned as error in " + funcKey(f)
			case *ssa.Phi:
				for _, e := range x.Edges {
					if ok, why := valOK(f, e, seen, d+1); !ok {
						return false, why
					}
				}
				return true, ""
			case *ssa.Call:
				if g := x.Call.StaticCallee(); g != nil {
					if !inModule(g) {
						offenders[funcKey(f)+" ← "+g.String()] = true
						return false, funcKey(f) + " returns the result of " + g.String()
					}
					return onlyEC(g, d+1)
				}
			case *ssa.Extract:
				if call, ok := x.Tuple.(*ssa.Call); ok {
					if g := call.Call.StaticCallee(); g != nil {
						if !inModule(g) {
							offenders[funcKey(f)+" ← "+g.String()] = true
							return false, funcKey(f) + " returns the result of " + g.String()
						}
						return onlyEC(g, d+1)
					}
				}
			case *ssa.UnOp:
				if a, ok := x.X.(*ssa.Alloc); ok {
					all := true
					why := ""
					for _, r := range *a.Referrers() {
						if st, ok := r.(*ssa.Store); ok && st.Addr == ssa.Value(a) {
							if ok2, w := valOK(f, st.Val, seen, d+1); !ok2 {
								all, why = false, w
							}
						}
					}
					return all, why
				}
			}
			offenders[funcKey(f)+" returns unknown "+abbr(exprStr(v, shapeOpts))] = true
			return false, "an error of unknown dynamic type (" + abbr(exprStr(v, shapeOpts)) + ") is returned in " + funcKey(f)
		}
		onlyEC = func(f *ssa.Function, d int) (bool, string) {
			if st, ok := memo[f]; ok {
				return st != 2, funcKey(f) + " can return an error that is not a *types.ErrorCode"
			}
			memo[f] = 1
			if len(f.Blocks) == 0 {
				memo[f] = 2
				return false, funcKey(f) + " has no body"
			}
			okAll, why := true, ""
			allInstrs(f, func(in ssa.Instruction) {
				r, isR := in.(*ssa.Return)
				if !isR {
					return
				}
				res := retResults(r)
				if len(res) == 0 {
					return
				}
				last := res[len(res)-1]
				if !types.Identical(last.Type(), types.Universe.Lookup("error").Type()) {
					return
				}
				if ok, w := valOK(f, last, map[ssa.Value]bool{}, d); !ok {
					okAll, why = false, w
				}
			})
			if !okAll {
				memo[f] = 2
			}
			return okAll, why
		}
		reviewedProducers := map[string]string{
			"internal/stf.validateExtrinsicHash ← fmt.Errorf":                                                         "only when re-encoding the extrinsic that was just decoded from the wire fails (encoder invariants violated by a decoded value)",
			"(*internal/extrinsic.GuaranteeController).ValidateSignatures ← (*golang.org/x/sync/errgroup.Group).Wait": "propagates the first error returned by the signature-checking goroutines, whose bodies return *types.ErrorCode values",
			"(*internal/types.Encoder).encodeStruct ← fmt.Errorf":                                                     "value does not implement Encodable: a programming error, not reachable from block contents",
			"(*internal/types.Encoder).encodeStruct returns unknown p1.(types.Encodable)#0.Encode(p0)":                "errors of the per-type encoders (length/variant invariants of in-memory values built by this node)",
		}
		n := 0
		allInstrs(runSTF, func(in ssa.Instruction) {
			ta, ok := in.(*ssa.TypeAssert)
			if !ok || ta.CommaOk {
				return
			}
			n++
			valOK(runSTF, ta.X, map[ssa.Value]bool{}, 0)
		})
		c.extra["unchecked_assertions_in_RunSTF"] = n
		c.Check(n >= 6, "C26.rejection-is-an-error", stfPkg+".RunSTF · assertions", runSTF.Pos(), fmt.Sprintf("%d unchecked *types.ErrorCode assertions examined", n), "fewer unchecked assertions than confirmed")
		for _, o := range keysOf(offenders) {
			if why, ok := reviewedProducers[o]; ok {
				c.OK("C26.rejection-is-an-error", "producer "+o, 0, "reviewed non-ErrorCode producer: %s", why)
			} else {
				c.Bad("C26.rejection-is-an-error", "producer "+o, 0, "an error that is not a *types.ErrorCode can reach an unchecked err.(*types.ErrorCode) assertion in RunSTF: the node panics instead of rejecting the block")
			}
		}
		if dump {
			for _, o := range keysOf(offenders) {
				fmt.Println("OFFENDER", o)
			}
		}
	}

	// ---- rule 6
	c.Rule("C26.prior-immutable", "nothing reachable from RunSTF writes through memory owned by the prior state (a (*PriorStates).GetX result reached through a slice element, pointer or map), except the reviewed sites whose effect is idempotent under a retry of the same block and invisible otherwise because every other import re-derives the prior state from the store", 4)
	reviewed := map[string]string{
		"(*internal/extrinsic.VerdictController).ClearWorkReports · GetRho":              "sets prior ρ[i] = nil for reports the same block's verdicts judge bad/wonky: re-running the same block clears the same entries",
		"internal/authorization.Authorization · GetAlpha → STFAlpha2AlphaPrime":          "runs as the penultimate STF step; a block that reaches it is accepted unless post-validation of the pools fails, which is a runtime (non-protocol) error that terminates the node",
		"internal/recent_history.STFBetaH2BetaHDagger · GetBeta → History2HistoryDagger": "writes the header's parent state root into the last history entry: same value on a retry of the same block",
		"internal/safrole.KeyRotate · GetIota → ReplaceOffenderKeys":                     "zeroes the keys of validators in ψ_o' inside prior ι at an epoch change: same set on a retry of the same block",
	}
	seenSites := map[string]bool{}
	report := func(fn *ssa.Function, site string, in ssa.Instruction, what string) {
		key := funcKey(fn) + " · " + site
		if seenSites[key] {
			return
		}
		seenSites[key] = true
		if why, ok := reviewed[key]; ok {
			c.OK("C26.prior-immutable", key, in.Pos(), "reviewed write-through: %s", why)
		} else {
			c.Bad("C26.prior-immutable", key, in.Pos(), "%s: the in-memory prior state is modified while the block may still be rejected, and a retry of the same block (no restore on that path) starts from the modified state", what)
		}
	}
	for f := range reach {
		for _, fn := range withClosures(f) {
			allInstrs(fn, func(in ssa.Instruction) {
				switch x := in.(type) {
				case *ssa.Store:
					if _, direct := x.Addr.(*ssa.Alloc); direct {
						return
					}
					if g, ok := priorDerived(x.Addr, map[ssa.Value]bool{}, 0); ok {
						report(fn, g, in, "stores through "+abbr(exprStr(x.Addr, shapeOpts)))
					}
				case *ssa.MapUpdate:
					if g, ok := valIsPrior(x.Map, map[ssa.Value]bool{}, 0); ok {
						report(fn, g, in, "updates a map obtained from "+g)
					}
				case *ssa.Call:
					sc := x.Call.StaticCallee()
					if sc == nil {
						return
					}
					n := sc.String()
					if n == "sort.Slice" || n == "sort.SliceStable" || strings.HasPrefix(n, "slices.Sort") {
						if g, ok := valIsPrior(stripConv(x.Call.Args[0]), map[ssa.Value]bool{}, 0); ok {
							report(fn, g+" → "+sc.Name(), in, "sorts a slice obtained from "+g+" in place")
						}
						return
					}
					if b, ok := x.Call.Value.(*ssa.Builtin); ok && b.Name() == "delete" {
						if g, ok := valIsPrior(x.Call.Args[0], map[ssa.Value]bool{}, 0); ok {
							report(fn, g, in, "deletes from a map obtained from "+g)
						}
						return
					}
					if !inModule(sc) {
						return
					}
					for k := range paramWrites(sc) {
						if k < len(x.Call.Args) {
							if g, ok := valIsPrior(x.Call.Args[k], map[ssa.Value]bool{}, 0); ok && refBearing(x.Call.Args[k]) {
								report(fn, g+" → "+sc.Name(), in, "passes "+g+"'s result to "+sc.Name()+", which writes through that parameter")
							}
						}
					}
				}
			})
		}
	}
	for k := range reviewed {
		if !seenSites[k] {
			c.Note("reviewed prior write-through no longer present: %s", k)
		}
	}
	return "Block-import atomicity mechanisms decided statically: commits and store writes are unreachable from the STF-error edge and from RunSTF's call tree; a parent mismatch leads to AddBlock/RunSTF only through a successful RestoreBlockAndState(parent); restoreWithState re-establishes prior state, both raw pools, block list, ancestry and verifier cache; every posterior component is must-set on RunSTF's success paths and the commit functions hand posterior over to prior and install a fresh posterior; RunSTF's unchecked ErrorCode assertions are fed only nil/*ErrorCode; no new write-through to prior-state memory under RunSTF (four reviewed, idempotent sites).",
		[]string{"go/ssa; static callees only (interface dispatch inside the STF is not followed); goroutines joined by WaitGroup.Wait are treated as calls", "not decided: equality of state roots across nodes; IntermediateStates carried between imports; aliasing of prior memory through posterior setters (updateXi's in-place sort, statistics slices) — recorded in DESIGN.md as observations"}
}

const fuzzPkgC26 = fuzzPkg

// priorDerived decides whether an address lies in memory owned by the prior
// state (reached from a (*PriorStates).GetX result through at least one
// reference: slice element, pointer, map), as opposed to a local copy of a
// value. Returns the getter it comes from.
func priorDerived(v ssa.Value, seen map[ssa.Value]bool, d int) (string, bool) {
	return addrIsPriorMem(v, seen, d)
}

func isSliceVal(v ssa.Value) bool {
	_, ok := v.Type().Underlying().(*types.Slice)
	return ok
}

func addrIsPriorMem(v ssa.Value, seen map[ssa.Value]bool, d int) (string, bool) {
	if v == nil || d > 30 {
		return "", false
	}
	switch x := v.(type) {
	case *ssa.IndexAddr:
		if isSliceVal(x.X) {
			return valIsPrior(x.X, seen, d+1)
		}
		return addrIsPriorMem(x.X, seen, d+1)
	case *ssa.FieldAddr:
		return addrIsPriorMem(x.X, seen, d+1)
	case *ssa.Alloc:
		return "", false
	case *ssa.Slice:
		if isSliceVal(x.X) {
			return valIsPrior(x.X, seen, d+1)
		}
		return addrIsPriorMem(x.X, seen, d+1)
	default:
		// a pointer value used as an address
		if _, isPtr := v.Type().Underlying().(*types.Pointer); isPtr {
			return valIsPrior(v, seen, d+1)
		}
		if isSliceVal(v) {
			return valIsPrior(v, seen, d+1)
		}
		if _, isMap := v.Type().Underlying().(*types.Map); isMap {
			return valIsPrior(v, seen, d+1)
		}
	}
	return "", false
}

func valIsPrior(v ssa.Value, seen map[ssa.Value]bool, d int) (string, bool) {
	if v == nil || seen[v] || d > 30 {
		return "", false
	}
	seen[v] = true
	switch x := v.(type) {
	case *ssa.Call:
		if sc := x.Call.StaticCallee(); sc != nil && sc.Signature.Recv() != nil && typeIs(sc.Signature.Recv().Type(), modPath+"/"+bcPkg, "PriorStates") && strings.HasPrefix(sc.Name(), "Get") {
			return sc.Name(), true
		}
		if b, ok := x.Call.Value.(*ssa.Builtin); ok && b.Name() == "append" {
			return valIsPrior(x.Call.Args[0], seen, d+1)
		}
	case *ssa.Extract:
		return valIsPrior(x.Tuple, seen, d+1)
	case *ssa.Field:
		return valIsPrior(x.X, seen, d+1)
	case *ssa.Index:
		return valIsPrior(x.X, seen, d+1)
	case *ssa.Lookup:
		return valIsPrior(x.X, seen, d+1)
	case *ssa.Slice:
		if isSliceVal(x.X) {
			return valIsPrior(x.X, seen, d+1)
		}
		return addrIsPriorMem(x.X, seen, d+1)
	case *ssa.ChangeType:
		return valIsPrior(x.X, seen, d+1)
	case *ssa.Convert:
		return valIsPrior(x.X, seen, d+1)
	case *ssa.Phi:
		for _, e := range x.Edges {
			if g, ok := valIsPrior(e, seen, d+1); ok {
				return g, true
			}
		}
	case *ssa.Next:
		return valIsPrior(x.Iter, seen, d+1)
	case *ssa.Range:
		return valIsPrior(x.X, seen, d+1)
	case *ssa.UnOp:
		// value loaded from memory
		if g, ok := addrIsPriorMem(x.X, seen, d+1); ok {
			return g, true
		}
		// or from a local that holds (a copy of) a prior value
		base := x.X
		for i := 0; i < 10; i++ {
			switch y := base.(type) {
			case *ssa.FieldAddr:
				base = y.X
				continue
			case *ssa.IndexAddr:
				if !isSliceVal(y.X) {
					base = y.X
					continue
				}
			}
			break
		}
		if a, ok := base.(*ssa.Alloc); ok {
			for _, r := range *a.Referrers() {
				if st, ok := r.(*ssa.Store); ok && st.Addr == ssa.Value(a) {
					if g, ok := valIsPrior(st.Val, seen, d+1); ok {
						return g, true
					}
				}
			}
		}
	}
	return "", false
}

// refBearing: a value through which the callee/store can reach shared memory.
func refBearing(v ssa.Value) bool { return hasRef(v.Type()) }

// paramWrites: indices of parameters of f that f (directly) writes through.
func paramWrites(f *ssa.Function) map[int]bool {
	out := map[int]bool{}
	root := func(v ssa.Value) int {
		for i := 0; i < 30; i++ {
			switch x := v.(type) {
			case *ssa.Parameter:
				for k, p := range f.Params {
					if p == x {
						return k
					}
				}
				return -1
			case *ssa.FieldAddr:
				v = x.X
			case *ssa.IndexAddr:
				v = x.X
			case *ssa.Slice:
				v = x.X
			case *ssa.UnOp:
				v = x.X
			case *ssa.ChangeType:
				v = x.X
			case *ssa.Alloc:
				// by-value parameter spilled to a local: its slice/map/pointer contents are still shared
				for _, r := range *x.Referrers() {
					if st, ok := r.(*ssa.Store); ok && st.Addr == ssa.Value(x) {
						if p, ok := st.Val.(*ssa.Parameter); ok {
							for k, q := range f.Params {
								if q == p {
									return k
								}
							}
						}
					}
				}
				return -1
			default:
				return -1
			}
		}
		return -1
	}
	allInstrs(f, func(in ssa.Instruction) {
		switch x := in.(type) {
		case *ssa.Store:
			// a store into the parameter's own local cell is not a write-through; only through a pointer/element
			if _, direct := x.Addr.(*ssa.Alloc); direct {
				return
			}
			if fa, ok := x.Addr.(*ssa.FieldAddr); ok {
				if _, isAlloc := fa.X.(*ssa.Alloc); isAlloc {
					return
				}
			}
			if k := root(x.Addr); k >= 0 {
				out[k] = true
			}
		case *ssa.MapUpdate:
			if k := root(x.Map); k >= 0 {
				out[k] = true
			}
		case *ssa.Call:
			if sc := x.Call.StaticCallee(); sc != nil {
				n := sc.String()
				if n == "sort.Slice" || n == "sort.SliceStable" || n == "sort.Sort" || strings.HasPrefix(n, "slices.Sort") {
					if k := root(stripConv(x.Call.Args[0])); k >= 0 {
						out[k] = true
					}
				}
			}
		}
	})
	return out
}
