package main

import (
	"fmt"
	"go/ast"
	"go/token"
	"go/types"
	"strings"

	"golang.org/x/tools/go/ssa"
)

const accPkg = "internal/accumulation"

func checkC22(c *Ctx) (string, []string) {
	c.Rule("C22.map-order", "every range over a map in internal/accumulation and in PVM's accumulate-invocation code has an order-independent body, or each order-dependent product is sorted by a total order before any other use, or is consumed only by reviewed order-insensitive consumers (table with reasons); functions returning map-ordered slices move the obligation to every caller", 12)
	s := &moScope{c: c, rule: "C22.map-order", reviewed: map[string]string{
		"internal/accumulation.ParallelizedAccumulation · internal/types.ServiceGasUsedList": "only consumer sums Gas per ServiceID into a map (calculateAccumulationStatistics: G[s] += gas) — commutative",
		"internal/accumulation.ParallelizedAccumulation · []internal/types.DeferredTransfer": "every consumer (SingleServiceAccumulation) filters by receiver and sorts by SenderID before use — checked by rule C22.transfer-order; a sender's own transfers stay contiguous and in emission order",
		"internal/accumulation.ParallelizedAccumulation · internal/types.ServiceBlobs":       "only consumer Provide() inserts into per-service maps keyed by blob hash, skipping already-provided entries — idempotent and commutative",
		"internal/accumulation.ParallelizedAccumulation · internal/types.StateKeyVals":       "intersection result is a key-unique pool looked up by key and serialised sorted by key (StateEncoder) — order never observed",
		"PVM.C · internal/types.ServiceBlobs":                                                "blobs of one invocation, consumed only through ParallelizedAccumulation→Provide (commutative, see above)",
	}}
	n := s.checkMapOrder([]string{accPkg}, nil)
	n += s.checkMapOrder([]string{"PVM"}, func(f string) bool {
		return strings.HasSuffix(f, "accumulate_invocation.go") || strings.HasSuffix(f, "host_call_accumulate.go")
	})
	s.checkUnorderedCallers()
	c.extra["map_ranges_examined"] = n

	// ---- transfer order: the consumer sort that the reviewed entry relies on
	c.Rule("C22.transfer-order", "SingleServiceAccumulation sorts the per-receiver deferred-transfer list with a comparator that is exactly elem[i].SenderID < elem[j].SenderID before handing it to the PVM", 1)
	fd, p := c.FuncDecl(accPkg, "SingleServiceAccumulation")
	if fd != nil {
		found := false
		ast.Inspect(fd.Body, func(n ast.Node) bool {
			call, ok := n.(*ast.CallExpr)
			if !ok {
				return true
			}
			name, _ := calleeName(p.TypesInfo, call)
			if !(name == "sort.Slice" || name == "sort.SliceStable") || len(call.Args) != 2 {
				return true
			}
			t := p.TypesInfo.TypeOf(call.Args[0])
			if t == nil || !strings.HasSuffix(typeStr(t), "types.DeferredTransfer") {
				return true
			}
			found = true
			fl, ok := call.Args[1].(*ast.FuncLit)
			okCmp := false
			if ok && len(fl.Body.List) == 1 {
				if r, ok := fl.Body.List[0].(*ast.ReturnStmt); ok && len(r.Results) == 1 {
					okCmp = isFieldLess(p.TypesInfo, r.Results[0], fl, types.ExprString(call.Args[0]), "SenderID")
				}
			}
			c.Check(okCmp, "C22.transfer-order", "internal/accumulation.SingleServiceAccumulation · sort comparator", call.Pos(),
				"transfers sorted by SenderID (strict <)", "the deferred-transfer sort comparator is not elem[i].SenderID < elem[j].SenderID")
			// the sorted slice must be what feeds the PVM items: its next use after the sort is the range building pvm items
			return true
		})
		if !found {
			c.Bad("C22.transfer-order", "internal/accumulation.SingleServiceAccumulation · sort", fd.Pos(), "no sort of the deferred-transfer list before the PVM invocation")
		}
	}

	// ---- goroutine discipline (SSA)
	c.Rule("C22.goroutine-writes", "functions that run concurrently (closures launched with go / errgroup.Go in internal/accumulation, and the closures they call) write shared state only as index-addressed slice elements or as map updates with a mutex must-held; never append to a captured slice", 3)
	c.Rule("C22.singleflight", "singleflight keys are an injective rendering of the service ID (fmt.Sprintf(\"%d\", id) / strconv) and the 'shared' result of Do is not used", 1)
	k := &c22{c: c}
	k.run()

	c.Rule("C22.worker-inputs", "the per-service workers of the parallel accumulation do not share mutable input: a worker's function (SingleServiceAccumulation) never writes through a slice that aliases a slice of its input (no element store, no append onto it, no in-place sort, no copy into it), or else every slice the per-service copy (CloneForService) hands over is a clone; a shared list that a worker also rewrites makes the outcome depend on goroutine scheduling", 2)
	{
		ssaF := c.Fn(accPkg, "SingleServiceAccumulation")
		clone := c.Fn(accPkg, "SingleServiceAccumulationInput.CloneForService")
		// (a) fields the clone hands over without cloning
		shared := map[string]string{}
		if clone != nil {
			allInstrs(clone, func(in ssa.Instruction) {
				st, ok := in.(*ssa.Store)
				if !ok {
					return
				}
				fa, ok := st.Addr.(*ssa.FieldAddr)
				if !ok {
					return
				}
				if _, isSlice := st.Val.Type().Underlying().(*types.Slice); !isSlice {
					return
				}
				v := abbr(exprStr(st.Val, robustOpts))
				if strings.HasPrefix(v, "slices.Clone") || strings.HasPrefix(v, "bytes.Clone") || strings.Contains(v, ".DeepCopy(") || isFreshCopyRender(v) {
					return
				}
				if strings.Contains(v, "p0") {
					shared[fieldName(fa.X.Type(), fa.Field)] = v
				}
			})
		}
		// (b) in-place writes of the worker on slices aliasing its input
		var inPlace []string
		var pos token.Pos
		if ssaF != nil {
			alias := map[ssa.Value]string{}
			for changed := true; changed; {
				changed = false
				mark := func(v ssa.Value, f string) {
					if _, ok := alias[v]; !ok {
						alias[v] = f
						changed = true
					}
				}
				allInstrs(ssaF, func(in ssa.Instruction) {
					if v, isV := in.(ssa.Value); isV {
						if _, isSlice := v.Type().Underlying().(*types.Slice); isSlice {
							if s := exprStr(v, shapeOpts); strings.HasPrefix(s, "p0.") && !strings.ContainsAny(s[3:], ".[( ") {
								mark(v, s[3:])
							}
						}
					}
					switch x := in.(type) {
					case *ssa.UnOp:
						if a, ok := x.X.(*ssa.Alloc); ok && x.Op == token.MUL {
							// a local variable that has been assigned an aliasing slice
							for _, r := range *a.Referrers() {
								if st, ok := r.(*ssa.Store); ok && st.Addr == ssa.Value(a) {
									if f, ok := alias[st.Val]; ok {
										mark(x, f)
									}
								}
							}
						}
						if fa, ok := x.X.(*ssa.FieldAddr); ok && x.Op == token.MUL {
							base := exprStr(fa.X, shapeOpts)
							if _, isSlice := x.Type().Underlying().(*types.Slice); isSlice && (base == "p0" || base == "cell(p0)" || base == "&cell(p0)" || base == "*cell(p0)") {
								mark(x, fieldName(fa.X.Type(), fa.Field))
							}
						}
					case *ssa.Field:
						if _, isSlice := x.Type().Underlying().(*types.Slice); isSlice && x.X == ssa.Value(ssaF.Params[0]) {
							mark(x, fieldName(x.X.Type(), x.Field))
						}
					case *ssa.Slice:
						if f, ok := alias[x.X]; ok {
							mark(x, f)
						}
					case *ssa.ChangeType:
						if f, ok := alias[x.X]; ok {
							mark(x, f)
						}
					case *ssa.Phi:
						for _, e := range x.Edges {
							if f, ok := alias[e]; ok {
								mark(x, f)
							}
						}
					case *ssa.Call:
						if b, ok := x.Call.Value.(*ssa.Builtin); ok && b.Name() == "append" {
							if f, ok := alias[x.Call.Args[0]]; ok {
								mark(x, f) // may reuse the same array
							}
						}
					case *ssa.MakeInterface:
						if f, ok := alias[x.X]; ok {
							mark(x, f)
						}
					}
				})
			}
			allInstrs(ssaF, func(in ssa.Instruction) {
				switch x := in.(type) {
				case *ssa.Store:
					if ia, ok := x.Addr.(*ssa.IndexAddr); ok {
						if f, ok := alias[ia.X]; ok {
							inPlace = append(inPlace, "element store into input."+f)
							pos = x.Pos()
						}
					}
				case *ssa.Call:
					if b, ok := x.Call.Value.(*ssa.Builtin); ok {
						switch b.Name() {
						case "append":
							if f, ok := alias[x.Call.Args[0]]; ok {
								inPlace = append(inPlace, "append onto input."+f)
								pos = x.Pos()
							}
						case "copy":
							if f, ok := alias[x.Call.Args[0]]; ok {
								inPlace = append(inPlace, "copy into input."+f)
								pos = x.Pos()
							}
						}
					} else if sc := x.Call.StaticCallee(); sc != nil && len(x.Call.Args) > 0 {
						n := sc.String()
						if sc.Origin() != nil {
							n = sc.Origin().String()
						}
						if n == "sort.Slice" || n == "sort.SliceStable" || n == "sort.Sort" || strings.HasPrefix(n, "slices.Sort") || n == "slices.Reverse" {
							if f, ok := alias[x.Call.Args[0]]; ok {
								inPlace = append(inPlace, "in-place sort of input."+f)
								pos = x.Pos()
							}
						}
					}
				}
			})
		}
		inPlace = uniqSorted(inPlace)
		bad := ""
		for _, w := range inPlace {
			f := w[strings.LastIndex(w, ".")+1:]
			if v, isShared := shared[f]; isShared {
				bad = fmt.Sprintf("the per-service copy hands over %s as %s (not a clone) and the worker performs: %s", f, v, strings.Join(inPlace, "; "))
			}
		}
		key := "internal/accumulation · per-service worker input"
		switch {
		case bad != "":
			c.Bad("C22.worker-inputs", key, pos, "%s: workers rewrite one shared list concurrently, the result depends on scheduling", bad)
		case len(inPlace) > 0:
			c.OK("C22.worker-inputs", key, pos, "the worker rewrites input slices in place (%s) but each is a clone made for this service", strings.Join(inPlace, "; "))
		default:
			c.OK("C22.worker-inputs", key, 0, "the worker never writes through a slice of its input (shared fields: %v)", keysOf(toBoolMap(shared)))
		}
		c.Check(clone != nil && ssaF != nil, "C22.worker-inputs", "internal/accumulation · anchors", 0, "CloneForService and SingleServiceAccumulation analysed", "worker or clone function not found")
	}
	return "Determinism mechanisms of accumulation, decided statically: (1) AST/type classification of every map range (order-independent body, sorted product, or reviewed commutative consumer), (2) the SenderID sort that makes transfer order independent of map order, (3) SSA lockset + store classification of concurrently executed closures, (4) singleflight key injectivity. Does not decide equality of posterior states (needs execution).",
		[]string{"calls on the right-hand side of := inside a map loop are pure with respect to iteration order unless they receive an encoder/writer/hash", "sort comparators other than the SenderID one are total orders on the element key (not analysed)"}
}

// isFieldLess: expr is  S[i].F < S[j].F  with i,j the comparator's parameters.
func isFieldLess(info *types.Info, e ast.Expr, fl *ast.FuncLit, slice, field string) bool {
	be, ok := e.(*ast.BinaryExpr)
	if !ok || be.Op != token.LSS {
		return false
	}
	var params []string
	for _, f := range fl.Type.Params.List {
		for _, n := range f.Names {
			params = append(params, n.Name)
		}
	}
	if len(params) != 2 {
		return false
	}
	side := func(x ast.Expr, idx string) bool {
		sel, ok := x.(*ast.SelectorExpr)
		if !ok || sel.Sel.Name != field {
			return false
		}
		ix, ok := sel.X.(*ast.IndexExpr)
		if !ok || types.ExprString(ix.X) != slice {
			return false
		}
		id, ok := ix.Index.(*ast.Ident)
		return ok && id.Name == idx
	}
	return side(be.X, params[0]) && side(be.Y, params[1])
}

type c22 struct{ c *Ctx }

func (k *c22) run() {
	c := k.c
	funcs := c.SrcFuncs(accPkg)
	// concurrent roots: closures passed to errgroup.Go / go statements
	conc := map[*ssa.Function]string{}
	for _, f := range funcs {
		allInstrs(f, func(in ssa.Instruction) {
			switch x := in.(type) {
			case *ssa.Go:
				if cl := closureOf(x.Call.Value); cl != nil {
					conc[cl] = "go statement in " + funcKey(f)
				} else if sc := x.Call.StaticCallee(); sc != nil {
					conc[sc] = "go statement in " + funcKey(f)
				}
			case *ssa.Call:
				if sc := x.Call.StaticCallee(); sc != nil && strings.HasSuffix(sc.String(), "errgroup.Group).Go") {
					for _, a := range x.Call.Args {
						if cl := closureOf(a); cl != nil {
							conc[cl] = "errgroup.Go in " + funcKey(f)
						}
					}
				}
			}
		})
	}
	// closure values called from concurrent functions (e.g. runSingleReplaceService) run concurrently too
	inPkg := map[*ssa.Function]bool{}
	for _, f := range funcs {
		inPkg[f] = true
	}
	for changed := true; changed; {
		changed = false
		for f := range conc {
			allInstrs(f, func(in ssa.Instruction) {
				ci, ok := in.(ssa.CallInstruction)
				if !ok {
					return
				}
				var callee *ssa.Function
				if sc := ci.Common().StaticCallee(); sc != nil {
					callee = sc
				} else {
					callee = closureBoundTo(ci.Common().Value)
				}
				if callee != nil && inPkg[callee] && callee.Parent() != nil && conc[callee] == "" {
					conc[callee] = "called from concurrent " + funcKey(f)
					changed = true
				}
			})
		}
	}
	isLock := func(in ssa.Instruction, names ...string) bool {
		ci, ok := in.(ssa.CallInstruction)
		if !ok {
			return false
		}
		sc := ci.Common().StaticCallee()
		if sc == nil {
			return false
		}
		for _, n := range names {
			if sc.String() == n {
				return true
			}
		}
		return false
	}
	spec := lockSpec{
		acquire: func(in ssa.Instruction) bool { return isLock(in, "(*sync.RWMutex).Lock", "(*sync.Mutex).Lock") },
		release: func(in ssa.Instruction) bool { return isLock(in, "(*sync.RWMutex).Unlock", "(*sync.Mutex).Unlock") },
	}
	for f, why := range conc {
		st := lockStates(f, spec, false)
		nWrites := 0
		allInstrs(f, func(in ssa.Instruction) {
			switch x := in.(type) {
			case *ssa.MapUpdate:
				if !isCaptured(x.Map) {
					return
				}
				nWrites++
				c.Check(st[in].must, "C22.goroutine-writes", funcKey(f)+" · map update", in.Pos(), "shared map updated with a mutex held", "shared map updated from a concurrently running closure without a mutex held ("+why+")")
			case *ssa.Store:
				root, viaIndex := storeRoot(x.Addr)
				if root == nil || !isCaptured(root) {
					return
				}
				nWrites++
				if viaIndex {
					c.OK("C22.goroutine-writes", funcKey(f)+" · indexed slot", in.Pos(), "writes an index-addressed element of a captured slice")
					return
				}
				// store to a captured variable cell
				if call, ok := x.Val.(*ssa.Call); ok {
					if b, ok := call.Call.Value.(*ssa.Builtin); ok && b.Name() == "append" {
						c.Bad("C22.goroutine-writes", funcKey(f)+" · append", in.Pos(), "appends to a captured slice from a concurrently running closure: completion order reaches the result (%s)", why)
						return
					}
				}
				c.Check(st[in].must, "C22.goroutine-writes", funcKey(f)+" · captured variable", in.Pos(), "captured variable written with a mutex held", "captured variable written from a concurrently running closure without a mutex ("+why+")")
			}
		})
		if nWrites == 0 {
			c.OK("C22.goroutine-writes", funcKey(f)+" · no shared writes", f.Pos(), "concurrent closure writes no captured state directly")
		}
	}
	// singleflight
	for _, f := range funcs {
		allInstrs(f, func(in ssa.Instruction) {
			call, ok := in.(*ssa.Call)
			if !ok {
				return
			}
			sc := call.Call.StaticCallee()
			if sc == nil || !strings.HasSuffix(sc.String(), "singleflight.Group).Do") {
				return
			}
			keyShape := exprStr(call.Call.Args[1], exprOpts{showConv: true})
			okKey := strings.HasPrefix(keyShape, "fmt.Sprintf(\"%d\"") || strings.HasPrefix(keyShape, "strconv.FormatUint(") || strings.HasPrefix(keyShape, "strconv.Itoa(") || strings.HasPrefix(keyShape, "strconv.FormatInt(")
			c.Check(okKey, "C22.singleflight", funcKey(f)+" · key", in.Pos(), "key is an injective decimal rendering: "+keyShape, "singleflight key "+keyShape+" is not an injective rendering of the service ID (distinct services may share one result)")
			sharedUsed := false
			for _, r := range *call.Referrers() {
				if ex, ok := r.(*ssa.Extract); ok && ex.Index == 2 && len(*ex.Referrers()) > 0 {
					sharedUsed = true
				}
			}
			c.Check(!sharedUsed, "C22.singleflight", funcKey(f)+" · shared flag", in.Pos(), "'shared' result unused", "result depends on singleflight's 'shared' flag (which goroutine arrived first)")
		})
	}
}

func closureOf(v ssa.Value) *ssa.Function {
	switch x := v.(type) {
	case *ssa.MakeClosure:
		if f, ok := x.Fn.(*ssa.Function); ok {
			return f
		}
	case *ssa.Function:
		return x
	}
	return nil
}

// closureBoundTo resolves a called value that is a load of a local variable /
// free variable cell holding exactly one closure.
func closureBoundTo(v ssa.Value) *ssa.Function {
	v = stripConv(v)
	if cl := closureOf(v); cl != nil {
		return cl
	}
	if u, ok := v.(*ssa.UnOp); ok && u.Op == token.MUL {
		switch a := u.X.(type) {
		case *ssa.Alloc:
			if sv := singleStore(a); sv != nil {
				return closureOf(sv)
			}
		case *ssa.FreeVar:
			// find the binding in the parent MakeClosure
			fn := a.Parent()
			idx := -1
			for i, fv := range fn.FreeVars {
				if fv == a {
					idx = i
				}
			}
			if fn.Parent() == nil || idx < 0 {
				return nil
			}
			var res *ssa.Function
			allInstrs(fn.Parent(), func(in ssa.Instruction) {
				mc, ok := in.(*ssa.MakeClosure)
				if !ok || mc.Fn != fn || idx >= len(mc.Bindings) {
					return
				}
				if al, ok := mc.Bindings[idx].(*ssa.Alloc); ok {
					for _, r := range *al.Referrers() {
						if st, ok := r.(*ssa.Store); ok && st.Addr == al {
							if cl := closureOf(st.Val); cl != nil {
								res = cl
							}
						}
					}
				}
			})
			return res
		}
	}
	return nil
}

// isCaptured: value derives from a free variable (captured by the closure).
func isCaptured(v ssa.Value) bool {
	for i := 0; i < 20; i++ {
		switch x := v.(type) {
		case *ssa.FreeVar:
			return true
		case *ssa.UnOp:
			v = x.X
		case *ssa.FieldAddr:
			v = x.X
		case *ssa.IndexAddr:
			v = x.X
		case *ssa.Field:
			v = x.X
		case *ssa.ChangeType:
			v = x.X
		case *ssa.Convert:
			v = x.X
		default:
			return false
		}
	}
	return false
}

// storeRoot: the base cell of a store address and whether an index step is on the way.
func storeRoot(addr ssa.Value) (ssa.Value, bool) {
	viaIndex := false
	v := addr
	for i := 0; i < 20; i++ {
		switch x := v.(type) {
		case *ssa.IndexAddr:
			viaIndex = true
			v = x.X
		case *ssa.FieldAddr:
			v = x.X
		case *ssa.UnOp:
			v = x.X
		case *ssa.FreeVar:
			return x, viaIndex
		case *ssa.Alloc:
			return x, viaIndex
		default:
			return v, viaIndex
		}
	}
	return v, viaIndex
}

func toBoolMap(m map[string]string) map[string]bool {
	out := map[string]bool{}
	for k := range m {
		out[k] = true
	}
	return out
}
