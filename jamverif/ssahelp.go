package main

import (
	"fmt"
	"go/constant"
	"go/token"
	"go/types"
	"strings"

	"golang.org/x/tools/go/ssa"
)

// ---- callee resolution ---------------------------------------------------------

// calleeFunc returns the statically resolved callee (function, method or
// closure bound at the call site), or nil for dynamic calls.
func calleeFunc(ci ssa.CallInstruction) *ssa.Function {
	return ci.Common().StaticCallee()
}

// calleeObject returns the types.Func called: the static callee's object, or
// the interface method for invoke-mode calls.
func calleeObject(ci ssa.CallInstruction) *types.Func {
	cc := ci.Common()
	if cc.IsInvoke() {
		return cc.Method
	}
	if f := cc.StaticCallee(); f != nil {
		if o, ok := f.Object().(*types.Func); ok {
			return o
		}
		// instantiated generic
		if f.Origin() != nil {
			if o, ok := f.Origin().Object().(*types.Func); ok {
				return o
			}
		}
	}
	return nil
}

// funcKey renders pkg-relative "pkg.Func" / "pkg.(*T).M".
func funcKey(f *ssa.Function) string {
	if f == nil {
		return "<nil>"
	}
	s := f.String()
	s = strings.ReplaceAll(s, modPath+"/", "")
	return s
}

func objKey(o types.Object) string {
	if o == nil {
		return "<nil>"
	}
	if f, ok := o.(*types.Func); ok {
		return strings.ReplaceAll(f.FullName(), modPath+"/", "")
	}
	if o.Pkg() != nil {
		return strings.ReplaceAll(o.Pkg().Path(), modPath+"/", "") + "." + o.Name()
	}
	return o.Name()
}

// isCallTo reports whether instr is a call/defer/go of the given function object.
func isCallTo(instr ssa.Instruction, objs ...types.Object) bool {
	ci, ok := instr.(ssa.CallInstruction)
	if !ok {
		return false
	}
	o := calleeObject(ci)
	if o == nil {
		return false
	}
	for _, t := range objs {
		if t != nil && o == t {
			return true
		}
	}
	return false
}

func allInstrs(fn *ssa.Function, visit func(ssa.Instruction)) {
	for _, b := range fn.Blocks {
		for _, in := range b.Instrs {
			visit(in)
		}
	}
}

// callsIn lists call instructions in fn (not descending into closures) whose
// callee object is one of objs.
func callsIn(fn *ssa.Function, objs ...types.Object) []ssa.CallInstruction {
	var out []ssa.CallInstruction
	allInstrs(fn, func(in ssa.Instruction) {
		if isCallTo(in, objs...) {
			out = append(out, in.(ssa.CallInstruction))
		}
	})
	return out
}

// withClosures returns fn and every closure lexically nested in it.
func withClosures(fn *ssa.Function) []*ssa.Function {
	out := []*ssa.Function{fn}
	for _, a := range fn.AnonFuncs {
		out = append(out, withClosures(a)...)
	}
	return out
}

// ---- CFG path search -----------------------------------------------------------

type edge struct {
	from *ssa.BasicBlock
	succ int
}

type pathQuery struct {
	// start: search begins after this instruction (exclusive). If nil, begins
	// at function entry (fn must be set).
	start ssa.Instruction
	fn    *ssa.Function
	// startEdges: alternatively begin at the head of these edges' targets.
	startEdges []edge
	target     func(ssa.Instruction) bool
	blocker    func(ssa.Instruction) bool
	edgeBlock  func(e edge) bool
}

// findPath reports whether a CFG path exists from the start to an
// instruction satisfying target that passes through no blocker instruction
// and no blocked edge. Returns the target instruction reached.
func findPath(q pathQuery) (ssa.Instruction, bool) {
	type item struct {
		b *ssa.BasicBlock
		i int
	}
	seen := map[*ssa.BasicBlock]bool{}
	var work []item
	if len(q.startEdges) > 0 {
		for _, e := range q.startEdges {
			work = append(work, item{e.from.Succs[e.succ], 0})
		}
	} else if q.start != nil {
		b := q.start.Block()
		idx := -1
		for i, in := range b.Instrs {
			if in == q.start {
				idx = i
			}
		}
		work = append(work, item{b, idx + 1})
	} else {
		work = append(work, item{q.fn.Blocks[0], 0})
	}
	for len(work) > 0 {
		it := work[len(work)-1]
		work = work[:len(work)-1]
		if it.i == 0 {
			if seen[it.b] {
				continue
			}
			seen[it.b] = true
		}
		blocked := false
		for i := it.i; i < len(it.b.Instrs); i++ {
			in := it.b.Instrs[i]
			if q.target != nil && q.target(in) {
				return in, true
			}
			if q.blocker != nil && q.blocker(in) {
				blocked = true
				break
			}
		}
		if blocked {
			continue
		}
		for si, s := range it.b.Succs {
			if q.edgeBlock != nil && q.edgeBlock(edge{it.b, si}) {
				continue
			}
			if !seen[s] {
				work = append(work, item{s, 0})
			}
		}
	}
	return nil, false
}

func isReturn(in ssa.Instruction) bool {
	_, ok := in.(*ssa.Return)
	return ok
}

func isExit(in ssa.Instruction) bool {
	switch in.(type) {
	case *ssa.Return, *ssa.Panic:
		return true
	}
	return false
}

// ---- guards ----------------------------------------------------------------------

// condEdges finds, for every If in fn, the edges on which cond holds in the
// sense given by classify: classify(v) returns (matches, polarity) where
// polarity=true means "the guard passes when v is true". Negations (!v) are
// unwrapped.
func condEdges(fn *ssa.Function, classify func(v ssa.Value) (bool, bool)) []edge {
	var out []edge
	for _, b := range fn.Blocks {
		if len(b.Instrs) == 0 {
			continue
		}
		ifi, ok := b.Instrs[len(b.Instrs)-1].(*ssa.If)
		if !ok {
			continue
		}
		v := ifi.Cond
		flip := false
		for {
			if u, ok := v.(*ssa.UnOp); ok && u.Op == token.NOT {
				v = u.X
				flip = !flip
				continue
			}
			break
		}
		m, pol := classify(v)
		if !m {
			continue
		}
		if flip {
			pol = !pol
		}
		if pol {
			out = append(out, edge{b, 0})
		} else {
			out = append(out, edge{b, 1})
		}
	}
	return out
}

// guardedBy reports whether every path from fn's entry to use crosses one of
// the passing edges.
func guardedBy(fn *ssa.Function, use ssa.Instruction, passing []edge) bool {
	if len(passing) == 0 {
		return false
	}
	set := map[edge]bool{}
	for _, e := range passing {
		set[e] = true
	}
	_, reach := findPath(pathQuery{fn: fn, target: func(in ssa.Instruction) bool { return in == use },
		edgeBlock: func(e edge) bool { return set[e] }})
	return !reach
}

// ---- value helpers ---------------------------------------------------------------

// stripConv removes ChangeType / Convert / ChangeInterface / MakeInterface wrappers.
func stripConv(v ssa.Value) ssa.Value {
	for {
		switch x := v.(type) {
		case *ssa.ChangeType:
			v = x.X
		case *ssa.Convert:
			v = x.X
		case *ssa.MakeInterface:
			v = x.X
		case *ssa.ChangeInterface:
			v = x.X
		default:
			return v
		}
	}
}

func constInt(v ssa.Value) (int64, bool) {
	c, ok := stripConv(v).(*ssa.Const)
	if !ok || c.Value == nil {
		return 0, false
	}
	if c.Value.Kind() != constant.Int {
		return 0, false
	}
	i, exact := constant.Int64Val(c.Value)
	if !exact {
		u, ok2 := constant.Uint64Val(c.Value)
		if ok2 {
			return int64(u), true
		}
		return 0, false
	}
	return i, true
}

// sameExpr is structural equality of pure SSA expressions (no CSE in go/ssa):
// identical value, or same operator over structurally equal operands;
// conversions are transparent; loads from structurally equal addresses are
// considered equal (assumption recorded in evidence: no intervening store).
func sameExpr(a, b ssa.Value) bool { return sameExprD(a, b, 0) }

func sameExprD(a, b ssa.Value, d int) bool {
	a, b = stripConv(a), stripConv(b)
	if a == b {
		return true
	}
	if d > 12 || a == nil || b == nil {
		return false
	}
	switch x := a.(type) {
	case *ssa.Const:
		y, ok := b.(*ssa.Const)
		if !ok {
			return false
		}
		if x.Value == nil || y.Value == nil {
			return x.Value == nil && y.Value == nil && types.Identical(x.Type(), y.Type())
		}
		return constant.Compare(x.Value, token.EQL, y.Value)
	case *ssa.BinOp:
		y, ok := b.(*ssa.BinOp)
		return ok && x.Op == y.Op && sameExprD(x.X, y.X, d+1) && sameExprD(x.Y, y.Y, d+1)
	case *ssa.UnOp:
		y, ok := b.(*ssa.UnOp)
		return ok && x.Op == y.Op && sameExprD(x.X, y.X, d+1)
	case *ssa.FieldAddr:
		y, ok := b.(*ssa.FieldAddr)
		return ok && x.Field == y.Field && sameExprD(x.X, y.X, d+1)
	case *ssa.Field:
		y, ok := b.(*ssa.Field)
		return ok && x.Field == y.Field && sameExprD(x.X, y.X, d+1)
	case *ssa.IndexAddr:
		y, ok := b.(*ssa.IndexAddr)
		return ok && sameExprD(x.X, y.X, d+1) && sameExprD(x.Index, y.Index, d+1)
	case *ssa.Index:
		y, ok := b.(*ssa.Index)
		return ok && sameExprD(x.X, y.X, d+1) && sameExprD(x.Index, y.Index, d+1)
	case *ssa.Extract:
		y, ok := b.(*ssa.Extract)
		return ok && x.Index == y.Index && x.Tuple == y.Tuple
	case *ssa.Call:
		y, ok := b.(*ssa.Call)
		if !ok {
			return false
		}
		// pure builtin len/cap of the same operand
		bx, okx := x.Call.Value.(*ssa.Builtin)
		by, oky := y.Call.Value.(*ssa.Builtin)
		if okx && oky && bx.Name() == by.Name() && (bx.Name() == "len" || bx.Name() == "cap") {
			return sameExprD(x.Call.Args[0], y.Call.Args[0], d+1)
		}
		return false
	case *ssa.Slice:
		y, ok := b.(*ssa.Slice)
		return ok && sameExprD(x.X, y.X, d+1) && sameOpt(x.Low, y.Low, d) && sameOpt(x.High, y.High, d)
	}
	return false
}

func sameOpt(a, b ssa.Value, d int) bool {
	if a == nil || b == nil {
		return a == nil && b == nil
	}
	return sameExprD(a, b, d+1)
}

// fieldOf: if v is (a load of) FieldAddr/Field of the given field object,
// return the base value.
func fieldOf(v ssa.Value, fld *types.Var) (ssa.Value, bool) {
	v = stripConv(v)
	if u, ok := v.(*ssa.UnOp); ok && u.Op == token.MUL {
		v = u.X
	}
	switch x := v.(type) {
	case *ssa.FieldAddr:
		if structField(x.X.Type(), x.Field) == fld {
			return x.X, true
		}
	case *ssa.Field:
		if structField(x.X.Type(), x.Field) == fld {
			return x.X, true
		}
	}
	return nil, false
}

func structField(t types.Type, i int) *types.Var {
	t = t.Underlying()
	if p, ok := t.(*types.Pointer); ok {
		t = p.Elem().Underlying()
	}
	st, ok := t.(*types.Struct)
	if !ok || i >= st.NumFields() {
		return nil
	}
	return st.Field(i)
}

// fieldAddrVar returns the field object addressed by a FieldAddr / Field.
func fieldAddrVar(v ssa.Value) *types.Var {
	switch x := v.(type) {
	case *ssa.FieldAddr:
		return structField(x.X.Type(), x.Field)
	case *ssa.Field:
		return structField(x.X.Type(), x.Field)
	}
	return nil
}

// accessesField reports whether instr reads or writes the field (through
// FieldAddr or Field).
func instrFieldRefs(in ssa.Instruction) []*types.Var {
	var out []*types.Var
	if v, ok := in.(ssa.Value); ok {
		if f := fieldAddrVar(v); f != nil {
			out = append(out, f)
		}
	}
	return out
}

func describe(in ssa.Instruction) string {
	if v, ok := in.(ssa.Value); ok {
		return fmt.Sprintf("%s = %s", v.Name(), in.String())
	}
	return in.String()
}

// derefType strips one pointer.
func derefType(t types.Type) types.Type {
	if p, ok := t.Underlying().(*types.Pointer); ok {
		return p.Elem()
	}
	return t
}

func namedOf(t types.Type) *types.Named {
	t = derefType(t)
	n, _ := t.(*types.Named)
	return n
}

// typeIs reports whether t (possibly a pointer) is the named type pkgSuffix.Name.
func typeIs(t types.Type, pkgPath, name string) bool {
	n := namedOf(t)
	if n == nil || n.Obj().Pkg() == nil {
		return n != nil && pkgPath == "" && n.Obj().Name() == name
	}
	return n.Obj().Name() == name && n.Obj().Pkg().Path() == pkgPath
}

// retResults resolves the results of a return instruction, undoing go/ssa's
// spilling of results into local cells in functions with defer: a result that
// is a load of a local alloc is replaced by the value last stored to that
// alloc in the same block. Returns nil for the synthetic recover block.
func retResults(r *ssa.Return) []ssa.Value {
	fn := r.Parent()
	if fn.Recover != nil && r.Block() == fn.Recover {
		return nil
	}
	out := make([]ssa.Value, len(r.Results))
	for i, v := range r.Results {
		out[i] = v
		u, ok := v.(*ssa.UnOp)
		if !ok || u.Op != token.MUL {
			continue
		}
		a, ok := u.X.(*ssa.Alloc)
		if !ok {
			continue
		}
		instrs := r.Block().Instrs
		for j := len(instrs) - 1; j >= 0; j-- {
			if st, ok := instrs[j].(*ssa.Store); ok && st.Addr == a {
				out[i] = st.Val
				break
			}
		}
	}
	return out
}

// localCell: if v is a load of a local alloc, or the alloc itself, return the alloc.
func localCell(v ssa.Value) *ssa.Alloc {
	v = stripConv(v)
	if u, ok := v.(*ssa.UnOp); ok && u.Op == token.MUL {
		v = u.X
	}
	a, _ := v.(*ssa.Alloc)
	return a
}

// resolveLocal: load of a local alloc that has exactly one whole-value store
// (its other uses being loads and read-only field addresses) -> that value.
func resolveLocal(v ssa.Value) ssa.Value {
	v = stripConv(v)
	if u, ok := v.(*ssa.UnOp); ok && u.Op == token.MUL {
		if a, ok := u.X.(*ssa.Alloc); ok {
			if sv := singleStore(a); sv != nil {
				return stripConv(sv)
			}
		}
	}
	return v
}

// isRangeFuncGuard: the panic is one of the protocol checks go/ssa (like the compiler) inserts around a
// range-over-func loop (iterator resumed the loop body after it ended, or did not propagate a panic): it can
// only fire for an iterator that breaks the iteration protocol, never for the loop body's own logic.
func isRangeFuncGuard(p *ssa.Panic) bool {
	b := p.Block()
	if b == nil {
		return false
	}
	return strings.HasPrefix(b.Comment, "rangefunc.") || b.Comment == "yield-invalid"
}
