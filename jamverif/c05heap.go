package main

import (
	"go/token"
	"go/types"
	"sort"
	"strings"

	"golang.org/x/tools/go/ssa"
)

// uRel: "lo ≤ hi" (strict: lo < hi) between classified unsigned values.
type uRel struct {
	lo, hi string
	strict bool
}

// relEdges: per relation between classified values, the conditional edges of f on which it holds.
func relEdges(f *ssa.Function, classify func(ssa.Value) string) map[uRel][]edge {
	out := map[uRel][]edge{}
	for _, b := range f.Blocks {
		if len(b.Instrs) == 0 {
			continue
		}
		iff, ok := b.Instrs[len(b.Instrs)-1].(*ssa.If)
		if !ok {
			continue
		}
		cond, t, fl := iff.Cond, 0, 1
		for {
			u, isU := cond.(*ssa.UnOp)
			if !isU || u.Op != token.NOT {
				break
			}
			cond, t, fl = u.X, fl, t
		}
		bo, ok := cond.(*ssa.BinOp)
		if !ok || !isUnsignedT(bo.X.Type()) || !isUnsignedT(bo.Y.Type()) {
			continue
		}
		x, y := classify(bo.X), classify(bo.Y)
		if x == "" || y == "" {
			continue
		}
		add := func(lo, hi string, strict bool, idx int) {
			out[uRel{lo, hi, strict}] = append(out[uRel{lo, hi, strict}], edge{b, idx})
		}
		switch bo.Op {
		case token.LSS:
			add(x, y, true, t)
			add(y, x, false, fl)
		case token.LEQ:
			add(x, y, false, t)
			add(y, x, true, fl)
		case token.GTR:
			add(y, x, true, t)
			add(x, y, false, fl)
		case token.GEQ:
			add(y, x, false, t)
			add(x, y, true, fl)
		case token.EQL:
			add(x, y, false, t)
			add(y, x, false, t)
		case token.NEQ:
			add(x, y, false, fl)
			add(y, x, false, fl)
		}
	}
	return out
}

// c05HeapGrowth: the heap pointer moves only inside sbrk, only upwards, never past heapLimit, and the pages it
// newly covers are fresh zeroed ReadWrite pages.
//
// Per function W that stores Memory.heapPointer (outside a literal under construction):
//   - ownership: W is an sbrk handler or is called only from sbrk handlers (and its address is not taken);
//   - the stored value is old + d (old: the heapPointer of the same memory, d: any request);
//   - on every path to the store the sum is known not to wrap and not to exceed heapLimit, by unsigned reasoning:
//     [old+d ≥ old] or [old+d ≥ d] (a wrapped sum is smaller than both terms), [old+d ≤ L];
//     or [old ≤ L] and [d ≤ L − old] (then L − old does not wrap and old + d ≤ L); or the symmetric pair;
//   - exactly one allocateMemorySegment call: (same memory, old, P(old+d), nil, ReadWrite), made only where
//     P(old) < old+d, and the store is reached only through that call or where old+d ≤ P(old).
//
// Per sbrk handler: it stores the heap pointer itself or through such a writer.
func c05HeapGrowth(c *Ctx) {
	const rule = "C05.heap-growth"
	c.Rule(rule, "Memory.heapPointer is stored only inside the sbrk handlers or helpers only they call (and set at initialisation); every such store writes old+request on paths where the sum provably neither wraps nor exceeds heapLimit (unsigned reasoning over the dominating tests), and maps the newly covered pages ReadWrite from fresh zeroed storage via allocateMemorySegment(mem, old, P(new), nil, ReadWrite) exactly when new > P(old); heapLimit is never stored after construction", 5)
	hp := c.Field("PVM", "Memory.heapPointer")
	hl := c.Field("PVM", "Memory.heapLimit")
	handlers := map[*ssa.Function]bool{}
	for _, n := range []string{"instSbrk", "instSbrkMeta"} {
		if f := c.Fn("PVM", n); f != nil {
			handlers[f] = true
		}
	}
	pFn := c.Fn("PVM", "P")
	allocObj := c.Obj("PVM", "allocateMemorySegment")
	funcs := c.SrcFuncs("PVM")
	// static callers and address-taken uses inside the package (writers are unexported or methods of PVM types;
	// an exported writer called from elsewhere is caught by the module-wide scan below)
	callers := map[*ssa.Function]map[*ssa.Function]bool{}
	addrTaken := map[*ssa.Function]bool{}
	scan := func(f *ssa.Function) {
		allInstrs(f, func(in ssa.Instruction) {
			if call, ok := in.(ssa.CallInstruction); ok {
				if g := call.Common().StaticCallee(); g != nil {
					if callers[g] == nil {
						callers[g] = map[*ssa.Function]bool{}
					}
					callers[g][f] = true
				}
			}
			for _, op := range in.Operands(nil) {
				if op == nil || *op == nil {
					continue
				}
				g, isF := (*op).(*ssa.Function)
				if !isF {
					continue
				}
				if call, ok := in.(ssa.CallInstruction); ok && call.Common().Value == ssa.Value(g) {
					continue
				}
				addrTaken[g] = true
			}
		})
	}
	for _, f := range c.moduleFuncs() {
		scan(f)
	}
	writers := map[*ssa.Function][]*ssa.Store{}
	for _, f := range funcs {
		allInstrs(f, func(in ssa.Instruction) {
			s, ok := in.(*ssa.Store)
			if !ok {
				return
			}
			fa, ok := s.Addr.(*ssa.FieldAddr)
			if !ok {
				return
			}
			fld := structField(fa.X.Type(), fa.Field)
			if _, isLocal := fa.X.(*ssa.Alloc); isLocal {
				return // literal under construction
			}
			if fld == hl {
				c.Bad(rule, funcKey(f)+" · heapLimit store", in.Pos(), "heapLimit modified after construction")
			}
			if fld == hp {
				writers[f] = append(writers[f], s)
			}
		})
	}
	var ws []*ssa.Function
	for f := range writers {
		ws = append(ws, f)
	}
	sort.Slice(ws, func(i, j int) bool { return funcKey(ws[i]) < funcKey(ws[j]) })
	good := map[*ssa.Function]bool{}
	for _, w := range ws {
		owned := handlers[w]
		if !owned && !addrTaken[w] && len(callers[w]) > 0 {
			owned = true
			for g := range callers[w] {
				if !handlers[g] {
					owned = false
				}
			}
		}
		c.Check(owned, rule, funcKey(w)+" · heapPointer writer", w.Pos(), "sbrk handler, or helper called only by the sbrk handlers", "heap pointer written outside the sbrk handlers")
		okAll := owned
		for _, s := range writers[w] {
			if !c05GrowthStore(c, rule, w, s, hp, hl, pFn, allocObj) {
				okAll = false
			}
		}
		if len(writers[w]) != 1 {
			c.Bad(rule, funcKey(w)+" · single store", w.Pos(), "%d stores of heapPointer in one function", len(writers[w]))
			okAll = false
		}
		good[w] = okAll
	}
	var hs []*ssa.Function
	for h := range handlers {
		hs = append(hs, h)
	}
	sort.Slice(hs, func(i, j int) bool { return funcKey(hs[i]) < funcKey(hs[j]) })
	for _, h := range hs {
		via := ""
		if _, isW := writers[h]; isW {
			via = "itself"
		} else {
			allInstrs(h, func(in ssa.Instruction) {
				if call, ok := in.(ssa.CallInstruction); ok {
					if g := call.Common().StaticCallee(); g != nil {
						if _, isW := writers[g]; isW {
							via = funcKey(g)
						}
					}
				}
			})
		}
		c.Check(via != "", rule, funcKey(h)+" · grows the heap", h.Pos(), "moves the heap pointer ("+via+")", "the sbrk handler never moves the heap pointer")
	}
	if len(hs) != 2 {
		c.Bad(rule, "sbrk handlers", token.NoPos, "expected the two sbrk handlers instSbrk and instSbrkMeta, found %d", len(hs))
	}
}

func c05GrowthStore(c *Ctx, rule string, w *ssa.Function, s *ssa.Store, hp, hl *types.Var, pFn *ssa.Function, allocObj types.Object) bool {
	obj := s.Addr.(*ssa.FieldAddr).X
	fieldLoad := func(v ssa.Value, fld *types.Var) bool {
		u, ok := v.(*ssa.UnOp)
		if !ok || u.Op != token.MUL {
			return false
		}
		fa, ok := u.X.(*ssa.FieldAddr)
		return ok && structField(fa.X.Type(), fa.Field) == fld && sameExpr(fa.X, obj)
	}
	sum, isAdd := stripIntConv(resolveLocal(s.Val)).(*ssa.BinOp)
	var d ssa.Value
	if isAdd && sum.Op == token.ADD {
		switch {
		case fieldLoad(stripIntConv(resolveLocal(sum.X)), hp):
			d = sum.Y
		case fieldLoad(stripIntConv(resolveLocal(sum.Y)), hp):
			d = sum.X
		}
	}
	key := funcKey(w)
	if d == nil {
		c.Bad(rule, key+" · bounded growth", s.Pos(), "heap pointer set to %s, which is not the old heap pointer plus a request", exprStr(s.Val, shapeOpts))
		return false
	}
	var classify func(v ssa.Value) string
	classify = func(v ssa.Value) string {
		v = stripIntConv(resolveLocal(v))
		switch {
		case fieldLoad(v, hp):
			return "old"
		case fieldLoad(v, hl):
			return "L"
		case sameExpr(v, d) && stripIntConv(resolveLocal(d)) == v:
			return "d"
		}
		switch x := v.(type) {
		case *ssa.Const:
			if k, ok := constU64(x); ok && k == ^uint64(0) {
				return "MAX"
			}
		case *ssa.BinOp:
			a, b := classify(x.X), classify(x.Y)
			if x.Op == token.ADD && (a == "old" && b == "d" || a == "d" && b == "old") {
				return "V"
			}
			if x.Op == token.SUB && a != "" && b != "" && !strings.ContainsAny(a+b, "-(") {
				return a + "-" + b
			}
		case *ssa.Call:
			if x.Call.StaticCallee() == pFn && pFn != nil && len(x.Call.Args) == 1 {
				if a := classify(x.Call.Args[0]); a != "" && !strings.ContainsAny(a, "-(") {
					return "P(" + a + ")"
				}
			}
		}
		return ""
	}
	rels := relEdges(w, classify)
	holds := func(at ssa.Instruction, lo, hi string, strict bool) bool {
		var es []edge
		es = append(es, rels[uRel{lo, hi, true}]...)
		if !strict {
			es = append(es, rels[uRel{lo, hi, false}]...)
		}
		return guardedBy(w, at, es)
	}
	noWrap := holds(s, "old", "V", false) || holds(s, "d", "V", false) ||
		holds(s, "d", "MAX-old", false) || holds(s, "old", "MAX-d", false)
	leLimit := holds(s, "V", "L", false)
	if holds(s, "old", "L", false) && holds(s, "d", "L-old", false) || holds(s, "d", "L", false) && holds(s, "old", "L-d", false) {
		noWrap, leLimit = true, true
	}
	ok := noWrap && leLimit
	why := ""
	if !noWrap {
		why = "the sum can wrap around"
	}
	if !leLimit {
		if why != "" {
			why += " and "
		}
		why += "the sum can exceed heapLimit"
	}
	c.Check(ok, rule, key+" · bounded growth", s.Pos(), "heapPointer ← heapPointer + request only where the sum neither wraps nor exceeds heapLimit", "heap pointer moved to old + request on a path where "+why)
	// page mapping
	calls := callsIn(w, allocObj)
	okPages, whyP := false, "expected exactly one allocateMemorySegment call"
	if len(calls) == 1 {
		k := calls[0]
		a := k.Common().Args
		okPages, whyP = true, ""
		fail := func(m string) {
			if okPages {
				okPages, whyP = false, m
			}
		}
		if !sameExpr(a[0], obj) {
			fail("the pages are mapped in a different memory")
		}
		if classifyNarrow(classify, a[1]) != "old" {
			fail("the mapped range does not start at the old heap pointer")
		}
		if classifyNarrow(classify, a[2]) != "P(V)" {
			fail("the mapped range does not end at P(new heap pointer)")
		}
		if cst, isC := stripConv(a[3]).(*ssa.Const); !isC || cst.Value != nil {
			fail("the new pages are given initial contents instead of fresh zeroed storage")
		}
		if acc, isC := constInt(a[4]); !isC || acc != 2 {
			fail("the new pages are not mapped ReadWrite")
		}
		ki := k.(ssa.Instruction)
		if !holds(ki, "P(old)", "V", true) {
			fail("pages are (re)mapped although the new heap pointer does not pass the current page boundary")
		}
		// the store is reached only through the call, or where no page is needed
		skip := map[edge]bool{}
		for _, e := range rels[uRel{"V", "P(old)", false}] {
			skip[e] = true
		}
		for _, e := range rels[uRel{"V", "P(old)", true}] {
			skip[e] = true
		}
		if _, reach := findPath(pathQuery{fn: w, target: func(in ssa.Instruction) bool { return in == ssa.Instruction(s) },
			blocker:   func(in ssa.Instruction) bool { return in == ki },
			edgeBlock: func(e edge) bool { return skip[e] }}); reach {
			fail("the heap pointer can pass the page boundary without the new pages being mapped")
		}
	}
	c.Check(okPages, rule, key+" · new pages", s.Pos(), "new heap pages are fresh zeroed ReadWrite pages from the old pointer to P(new), mapped exactly when new > P(old)", whyP)
	return ok && okPages
}

// classifyNarrow: classification through any integer conversion (addresses are passed as 32-bit values).
func classifyNarrow(classify func(ssa.Value) string, v ssa.Value) string {
	for {
		if s := classify(v); s != "" {
			return s
		}
		cv, ok := v.(*ssa.Convert)
		if !ok {
			if ct, ok2 := v.(*ssa.ChangeType); ok2 {
				v = ct.X
				continue
			}
			return ""
		}
		v = cv.X
	}
}

// moduleFuncs: every source-level function of every package of the module.
func (c *Ctx) moduleFuncs() []*ssa.Function {
	var out []*ssa.Function
	for _, p := range c.Pkgs {
		if !strings.HasPrefix(p.PkgPath, modPath) {
			continue
		}
		out = append(out, c.SrcFuncs(strings.TrimPrefix(strings.TrimPrefix(p.PkgPath, modPath), "/"))...)
	}
	return out
}
