package main

// E8: wire-grammar engine. For a function that writes to / reads from the
// protocol codec, every instruction that moves bytes is a *wire event* with a
// label (kind, width/type, receiver field). The control-flow graph projected
// onto the events is a finite automaton; two functions agree on the wire
// format iff the minimal DFAs of their automata are equal. Nothing here looks
// at statement text, temporaries or local names.

import (
	"fmt"
	"go/token"
	"go/types"
	"regexp"
	"sort"
	"strings"

	"golang.org/x/tools/go/ssa"
)

type wireEvent struct {
	in    ssa.Instruction
	kind  string // nat | byte | bytes(n) | rawvar | nested(T) | call(f)
	field string // receiver field the datum belongs to ("" = whole receiver, "?" = unresolved)
	konst string // constant byte written (encode side), "" otherwise
}

func (e *wireEvent) label(withField bool) string {
	if withField {
		return e.kind + "@" + e.field
	}
	return e.kind
}

func isNamedPtr(t types.Type, pkgPath, name string) bool {
	p, ok := t.Underlying().(*types.Pointer)
	if !ok {
		return false
	}
	return typeIs(p.Elem(), pkgPath, name)
}

func byteWidth(t types.Type) int {
	switch u := t.Underlying().(type) {
	case *types.Basic:
		switch u.Kind() {
		case types.Uint8, types.Int8, types.Bool:
			return 1
		case types.Uint16, types.Int16:
			return 2
		case types.Uint32, types.Int32:
			return 4
		case types.Uint64, types.Int64:
			return 8
		}
	case *types.Array:
		w := byteWidth(u.Elem())
		if w > 0 {
			return w * int(u.Len())
		}
	case *types.Struct:
		tot := 0
		for i := 0; i < u.NumFields(); i++ {
			w := byteWidth(u.Field(i).Type())
			if w <= 0 {
				return -1
			}
			tot += w
		}
		return tot
	}
	return -1
}

var reP0Field = regexp.MustCompile(`p0\.([A-Za-z_][A-Za-z0-9_]*)`)

// fieldOfShape extracts the receiver field from a canonical shape that
// mentions the receiver p0.
func fieldOfShape(s string) string {
	if m := reP0Field.FindStringSubmatch(s); m != nil {
		return m[1]
	}
	if strings.Contains(s, "p0") {
		return ""
	}
	return "?"
}

// recvIsStruct: receiver's underlying type is a struct (so fields matter).
func recvIsStruct(f *ssa.Function) bool {
	if f.Signature.Recv() == nil {
		return false
	}
	_, ok := derefType(f.Signature.Recv().Type()).Underlying().(*types.Struct)
	return ok
}

// addrRootField walks an address/value up to the receiver parameter and
// returns the outermost field selected on it.
func addrRootField(v ssa.Value, recv *ssa.Parameter) (string, bool) {
	field := ""
	for i := 0; i < 40; i++ {
		switch x := v.(type) {
		case *ssa.Parameter:
			if x == recv {
				return field, true
			}
			return "", false
		case *ssa.FieldAddr:
			if fv := structField(x.X.Type(), x.Field); fv != nil {
				field = fv.Name()
			}
			v = x.X
		case *ssa.Field:
			if fv := structField(x.X.Type(), x.Field); fv != nil {
				field = fv.Name()
			}
			v = x.X
		case *ssa.IndexAddr:
			v = x.X
		case *ssa.Index:
			v = x.X
		case *ssa.Lookup:
			v = x.X
		case *ssa.UnOp:
			if x.Op != token.MUL {
				return "", false
			}
			v = x.X
		case *ssa.Slice:
			v = x.X
		case *ssa.ChangeType:
			v = x.X
		case *ssa.Convert:
			v = x.X
		default:
			return "", false
		}
	}
	return "", false
}

// destFields: receiver fields that the datum held in v (a local alloc, a
// fresh slice/map, or a scalar) eventually flows into.
func destFields(v ssa.Value, recv *ssa.Parameter) map[string]bool {
	out := map[string]bool{}
	seen := map[ssa.Value]bool{}
	var follow func(v ssa.Value, isAddr bool)
	follow = func(v ssa.Value, isAddr bool) {
		if v == nil || seen[v] {
			return
		}
		seen[v] = true
		refs := v.Referrers()
		if refs == nil {
			return
		}
		for _, r := range *refs {
			switch x := r.(type) {
			case *ssa.UnOp:
				if x.Op == token.MUL && isAddr {
					follow(x, false)
				} else if !isAddr {
					follow(x, false)
				}
			case *ssa.Store:
				if x.Val == v {
					if f, ok := addrRootField(x.Addr, recv); ok {
						out[f] = true
					} else if root := localRoot(x.Addr); root != nil {
						follow(root, true)
					}
				}
			case *ssa.MapUpdate:
				if x.Key == v || x.Value == v {
					if f, ok := addrRootField(x.Map, recv); ok {
						out[f] = true
					} else {
						follow(x.Map, false)
						if root := localRoot(x.Map); root != nil {
							follow(root, true)
						}
					}
				}
			case *ssa.Call:
				if b, ok := x.Call.Value.(*ssa.Builtin); ok && (b.Name() == "append" || b.Name() == "copy") {
					if b.Name() == "append" {
						follow(x, false)
					} else if len(x.Call.Args) == 2 && x.Call.Args[1] == v {
						if f, ok := addrRootField(x.Call.Args[0], recv); ok {
							out[f] = true
						} else if root := localRoot(x.Call.Args[0]); root != nil {
							follow(root, true)
						}
					}
				} else if sc := x.Call.StaticCallee(); sc != nil && !isAddr {
					// pure in-package constructor taking the datum (e.g. MakeBitfieldFromByteSlice)
					if sc.Signature.Results().Len() >= 1 {
						follow(x, false)
					}
				}
			case *ssa.Extract:
				follow(x, false)
			case *ssa.Phi, *ssa.ChangeType, *ssa.Convert, *ssa.MakeInterface, *ssa.Slice, *ssa.BinOp:
				follow(x.(ssa.Value), false)
			case *ssa.MakeSlice, *ssa.MakeMap:
				follow(x.(ssa.Value), false)
			case *ssa.FieldAddr, *ssa.IndexAddr:
				// sub-address of a local: datum written piecewise; the parent is followed by whoever loads it
			}
		}
	}
	_, isAlloc := v.(*ssa.Alloc)
	follow(v, isAlloc)
	return out
}

// localRoot: the local alloc / make an address is rooted in.
func localRoot(v ssa.Value) ssa.Value {
	for i := 0; i < 30; i++ {
		switch x := v.(type) {
		case *ssa.Alloc:
			return x
		case *ssa.MakeSlice:
			return x
		case *ssa.MakeMap:
			return x
		case *ssa.FieldAddr:
			v = x.X
		case *ssa.IndexAddr:
			v = x.X
		case *ssa.Slice:
			v = x.X
		case *ssa.UnOp:
			if x.Op != token.MUL {
				return nil
			}
			v = x.X
		case *ssa.Phi:
			for _, e := range x.Edges {
				if e != ssa.Value(x) {
					if r := localRoot(e); r != nil {
						return r
					}
				}
			}
			return nil
		case *ssa.Call:
			if b, ok := x.Call.Value.(*ssa.Builtin); ok && b.Name() == "append" {
				v = x.Call.Args[0]
				continue
			}
			return nil
		default:
			return nil
		}
	}
	return nil
}

func recvParam(f *ssa.Function) *ssa.Parameter {
	if f.Signature.Recv() != nil && len(f.Params) > 0 {
		return f.Params[0]
	}
	return nil
}

// datumField attributes a datum (value read for encoding, or address/value
// written by decoding) to a receiver field.
func datumField(f *ssa.Function, v ssa.Value, decode bool) string {
	if !recvIsStruct(f) {
		return ""
	}
	recv := recvParam(f)
	if fld, ok := addrRootField(v, recv); ok {
		return fld
	}
	if !decode {
		s := exprStr(v, shapeOpts)
		if fl := fieldOfShape(s); fl != "?" {
			return fl
		}
		// a local list built from the receiver (sorted keys): look at what feeds it
		if root := localRoot(v); root != nil {
			fs := map[string]bool{}
			feeders(root, recv, fs, map[ssa.Value]bool{}, 0)
			if len(fs) == 1 {
				for k := range fs {
					return k
				}
			}
		}
		return "?"
	}
	root := localRoot(v)
	if root == nil {
		root = v
	}
	ds := destFields(root, recv)
	if len(ds) == 1 {
		for k := range ds {
			return k
		}
	}
	if len(ds) == 0 {
		return "?"
	}
	var ks []string
	for k := range ds {
		ks = append(ks, k)
	}
	sort.Strings(ks)
	return strings.Join(ks, "+")
}

// feeders: receiver fields whose contents are stored into the local root.
func feeders(root ssa.Value, recv *ssa.Parameter, out map[string]bool, seen map[ssa.Value]bool, d int) {
	if seen[root] || d > 6 {
		return
	}
	seen[root] = true
	var scan func(v ssa.Value, d int)
	scan = func(v ssa.Value, d int) {
		if v == nil || d > 12 {
			return
		}
		if f, ok := addrRootField(v, recv); ok {
			out[f] = true
			return
		}
		switch x := v.(type) {
		case *ssa.Extract:
			scan(x.Tuple, d+1)
		case *ssa.Next:
			scan(x.Iter, d+1)
		case *ssa.Range:
			scan(x.X, d+1)
		case *ssa.UnOp:
			scan(x.X, d+1)
		case *ssa.Call:
			for _, a := range x.Call.Args {
				scan(a, d+1)
			}
		case *ssa.Phi:
			for _, e := range x.Edges {
				if !seen[e] {
					seen[e] = true
					scan(e, d+1)
				}
			}
		case *ssa.Slice:
			scan(x.X, d+1)
		case *ssa.Alloc:
			feeders(x, recv, out, seen, d+1)
		case *ssa.ChangeType:
			scan(x.X, d+1)
		case *ssa.Convert:
			scan(x.X, d+1)
		}
	}
	refs := root.Referrers()
	if refs == nil {
		return
	}
	for _, r := range *refs {
		switch x := r.(type) {
		case *ssa.Store:
			if x.Addr == root || localRoot(x.Addr) == root {
				scan(x.Val, d)
			}
		}
	}
}

// classifyWire returns the wire event performed by instruction in, or nil.
func (cs codecSide) classifyWire(f *ssa.Function, in ssa.Instruction) *wireEvent {
	ci, ok := in.(ssa.CallInstruction)
	if !ok {
		return nil
	}
	if _, isGo := in.(*ssa.Go); isGo {
		return nil
	}
	cc := ci.Common()
	sc := cc.StaticCallee()
	if sc == nil {
		if cc.IsInvoke() && (cc.Method.Name() == "Encode" || cc.Method.Name() == "Decode") && len(cc.Args) == 1 &&
			(isNamedPtr(cc.Args[0].Type(), cs.pkgPath, "Encoder") || isNamedPtr(cc.Args[0].Type(), cs.pkgPath, "Decoder")) {
			return &wireEvent{in: in, kind: "nested(dynamic)", field: datumField(f, cc.Value, cc.Method.Name() == "Decode")}
		}
		return nil
	}
	name := relName(sc.String())
	encT, decT := "(*"+relName(cs.pkgPath)+".Encoder).", "(*"+relName(cs.pkgPath)+".Decoder)."
	arg := func(i int) ssa.Value {
		if i < len(cc.Args) {
			return cc.Args[i]
		}
		return nil
	}
	switch {
	case name == encT+"EncodeLength" || name == encT+"EncodeInteger":
		return &wireEvent{in: in, kind: "nat", field: datumField(f, arg(1), false)}
	case name == "(*bytes.Buffer).Write":
		return cs.classifyWrite(f, in, arg(1))
	case name == "(*bytes.Buffer).WriteByte" || name == encT+"WriteByte":
		k := ""
		if c, ok := constInt(arg(1)); ok {
			k = fmt.Sprint(c)
		}
		return &wireEvent{in: in, kind: "byte", field: "", konst: k}
	case name == "encoding/binary.Write":
		w := -1
		if a := arg(2); a != nil {
			w = byteWidth(derefType(stripConv(a).Type()))
		}
		return &wireEvent{in: in, kind: fmt.Sprintf("bytes(%d)", w), field: datumField(f, stripConv(arg(2)), false)}
	case name == decT+"DecodeLength" || name == decT+"DecodeInteger" || name == decT+"decodeUintFromReader":
		return &wireEvent{in: in, kind: "nat", field: cs.resultField(f, in)}
	case name == "encoding/binary.Read":
		a := stripConv(arg(2))
		w := byteWidth(derefType(a.Type()))
		return &wireEvent{in: in, kind: fmt.Sprintf("bytes(%d)", w), field: datumField(f, a, true)}
	case name == "(*bytes.Reader).Read" || name == "io.ReadFull":
		a := arg(1)
		return cs.classifyRead(f, in, a)
	case name == "(*bytes.Reader).ReadByte" || name == decT+"ReadPointerFlag" || name == decT+"ReadErrorByte" || name == decT+"ReadLegnthFlag":
		return &wireEvent{in: in, kind: "byte", field: ""}
	}
	// nested Encode/Decode methods
	if sc.Signature.Recv() != nil && sc.Signature.Params().Len() == 1 {
		pt := sc.Signature.Params().At(0).Type()
		if sc.Name() == "Encode" && isNamedPtr(pt, cs.pkgPath, "Encoder") {
			return &wireEvent{in: in, kind: "nested(" + typeShort(sc.Signature.Recv().Type()) + ")", field: datumField(f, arg(0), false)}
		}
		if sc.Name() == "Decode" && isNamedPtr(pt, cs.pkgPath, "Decoder") {
			return &wireEvent{in: in, kind: "nested(" + typeShort(sc.Signature.Recv().Type()) + ")", field: datumField(f, arg(0), true)}
		}
	}
	// any other function that is handed the encoder/decoder moves bytes in a way this engine does not know
	for _, a := range cc.Args {
		if isNamedPtr(a.Type(), cs.pkgPath, "Encoder") || isNamedPtr(a.Type(), cs.pkgPath, "Decoder") {
			switch sc.Name() {
			case "EncodeUintWithLength", "EncodeUint", "DecodeUint", "IdentifyLength", "SetHashSegmentMap":
				return nil // pure helpers: produce/consume byte slices, do not touch the stream
			}
			return &wireEvent{in: in, kind: "call(" + name + ")", field: "?"}
		}
	}
	return nil
}

func typeShort(t types.Type) string {
	n := namedOf(t)
	if n == nil {
		return t.String()
	}
	return n.Obj().Name()
}

// resultField: field that the (uint64, error) result of a natural read flows to.
func (cs codecSide) resultField(f *ssa.Function, in ssa.Instruction) string {
	if !recvIsStruct(f) {
		return ""
	}
	v, ok := in.(ssa.Value)
	if !ok {
		return "?"
	}
	ds := destFields(v, recvParam(f))
	if len(ds) == 1 {
		for k := range ds {
			return k
		}
	}
	if len(ds) == 0 {
		return "?"
	}
	var ks []string
	for k := range ds {
		ks = append(ks, k)
	}
	sort.Strings(ks)
	return strings.Join(ks, "+")
}

func (cs codecSide) classifyWrite(f *ssa.Function, in ssa.Instruction, b ssa.Value) *wireEvent {
	b = stripConv(b)
	// result of a pure integer encoder
	if ex, ok := b.(*ssa.Extract); ok {
		if call, ok := ex.Tuple.(*ssa.Call); ok {
			if sc := call.Call.StaticCallee(); sc != nil {
				switch sc.Name() {
				case "EncodeUintWithLength":
					n := "?"
					if c, ok := constInt(call.Call.Args[2]); ok {
						n = fmt.Sprint(c)
					}
					return &wireEvent{in: in, kind: "bytes(" + n + ")", field: datumField(f, call.Call.Args[1], false)}
				case "EncodeUint":
					return &wireEvent{in: in, kind: "nat", field: datumField(f, call.Call.Args[1], false)}
				}
			}
		}
	}
	if sl, ok := b.(*ssa.Slice); ok {
		x := sl.X
		if at, ok := derefType(x.Type()).Underlying().(*types.Array); ok && sl.Low == nil && sl.High == nil {
			if a, ok := x.(*ssa.Alloc); ok {
				if lit := arrayLiteral(a); lit != nil {
					var ks []string
					allConst := true
					for _, e := range lit {
						if c, ok := constInt(e); ok {
							ks = append(ks, fmt.Sprint(c))
						} else {
							allConst = false
						}
					}
					if allConst && len(lit) == 1 {
						return &wireEvent{in: in, kind: "byte", konst: ks[0]}
					}
					if len(lit) == 1 {
						return &wireEvent{in: in, kind: "byte", field: datumField(f, lit[0], false)}
					}
				}
			}
			return &wireEvent{in: in, kind: fmt.Sprintf("bytes(%d)", byteWidth(at)), field: datumField(f, x, false)}
		}
	}
	if isByteSlice(b.Type()) {
		return &wireEvent{in: in, kind: "rawvar", field: datumField(f, b, false)}
	}
	return &wireEvent{in: in, kind: "write(?)", field: "?"}
}

func (cs codecSide) classifyRead(f *ssa.Function, in ssa.Instruction, b ssa.Value) *wireEvent {
	b = stripConv(b)
	if sl, ok := b.(*ssa.Slice); ok {
		if at, ok := derefType(sl.X.Type()).Underlying().(*types.Array); ok && sl.Low == nil && sl.High == nil {
			return &wireEvent{in: in, kind: fmt.Sprintf("bytes(%d)", byteWidth(at)), field: datumField(f, sl.X, true)}
		}
	}
	if isByteSlice(b.Type()) {
		return &wireEvent{in: in, kind: "rawvar", field: datumField(f, b, true)}
	}
	return &wireEvent{in: in, kind: "read(?)", field: "?"}
}

// ---- error returns -----------------------------------------------------------

// isErrorReturn: the return certainly carries a non-nil error (constructed
// error, or a value on the taken branch of v != nil).
func isErrorReturn(f *ssa.Function, r *ssa.Return) bool {
	res := retResults(r)
	if len(res) == 0 {
		return false
	}
	v := res[len(res)-1]
	if !types.Identical(v.Type(), types.Universe.Lookup("error").Type()) {
		return false
	}
	if c, ok := v.(*ssa.Const); ok {
		return !c.IsNil()
	}
	inner := stripConv(v)
	if call, ok := inner.(*ssa.Call); ok {
		if sc := call.Call.StaticCallee(); sc != nil {
			n := sc.String()
			if n == "fmt.Errorf" || n == "errors.New" {
				return true
			}
		}
	}
	if _, ok := v.(*ssa.MakeInterface); ok {
		return true // a concrete value boxed as error
	}
	pass := condEdges(f, func(cv ssa.Value) (bool, bool) {
		b, ok := cv.(*ssa.BinOp)
		if !ok || (b.Op != token.NEQ && b.Op != token.EQL) {
			return false, false
		}
		isNil := func(x ssa.Value) bool { c, ok := x.(*ssa.Const); return ok && c.IsNil() }
		if (b.X == v && isNil(b.Y)) || (b.Y == v && isNil(b.X)) {
			return true, b.Op == token.NEQ
		}
		return false, false
	})
	return guardedBy(f, r, pass)
}

// ---- automaton -----------------------------------------------------------------

type wireAutomaton struct {
	events []*wireEvent
	// next[i]: indices of NFA states that can follow state i; state 0 is the
	// start, every other state is (event, path facts)
	next    [][]int
	accept  []bool
	stateEv []int // event index of each state (-1 for start)
}

// leafSummaries: for types whose Encode is a straight chain of primitive
// events (no nesting, no branching), the chain. A nested(T) event of such a
// type is spliced as that chain so that inline and delegated codecs compare
// equal.
type leafTable map[string][]string

type codecSide struct {
	pkgPath    string // package declaring Encoder/Decoder
	leaves     leafTable
	shapeFacts bool // conditions keyed by canonical shape (receiver is read-only) instead of by SSA identity
}

func (cs codecSide) instrEvents(f *ssa.Function, in ssa.Instruction) []*wireEvent {
	ev := cs.classifyWire(f, in)
	if ev == nil {
		return nil
	}
	if ev.kind == "nat" {
		// a natural with a constant argument below 128 is one byte on the wire
		if ci, ok := in.(ssa.CallInstruction); ok && len(ci.Common().Args) >= 2 {
			if c, ok := constInt(ci.Common().Args[1]); ok && c >= 0 && c < 128 {
				if sc := ci.Common().StaticCallee(); sc != nil && strings.HasPrefix(sc.Name(), "Encode") {
					ev.kind, ev.konst, ev.field = "byte", fmt.Sprint(c), ""
				}
			}
		}
	}
	if strings.HasPrefix(ev.kind, "nested(") && cs.leaves != nil {
		t := strings.TrimSuffix(strings.TrimPrefix(ev.kind, "nested("), ")")
		if chain, ok := cs.leaves[t]; ok {
			var out []*wireEvent
			for _, k := range chain {
				out = append(out, &wireEvent{in: in, kind: k, field: ev.field})
			}
			return out
		}
	}
	return []*wireEvent{ev}
}

// automatonBusy guards against following recursive helpers.
var automatonBusy = map[*ssa.Function]bool{}

func ssaCallee(in ssa.Instruction) *ssa.Function {
	if ci, ok := in.(ssa.CallInstruction); ok {
		return ci.Common().StaticCallee()
	}
	return nil
}

func skippable(e *wireEvent) bool { return e.kind == "rawvar" || e.kind == "ε" }

func (cs codecSide) automaton(f *ssa.Function) *wireAutomaton {
	a := &wireAutomaton{}
	first := map[ssa.Instruction]int{}
	chainNext := map[int]int{} // event -> next event of the same instruction's chain
	lastOf := map[int]bool{}
	// a package function that is handed the encoder/decoder is followed: its own automaton is spliced in between
	// two silent events at the call (enter, exit), once per state in which the call is reached
	helperAt := map[int]*ssa.Function{} // enter event -> helper
	exitOf := map[int]int{}
	for _, b := range f.Blocks {
		for _, in := range b.Instrs {
			evs := cs.instrEvents(f, in)
			if len(evs) == 1 && strings.HasPrefix(evs[0].kind, "call(") {
				if h := ssaCallee(in); h != nil && len(h.Blocks) > 0 && h.Pkg == f.Pkg && h != f && !automatonBusy[h] {
					k := len(a.events)
					first[in] = k
					a.events = append(a.events, &wireEvent{in: in, kind: "ε", field: ""}, &wireEvent{in: in, kind: "ε", field: ""})
					helperAt[k], exitOf[k] = h, k+1
					lastOf[k+1] = true
					continue
				}
			}
			for i, ev := range evs {
				k := len(a.events)
				if i == 0 {
					first[in] = k
				}
				if i+1 < len(evs) {
					chainNext[k] = k + 1
				} else {
					lastOf[k] = true
				}
				a.events = append(a.events, ev)
			}
		}
	}
	// tracked branch conditions
	type ck struct {
		key  string
		pol  bool
		cond ssa.Value
	}
	ifKey := map[*ssa.BasicBlock]ck{}
	count := map[string]int{}
	for _, b := range f.Blocks {
		if len(b.Instrs) == 0 {
			continue
		}
		if ifi, ok := b.Instrs[len(b.Instrs)-1].(*ssa.If); ok {
			var k string
			var pol bool
			if cs.shapeFacts {
				k, pol = condKey(ifi.Cond)
			} else {
				v := ifi.Cond
				pol = true
				for {
					if u, ok := v.(*ssa.UnOp); ok && u.Op == token.NOT {
						v, pol = u.X, !pol
						continue
					}
					break
				}
				k = fmt.Sprintf("%p", v)
			}
			ifKey[b] = ck{k, pol, ifi.Cond}
			count[k]++
		}
	}
	tracked := map[string]bool{}
	for k, n := range count {
		if n >= 2 {
			tracked[k] = true
		}
	}
	loopInvariantKey := func(k string) bool {
		if !cs.shapeFacts {
			return false
		}
		for _, m := range []string{"[*", "phi(", "next(", "cell(", "Σ", "⊕"} {
			if strings.Contains(k, m) {
				return false
			}
		}
		return true
	}
	parseFacts := func(s string) map[string]bool {
		m := map[string]bool{}
		for _, fct := range strings.Split(s, "\x00") {
			if fct == "" {
				continue
			}
			m[fct[:len(fct)-1]] = fct[len(fct)-1] == '1'
		}
		return m
	}
	fmtFacts := func(m map[string]bool) string {
		var ks []string
		for k, v := range m {
			if v {
				ks = append(ks, k+"1")
			} else {
				ks = append(ks, k+"0")
			}
		}
		sort.Strings(ks)
		return strings.Join(ks, "\x00")
	}
	type skey struct {
		ev    int
		facts string
	}
	ids := map[skey]int{}
	var keys []skey
	addState := func(k skey) int {
		if id, ok := ids[k]; ok {
			return id
		}
		id := len(keys)
		ids[k] = id
		keys = append(keys, k)
		a.next = append(a.next, nil)
		a.accept = append(a.accept, false)
		a.stateEv = append(a.stateEv, k.ev)
		return id
	}
	addState(skey{-1, ""})
	explore := func(state int, b *ssa.BasicBlock, from int, facts0 string) {
		type item struct {
			b     *ssa.BasicBlock
			i     int
			facts string
		}
		seen := map[item]bool{}
		nx := map[int]bool{}
		work := []item{{b, from, facts0}}
		steps := 0
		for len(work) > 0 {
			it := work[len(work)-1]
			work = work[:len(work)-1]
			if it.i == 0 {
				if seen[it] {
					continue
				}
				seen[it] = true
			}
			steps++
			if steps > 100000 {
				break
			}
			stopped := false
			for i := it.i; i < len(it.b.Instrs); i++ {
				in := it.b.Instrs[i]
				if k, ok := first[in]; ok {
					nx[addState(skey{k, it.facts})] = true
					stopped = true
					break
				}
				if r, ok := in.(*ssa.Return); ok {
					if !isErrorReturn(f, r) {
						a.accept[state] = true
					}
					stopped = true
					break
				}
				if _, ok := in.(*ssa.Panic); ok {
					stopped = true
					break
				}
			}
			if stopped {
				continue
			}
			facts := parseFacts(it.facts)
			for si, s := range it.b.Succs {
				nf := facts
				if c, ok := ifKey[it.b]; ok && tracked[c.key] {
					val := (si == 0) == c.pol
					if old, known := facts[c.key]; known && old != val {
						continue
					}
					nf = map[string]bool{}
					for k, v := range facts {
						nf[k] = v
					}
					nf[c.key] = val
				}
				if s.Dominates(it.b) { // back edge
					kept := map[string]bool{}
					for k, v := range nf {
						if loopInvariantKey(k) {
							kept[k] = v
						}
					}
					nf = kept
				}
				work = append(work, item{s, 0, fmtFacts(nf)})
			}
		}
		for k := range nx {
			a.next[state] = append(a.next[state], k)
		}
		sort.Ints(a.next[state])
	}
	manual := map[int]bool{}
	for si := 0; si < len(keys); si++ {
		k := keys[si]
		if manual[si] {
			continue
		}
		if k.ev < 0 {
			if len(f.Blocks) > 0 {
				explore(si, f.Blocks[0], 0, "")
			}
			continue
		}
		if h, ok := helperAt[k.ev]; ok {
			// splice a copy of the helper's automaton: enter -> helper states -> (accepting ones) -> exit
			automatonBusy[f] = true
			ah := cs.automaton(h)
			delete(automatonBusy, f)
			exit := addState(skey{exitOf[k.ev], k.facts})
			local := map[int]int{0: si}
			stateFor := func(j int) int {
				if id, ok := local[j]; ok {
					return id
				}
				e := *ah.events[ah.stateEv[j]]
				a.events = append(a.events, &e)
				id := addState(skey{len(a.events) - 1, fmt.Sprintf("%s\x00h%d", k.facts, si)})
				manual[id] = true
				local[j] = id
				return id
			}
			for j := range ah.next {
				from := stateFor(j)
				for _, t := range ah.next[j] {
					a.next[from] = append(a.next[from], stateFor(t))
				}
				if ah.accept[j] {
					a.next[from] = append(a.next[from], exit)
				}
			}
			continue
		}
		if nxt, ok := chainNext[k.ev]; ok {
			a.next[si] = []int{addState(skey{nxt, k.facts})}
			continue
		}
		ev := a.events[k.ev]
		b := ev.in.Block()
		pos := 0
		for i, in := range b.Instrs {
			if in == ev.in {
				pos = i + 1
			}
		}
		explore(si, b, pos, k.facts)
	}
	// skippable events (variable-length raw bytes may be empty): ε-closure
	for changed := true; changed; {
		changed = false
		for s := range a.next {
			set := map[int]bool{}
			for _, t := range a.next[s] {
				set[t] = true
			}
			for _, t := range a.next[s] {
				if skippable(a.events[a.stateEv[t]]) {
					for _, u := range a.next[t] {
						if !set[u] {
							set[u] = true
							a.next[s] = append(a.next[s], u)
							changed = true
						}
					}
					if a.accept[t] && !a.accept[s] {
						a.accept[s] = true
						changed = true
					}
				}
			}
		}
	}
	// silent events (helper entry/exit) carry no symbol: after the closure above every state that reached one also
	// reaches its successors directly, so the edges into them are dropped
	for s := range a.next {
		kept := a.next[s][:0:0]
		for _, t := range a.next[s] {
			if a.events[a.stateEv[t]].kind != "ε" {
				kept = append(kept, t)
			}
		}
		a.next[s] = kept
	}
	return a
}

// dfa is a deterministic automaton over string labels.
type dfa struct {
	trans  []map[string]int
	accept []bool
}

func (a *wireAutomaton) determinize(label func(*wireEvent) string) *dfa {
	key := func(set []int) string { return fmt.Sprint(set) }
	start := []int{0}
	d := &dfa{}
	ids := map[string]int{}
	var sets [][]int
	add := func(set []int) int {
		k := key(set)
		if id, ok := ids[k]; ok {
			return id
		}
		id := len(sets)
		ids[k] = id
		sets = append(sets, set)
		d.trans = append(d.trans, map[string]int{})
		acc := false
		for _, s := range set {
			if a.accept[s] {
				acc = true
			}
		}
		d.accept = append(d.accept, acc)
		return id
	}
	add(start)
	for i := 0; i < len(sets); i++ {
		by := map[string]map[int]bool{}
		for _, s := range sets[i] {
			for _, t := range a.next[s] {
				l := label(a.events[a.stateEv[t]])
				if by[l] == nil {
					by[l] = map[int]bool{}
				}
				by[l][t] = true
			}
		}
		for l, m := range by {
			var set []int
			for t := range m {
				set = append(set, t)
			}
			sort.Ints(set)
			d.trans[i][l] = add(set)
		}
	}
	return d
}

// canonical returns a canonical text of the minimal DFA (dead states removed).
func (d *dfa) canonical() string {
	n := len(d.trans)
	// live states: can reach an accepting state
	live := make([]bool, n)
	changed := true
	for i := range live {
		live[i] = d.accept[i]
	}
	for changed {
		changed = false
		for i := 0; i < n; i++ {
			if live[i] {
				continue
			}
			for _, t := range d.trans[i] {
				if live[t] {
					live[i] = true
					changed = true
					break
				}
			}
		}
	}
	if !live[0] {
		return "∅"
	}
	// Moore partition refinement
	class := make([]int, n)
	for i := range class {
		if !live[i] {
			class[i] = -1
		} else if d.accept[i] {
			class[i] = 1
		}
	}
	for {
		sig := map[string]int{}
		nc := make([]int, n)
		for i := 0; i < n; i++ {
			if !live[i] {
				nc[i] = -1
				continue
			}
			var ls []string
			for l, t := range d.trans[i] {
				if live[t] {
					ls = append(ls, fmt.Sprintf("%s>%d", l, class[t]))
				}
			}
			sort.Strings(ls)
			s := fmt.Sprintf("%d|%s", class[i], strings.Join(ls, ","))
			id, ok := sig[s]
			if !ok {
				id = len(sig)
				sig[s] = id
			}
			nc[i] = id
		}
		same := true
		// compare partitions (as equivalence relations)
		m := map[int]int{}
		for i := 0; i < n; i++ {
			if !live[i] {
				continue
			}
			if v, ok := m[class[i]]; ok {
				if v != nc[i] {
					same = false
				}
			} else {
				m[class[i]] = nc[i]
			}
		}
		cnt := map[int]bool{}
		for i := 0; i < n; i++ {
			if live[i] {
				cnt[class[i]] = true
			}
		}
		class = nc
		if same && len(sig) == len(cnt) {
			break
		}
	}
	// canonical numbering by BFS from start over sorted labels
	num := map[int]int{class[0]: 0}
	order := []int{0}
	rep := map[int]int{class[0]: 0}
	var lines []string
	for qi := 0; qi < len(order); qi++ {
		s := order[qi]
		var ls []string
		for l, t := range d.trans[s] {
			if live[t] {
				ls = append(ls, l)
			}
		}
		sort.Strings(ls)
		var parts []string
		for _, l := range ls {
			t := d.trans[s][l]
			if _, ok := num[class[t]]; !ok {
				num[class[t]] = len(num)
				rep[class[t]] = t
				order = append(order, t)
			}
			parts = append(parts, fmt.Sprintf("%s→%d", l, num[class[t]]))
		}
		acc := ""
		if d.accept[s] {
			acc = "✓"
		}
		lines = append(lines, fmt.Sprintf("%d%s[%s]", num[class[s]], acc, strings.Join(parts, " ")))
	}
	return strings.Join(lines, " ")
}

// distWord is a label word accepted by exactly one of two DFAs.
type distWord struct {
	word []string
	inA  bool
}

// distinguishAll returns, for every reachable product state in which exactly
// one automaton accepts, a shortest word leading there (at most max words,
// shortest first).
func distinguishAll(a, b *dfa, max int) []distWord {
	type st struct{ x, y int }
	type node struct {
		s    st
		prev int
		lab  string
	}
	start := st{0, 0}
	nodes := []node{{start, -1, ""}}
	seen := map[st]bool{start: true}
	accOf := func(d *dfa, i int) bool { return i >= 0 && d.accept[i] }
	var out []distWord
	for qi := 0; qi < len(nodes) && len(out) < max; qi++ {
		s := nodes[qi].s
		if accOf(a, s.x) != accOf(b, s.y) {
			var w []string
			for k := qi; k > 0; k = nodes[k].prev {
				w = append([]string{nodes[k].lab}, w...)
			}
			out = append(out, distWord{w, accOf(a, s.x)})
		}
		labs := map[string]bool{}
		if s.x >= 0 {
			for l := range a.trans[s.x] {
				labs[l] = true
			}
		}
		if s.y >= 0 {
			for l := range b.trans[s.y] {
				labs[l] = true
			}
		}
		var ls []string
		for l := range labs {
			ls = append(ls, l)
		}
		sort.Strings(ls)
		for _, l := range ls {
			nx, ny := -1, -1
			if s.x >= 0 {
				if t, ok := a.trans[s.x][l]; ok {
					nx = t
				}
			}
			if s.y >= 0 {
				if t, ok := b.trans[s.y][l]; ok {
					ny = t
				}
			}
			t := st{nx, ny}
			if !seen[t] {
				seen[t] = true
				nodes = append(nodes, node{t, qi, l})
			}
		}
	}
	return out
}

func (a *wireAutomaton) eventList(withField bool) string {
	var s []string
	for _, e := range a.events {
		s = append(s, e.label(withField))
	}
	return strings.Join(s, " ")
}

// isPrimitiveKind: event kinds that move bytes directly.
func isPrimitiveKind(k string) bool {
	return k == "nat" || k == "byte" || k == "rawvar" || (strings.HasPrefix(k, "bytes(") && !strings.Contains(k, "?") && !strings.Contains(k, "-1"))
}

// computeLeaves: fixpoint of "Encode is a straight chain of primitive events
// executed on every successful path".
func (cs codecSide) computeLeaves(enc map[string]*ssa.Function) leafTable {
	leaves := leafTable{}
	for round := 0; round < 6; round++ {
		changed := false
		cs.leaves = leaves
		for name, f := range enc {
			if _, ok := leaves[name]; ok {
				continue
			}
			if chain, ok := cs.straightChain(f); ok && len(chain) > 0 && len(chain) <= 4 {
				leaves[name] = chain
				changed = true
			}
		}
		if !changed {
			break
		}
	}
	return leaves
}

func (cs codecSide) straightChain(f *ssa.Function) ([]string, bool) {
	type evAt struct {
		b   *ssa.BasicBlock
		pos int
		evs []*wireEvent
	}
	var list []evAt
	for _, b := range f.Blocks {
		for _, s := range b.Succs {
			if s.Dominates(b) {
				return nil, false // loop
			}
		}
		for i, in := range b.Instrs {
			if evs := cs.instrEvents(f, in); evs != nil {
				for _, e := range evs {
					if !isPrimitiveKind(e.kind) {
						return nil, false
					}
				}
				list = append(list, evAt{b, i, evs})
			}
		}
	}
	sort.SliceStable(list, func(i, j int) bool {
		if list[i].b == list[j].b {
			return list[i].pos < list[j].pos
		}
		return list[i].b.Dominates(list[j].b)
	})
	for i := 0; i+1 < len(list); i++ {
		if list[i].b != list[i+1].b && !list[i].b.Dominates(list[i+1].b) {
			return nil, false
		}
	}
	if len(list) == 0 {
		return nil, false
	}
	last := list[len(list)-1]
	ok := true
	allInstrs(f, func(in ssa.Instruction) {
		if r, isR := in.(*ssa.Return); isR && !isErrorReturn(f, r) {
			if !(last.b == r.Block() || last.b.Dominates(r.Block())) {
				ok = false
			}
		}
	})
	if !ok {
		return nil, false
	}
	var chain []string
	for _, e := range list {
		for _, ev := range e.evs {
			chain = append(chain, ev.kind)
		}
	}
	return chain, true
}

// ---- loop trip counts ----------------------------------------------------------

// loopCounts describes, for every natural loop of f that contains wire events,
// where its trip count comes from: "prefixed" (a natural written/read just
// before carries it), "fixed:<expr>" (a protocol parameter or constant, with the
// encoder checking len == that parameter), or "?" (not recognised).
// The descriptor is attached to the receiver field the loop's events carry.
func (cs codecSide) loopCounts(f *ssa.Function, decode bool) map[string]string {
	out := map[string]string{}
	lh := loopHeaders(f)
	// events per loop header
	evField := map[*ssa.BasicBlock]string{}
	for _, b := range f.Blocks {
		for _, in := range b.Instrs {
			ev := cs.classifyWire(f, in)
			if ev == nil {
				continue
			}
			for h := range lh[b] {
				// innermost loops only: a header that contains no other header of this block
				inner := true
				for h2 := range lh[b] {
					if h2 != h && lh[h2][h] {
						inner = false
					}
				}
				if inner {
					if old, seen := evField[h]; !seen || ((old == "" || old == "?") && ev.field != "" && ev.field != "?") {
						evField[h] = ev.field
					}
				}
			}
		}
	}
	for h, field := range evField {
		// the loop condition: an If in the header (or in a rotated loop's latch) comparing an index with a bound
		var bound ssa.Value
		for b := range lhBlocks(lh, h) {
			ifi, ok := b.Instrs[len(b.Instrs)-1].(*ssa.If)
			if !ok {
				continue
			}
			bo, ok := ifi.Cond.(*ssa.BinOp)
			if ok && (bo.Op == token.GTR || bo.Op == token.NEQ) {
				// a countdown: remaining := n; remaining > 0; remaining-- runs n times
				if p, isP := stripConv(bo.X).(*ssa.Phi); isP && p.Block() == h {
					if z, isC := constInt(bo.Y); isC && z == 0 {
						var init ssa.Value
						okDown := true
						for i, e := range p.Edges {
							if !lh[h.Preds[i]][h] {
								init = e
								continue
							}
							sub, isSub := stripConv(e).(*ssa.BinOp)
							if !isSub || sub.Op != token.SUB || stripConv(sub.X) != ssa.Value(p) {
								okDown = false
								continue
							}
							if k, isK := constInt(sub.Y); !isK || k != 1 {
								okDown = false
							}
						}
						if okDown && init != nil {
							bound = init
						}
					}
				}
				continue
			}
			if !ok || bo.Op != token.LSS {
				continue
			}
			if p, ok := stripConv(bo.X).(*ssa.Phi); ok && lh[p.Block()][h] {
				bound = bo.Y
			} else if add, ok := stripConv(bo.X).(*ssa.BinOp); ok && add.Op == token.ADD {
				if p, ok := stripConv(add.X).(*ssa.Phi); ok && lh[p.Block()][h] {
					bound = bo.Y
				}
			}
		}
		desc := "?"
		if bound != nil {
			desc = cs.countSource(f, bound, decode)
		}
		key := field
		if old, dup := out[key]; dup && old != desc {
			desc = old + "|" + desc
		}
		out[key] = desc
	}
	return out
}

func lhBlocks(lh map[*ssa.BasicBlock]map[*ssa.BasicBlock]bool, h *ssa.BasicBlock) map[*ssa.BasicBlock]bool {
	out := map[*ssa.BasicBlock]bool{}
	for b, hs := range lh {
		if hs[h] {
			out[b] = true
		}
	}
	return out
}

// countSource classifies a loop bound.
func (cs codecSide) countSource(f *ssa.Function, bound ssa.Value, decode bool) string {
	b := stripConv(bound)
	if k, ok := constInt(b); ok {
		return fmt.Sprintf("fixed:%d", k)
	}
	// protocol parameter (package-level variable/constant)
	if u, ok := b.(*ssa.UnOp); ok {
		if g, ok := u.X.(*ssa.Global); ok {
			return "fixed:" + g.Name()
		}
	}
	if decode {
		// the decoded count
		if src := wireOrigin(b, map[ssa.Value]bool{}, 0); src == "DecodeLength" || src == "DecodeInteger" || src == "decodeUintFromReader" {
			return "prefixed"
		}
		// range over a slice made with a fixed/decoded size
		if call, ok := b.(*ssa.Call); ok {
			if bi, ok := call.Call.Value.(*ssa.Builtin); ok && bi.Name() == "len" {
				if ms, ok := stripConv(call.Call.Args[0]).(*ssa.MakeSlice); ok {
					return cs.countSource(f, ms.Len, decode)
				}
			}
		}
		return "?"
	}
	// encode: len(x) — prefixed if some EncodeLength/EncodeInteger event is fed len of the same x; fixed:C if an If compares len(x) with C
	call, ok := b.(*ssa.Call)
	if !ok {
		return "?"
	}
	bi, ok := call.Call.Value.(*ssa.Builtin)
	if !ok || bi.Name() != "len" {
		return "?"
	}
	subject := exprStr(call.Call.Args[0], shapeOpts)
	// a local list of keys built by ranging a receiver map: the count is the map's
	if root := localRoot(stripConv(call.Call.Args[0])); root != nil {
		if m := rangedMap(root); m != nil {
			subject = exprStr(m, shapeOpts)
		}
	}
	res := "len-unchecked"
	allInstrs(f, func(in ssa.Instruction) {
		switch x := in.(type) {
		case *ssa.Call:
			if sc := x.Call.StaticCallee(); sc != nil && (sc.Name() == "EncodeLength" || sc.Name() == "EncodeInteger") && len(x.Call.Args) == 2 {
				if exprStr(x.Call.Args[1], shapeOpts) == "u64(len("+subject+"))" || exprStr(stripConv(x.Call.Args[1]), shapeOpts) == "len("+subject+")" {
					res = "prefixed"
				}
			}
		case *ssa.If:
			if bo, ok := x.Cond.(*ssa.BinOp); ok && (bo.Op == token.NEQ || bo.Op == token.EQL) {
				l, r := stripConv(bo.X), stripConv(bo.Y)
				isLen := func(v ssa.Value) bool { return exprStr(v, shapeOpts) == "len("+subject+")" }
				other := ssa.Value(nil)
				if isLen(l) {
					other = r
				} else if isLen(r) {
					other = l
				}
				if other != nil && res != "prefixed" {
					if k, ok := constInt(other); ok {
						res = fmt.Sprintf("fixed:%d", k)
					} else if u, ok := other.(*ssa.UnOp); ok {
						if g, ok := u.X.(*ssa.Global); ok {
							res = "fixed:" + g.Name()
						}
					}
				}
			}
		}
	})
	return res
}

// rangedMap: the local slice is filled by appending keys obtained from ranging a map: that map.
func rangedMap(root ssa.Value) ssa.Value {
	var out ssa.Value
	seen := map[ssa.Value]bool{}
	var scan func(v ssa.Value, d int)
	scan = func(v ssa.Value, d int) {
		if v == nil || seen[v] || d > 12 || out != nil {
			return
		}
		seen[v] = true
		switch x := v.(type) {
		case *ssa.Extract:
			scan(x.Tuple, d+1)
		case *ssa.Next:
			scan(x.Iter, d+1)
		case *ssa.Range:
			if _, isMap := x.X.Type().Underlying().(*types.Map); isMap {
				out = x.X
			}
		case *ssa.Convert:
			scan(x.X, d+1)
		case *ssa.ChangeType:
			scan(x.X, d+1)
		case *ssa.UnOp:
			scan(x.X, d+1)
		case *ssa.Slice:
			scan(x.X, d+1)
		case *ssa.Alloc:
			for _, r := range *x.Referrers() {
				if st, ok := r.(*ssa.Store); ok {
					scan(st.Val, d+1)
				}
				if ia, ok := r.(*ssa.IndexAddr); ok {
					for _, r2 := range *ia.Referrers() {
						if st, ok := r2.(*ssa.Store); ok {
							scan(st.Val, d+1)
						}
					}
				}
			}
		case *ssa.Call:
			for _, a := range x.Call.Args {
				scan(a, d+1)
			}
		case *ssa.Phi:
			for _, e := range x.Edges {
				scan(e, d+1)
			}
		}
	}
	if refs := root.Referrers(); refs != nil {
		for _, r := range *refs {
			if st, ok := r.(*ssa.Store); ok {
				scan(st.Val, 0)
			}
		}
	}
	return out
}
