package main

import (
	"fmt"
	"regexp"
	"sort"
	"strings"

	"golang.org/x/tools/go/ssa"
)

// Shape tables (E6/E7): expected canonical expressions for designated output
// slots of a function. Slots: "ret" / "ret#i" (return results, struct results
// flattened to "ret.Field"), "arg:<callee>#i" (argument of a call).

var shapeOpts = exprOpts{showConv: true, sums: true}

// returnShapes collects, per slot, the set of distinct canonical shapes over
// all return instructions of f (struct-literal results flattened by field).
func returnShapes(f *ssa.Function) map[string][]string { return returnShapesO(f, shapeOpts) }

// robustOpts: rendering that is stable under helper extraction / inlining,
// buffer pre-sizing, and append-vs-fill construction.
var robustOpts = exprOpts{showConv: true, sums: true, inline: helperInlinableLoops, cat: true, fills: true}

func returnShapesO(f *ssa.Function, opts exprOpts) map[string][]string {
	acc := map[string]map[string]bool{}
	add := func(slot, shape string) {
		if acc[slot] == nil {
			acc[slot] = map[string]bool{}
		}
		acc[slot][shape] = true
	}
	allInstrs(f, func(in ssa.Instruction) {
		r, ok := in.(*ssa.Return)
		if !ok {
			return
		}
		res := retResults(r)
		for i, v := range res {
			slot := "ret"
			if len(res) > 1 {
				slot = fmt.Sprintf("ret#%d", i)
			}
			if flds := structLiteralFields(v); len(flds) > 0 {
				for k, fv := range flds {
					add(slot+"."+k, exprStr(fv, opts))
				}
				continue
			}
			add(slot, exprStr(v, opts))
		}
	})
	out := map[string][]string{}
	for k, m := range acc {
		for s := range m {
			out[k] = append(out[k], s)
		}
		sort.Strings(out[k])
	}
	return out
}

// checkShapes compares slots against an expected table. Each expected entry
// lists the acceptable shapes for the slot (all observed shapes must be in
// the list and at least one must be observed).
func (c *Ctx) checkShapes(rule, fnKey string, f *ssa.Function, got map[string][]string, want map[string][]string) {
	if f != nil && !shapesSatisfy(got, want) {
		// second view: helpers the table does not name are seen through (a part of the function moved into a helper is not a change of what it computes)
		var named []string
		for _, ws := range want {
			named = append(named, ws...)
		}
		tableText := strings.Join(named, " ;; ")
		o := shapeOpts
		o.inline = func(g *ssa.Function) bool {
			if !helperInlinableLoops(g) || g == f {
				return false
			}
			n := relName(g.String())
			return !strings.Contains(tableText, n+"(") && !strings.Contains(tableText, abbr(n)+"(")
		}
		merged := map[string][]string{}
		for k, v := range got {
			merged[k] = v
		}
		of := o
		of.fills = true
		for _, alt := range []map[string][]string{returnShapesO(f, o), abbrMap(returnShapesO(f, o)), returnShapesO(f, of), abbrMap(returnShapesO(f, of))} {
			for slot, ws := range want {
				one := map[string][]string{slot: ws}
				if !shapesSatisfy(merged, one) && shapesSatisfy(alt, one) {
					merged[slot] = alt[slot]
				}
			}
		}
		got = merged
	}
	keys := make([]string, 0, len(want))
	for k := range want {
		keys = append(keys, k)
	}
	sort.Strings(keys)
	for _, slot := range keys {
		// alternatives merged by control flow (phi(a | b)) denote the same set as a and b separately
		var g, w []string
		// address-of markers are dropped on both sides: a field reached through &x and through x is the same location
		for _, x := range got[slot] {
			g = append(g, expandAlts(looseForm(x))...)
		}
		for _, x := range want[slot] {
			w = append(w, expandAlts(looseForm(x))...)
		}
		g, w = uniqSorted(g), uniqSorted(w)
		ok := len(g) > 0
		for _, s := range g {
			found := false
			for _, e := range w {
				if s == e {
					found = true
				}
			}
			if !found {
				ok = false
			}
		}
		key := fnKey + " · " + slot
		if ok {
			c.OK(rule, key, f.Pos(), "%s ← %s", slot, strings.Join(g, " | "))
		} else {
			c.Bad(rule, key, f.Pos(), "%s is derived as [%s]; the specification table requires [%s]", slot, strings.Join(g, " | "), strings.Join(w, " | "))
		}
	}
}

// dumpShapes prints observed shapes (development aid: JAMVERIF_DUMP=1).
func dumpShapes(name string, m map[string][]string) {
	keys := make([]string, 0, len(m))
	for k := range m {
		keys = append(keys, k)
	}
	sort.Strings(keys)
	for _, k := range keys {
		fmt.Printf("SHAPE %s | %s | %q\n", name, k, m[k])
	}
}

// callArgShapes: shapes of argument idx of every call to callee inside f.
func callArgShapes(f *ssa.Function, isCallee func(ssa.CallInstruction) bool, idx int) []string {
	set := map[string]bool{}
	for _, fn := range withClosures(f) {
		allInstrs(fn, func(in ssa.Instruction) {
			ci, ok := in.(ssa.CallInstruction)
			if !ok || !isCallee(ci) {
				return
			}
			args := ci.Common().Args
			if idx < len(args) {
				set[exprStr(args[idx], shapeOpts)] = true
			}
		})
	}
	var out []string
	for s := range set {
		out = append(out, s)
	}
	sort.Strings(out)
	return out
}

// checkShapeContains: each observed shape of the slot must contain all the
// listed fragments (in order). Used where the full shape embeds a long
// uninterpreted call whose exact argument list is not part of the rule.
func (c *Ctx) checkShapeContains(rule, fnKey string, f *ssa.Function, got map[string][]string, want map[string][]string) {
	keys := make([]string, 0, len(want))
	for k := range want {
		keys = append(keys, k)
	}
	sort.Strings(keys)
	for _, slot := range keys {
		g := got[slot]
		ok := len(g) > 0
		for _, s := range g {
			rest := s
			for i, frag := range want[slot] {
				j := strings.Index(rest, frag)
				if j < 0 || (i == 0 && len(want[slot]) > 1 && j != 0) {
					ok = false
					break
				}
				rest = rest[j+len(frag):]
			}
			if len(want[slot]) == 1 && s != want[slot][0] {
				ok = false
			}
		}
		key := fnKey + " · " + slot
		if ok {
			c.OK(rule, key, f.Pos(), "%s ← %s", slot, strings.Join(g, " | "))
		} else {
			c.Bad(rule, key, f.Pos(), "%s is derived as [%s]; required form: %s", slot, strings.Join(g, " | "), strings.Join(want[slot], " … "))
		}
	}
}

// abbr shortens the ubiquitous chain-state accessor chains in rendered shapes.
func abbr(s string) string {
	r := strings.NewReplacer(
		"(*internal/blockchain.ChainState).GetPosteriorStates(internal/blockchain.GetInstance())", "POST",
		"(*internal/blockchain.ChainState).GetPriorStates(internal/blockchain.GetInstance())", "PRIOR",
		"(*internal/blockchain.ChainState).GetIntermediateStates(internal/blockchain.GetInstance())", "INTER",
		"(*internal/blockchain.ChainState).GetLatestBlock(internal/blockchain.GetInstance())", "BLOCK",
		"(*internal/blockchain.PosteriorStates).", "post.",
		"(*internal/blockchain.PriorStates).", "prior.",
		"(*internal/blockchain.IntermediateStates).", "inter.",
		"internal/utilities/", "",
		"internal/types.", "types.",
	)
	return r.Replace(s)
}

func abbrAll(xs []string) []string {
	out := make([]string, len(xs))
	for i, x := range xs {
		out[i] = abbr(x)
	}
	sort.Strings(out)
	return out
}

func abbrMap(m map[string][]string) map[string][]string {
	out := map[string][]string{}
	for k, v := range m {
		out[k] = abbrAll(v)
	}
	return out
}

// shapesSatisfy: every wanted slot is observed and all observed alternatives are allowed.
func shapesSatisfy(got, want map[string][]string) bool {
	for slot, ws := range want {
		var g, w []string
		for _, x := range got[slot] {
			g = append(g, expandAlts(looseForm(x))...)
		}
		for _, x := range ws {
			w = append(w, expandAlts(looseForm(x))...)
		}
		if len(g) == 0 {
			return false
		}
		allowed := map[string]bool{}
		for _, x := range w {
			allowed[x] = true
		}
		for _, x := range g {
			if !allowed[x] {
				return false
			}
		}
	}
	return true
}

var cellParamRe = regexp.MustCompile(`cell\((p\d+)\)`)

// looseForm drops distinctions that do not change what a location or value is:
// address-of markers and the local cell a by-value parameter is spilled into.
func looseForm(x string) string {
	// append-in-a-loop onto an empty slice and indexed fill of a pre-sized one denote the same sequence
	// the value of a two-result map lookup is the value of the plain lookup
	x = strings.ReplaceAll(x, "]#0", "]")
	return normEach(cellParamRe.ReplaceAllString(strings.ReplaceAll(x, "&", ""), "$1"))
}
