package main

import (
	"fmt"
	"go/token"
	"go/types"
	"strings"

	"golang.org/x/tools/go/ssa"
)

// E4 (type-directed): deep-copy completeness.

func containsRef(t types.Type, seen map[types.Type]bool) bool {
	if seen[t] {
		return false
	}
	seen[t] = true
	if isByteSlice(t) {
		return false // byte payloads are never written in place
	}
	switch u := t.Underlying().(type) {
	case *types.Pointer, *types.Map, *types.Slice, *types.Chan, *types.Signature, *types.Interface:
		return true
	case *types.Struct:
		for i := 0; i < u.NumFields(); i++ {
			if containsRef(u.Field(i).Type(), seen) {
				return true
			}
		}
	case *types.Array:
		return containsRef(u.Elem(), seen)
	}
	return false
}

func hasRef(t types.Type) bool { return containsRef(t, map[types.Type]bool{}) }

func isByteSlice(t types.Type) bool {
	s, ok := t.Underlying().(*types.Slice)
	if !ok {
		return false
	}
	b, ok := s.Elem().Underlying().(*types.Basic)
	return ok && b.Kind() == types.Uint8
}

// shareable: a value of this type may be copied by value from the origin
// without creating mutable aliasing: reference-free, or a []byte payload
// (byte payloads are never written in place by host calls).
func shareable(t types.Type) bool { return !hasRef(t) || isByteSlice(t) }

type dcAnalysis struct {
	f       *ssa.Function
	tainted map[ssa.Value]bool
	holder  map[*ssa.Alloc]bool // local variable cells that received a whole tainted value
}

func (a *dcAnalysis) isTainted(v ssa.Value) bool { return a.taint(v, 0) }

func (a *dcAnalysis) taint(v ssa.Value, d int) bool {
	if v == nil || d > 40 {
		return false
	}
	if t, ok := a.tainted[v]; ok {
		return t
	}
	a.tainted[v] = false // cycle guard
	res := false
	switch x := v.(type) {
	case *ssa.Parameter:
		res = len(a.f.Params) > 0 && x == a.f.Params[0]
	case *ssa.UnOp:
		if x.Op == token.MUL {
			if al, isAlloc := x.X.(*ssa.Alloc); isAlloc {
				res = a.holder[al] // local variable: tainted only if it holds a whole value copied from the origin
			} else {
				res = a.taint(x.X, d+1)
			}
		} else {
			res = a.taint(x.X, d+1)
		}
	case *ssa.FieldAddr:
		if al, isAlloc := x.X.(*ssa.Alloc); isAlloc {
			res = a.holder[al]
		} else {
			res = a.taint(x.X, d+1)
		}
	case *ssa.IndexAddr:
		res = a.taint(x.X, d+1)
	case *ssa.Field:
		res = a.taint(x.X, d+1)
	case *ssa.Index:
		res = a.taint(x.X, d+1)
	case *ssa.Lookup:
		res = a.taint(x.X, d+1)
	case *ssa.Slice:
		res = a.taint(x.X, d+1)
	case *ssa.ChangeType:
		res = a.taint(x.X, d+1)
	case *ssa.Convert:
		res = a.taint(x.X, d+1)
	case *ssa.MakeInterface:
		res = a.taint(x.X, d+1)
	case *ssa.Extract:
		res = a.taint(x.Tuple, d+1)
	case *ssa.Next:
		res = a.taint(x.Iter, d+1)
	case *ssa.Range:
		res = a.taint(x.X, d+1)
	case *ssa.Phi:
		for _, e := range x.Edges {
			if a.taint(e, d+1) {
				res = true
			}
		}
	case *ssa.Call:
		// results of calls are fresh unless it is a shallow clone helper (handled at the sink)
		res = false
	}
	a.tainted[v] = res
	return res
}

// checkDeepCopy analyses one DeepCopy-like method: receiver = origin.
func (c *Ctx) checkDeepCopy(rule string, f *ssa.Function, allowZero map[string]string) {
	a := &dcAnalysis{f: f, tainted: map[ssa.Value]bool{}, holder: map[*ssa.Alloc]bool{}}
	// whole-value stores of origin-derived data into local variable cells (range variables, temporaries)
	for changed := true; changed; {
		changed = false
		allInstrs(f, func(in ssa.Instruction) {
			if st, ok := in.(*ssa.Store); ok {
				if al, isAlloc := st.Addr.(*ssa.Alloc); isAlloc && !a.holder[al] {
					a.tainted = map[ssa.Value]bool{}
					if a.isTainted(st.Val) {
						a.holder[al] = true
						changed = true
					}
				}
			}
		})
	}
	a.tainted = map[ssa.Value]bool{}
	key := funcKey(f)
	n := 0
	report := func(in ssa.Instruction, what string, t types.Type) {
		c.Bad(rule, fmt.Sprintf("%s · %s %s", key, what, relName(types.TypeString(t, nil))), in.Pos(),
			"the copy shares mutable storage with the original: %s of type %s is taken from the receiver by value (a later in-place write to either side is visible in the other)", what, relName(types.TypeString(t, nil)))
	}
	allInstrs(f, func(in ssa.Instruction) {
		switch x := in.(type) {
		case *ssa.Store:
			if _, whole := x.Addr.(*ssa.Alloc); whole {
				return // local variable cell: not part of the result graph by itself
			}
			if a.isTainted(x.Val) {
				n++
				if !shareable(x.Val.Type()) {
					report(in, "stored value", x.Val.Type())
				}
			}
		case *ssa.MapUpdate:
			if a.isTainted(x.Value) {
				n++
				if !shareable(x.Value.Type()) {
					report(in, "map value", x.Value.Type())
				}
			}
		case *ssa.Return:
			for _, r := range retResults(x) {
				if a.isTainted(r) {
					n++
					if !shareable(r.Type()) {
						report(in, "returned value", r.Type())
					}
				}
			}
		case *ssa.Call:
			cc := x.Call
			if b, ok := cc.Value.(*ssa.Builtin); ok {
				switch b.Name() {
				case "copy":
					if a.isTainted(cc.Args[1]) {
						n++
						if el := elemType(cc.Args[1].Type()); el != nil && !shareable(el) {
							report(in, "copy() element", el)
						}
					}
				case "append":
					for _, arg := range cc.Args[1:] {
						if a.isTainted(arg) {
							n++
							if el := elemType(arg.Type()); el != nil && !shareable(el) {
								report(in, "appended element", el)
							}
						}
					}
				}
				return
			}
			if sc := cc.StaticCallee(); sc != nil {
				name := sc.String()
				if sc.Origin() != nil {
					name = sc.Origin().String()
				}
				switch {
				case strings.HasPrefix(name, "maps.Clone"), strings.HasPrefix(name, "maps.Copy"), strings.HasPrefix(name, "slices.Clone"):
					src := cc.Args[len(cc.Args)-1]
					if a.isTainted(src) {
						n++
						if el := elemType(src.Type()); el != nil && !shareable(el) {
							report(in, name+" element", el)
						}
					}
				}
			}
		}
	})
	// every field of the returned struct is set
	allInstrs(f, func(in ssa.Instruction) {
		r, ok := in.(*ssa.Return)
		if !ok {
			return
		}
		for _, res := range retResults(r) {
			st, ok := res.Type().Underlying().(*types.Struct)
			if !ok {
				continue
			}
			flds := structLiteralFields(res)
			for i := 0; i < st.NumFields(); i++ {
				name := st.Field(i).Name()
				set := false
				for k := range flds {
					if k == name || strings.HasPrefix(k, name+".") {
						set = true
					}
				}
				if why, ok := allowZero[name]; ok && !set {
					c.OK(rule, key+" · field "+name, in.Pos(), "left zero by design: %s", why)
					continue
				}
				c.Check(set, rule, key+" · field "+name, in.Pos(), "field set in the copy", "field "+name+" of the copy is never set (it silently resets to zero on every checkpoint)")
			}
		}
	})
	if n == 0 {
		c.Bad(rule, key+" · coverage", f.Pos(), "no value flowing from the receiver into the result was found: the analysis did not recognise this function's shape")
	} else {
		c.OK(rule, key+" · flows", f.Pos(), "%d value flows from the original into the copy examined; all are of reference-free or []byte type", n)
	}
}

func elemType(t types.Type) types.Type {
	switch u := t.Underlying().(type) {
	case *types.Slice:
		return u.Elem()
	case *types.Map:
		return u.Elem()
	case *types.Array:
		return u.Elem()
	case *types.Pointer:
		return elemType(u.Elem())
	}
	return nil
}
