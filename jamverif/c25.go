package main

import (
	"fmt"
	"go/ast"
	"go/token"
	"go/types"
	"os"
	"strings"

	"golang.org/x/tools/go/packages"
	"golang.org/x/tools/go/ssa"
)

const rhPkg = "internal/recent_history"

func checkC25(c *Ctx) (string, []string) {
	dump := os.Getenv("JAMVERIF_DUMP") != ""
	names := []string{"History2HistoryDagger", "serLastAccOut", "lastAccOutRoot", "AppendAndCommitMmr", "MapWorkReportFromEg", "NewItem", "AddItem2BetaHPrime", "STFBetaH2BetaHDagger", "STFBetaHDagger2BetaHPrime"}
	fn := map[string]*ssa.Function{}
	for _, n := range names {
		fn[n] = c.Fn(rhPkg, n)
	}
	if len(c.fatal) > 0 {
		return "", nil
	}
	keep := func(n string) bool {
		return strings.Contains(n, "recent_history.") || strings.Contains(n, ").Set") || strings.Contains(n, "mmr.") || strings.Contains(n, "merkle_tree.") || strings.Contains(n, "hash.")
	}
	eff := func(n string) []string { return abbrAll(effectShapesOpt(fn[n], keep, true)) }
	ret := func(n string) map[string][]string { return abbrMap(returnShapes(fn[n])) }
	if dump {
		for _, n := range names {
			for _, e := range eff(n) {
				fmt.Printf("EFFECT %s | %s\n", n, e)
			}
			dumpShapes(n, ret(n))
		}
	}
	K := "internal/recent_history."

	c.Rule("C25.dagger", "History2HistoryDagger changes exactly one thing — the last entry's StateRoot ← the parent state root parameter — only when the history is non-empty, and is applied to the prior β.History with the block header's ParentStateRoot", 4)
	c.checkEffects("C25.dagger", K+"History2HistoryDagger", fn["History2HistoryDagger"], eff("History2HistoryDagger"), []string{"store &p0[(len(p0) - 1)].StateRoot ← p1"})
	{
		f := fn["History2HistoryDagger"]
		pass := condEdges(f, func(v ssa.Value) (bool, bool) { return exprStr(v, shapeOpts) == "(0 != len(p0))", true })
		ok := true
		allInstrs(f, func(in ssa.Instruction) {
			if st, isSt := in.(*ssa.Store); isSt && !rootedInLocal(st.Addr) && !guardedBy(f, st, pass) {
				ok = false
			}
		})
		c.Check(ok, "C25.dagger", K+"History2HistoryDagger · non-empty guard", f.Pos(), "store guarded by len(history) != 0", "state-root store not guarded by a non-empty history")
	}
	c.checkEffects("C25.dagger", K+"STFBetaH2BetaHDagger", fn["STFBetaH2BetaHDagger"], eff("STFBetaH2BetaHDagger"), []string{
		"call " + K + "History2HistoryDagger(cell(prior.GetBeta(PRIOR)).History, BLOCK.Header.ParentStateRoot)",
		"call inter.SetBetaHDagger(INTER, " + K + "History2HistoryDagger(cell(prior.GetBeta(PRIOR)).History, BLOCK.Header.ParentStateRoot))",
	})

	c.Rule("C25.new-entry", "the appended entry is (header hash = Blake2b(Encode(block.Header)), state root = zero, reported = MapWorkReportFromEg(block's guarantees), beefy root = super-peak commitment of this block's accumulation outputs); β_B' and β_H' are stored from the same computation", 12)
	c.checkShapes("C25.new-entry", K+"NewItem", fn["NewItem"], ret("NewItem"), map[string][]string{
		"ret.HeaderHash": {"p0"}, "ret.BeefyRoot": {"p2"}, "ret.Reported": {"p1"}, "ret.StateRoot": {"nil"},
	})
	ser := K + "serLastAccOut(post.GetLastAccOut(POST))"
	root := K + "lastAccOutRoot(" + ser + "#0)"
	acm := K + "AppendAndCommitMmr(prior.GetBeta(PRIOR).Mmr, " + root + ")"
	mapw := K + "MapWorkReportFromEg(cell(BLOCK).Extrinsic.Guarantees)"
	hh := "hash.Blake2bHash((*types.Encoder).Encode(types.NewEncoder(), &cell(BLOCK).Header)#0)"
	item := K + "NewItem(" + hh + ", " + mapw + ", " + acm + "#1)"
	add := K + "AddItem2BetaHPrime(inter.GetBetaHDagger(INTER), " + item + ")"
	c.checkEffects("C25.new-entry", K+"STFBetaHDagger2BetaHPrime", fn["STFBetaHDagger2BetaHPrime"], eff("STFBetaHDagger2BetaHPrime"), []string{
		"call " + ser, "call " + root, "call " + acm, "call " + mapw, "call " + hh, "call " + item, "call " + add,
		"call post.SetBetaB(POST, " + acm + "#0)",
		"call post.SetBetaH(POST, " + add + ")",
	})

	c.Rule("C25.append-evict", "AddItem2BetaHPrime: if |β†| < H the result is a fresh slice of |β†|+1 holding a copy of β† and the item last; otherwise a fresh slice of H holding β†[1:] (oldest dropped) and the item at H-1; the input is never written", 6)
	c.checkEffects("C25.append-evict", K+"AddItem2BetaHPrime", fn["AddItem2BetaHPrime"], eff("AddItem2BetaHPrime"), []string{
		"copy(make([]types.BlockInfo, (1 + len(p0))), p0)",
		"copy(make([]types.BlockInfo, " + K + "maxBlocksHistory), p0[1:])",
		"store &make([]types.BlockInfo, (1 + len(p0)))[len(p0)] ← p1",
		"store &make([]types.BlockInfo, " + K + "maxBlocksHistory)[(" + K + "maxBlocksHistory - 1)] ← p1",
	})
	{
		f := fn["AddItem2BetaHPrime"]
		below := condEdges(f, func(v ssa.Value) (bool, bool) {
			return exprStr(v, shapeOpts) == "(len(p0) < "+K+"maxBlocksHistory)", true
		})
		full := make([]edge, len(below))
		for i, e := range below {
			full[i] = edge{e.from, 1 - e.succ}
		}
		okArms := len(below) == 1
		allInstrs(f, func(in ssa.Instruction) {
			r, ok := in.(*ssa.Return)
			if !ok {
				return
			}
			s := abbr(exprStr(retResults(r)[0], shapeOpts))
			switch s {
			case "make([]types.BlockInfo, (1 + len(p0)))":
				okArms = okArms && guardedBy(f, in, below)
			case "make([]types.BlockInfo, " + K + "maxBlocksHistory)":
				okArms = okArms && guardedBy(f, in, full)
			default:
				okArms = false
			}
		})
		c.Check(okArms, "C25.append-evict", K+"AddItem2BetaHPrime · arms", f.Pos(), "grow arm iff len < H, evict arm otherwise", "the grow/evict arms are not selected by len(history) < H (conditions: "+strings.Join(condShapes(f), " ; ")+")")
		// maxBlocksHistory is the protocol constant and is never reassigned
		g := c.Obj(rhPkg, "maxBlocksHistory")
		writes := 0
		for _, sf := range c.SrcFuncs(rhPkg) {
			allInstrs(sf, func(in ssa.Instruction) {
				if st, ok := in.(*ssa.Store); ok {
					if gl, ok := st.Addr.(*ssa.Global); ok && gl.Object() == g && sf.Name() != "init" {
						writes++
					}
				}
			})
		}
		initOK := false
		if p := c.Pkg(rhPkg); p != nil {
			for _, file := range p.Syntax {
				ast.Inspect(file, func(n ast.Node) bool {
					vs, ok := n.(*ast.ValueSpec)
					if !ok {
						return true
					}
					for i, nm := range vs.Names {
						if p.TypesInfo.Defs[nm] == g && i < len(vs.Values) {
							initOK = types.ExprString(vs.Values[i]) == "types.MaxBlocksHistory"
						}
					}
					return true
				})
			}
		}
		c.Check(writes == 0 && initOK, "C25.append-evict", K+"maxBlocksHistory", token.NoPos, "bound is types.MaxBlocksHistory, never reassigned", "history bound is not types.MaxBlocksHistory or is reassigned at run time")
	}

	c.Rule("C25.reported-sorted", "MapWorkReportFromEg maps each guarantee to (package hash, exports root) of its own report and returns the list sorted by hash bytes (bytes.Compare(a.Hash, b.Hash) < 0)", 3)
	c.checkShapes("C25.reported-sorted", K+"MapWorkReportFromEg · entry", fn["MapWorkReportFromEg"], literalStores(fn["MapWorkReportFromEg"], "types.ReportedWorkPackage"), map[string][]string{
		"Hash": {"p0[*].Report.PackageSpec.Hash"}, "ExportsRoot": {"p0[*].Report.PackageSpec.ExportsRoot"},
	})
	if fd, p := c.FuncDecl(rhPkg, "MapWorkReportFromEg"); fd != nil {
		ok, why := returnsSortedBy(p, fd, "Hash")
		c.Check(ok, "C25.reported-sorted", K+"MapWorkReportFromEg · sort", fd.Pos(), "returned slice sorted by Hash bytes immediately before return", why)
	}

	c.Rule("C25.beefy", "the commitment is SuperPeak(AppendOne(MMR from prior peaks with Keccak, &root)) of the same appended peak list that is stored as β_B'; root = Mb(serialised θ', Keccak); serialisation encodes every element of θ' in order", 5)
	m := "phi(mmr.NewMMR(hash.KeccakHash) | mmr.NewMMRFromPeaks(p0.Peaks, hash.KeccakHash))"
	ap := "(*mmr.MMR).AppendOne(" + m + ", cell(p1))"
	c.checkShapes("C25.beefy", K+"AppendAndCommitMmr", fn["AppendAndCommitMmr"], ret("AppendAndCommitMmr"), map[string][]string{
		"ret#0.Peaks": {ap},
		"ret#1":       {"(*mmr.MMR).SuperPeak(" + m + ", " + ap + ")"},
	})
	c.checkShapes("C25.beefy", K+"lastAccOutRoot", fn["lastAccOutRoot"], ret("lastAccOutRoot"), map[string][]string{"ret": {"merkle_tree.Mb(p0, hash.KeccakHash)"}})
	c.checkShapes("C25.beefy", K+"serLastAccOut", fn["serLastAccOut"], ret("serLastAccOut"), map[string][]string{
		"ret#0": {"nil", "⊕(make([]types.ByteSequence, 0); [(*types.Encoder).Encode(types.NewEncoder(), &p0[*])#0][:])"},
	})
	{
		f := fn["AppendAndCommitMmr"]
		empty := condEdges(f, func(v ssa.Value) (bool, bool) { return exprStr(v, shapeOpts) == "(0 == len(p0.Peaks))", true })
		c.Check(len(empty) == 1, "C25.beefy", K+"AppendAndCommitMmr · empty belt", f.Pos(), "fresh MMR only when the prior belt has no peaks", "MMR construction is not selected by len(prior peaks) == 0")
	}
	return "Provenance and effect tables of the recent-history transition decided on SSA/AST: the one store of History2HistoryDagger, the fields and sources of the appended entry, the grow/evict arms of AddItem2BetaHPrime (copy source, slot index, bound), the sort of reported packages, and the MMR append/commit chain. Does not decide hash values or that untouched entries are bit-identical beyond 'no other store exists'.",
		[]string{"canonical SSA expression renderer; calls uninterpreted", "expected table transcribed from GP 7.5-7.8"}
}

// returnsSortedBy: the function's returned slice variable is sorted with
// sort.Slice(x, func(i,j) bool { return bytes.Compare(x[i].F[:], x[j].F[:]) < 0 })
// and the sort is the last statement touching x before the return.
func returnsSortedBy(p *packages.Package, fd *ast.FuncDecl, field string) (bool, string) {
	var retName string
	for _, st := range fd.Body.List {
		if r, ok := st.(*ast.ReturnStmt); ok && (len(r.Results) == 1 || (len(r.Results) == 2 && types.ExprString(r.Results[1]) == "nil")) {
			retName = types.ExprString(r.Results[0])
		}
	}
	if retName == "" {
		return false, "no single-value return at the end of the function"
	}
	// last statement before the return must be the sort
	n := len(fd.Body.List)
	if n < 2 {
		return false, "no sort before return"
	}
	es, ok := fd.Body.List[n-2].(*ast.ExprStmt)
	if !ok {
		return false, "statement before the return is not a sort call"
	}
	call, ok := es.X.(*ast.CallExpr)
	if !ok {
		return false, "statement before the return is not a sort call"
	}
	name, _ := calleeName(p.TypesInfo, call)
	if !(name == "sort.Slice" || name == "sort.SliceStable") || len(call.Args) != 2 || types.ExprString(call.Args[0]) != retName {
		return false, "statement before the return does not sort the returned slice"
	}
	fl, ok := call.Args[1].(*ast.FuncLit)
	if !ok || len(fl.Body.List) != 1 {
		return false, "comparator is not a single return"
	}
	r, ok := fl.Body.List[0].(*ast.ReturnStmt)
	if !ok || len(r.Results) != 1 {
		return false, "comparator is not a single return"
	}
	var params []string
	for _, f := range fl.Type.Params.List {
		for _, nm := range f.Names {
			params = append(params, nm.Name)
		}
	}
	be, ok := r.Results[0].(*ast.BinaryExpr)
	if !ok || be.Op != token.LSS || len(params) != 2 {
		return false, "comparator is not bytes.Compare(a, b) < 0"
	}
	if lit, ok := be.Y.(*ast.BasicLit); !ok || lit.Value != "0" {
		return false, "comparator is not bytes.Compare(a, b) < 0"
	}
	cc, ok := be.X.(*ast.CallExpr)
	if !ok || len(cc.Args) != 2 {
		return false, "comparator is not bytes.Compare(a, b) < 0"
	}
	if cn, _ := calleeName(p.TypesInfo, cc); cn != "bytes.Compare" {
		return false, "comparator does not use bytes.Compare"
	}
	want := func(idx string) string { return retName + "[" + idx + "]." + field + "[:]" }
	if types.ExprString(cc.Args[0]) != want(params[0]) || types.ExprString(cc.Args[1]) != want(params[1]) {
		return false, "comparator compares " + types.ExprString(cc.Args[0]) + " with " + types.ExprString(cc.Args[1]) + ", expected " + want(params[0]) + " with " + want(params[1])
	}
	return true, ""
}
