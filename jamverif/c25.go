package main

import (
	"fmt"
	"go/ast"
	"go/constant"
	"go/token"
	"go/types"
	"os"
	"strings"

	"golang.org/x/tools/go/packages"
	"golang.org/x/tools/go/ssa"
)

const rhPkg = "internal/recent_history"

func checkC25(c *Ctx) (string, []string) {
	dump := os.Getenv("JAMVERIF_DUMP") != ""
	names := []string{"History2HistoryDagger", "serLastAccOut", "lastAccOutRoot", "AppendAndCommitMmr", "MapWorkReportFromEg", "NewItem", "AddItem2BetaHPrime", "STFBetaH2BetaHDagger", "STFBetaHDagger2BetaHPrime"}
	fn := map[string]*ssa.Function{}
	for _, n := range names {
		fn[n] = c.Fn(rhPkg, n)
	}
	if len(c.fatal) > 0 {
		return "", nil
	}
	keep := func(n string) bool {
		return strings.Contains(n, "recent_history.") || strings.Contains(n, ").Set") || strings.Contains(n, "mmr.") || strings.Contains(n, "merkle_tree.") || strings.Contains(n, "hash.")
	}
	eff := func(n string) []string { return abbrAll(effectShapesOpt(fn[n], keep, true)) }
	ret := func(n string) map[string][]string { return abbrMap(returnShapes(fn[n])) }
	if dump {
		for _, n := range names {
			for _, e := range eff(n) {
				fmt.Printf("EFFECT %s | %s\n", n, e)
			}
			dumpShapes(n, ret(n))
		}
	}
	K := "internal/recent_history."

	c.Rule("C25.dagger", "History2HistoryDagger changes exactly one thing — the last entry's StateRoot ← the parent state root parameter — only when the history is non-empty, and is applied to the prior β.History with the block header's ParentStateRoot", 4)
	c.checkEffects("C25.dagger", K+"History2HistoryDagger", fn["History2HistoryDagger"], eff("History2HistoryDagger"), []string{"store &p0[(len(p0) - 1)].StateRoot ← p1"})
	{
		f := fn["History2HistoryDagger"]
		var st *ssa.Store
		allInstrs(f, func(in ssa.Instruction) {
			if s, isSt := in.(*ssa.Store); isSt && !rootedInLocal(s.Addr) {
				st = s
			}
		})
		bad := ""
		if st == nil {
			bad = "no state-root store"
		} else {
			for n := int64(0); n <= 3 && bad == ""; n++ {
				hit := false
				_, ok := runWithAtoms(f, robustOpts, func(s string) (int64, bool) {
					if s == "len(p0)" {
						return n, true
					}
					return 0, false
				}, func(in ssa.Instruction) {
					if in == ssa.Instruction(st) {
						hit = true
					}
				})
				if !ok && !hit {
					bad = "the store is guarded by something other than the length of the history"
				} else if hit != (n > 0) {
					bad = fmt.Sprintf("with %d entries the state-root store is executed=%v", n, hit)
				}
			}
		}
		c.Check(bad == "", "C25.dagger", K+"History2HistoryDagger · non-empty guard", f.Pos(), "store executed exactly when the history is non-empty (|β| = 0..3)", "state-root store not guarded by a non-empty history: "+bad)
	}
	c.checkEffects("C25.dagger", K+"STFBetaH2BetaHDagger", fn["STFBetaH2BetaHDagger"], eff("STFBetaH2BetaHDagger"), []string{
		"call " + K + "History2HistoryDagger(cell(prior.GetBeta(PRIOR)).History, BLOCK.Header.ParentStateRoot)",
		"call inter.SetBetaHDagger(INTER, " + K + "History2HistoryDagger(cell(prior.GetBeta(PRIOR)).History, BLOCK.Header.ParentStateRoot))",
	})

	// the intermediate history is process-global and survives from block to block: the dagger must be (re)written on
	// every path of its transition, or the next step appends to the previous block's list
	if f := fn["STFBetaH2BetaHDagger"]; f != nil {
		c.Check(mustCallOnEveryPath(f, "SetBetaHDagger"), "C25.dagger", K+"STFBetaH2BetaHDagger · always sets β†", f.Pos(), "every non-error path stores the intermediate history", "a path of STFBetaH2BetaHDagger returns without storing β† (e.g. an early return for an empty history): the stale intermediate history of the previous block is then extended")
	}
	c.Rule("C25.new-entry", "the appended entry is (header hash = Blake2b(Encode(block.Header)), state root = zero, reported = MapWorkReportFromEg(block's guarantees), beefy root = super-peak commitment of this block's accumulation outputs); β_B' and β_H' are stored from the same computation", 12)
	{
		got := ret("NewItem")
		if _, has := got["ret.StateRoot"]; !has {
			got["ret.StateRoot"] = []string{"nil"} // field left at its zero value
		}
		c.checkShapes("C25.new-entry", K+"NewItem", fn["NewItem"], got, map[string][]string{
			"ret.HeaderHash": {"p0"}, "ret.BeefyRoot": {"p2"}, "ret.Reported": {"p1"}, "ret.StateRoot": {"nil"},
		})
	}
	ser := K + "serLastAccOut(post.GetLastAccOut(POST))"
	root := K + "lastAccOutRoot(" + ser + "#0)"
	acm := K + "AppendAndCommitMmr(prior.GetBeta(PRIOR).Mmr, " + root + ")"
	mapw := K + "MapWorkReportFromEg(cell(BLOCK).Extrinsic.Guarantees)"
	hh := "hash.Blake2bHash((*types.Encoder).Encode(types.NewEncoder(), &cell(BLOCK).Header)#0)"
	item := K + "NewItem(" + hh + ", " + mapw + ", " + acm + "#1)"
	add := K + "AddItem2BetaHPrime(inter.GetBetaHDagger(INTER), " + item + ")"
	c.checkEffects("C25.new-entry", K+"STFBetaHDagger2BetaHPrime", fn["STFBetaHDagger2BetaHPrime"], eff("STFBetaHDagger2BetaHPrime"), []string{
		"call " + ser, "call " + root, "call " + acm, "call " + mapw, "call " + hh, "call " + item, "call " + add,
		"call post.SetBetaB(POST, " + acm + "#0)",
		"call post.SetBetaH(POST, " + add + ")",
	})

	c.Rule("C25.append-evict", "AddItem2BetaHPrime: if |β†| < H the result is a fresh slice of |β†|+1 holding a copy of β† and the item last; otherwise a fresh slice of H holding β†[1:] (oldest dropped) and the item at H-1; the input is never written", 3)
	{
		f := fn["AddItem2BetaHPrime"]
		H := int64(8)
		if k, ok := c.Obj(typesPkg, "MaxBlocksHistory").(*types.Const); ok {
			if v, exact := constant.Int64Val(k.Val()); exact {
				H = v
			}
		}
		bad := ""
		for n := int64(0); n <= H && bad == ""; n++ {
			env := intEnv{params: map[ssa.Value]int64{}, lens: map[ssa.Value]int64{f.Params[0]: n}, unknown: map[ssa.Value]bool{}, cells: map[ssa.Value]int64{}, globals: map[string]int64{"maxBlocksHistory": H}, offs: map[ssa.Value]int64{}, bases: map[ssa.Value]ssa.Value{}}
			type cp struct{ dstLen, lo, hi int64 }
			var copies []cp
			var itemIdx []int64
			var dst ssa.Value
			evalOK := true
			env.watch = func(in ssa.Instruction, e intEnv) {
				switch x := in.(type) {
				case ssa.CallInstruction:
					if b, ok := x.Common().Value.(*ssa.Builtin); ok && b.Name() == "copy" {
						dl, ok1 := lenOfValue(x.Common().Args[0], e, 0)
						base, lo, hi, ok2 := extentOf(x.Common().Args[1], e, 0)
						if !ok1 || !ok2 || base != ssa.Value(f.Params[0]) {
							evalOK = false
							return
						}
						dst = x.Common().Args[0]
						copies = append(copies, cp{dl, lo, hi})
					}
				case *ssa.MakeSlice:
					if k, ok := evalInt(x.Len, e, 0); ok {
						e.lens[x] = k
					}
				case *ssa.Store:
					if ia, ok := x.Addr.(*ssa.IndexAddr); ok && x.Val == ssa.Value(f.Params[1]) || ok && abbr(exprStr(x.Val, shapeOpts)) == "p1" {
						if k, ok := evalInt(ia.Index, e, 0); ok {
							itemIdx = append(itemIdx, k)
						} else {
							evalOK = false
						}
					}
				}
			}
			fuel := 4000
			env.fuel = &fuel
			last := walkBlocks(f.Blocks[0], nil, env, func(*ssa.BasicBlock) bool { return false })
			if last == nil || !evalOK {
				bad = fmt.Sprintf("the construction is not a function of |β†| and H (evaluation stops at |β†|=%d)", n)
				break
			}
			r, _ := last.Instrs[len(last.Instrs)-1].(*ssa.Return)
			wantLen, wantLo, wantHi, wantIdx := n+1, int64(0), n, n
			if n >= H {
				wantLen, wantLo, wantHi, wantIdx = H, 1, n, H-1
			}
			if r == nil || len(copies) != 1 || len(itemIdx) != 1 || stripConv(retResults(r)[0]) != stripConv(dst) {
				bad = fmt.Sprintf("with |β†|=%d the result is not one fresh slice filled by one copy and one item store", n)
				break
			}
			k := copies[0]
			copied := min(k.dstLen, k.hi-k.lo)
			if k.dstLen != wantLen || k.lo != wantLo || copied != min(wantLen, wantHi-wantLo) || itemIdx[0] != wantIdx {
				bad = fmt.Sprintf("with |β†|=%d (H=%d) the result has %d slots, holds β†[%d:%d] and the item at %d; GP 7.8 gives %d slots, β†[%d:%d] and the item at %d", n, H, k.dstLen, k.lo, k.lo+copied, itemIdx[0], wantLen, wantLo, wantLo+min(wantLen, wantHi-wantLo), wantIdx)
			}
		}
		c.Check(bad == "", "C25.append-evict", K+"AddItem2BetaHPrime · construction", f.Pos(), fmt.Sprintf("|β†| < H: fresh |β†|+1 slots = β† ⌢ item; |β†| = H: fresh H slots = β†[1:] ⌢ item (evaluated for |β†| = 0..%d)", H), bad)
		// the input is never written
		wr := ""
		allInstrs(f, func(in ssa.Instruction) {
			if st, ok := in.(*ssa.Store); ok && !rootedInLocal(st.Addr) {
				wr = abbr(exprStr(st.Addr, shapeOpts))
			}
		})
		c.Check(wr == "", "C25.append-evict", K+"AddItem2BetaHPrime · input untouched", f.Pos(), "no store outside the fresh slice", "stores through "+wr)
		// maxBlocksHistory is the protocol constant and is never reassigned
		g := c.Obj(rhPkg, "maxBlocksHistory")
		writes := 0
		for _, sf := range c.SrcFuncs(rhPkg) {
			allInstrs(sf, func(in ssa.Instruction) {
				if st, ok := in.(*ssa.Store); ok {
					if gl, ok := st.Addr.(*ssa.Global); ok && gl.Object() == g && sf.Name() != "init" {
						writes++
					}
				}
			})
		}
		initOK := false
		if p := c.Pkg(rhPkg); p != nil {
			for _, file := range p.Syntax {
				ast.Inspect(file, func(n ast.Node) bool {
					vs, ok := n.(*ast.ValueSpec)
					if !ok {
						return true
					}
					for i, nm := range vs.Names {
						if p.TypesInfo.Defs[nm] == g && i < len(vs.Values) {
							initOK = types.ExprString(vs.Values[i]) == "types.MaxBlocksHistory"
						}
					}
					return true
				})
			}
		}
		c.Check(writes == 0 && initOK, "C25.append-evict", K+"maxBlocksHistory", token.NoPos, "bound is types.MaxBlocksHistory, never reassigned", "history bound is not types.MaxBlocksHistory or is reassigned at run time")
	}

	c.Rule("C25.reported-sorted", "MapWorkReportFromEg maps each guarantee to (package hash, exports root) of its own report and returns the list sorted by hash bytes (bytes.Compare(a.Hash, b.Hash) < 0)", 3)
	c.checkShapes("C25.reported-sorted", K+"MapWorkReportFromEg · entry", fn["MapWorkReportFromEg"], literalStores(fn["MapWorkReportFromEg"], "types.ReportedWorkPackage"), map[string][]string{
		"Hash": {"p0[*].Report.PackageSpec.Hash"}, "ExportsRoot": {"p0[*].Report.PackageSpec.ExportsRoot"},
	})
	c25Sorted(c, fn["MapWorkReportFromEg"])

	c.Rule("C25.beefy", "the commitment is SuperPeak(AppendOne(MMR from prior peaks with Keccak, &root)) of the same appended peak list that is stored as β_B'; root = Mb(serialised θ', Keccak); serialisation encodes every element of θ' in order", 5)
	m := "phi(mmr.NewMMR(hash.KeccakHash) | mmr.NewMMRFromPeaks(p0.Peaks, hash.KeccakHash))"
	ap := "(*mmr.MMR).AppendOne(" + m + ", cell(p1))"
	c.checkShapes("C25.beefy", K+"AppendAndCommitMmr", fn["AppendAndCommitMmr"], ret("AppendAndCommitMmr"), map[string][]string{
		"ret#0.Peaks": {ap},
		"ret#1":       {"(*mmr.MMR).SuperPeak(" + m + ", " + ap + ")"},
	})
	c.checkShapes("C25.beefy", K+"lastAccOutRoot", fn["lastAccOutRoot"], ret("lastAccOutRoot"), map[string][]string{"ret": {"merkle_tree.Mb(p0, hash.KeccakHash)"}})
	c.requireSet("C25.beefy", K+"serLastAccOut", fn["serLastAccOut"].Pos(), "serLastAccOut returns", normEachAll(abbrMap(returnShapesO(fn["serLastAccOut"], robustOpts))["ret#0"]), []string{"each[(*types.Encoder).Encode(types.NewEncoder(), &p0[*])#0]", "nil"})
	{
		f := fn["AppendAndCommitMmr"]
		// a fresh (peak-less) MMR may stand in for the prior belt only where the prior belt has no peaks
		empty := lenZeroEdgesOf(f, func(x ssa.Value) bool { return exprStr(x, shapeOpts) == "p0.Peaks" })
		okFresh := true
		for _, call := range callsIn(f, c.Obj(mmrPkg, "NewMMR")) {
			if !guardedBy(f, call.(ssa.Instruction), empty) {
				okFresh = false
			}
		}
		c.Check(okFresh, "C25.beefy", K+"AppendAndCommitMmr · empty belt", f.Pos(), "a fresh MMR is used only where the prior belt has no peaks (otherwise the MMR is built from the prior peaks)", "a fresh MMR replaces the prior belt on a path where the prior belt may have peaks")
	}
	return "Provenance and effect tables of the recent-history transition decided on SSA/AST: the one store of History2HistoryDagger, the fields and sources of the appended entry, the grow/evict arms of AddItem2BetaHPrime (copy source, slot index, bound), the sort of reported packages, and the MMR append/commit chain. Does not decide hash values or that untouched entries are bit-identical beyond 'no other store exists'.",
		[]string{"canonical SSA expression renderer; calls uninterpreted", "expected table transcribed from GP 7.5-7.8"}
}

// returnsSortedBy: the function's returned slice variable is sorted with
// sort.Slice(x, func(i,j) bool { return bytes.Compare(x[i].F[:], x[j].F[:]) < 0 })
// and the sort is the last statement touching x before the return.
func returnsSortedBy(p *packages.Package, fd *ast.FuncDecl, field string) (bool, string) {
	var retName string
	for _, st := range fd.Body.List {
		if r, ok := st.(*ast.ReturnStmt); ok && (len(r.Results) == 1 || (len(r.Results) == 2 && types.ExprString(r.Results[1]) == "nil")) {
			retName = types.ExprString(r.Results[0])
		}
	}
	if retName == "" {
		return false, "no single-value return at the end of the function"
	}
	// last statement before the return must be the sort
	n := len(fd.Body.List)
	if n < 2 {
		return false, "no sort before return"
	}
	es, ok := fd.Body.List[n-2].(*ast.ExprStmt)
	if !ok {
		return false, "statement before the return is not a sort call"
	}
	call, ok := es.X.(*ast.CallExpr)
	if !ok {
		return false, "statement before the return is not a sort call"
	}
	name, _ := calleeName(p.TypesInfo, call)
	if !(name == "sort.Slice" || name == "sort.SliceStable") || len(call.Args) != 2 || types.ExprString(call.Args[0]) != retName {
		return false, "statement before the return does not sort the returned slice"
	}
	fl, ok := call.Args[1].(*ast.FuncLit)
	if !ok || len(fl.Body.List) != 1 {
		return false, "comparator is not a single return"
	}
	r, ok := fl.Body.List[0].(*ast.ReturnStmt)
	if !ok || len(r.Results) != 1 {
		return false, "comparator is not a single return"
	}
	var params []string
	for _, f := range fl.Type.Params.List {
		for _, nm := range f.Names {
			params = append(params, nm.Name)
		}
	}
	be, ok := r.Results[0].(*ast.BinaryExpr)
	if !ok || be.Op != token.LSS || len(params) != 2 {
		return false, "comparator is not bytes.Compare(a, b) < 0"
	}
	if lit, ok := be.Y.(*ast.BasicLit); !ok || lit.Value != "0" {
		return false, "comparator is not bytes.Compare(a, b) < 0"
	}
	cc, ok := be.X.(*ast.CallExpr)
	if !ok || len(cc.Args) != 2 {
		return false, "comparator is not bytes.Compare(a, b) < 0"
	}
	if cn, _ := calleeName(p.TypesInfo, cc); cn != "bytes.Compare" {
		return false, "comparator does not use bytes.Compare"
	}
	want := func(idx string) string { return retName + "[" + idx + "]." + field + "[:]" }
	if types.ExprString(cc.Args[0]) != want(params[0]) || types.ExprString(cc.Args[1]) != want(params[1]) {
		return false, "comparator compares " + types.ExprString(cc.Args[0]) + " with " + types.ExprString(cc.Args[1]) + ", expected " + want(params[0]) + " with " + want(params[1])
	}
	return true, ""
}

// c25Sorted: the returned list is sorted by Hash bytes on every path on which it has more than one entry.
func c25Sorted(c *Ctx, f *ssa.Function) {
	K := "internal/recent_history."
	o := robustOpts
	var sortCall *ssa.Call
	allInstrs(f, func(in ssa.Instruction) {
		if call, ok := in.(*ssa.Call); ok && call.Call.StaticCallee() != nil {
			switch n := call.Call.StaticCallee().String(); {
			case n == "sort.Slice" || n == "sort.SliceStable" || strings.HasPrefix(n, "slices.SortFunc") || strings.HasPrefix(n, "slices.SortStableFunc"):
				sortCall = call
			}
		}
	})
	if sortCall == nil {
		c.Bad("C25.reported-sorted", K+"MapWorkReportFromEg · sort", f.Pos(), "the reported packages are not sorted")
		return
	}
	// comparator
	var cmp *ssa.Function
	switch x := stripConv(sortCall.Call.Args[1]).(type) {
	case *ssa.MakeClosure:
		cmp, _ = x.Fn.(*ssa.Function)
	case *ssa.Function:
		cmp = x
	}
	okCmp, shape := false, ""
	if cmp != nil {
		rs := abbrMap(returnShapesO(cmp, o))["ret"]
		if len(rs) == 1 {
			shape = rs[0]
			for _, lst := range []string{"*fv0", "fv0"} {
				if shape == "(bytes.Compare("+lst+"[p0].Hash[:], "+lst+"[p1].Hash[:]) < 0)" {
					okCmp = true
				}
			}
			if shape == "bytes.Compare(p0.Hash[:], p1.Hash[:])" {
				okCmp = true
			}
		}
		// or a package helper applied to the two entries' Hash fields (in that order) that is decided to be the
		// lexicographic order of unsigned bytes
		if !okCmp {
			allInstrs(cmp, func(in ssa.Instruction) {
				r, isR := in.(*ssa.Return)
				if !isR || len(r.Results) != 1 {
					return
				}
				call, isCall := stripConv(r.Results[0]).(*ssa.Call)
				if !isCall || call.Call.StaticCallee() == nil || len(call.Call.Args) != 2 {
					return
				}
				a0, a1 := abbr(exprStr(call.Call.Args[0], o)), abbr(exprStr(call.Call.Args[1], o))
				okArgs := false
				for _, lst := range []string{"*fv0", "fv0"} {
					for _, suf := range []string{"", "[:]"} {
						if (a0 == "&"+lst+"[p0].Hash"+suf || a0 == lst+"[p0].Hash"+suf) && (a1 == "&"+lst+"[p1].Hash"+suf || a1 == lst+"[p1].Hash"+suf) {
							okArgs = true
						}
					}
				}
				if !okArgs {
					shape = call.Call.StaticCallee().Name() + "(" + a0 + ", " + a1 + ")"
					return
				}
				if ok, why := bfLexLess(call.Call.StaticCallee()); ok {
					okCmp = true
				} else {
					shape = call.Call.StaticCallee().Name() + " — " + why
				}
			})
		}
	}
	c.Check(okCmp, "C25.reported-sorted", K+"MapWorkReportFromEg · comparator", sortCall.Pos(), "orders by bytes.Compare of the Hash fields, ascending", "the comparator is "+shape+", not ascending bytes.Compare of the two entries' Hash")
	// the sorted list is the returned one, and the sort runs whenever there is more than one entry
	sorted := abbr(exprStr(sortCall.Call.Args[0], o))
	okRet := true
	allInstrs(f, func(in ssa.Instruction) {
		if r, ok := in.(*ssa.Return); ok && len(r.Results) == 1 && abbr(exprStr(r.Results[0], o)) != sorted {
			okRet = false
		}
	})
	bad := ""
	for n := int64(0); n <= 3 && bad == ""; n++ {
		hit := false
		_, ok := runWithAtoms(f, o, func(s string) (int64, bool) {
			if s == "len(p0)" || (strings.HasPrefix(s, "len(") && strings.Contains(s, "make([]types.ReportedWorkPackage")) {
				return n, true
			}
			return 0, false
		}, func(in ssa.Instruction) {
			if in == ssa.Instruction(sortCall) {
				hit = true
			}
		})
		if !ok && !hit {
			bad = "the sort is guarded by something other than the number of entries"
		} else if n >= 2 && !hit {
			bad = fmt.Sprintf("with %d entries the list is returned unsorted", n)
		}
	}
	c.Check(okRet && bad == "", "C25.reported-sorted", K+"MapWorkReportFromEg · sort", sortCall.Pos(), "the returned list is sorted whenever it has two or more entries", "the returned list is not the sorted one, or "+bad)
}
