package main

// E10 linear bounds prover. Decides, for an index or slice expression on a
// slice/string/array value S, that the access is inside len(S) on every path,
// from the comparisons that dominate it. Everything is linear arithmetic over
// SSA values ("atoms"); len(S) is an atom keyed by S (so two len(S) calls are
// the same atom), len of a reslice/make is expanded. No solver: a bounded
// search for a non-negative combination of dominating facts.

import (
	"fmt"
	"go/token"
	"go/types"
	"os"
	"sort"
	"strings"

	"golang.org/x/tools/go/ssa"
)

type lenKey struct{ s any }

// fldKey: the value of field `field` of the struct pointed to by parameter
// `param`, at memory version `ver` (the set of clobbering instructions that
// reach the load). Two loads with the same key read the same value.
type fldKey struct {
	param *ssa.Parameter
	field int
	ver   string
}

type lin struct {
	c int64
	t map[any]int64
}

func newLin(c int64) lin { return lin{c: c, t: map[any]int64{}} }

func (a lin) add(b lin, k int64) lin {
	out := newLin(a.c + k*b.c)
	for x, v := range a.t {
		out.t[x] = v
	}
	for x, v := range b.t {
		out.t[x] += k * v
		if out.t[x] == 0 {
			delete(out.t, x)
		}
	}
	return out
}

func (a lin) String() string {
	var ps []string
	for x, v := range a.t {
		name := ""
		switch k := x.(type) {
		case lenKey:
			if sv, ok := k.s.(ssa.Value); ok {
				name = "len(" + exprStr(sv, shapeOpts) + ")"
			} else {
				name = fmt.Sprintf("len(%v)", k.s)
			}
		case globalKey:
			name = k.g.Name()
		case fldKey:
			name = fmt.Sprintf("%s.f%d@%s", k.param.Name(), k.field, k.ver)
		case ssa.Value:
			name = exprStr(k, shapeOpts)
		}
		ps = append(ps, fmt.Sprintf("%+d*%s", v, name))
	}
	sort.Strings(ps)
	return fmt.Sprintf("%d %s", a.c, strings.Join(ps, " "))
}

type boundsProver struct {
	fn           *ssa.Function
	reach        map[ssa.Instruction]string // memory version at each load/call of fn
	clobberByVer map[string]ssa.Instruction // version "[k]" -> the single clobber k
	// inlining context: callee parameter -> caller parameter, version at the call site
	paramMap  map[*ssa.Parameter]*ssa.Parameter
	callVer   string
	parent    *boundsProver
	inNonNeg  map[*ssa.Phi]bool
	substFrom ssa.Value // while deriving phi facts: this direct comparison operand ...
	substTo   ssa.Value // ... stands for this phi
}

func sameValueOrConst(a, b ssa.Value) bool {
	if a == b {
		return true
	}
	ka, ok1 := constInt(a)
	kb, ok2 := constInt(b)
	_, c1 := a.(*ssa.Const)
	_, c2 := b.(*ssa.Const)
	return c1 && c2 && ok1 && ok2 && ka == kb
}

// operand renders a direct comparison operand, honouring the phi substitution.
func (bp *boundsProver) operand(v ssa.Value) lin {
	if bp.substFrom != nil && sameValueOrConst(stripIntConv(v), stripIntConv(bp.substFrom)) {
		l := newLin(0)
		l.t[bp.substTo] = 1
		return l
	}
	return bp.linOf(v, 0)
}

func stripIntConv(v ssa.Value) ssa.Value {
	for {
		c, ok := v.(*ssa.Convert)
		if ok && isIntegerT(c.Type()) && isIntegerT(c.X.Type()) && intBits(c.Type()) >= intBits(c.X.Type()) {
			v = c.X
			continue
		}
		return v
	}
}

// phiFacts: facts about the phis of blk that hold on every incoming edge
// (rotated loops: the guard before the loop and the test at the bottom both
// bound the index).
func (bp *boundsProver) phiFacts(blk *ssa.BasicBlock) []lin {
	var out []lin
	for _, in := range blk.Instrs {
		p, ok := in.(*ssa.Phi)
		if !ok {
			break
		}
		if !isIntegerT(p.Type()) {
			continue
		}
		var common map[string]lin
		for k, pred := range blk.Preds {
			cur := map[string]lin{}
			if ifi, ok := pred.Instrs[len(pred.Instrs)-1].(*ssa.If); ok && len(pred.Succs) == 2 && pred.Succs[0] != pred.Succs[1] {
				bp.substFrom, bp.substTo = p.Edges[k], p
				for _, f := range bp.condFacts(ifi.Cond, pred.Succs[0] == blk, 0) {
					if _, mentions := f.t[ssa.Value(p)]; mentions {
						cur[f.String()] = f
					}
				}
				bp.substFrom, bp.substTo = nil, nil
			}
			if k == 0 {
				common = cur
			} else {
				for s := range common {
					if _, ok := cur[s]; !ok {
						delete(common, s)
					}
				}
			}
		}
		for _, f := range common {
			out = append(out, f)
		}
		// a signed counter that only moves one way round the loop stays on that side of where it started
		// (i := n-1; …; i-- gives i ≤ n-1; the test at the top or bottom bounds the other side)
		if b, isB := p.Type().Underlying().(*types.Basic); isB && b.Info()&types.IsUnsigned == 0 && len(p.Edges) >= 2 {
			var inits []ssa.Value
			dir, mono := 0, true
			for _, e := range p.Edges {
				bo, isBin := e.(*ssa.BinOp)
				step := 0
				if isBin && (bo.Op == token.ADD || bo.Op == token.SUB) && bo.X == ssa.Value(p) {
					if k, isC := constInt(bo.Y); isC && k != 0 {
						step = 1
						if (k < 0) != (bo.Op == token.SUB) {
							step = -1
						}
					}
				}
				switch {
				case step == 0 && blk.Dominates(blk.Preds[edgeIndex(p, e)]):
					mono = false // a back edge that is not a unit step
				case step == 0:
					inits = append(inits, e)
				case dir != 0 && dir != step:
					mono = false
				default:
					dir = step
				}
			}
			if mono && dir != 0 && len(inits) == 1 {
				f := bp.linOf(inits[0], 0)
				me := newLin(0)
				me.t[ssa.Value(p)] = 1
				if dir < 0 {
					out = append(out, f.add(me, -1)) // init − p ≥ 0
				} else {
					out = append(out, me.add(f, -1)) // p − init ≥ 0
				}
			}
		}
	}
	return out
}

func edgeIndex(p *ssa.Phi, e ssa.Value) int {
	for i, x := range p.Edges {
		if x == e {
			return i
		}
	}
	return 0
}

func isIntegerT(t types.Type) bool {
	b, ok := t.Underlying().(*types.Basic)
	return ok && b.Info()&types.IsInteger != 0
}

func intBits(t types.Type) int {
	b, ok := t.Underlying().(*types.Basic)
	if !ok {
		return 0
	}
	switch b.Kind() {
	case types.Int8, types.Uint8:
		return 8
	case types.Int16, types.Uint16:
		return 16
	case types.Int32, types.Uint32:
		return 32
	}
	return 64
}

func isUnsignedT(t types.Type) bool {
	b, ok := t.Underlying().(*types.Basic)
	return ok && b.Info()&types.IsUnsigned != 0
}

// linOf renders an integer SSA value as a linear form.
func (bp *boundsProver) linOf(v ssa.Value, d int) lin {
	if d > 25 {
		l := newLin(0)
		l.t[v] = 1
		return l
	}
	if c, ok := v.(*ssa.Const); ok {
		if k, ok := constInt(c); ok {
			return newLin(k)
		}
	}
	switch x := v.(type) {
	case *ssa.Convert:
		if isIntegerT(x.Type()) && isIntegerT(x.X.Type()) && intBits(x.Type()) >= intBits(x.X.Type()) {
			return bp.linOf(x.X, d+1)
		}
	case *ssa.ChangeType:
		return bp.linOf(x.X, d+1)
	case *ssa.BinOp:
		switch x.Op {
		case token.ADD:
			return bp.linOf(x.X, d+1).add(bp.linOf(x.Y, d+1), 1)
		case token.SUB:
			return bp.linOf(x.X, d+1).add(bp.linOf(x.Y, d+1), -1)
		case token.MUL:
			if k, ok := constInt(x.Y); ok {
				return newLin(0).add(bp.linOf(x.X, d+1), k)
			}
			if k, ok := constInt(x.X); ok {
				return newLin(0).add(bp.linOf(x.Y, d+1), k)
			}
		case token.SHL:
			if k, ok := constInt(x.Y); ok && k >= 0 && k < 31 {
				return newLin(0).add(bp.linOf(x.X, d+1), int64(1)<<uint(k))
			}
		}
	case *ssa.Call:
		if b, ok := x.Call.Value.(*ssa.Builtin); ok && b.Name() == "len" && len(x.Call.Args) == 1 {
			return bp.lenOf(x.Call.Args[0], d+1)
		}
		if l, ok := bp.inlineCall(x, d); ok {
			return l
		}
	case *ssa.UnOp:
		if fw := bp.forwarded(x); fw != nil {
			return bp.linOf(fw, d+1)
		}
		if g, ok := x.X.(*ssa.Global); ok && x.Op == token.MUL {
			// package-level parameter (CoresCount, EpochLength, …): one atom per variable
			l := newLin(0)
			l.t[globalKey{g}] = 1
			return l
		}
		if mk, ok := bp.memAtom(x); ok {
			l := newLin(0)
			l.t[mk] = 1
			return l
		}
	}
	l := newLin(0)
	l.t[v] = 1
	return l
}

type globalKey struct{ g *ssa.Global }

// forwarded: v loads *param or param.field and the only definition reaching
// the load is one store of a value in this function: that value.
func (bp *boundsProver) forwarded(v ssa.Value) ssa.Value {
	u, ok := v.(*ssa.UnOp)
	if !ok || u.Op != token.MUL || bp.paramMap != nil {
		return nil
	}
	var isTarget func(addr ssa.Value) bool
	switch a := u.X.(type) {
	case *ssa.Parameter:
		if len(bp.fn.Params) == 0 || a != bp.fn.Params[0] {
			return nil
		}
		isTarget = func(addr ssa.Value) bool { return addr == ssa.Value(a) }
	case *ssa.FieldAddr:
		p, ok := a.X.(*ssa.Parameter)
		if !ok || len(bp.fn.Params) == 0 || p != bp.fn.Params[0] {
			return nil
		}
		isTarget = func(addr ssa.Value) bool {
			fa, ok := addr.(*ssa.FieldAddr)
			return ok && fa.X == ssa.Value(p) && fa.Field == a.Field
		}
	default:
		return nil
	}
	bp.computeReach()
	ver := bp.reach[u]
	st, ok := bp.clobberByVer[ver]
	if !ok {
		return nil
	}
	if s, ok := st.(*ssa.Store); ok && isTarget(s.Addr) {
		return s.Val
	}
	return nil
}

// memAtom: v is a load of a direct field of a struct pointed to by a parameter.
func (bp *boundsProver) memAtom(v ssa.Value) (fldKey, bool) {
	u, ok := v.(*ssa.UnOp)
	if !ok || u.Op != token.MUL {
		return fldKey{}, false
	}
	fa, ok := u.X.(*ssa.FieldAddr)
	if !ok {
		return fldKey{}, false
	}
	p, ok := fa.X.(*ssa.Parameter)
	if !ok {
		return fldKey{}, false
	}
	if bp.paramMap != nil {
		cp, ok := bp.paramMap[p]
		if !ok || bp.parent == nil || len(bp.parent.fn.Params) == 0 || cp != bp.parent.fn.Params[0] {
			return fldKey{}, false
		}
		return fldKey{cp, fa.Field, bp.callVer}, true
	}
	if len(bp.fn.Params) == 0 || p != bp.fn.Params[0] {
		return fldKey{}, false
	}
	bp.computeReach()
	return fldKey{p, fa.Field, bp.reach[u]}, true
}

// isPureFn: no stores, map updates or calls (other than len/cap builtins).
func isPureFn(f *ssa.Function) bool {
	if f == nil || len(f.Blocks) == 0 {
		return false
	}
	pure := true
	allInstrs(f, func(in ssa.Instruction) {
		switch x := in.(type) {
		case *ssa.Store, *ssa.MapUpdate, *ssa.Go, *ssa.Defer, *ssa.Send:
			pure = false
		case *ssa.Call:
			if b, ok := x.Call.Value.(*ssa.Builtin); ok && (b.Name() == "len" || b.Name() == "cap") {
				return
			}
			pure = false
		}
	})
	return pure
}

// computeReach: forward dataflow of reaching clobbers (stores to fields of
// parameter-typed structs, calls that receive such a pointer and are not pure).
func (bp *boundsProver) computeReach() {
	if bp.reach != nil {
		return
	}
	bp.reach = map[ssa.Instruction]string{}
	f := bp.fn
	// directlyRooted: the pointer addresses the parameter's own pointee (the
	// parameter itself or a field address chain on it), not memory reached
	// through a loaded slice/pointer.
	var directlyRooted func(v ssa.Value) bool
	directlyRooted = func(v ssa.Value) bool {
		switch x := v.(type) {
		case *ssa.Parameter:
			_, isPtr := x.Type().Underlying().(*types.Pointer)
			return isPtr && len(f.Params) > 0 && x == f.Params[0]
		case *ssa.FieldAddr:
			return directlyRooted(x.X)
		}
		return false
	}
	clobbers := func(in ssa.Instruction) bool {
		switch x := in.(type) {
		case *ssa.Store:
			return directlyRooted(x.Addr)
		case ssa.CallInstruction:
			cc := x.Common()
			if _, ok := cc.Value.(*ssa.Builtin); ok {
				return false
			}
			if sc := cc.StaticCallee(); sc != nil && isPureFn(sc) {
				return false
			}
			for _, a := range cc.Args {
				if directlyRooted(a) {
					return true
				}
			}
			if cc.IsInvoke() && directlyRooted(cc.Value) {
				return true
			}
		}
		return false
	}
	id := map[ssa.Instruction]int{}
	n := 0
	bp.clobberByVer = map[string]ssa.Instruction{}
	allInstrs(f, func(in ssa.Instruction) {
		if clobbers(in) {
			n++
			id[in] = n
			bp.clobberByVer[fmt.Sprint([]int{n})] = in
		}
	})
	out := make([]map[int]bool, len(f.Blocks))
	for i := range out {
		out[i] = map[int]bool{}
	}
	render := func(m map[int]bool) string {
		var ks []int
		for k := range m {
			ks = append(ks, k)
		}
		sort.Ints(ks)
		return fmt.Sprint(ks)
	}
	for changed := true; changed; {
		changed = false
		for _, b := range f.Blocks {
			cur := map[int]bool{}
			if b.Index == 0 {
				cur[0] = true
			}
			for _, p := range b.Preds {
				for k := range out[p.Index] {
					cur[k] = true
				}
			}
			for _, in := range b.Instrs {
				if _, isLoad := in.(*ssa.UnOp); isLoad {
					bp.reach[in] = render(cur)
				}
				if _, isCall := in.(ssa.CallInstruction); isCall {
					bp.reach[in] = render(cur)
				}
				if k, ok := id[in]; ok {
					cur = map[int]bool{k: true}
				}
			}
			if render(cur) != render(out[b.Index]) {
				out[b.Index] = cur
				changed = true
			}
		}
	}
}

// inlineCall: a call to a pure single-result in-module function whose
// arguments are parameters of the caller is replaced by the linear form of its
// result, evaluated at the memory version of the call site.
func (bp *boundsProver) inlineCall(call *ssa.Call, d int) (lin, bool) {
	if bp.paramMap != nil || d > 10 {
		return lin{}, false
	}
	sc := call.Call.StaticCallee()
	if sc == nil || !isPureFn(sc) || len(sc.Blocks) != 1 || sc.Signature.Results().Len() != 1 {
		return lin{}, false
	}
	ret, ok := sc.Blocks[0].Instrs[len(sc.Blocks[0].Instrs)-1].(*ssa.Return)
	if !ok || !isIntegerT(ret.Results[0].Type()) {
		return lin{}, false
	}
	pm := map[*ssa.Parameter]*ssa.Parameter{}
	for i, a := range call.Call.Args {
		cp, ok := a.(*ssa.Parameter)
		if !ok || i >= len(sc.Params) {
			return lin{}, false
		}
		pm[sc.Params[i]] = cp
	}
	bp.computeReach()
	sub := &boundsProver{fn: sc, paramMap: pm, callVer: bp.reach[call], parent: bp}
	l := sub.linOf(ret.Results[0], d+1)
	// the result must be expressed purely over caller-visible atoms
	for a := range l.t {
		switch k := a.(type) {
		case fldKey:
		case lenKey:
			if _, ok := k.s.(fldKey); !ok {
				return lin{}, false
			}
		default:
			return lin{}, false
		}
	}
	return l, true
}

// lenOf: linear form of len(s).
func (bp *boundsProver) lenOf(s ssa.Value, d int) lin {
	switch x := s.(type) {
	case *ssa.Slice:
		var hi lin
		if x.High != nil {
			hi = bp.linOf(x.High, d+1)
		} else {
			hi = bp.lenOfBase(x.X, d+1)
		}
		if x.Low != nil {
			return hi.add(bp.linOf(x.Low, d+1), -1)
		}
		return hi
	case *ssa.MakeSlice:
		return bp.linOf(x.Len, d+1)
	case *ssa.ChangeType:
		return bp.lenOf(x.X, d+1)
	case *ssa.Convert:
		// string(bytes) / []byte(string): same length
		return bp.lenOf(x.X, d+1)
	case *ssa.Const:
		if x.Value != nil && x.Value.Kind().String() == "String" {
			return newLin(int64(len(x.Value.ExactString()) - 2))
		}
	}
	if at, ok := derefType(s.Type()).Underlying().(*types.Array); ok {
		return newLin(at.Len())
	}
	l := newLin(0)
	if fw := bp.forwarded(s); fw != nil && d < 20 {
		return bp.lenOf(fw, d+1)
	}
	// a package-level slice or array-backed table that only the package initialiser assigns: one length
	if u, ok := s.(*ssa.UnOp); ok && u.Op == token.MUL {
		if g, isG := u.X.(*ssa.Global); isG && globalAssignedOnlyByInit(g) {
			l.t[lenKey{globalKey{g}}] = 1
			return l
		}
	}
	if mk, ok := bp.memAtom(s); ok {
		l.t[lenKey{mk}] = 1
		return l
	}
	l.t[lenKey{s}] = 1
	return l
}

func (bp *boundsProver) lenOfBase(x ssa.Value, d int) lin {
	if at, ok := derefType(x.Type()).Underlying().(*types.Array); ok {
		return newLin(at.Len())
	}
	return bp.lenOf(x, d)
}

// nonNeg: atom is known to be >= 0.
func (bp *boundsProver) nonNeg(a any) bool {
	switch k := a.(type) {
	case lenKey:
		return true
	case fldKey:
		return fieldNonNeg(k)
	case ssa.Value:
		if isUnsignedT(k.Type()) {
			return true
		}
		if c, ok := k.(*ssa.Call); ok {
			if sc := c.Call.StaticCallee(); sc != nil && strings.HasPrefix(sc.String(), "math/bits.") {
				return true
			}
			// library lengths and counts
			if sc := c.Call.StaticCallee(); sc != nil {
				switch sc.String() {
				case "(*bytes.Reader).Len", "(*bytes.Buffer).Len", "(*bytes.Buffer).Cap", "(*bytes.Reader).Size", "(*strings.Reader).Len", "(*bufio.Reader).Buffered":
					return true
				}
			}
		}
		if p, ok := k.(*ssa.Phi); ok {
			// counting loop index: starts at a non-negative constant and only grows
			for _, e := range p.Edges {
				if c, ok := constInt(e); ok && c >= 0 {
					continue
				}
				if q, isPhi := stripConv(e).(*ssa.Phi); isPhi && q != p && !bp.inNonNeg[q] {
					// a copy of another counter
					if bp.inNonNeg == nil {
						bp.inNonNeg = map[*ssa.Phi]bool{}
					}
					bp.inNonNeg[p] = true
					r := bp.nonNeg(ssa.Value(q))
					delete(bp.inNonNeg, p)
					if r {
						continue
					}
				}
				if b, ok := stripConv(e).(*ssa.BinOp); ok && b.Op == token.ADD {
					if (stripConv(b.X) == ssa.Value(p)) || (stripConv(b.Y) == ssa.Value(p)) {
						if c, ok := constInt(b.Y); ok && c >= 0 {
							continue
						}
						if c, ok := constInt(b.X); ok && c >= 0 {
							continue
						}
					}
				}
				return false
			}
			return true
		}
	}
	return false
}

// fieldNonNeg: an integer field of the receiver's struct is never negative:
// it is unexported (only its package writes it), starts at the zero value or
// a non-negative constant, and every store in the package writes a value the
// prover shows ≥ 0 from the guards at the store, assuming the field itself is
// ≥ 0 before (induction over the sequence of stores). Unsigned fields hold trivially.
var fieldNonNegMemo = map[*types.Var]int{} // 1 assumed (in progress), 2 holds, 3 does not

func fieldNonNeg(k fldKey) bool {
	pt, ok := k.param.Type().Underlying().(*types.Pointer)
	if !ok {
		return false
	}
	st, ok := pt.Elem().Underlying().(*types.Struct)
	if !ok || k.field >= st.NumFields() {
		return false
	}
	fv := st.Field(k.field)
	if isUnsignedT(fv.Type()) {
		return true
	}
	if !isIntegerT(fv.Type()) || fv.Exported() {
		return false
	}
	switch fieldNonNegMemo[fv] {
	case 1, 2:
		return true
	case 3:
		return false
	}
	fieldNonNegMemo[fv] = 1
	fn := k.param.Parent()
	pkg := fn.Pkg
	if pkg == nil && fn.Origin() != nil {
		pkg = fn.Origin().Pkg
	}
	holds := pkg != nil
	var visit func(f *ssa.Function)
	seen := map[*ssa.Function]bool{}
	visit = func(f *ssa.Function) {
		if f == nil || seen[f] || !holds {
			return
		}
		seen[f] = true
		for _, b := range f.Blocks {
			for _, in := range b.Instrs {
				s, isStore := in.(*ssa.Store)
				if !isStore {
					continue
				}
				fa, isFA := s.Addr.(*ssa.FieldAddr)
				if !isFA || structField(fa.X.Type(), fa.Field) != fv {
					continue
				}
				if c, isC := constInt(s.Val); isC {
					if c < 0 {
						holds = false
					}
					continue
				}
				bp := &boundsProver{fn: f}
				if !bp.prove(bp.linOf(s.Val, 0), bp.factsAt(b), 4) {
					holds = false
				}
			}
		}
		for _, a := range f.AnonFuncs {
			visit(a)
		}
	}
	if pkg != nil {
		for _, m := range pkg.Members {
			switch x := m.(type) {
			case *ssa.Function:
				visit(x)
			case *ssa.Type:
				for _, t := range []types.Type{x.Type(), types.NewPointer(x.Type())} {
					ms := pkg.Prog.MethodSets.MethodSet(t)
					for i := 0; i < ms.Len(); i++ {
						visit(pkg.Prog.MethodValue(ms.At(i)))
					}
				}
			}
		}
	}
	if holds {
		fieldNonNegMemo[fv] = 2
	} else {
		fieldNonNegMemo[fv] = 3
	}
	return holds
}

// facts: linear forms known to be >= 0 at block b (from dominating branch edges).
func (bp *boundsProver) factsAt(b *ssa.BasicBlock) []lin {
	var out []lin
	cur := b
	for cur != nil {
		out = append(out, bp.phiFacts(cur)...)
		d := cur.Idom()
		if d == nil {
			break
		}
		if os.Getenv("JAMVERIF_BOUNDSDEBUG") == "2" {
			fmt.Fprintf(os.Stderr, "factsAt %s: cur=%d idom=%d last=%T\n", b.Parent().Name(), cur.Index, d.Index, d.Instrs[len(d.Instrs)-1])
		}
		if ifi, ok := d.Instrs[len(d.Instrs)-1].(*ssa.If); ok && len(d.Succs) == 2 {
			for si, s := range d.Succs {
				if d.Succs[0] == d.Succs[1] {
					break
				}
				if (s == cur || s.Dominates(cur)) && len(s.Preds) == 1 {
					out = append(out, bp.condFacts(ifi.Cond, si == 0, 0)...)
				}
			}
		}
		cur = d
	}
	return out
}

func (bp *boundsProver) condFacts(c ssa.Value, truth bool, d int) []lin {
	if d > 6 {
		return nil
	}
	if u, ok := c.(*ssa.UnOp); ok && u.Op == token.NOT {
		return bp.condFacts(u.X, !truth, d+1)
	}
	// the ok result of a module helper returning (…, ok): on ok the helper's other integer results are within the
	// bounds the helper itself established before reporting ok (summary proven in the callee)
	if ex, isEx := c.(*ssa.Extract); isEx && truth {
		if call, isCall := ex.Tuple.(*ssa.Call); isCall {
			if g := call.Call.StaticCallee(); g != nil && len(g.Blocks) > 0 && inModule(g) && g != bp.fn {
				var out []lin
				for _, sm := range okResultSummary(g, ex.Index) {
					var rv ssa.Value
					for _, r := range *call.Referrers() {
						if e2, ok := r.(*ssa.Extract); ok && e2.Index == sm.res {
							rv = e2
						}
					}
					if rv == nil || sm.param >= len(call.Call.Args) {
						continue
					}
					r := bp.linOf(rv, 0)
					switch sm.kind {
					case "nonneg":
						out = append(out, r)
					case "below-param":
						l := bp.linOf(call.Call.Args[sm.param], 0).add(r, -1)
						l.c--
						out = append(out, l)
					case "below-len":
						l := bp.lenOf(call.Call.Args[sm.param], 0).add(r, -1)
						l.c--
						out = append(out, l)
					}
				}
				return out
			}
		}
	}
	// a short-circuit value: a || b is false only if both are, a && b is true only if both are. The phi merges
	// the constant of the deciding operand with the value of the last one; every constant edge comes from a block
	// whose own test decided, so on the outcome that needs all operands that test went the other way.
	if p, isPhi := c.(*ssa.Phi); isPhi && isBoolT(p.Type()) {
		var out []lin
		okForm := true
		for i, e := range p.Edges {
			if k, isC := e.(*ssa.Const); isC && k.Value != nil {
				if (k.Value.String() == "true") == truth {
					okForm = false // the wanted outcome can also come from a deciding operand: nothing follows
					break
				}
				pred := p.Block().Preds[i]
				// the deciding block lies on every path to the operands evaluated after it, so reaching the phi over a
				// non-constant edge means its test did not take the direct edge
				onAll := true
				for j, e2 := range p.Edges {
					if _, isC2 := e2.(*ssa.Const); !isC2 && !pred.Dominates(p.Block().Preds[j]) {
						onAll = false
					}
				}
				if iff, isIf := pred.Instrs[len(pred.Instrs)-1].(*ssa.If); isIf && onAll && len(pred.Succs) == 2 && pred.Succs[0] != pred.Succs[1] {
					out = append(out, bp.condFacts(iff.Cond, pred.Succs[0] != p.Block(), d+1)...)
				}
				continue
			}
			out = append(out, bp.condFacts(e, truth, d+1)...)
		}
		if okForm {
			return out
		}
		return nil
	}
	b, ok := c.(*ssa.BinOp)
	if !ok {
		return nil
	}
	if !isIntegerT(b.X.Type()) {
		return nil
	}
	x, y := bp.operand(b.X), bp.operand(b.Y)
	ge := func(p, q lin, k int64) lin { // p - q - k >= 0
		l := p.add(q, -1)
		l.c -= k
		return l
	}
	op := b.Op
	if !truth {
		switch op {
		case token.LSS:
			op = token.GEQ
		case token.LEQ:
			op = token.GTR
		case token.GTR:
			op = token.LEQ
		case token.GEQ:
			op = token.LSS
		case token.EQL:
			op = token.NEQ
		case token.NEQ:
			op = token.EQL
		}
	}
	switch op {
	case token.LSS:
		return []lin{ge(y, x, 1)}
	case token.LEQ:
		return []lin{ge(y, x, 0)}
	case token.GTR:
		return []lin{ge(x, y, 1)}
	case token.GEQ:
		return []lin{ge(x, y, 0)}
	case token.EQL:
		return []lin{ge(x, y, 0), ge(y, x, 0)}
	case token.NEQ:
		// x != 0 with x non-negative: x >= 1
		diff := x.add(y, -1)
		if len(diff.t) == 1 && diff.c == 0 {
			for a, k := range diff.t {
				if k == 1 && bp.nonNeg(a) {
					diff.c = -1
					return []lin{diff}
				}
			}
		}
		// x != max of x's unsigned type: x ≤ max − 1
		if len(diff.t) == 1 {
			for a, k := range diff.t {
				v, isV := a.(ssa.Value)
				if !isV || !isUnsignedT(v.Type()) || intBits(v.Type()) > 32 {
					continue
				}
				mx := int64(1)<<uint(intBits(v.Type())) - 1
				if k == 1 && diff.c == -mx || k == -1 && diff.c == mx {
					l := newLin(mx - 1)
					l.t[a] = -1
					return []lin{l}
				}
			}
		}
	}
	return nil
}

// prove g >= 0 from facts (each fact is a linear form known to be >= 0):
// search for g = Σ λ_j f_j + r with λ_j > 0 and r trivially non-negative.
func (bp *boundsProver) prove(g lin, facts []lin, depth int) bool {
	trivial := g.c >= 0
	for a, k := range g.t {
		if k < 0 || !bp.nonNeg(a) {
			trivial = false
		}
	}
	if trivial {
		return true
	}
	if depth == 0 {
		return false
	}
	for i, f := range facts {
		tried := map[int64]bool{}
		for a, ka := range g.t {
			kf := f.t[a]
			if kf == 0 || (ka < 0) != (kf < 0) || ka%kf != 0 {
				continue
			}
			lam := ka / kf
			if lam <= 0 || tried[lam] {
				continue
			}
			tried[lam] = true
			rest := append(append([]lin{}, facts[:i]...), facts[i+1:]...)
			if bp.prove(g.add(f, -lam), rest, depth-1) {
				return true
			}
		}
		// constant-only help: g has negative constant and f = atom-free? not useful
	}
	return false
}

// negative indices and lower slice bounds panic as well: a signed index needs a proof of idx ≥ 0 (JAMVERIF_NONEG=1 turns the goal off for comparison)
var checkNegIdx = os.Getenv("JAMVERIF_NONEG") == ""

type boundsSite struct {
	in   ssa.Instruction
	desc string
	ok   bool
	goal string
}

// checkBounds examines every index/slice site of fn (excluding closures).
func checkBounds(fn *ssa.Function) []boundsSite {
	bp := &boundsProver{fn: fn}
	var out []boundsSite
	for _, b := range fn.Blocks {
		var facts []lin
		got := false
		for _, in := range b.Instrs {
			var goals []lin
			desc := ""
			switch x := in.(type) {
			case *ssa.IndexAddr:
				l := bp.lenOfBase(x.X, 0)
				g := l.add(bp.linOf(x.Index, 0), -1)
				g.c--
				goals = append(goals, g)
				if checkNegIdx && !isUnsignedT(x.Index.Type()) {
					goals = append(goals, bp.linOf(x.Index, 0))
				}
				desc = exprStr(x.X, shapeOpts) + "[" + exprStr(x.Index, shapeOpts) + "]"
			case *ssa.Index:
				l := bp.lenOfBase(x.X, 0)
				g := l.add(bp.linOf(x.Index, 0), -1)
				g.c--
				goals = append(goals, g)
				desc = exprStr(x.X, shapeOpts) + "[" + exprStr(x.Index, shapeOpts) + "]"
			case *ssa.Lookup:
				if _, isMap := x.X.Type().Underlying().(*types.Map); isMap {
					continue
				}
				l := bp.lenOf(x.X, 0)
				g := l.add(bp.linOf(x.Index, 0), -1)
				g.c--
				goals = append(goals, g)
				desc = exprStr(x.X, shapeOpts) + "[" + exprStr(x.Index, shapeOpts) + "]"
			case *ssa.Slice:
				l := bp.lenOfBase(x.X, 0)
				if x.High != nil {
					goals = append(goals, l.add(bp.linOf(x.High, 0), -1))
					if x.Low != nil {
						goals = append(goals, bp.linOf(x.High, 0).add(bp.linOf(x.Low, 0), -1))
					}
				} else if x.Low != nil {
					goals = append(goals, l.add(bp.linOf(x.Low, 0), -1))
				}
				if checkNegIdx && x.Low != nil && !isUnsignedT(x.Low.Type()) {
					goals = append(goals, bp.linOf(x.Low, 0))
				}
				if x.Max != nil {
					continue
				}
				desc = exprStr(x, shapeOpts)
			default:
				continue
			}
			if len(goals) == 0 {
				continue
			}
			if !got {
				facts = bp.factsAt(b)
				got = true
			}
			ok := true
			gs := ""
			// "bytes consumed" results of module parsers never exceed the slice they parsed (summary proven in the callee)
			siteFacts := facts
			for _, op := range in.Operands(nil) {
				if *op != nil && isIntegerT((*op).Type()) {
					siteFacts = append(siteFacts[:len(siteFacts):len(siteFacts)], consumedFacts(bp, *op)...)
					siteFacts = append(siteFacts, libraryFacts(bp, *op, facts)...)
				}
			}
			for _, g := range goals {
				if !bp.prove(g, siteFacts, 4) {
					ok = false
					gs = g.String()
					if os.Getenv("JAMVERIF_BOUNDSDEBUG") != "" {
						fmt.Fprintf(os.Stderr, "boundsdebug %s: goal %s; facts:", fn.Name(), gs)
						for _, ff := range siteFacts {
							fmt.Fprintf(os.Stderr, " [%s]", ff.String())
						}
						fmt.Fprintln(os.Stderr)
					}
					break
				}
			}
			out = append(out, boundsSite{in: in, desc: desc, ok: ok, goal: gs})
		}
	}
	return out
}

// libraryFacts: bounds the standard library guarantees for values occurring in v:
// bytes.NewReader(x).Len() ≤ len(x) (the unread part of x), likewise Size().
func libraryFacts(bp *boundsProver, v ssa.Value, facts []lin) []lin {
	var out []lin
	seen := map[ssa.Value]bool{}
	var walk func(ssa.Value, int)
	walk = func(v ssa.Value, d int) {
		if v == nil || seen[v] || d > 8 {
			return
		}
		seen[v] = true
		switch x := v.(type) {
		case *ssa.BinOp:
			walk(x.X, d+1)
			walk(x.Y, d+1)
		case *ssa.Convert:
			walk(x.X, d+1)
		case *ssa.ChangeType:
			walk(x.X, d+1)
		case *ssa.Call:
			sc := x.Call.StaticCallee()
			if sc != nil && len(sc.Blocks) > 0 && inModule(sc) {
				// a module helper every result of which is a small constant or a math/bits count: result ≤ that bound
				if ub, ok := smallResultBound(sc); ok {
					out = append(out, newLin(ub).add(bp.linOf(x, 0), -1))
				}
				return
			}
			if sc == nil || len(x.Call.Args) != 1 {
				return
			}
			// math/bits: LeadingZerosN(a), TrailingZerosN(a), LenN(a) ≤ N; with a ≠ 0 (shown from the facts in
			// force: a ≥ 1, or a = ^y with y below its type's maximum) LeadingZerosN, TrailingZerosN ≤ N−1 and LenN ≥ 1
			if name := sc.String(); strings.HasPrefix(name, "math/bits.") {
				fn := strings.TrimPrefix(name, "math/bits.")
				kind, n := "", int64(0)
				for _, k := range []string{"LeadingZeros", "TrailingZeros", "Len"} {
					if strings.HasPrefix(fn, k) {
						kind = k
						switch strings.TrimPrefix(fn, k) {
						case "8":
							n = 8
						case "16":
							n = 16
						case "32":
							n = 32
						case "64":
							n = 64
						case "":
							n = int64(intBits(x.Call.Args[0].Type()))
						}
					}
				}
				if kind == "" || n == 0 {
					return
				}
				r := bp.linOf(x, 0)
				up := newLin(n).add(r, -1)
				out = append(out, up)
				arg := x.Call.Args[0]
				nonZero := false
				g := bp.linOf(arg, 0)
				g.c--
				if bp.prove(g, facts, 3) {
					nonZero = true
				}
				if u, isU := stripIntConv(arg).(*ssa.UnOp); isU && u.Op == token.XOR {
					if bt, isB := u.X.Type().Underlying().(*types.Basic); isB && isUnsignedT(u.X.Type()) && intBits(u.X.Type()) <= 32 {
						_ = bt
						mx := int64(1)<<uint(intBits(u.X.Type())) - 1
						g2 := newLin(mx-1).add(bp.linOf(u.X, 0), -1)
						if bp.prove(g2, facts, 3) {
							nonZero = true
						}
					}
				}
				if nonZero {
					if kind == "Len" {
						l := bp.linOf(x, 0)
						l.c--
						out = append(out, l)
					} else {
						out = append(out, newLin(n-1).add(r, -1))
					}
				}
				return
			}
			if s := sc.String(); s != "(*bytes.Reader).Len" && s != "(*bytes.Reader).Size" {
				return
			}
			mk, ok := x.Call.Args[0].(*ssa.Call)
			if !ok || mk.Call.StaticCallee() == nil || mk.Call.StaticCallee().String() != "bytes.NewReader" {
				return
			}
			out = append(out, bp.lenOf(mk.Call.Args[0], 0).add(bp.linOf(x, 0), -1))
		}
	}
	walk(v, 0)
	return out
}

// smallResultBound: every value g returns is (an integer conversion of) a non-negative constant below 128 or a
// math/bits LeadingZeros/TrailingZeros/Len count; returns the largest such bound (small enough to survive any
// integer conversion).
func smallResultBound(g *ssa.Function) (int64, bool) {
	if g.Signature.Results().Len() != 1 || !isIntegerT(g.Signature.Results().At(0).Type()) {
		return 0, false
	}
	best, n, ok := int64(0), 0, true
	allInstrs(g, func(in ssa.Instruction) {
		r, isR := in.(*ssa.Return)
		if !isR {
			return
		}
		rs := retResults(r)
		if len(rs) != 1 {
			ok = false
			return
		}
		n++
		for _, leaf := range phiLeaves(rs[0]) {
			v := stripConv(leaf)
			if k, isC := constInt(v); isC && k >= 0 && k < 128 {
				if k > best {
					best = k
				}
				continue
			}
			call, isCall := v.(*ssa.Call)
			if !isCall || call.Call.StaticCallee() == nil {
				ok = false
				return
			}
			name := call.Call.StaticCallee().String()
			w := int64(0)
			for _, p := range []string{"math/bits.LeadingZeros", "math/bits.TrailingZeros", "math/bits.Len"} {
				if strings.HasPrefix(name, p) {
					switch strings.TrimPrefix(name, p) {
					case "8":
						w = 8
					case "16":
						w = 16
					case "32":
						w = 32
					case "64", "":
						w = 64
					}
				}
			}
			if w == 0 {
				ok = false
				return
			}
			if w > best {
				best = w
			}
		}
	})
	return best, ok && n > 0
}

// okResultSummary: for a helper g whose result okIdx is a boolean, the bounds on its other integer results that
// hold at every return reporting true: result ≥ 0, result < an integer parameter, result < len(slice parameter) —
// each proven inside g from the guards that dominate that return.
type okSummary struct {
	res   int
	kind  string
	param int
}

var okSummaryMemo = map[*ssa.Function]map[int][]okSummary{}

func okResultSummary(g *ssa.Function, okIdx int) []okSummary {
	if m, ok := okSummaryMemo[g]; ok {
		if s, ok := m[okIdx]; ok {
			return s
		}
	} else {
		okSummaryMemo[g] = map[int][]okSummary{}
	}
	okSummaryMemo[g][okIdx] = nil
	res := g.Signature.Results()
	if okIdx >= res.Len() || !isBoolT(res.At(okIdx).Type()) {
		return nil
	}
	var trueRets []*ssa.Return
	bad := false
	allInstrs(g, func(in ssa.Instruction) {
		r, isR := in.(*ssa.Return)
		if !isR {
			return
		}
		rs := retResults(r)
		if len(rs) != res.Len() {
			bad = true
			return
		}
		k, isC := rs[okIdx].(*ssa.Const)
		if !isC || k.Value == nil {
			bad = true
			return
		}
		if k.Value.String() == "true" {
			trueRets = append(trueRets, r)
		}
	})
	if bad || len(trueRets) == 0 {
		return nil
	}
	bp := &boundsProver{fn: g}
	var out []okSummary
	for ri := 0; ri < res.Len(); ri++ {
		if ri == okIdx || !isIntegerT(res.At(ri).Type()) {
			continue
		}
		holds := func(goal func(r *ssa.Return) lin) bool {
			for _, r := range trueRets {
				if !bp.prove(goal(r), bp.factsAt(r.Block()), 4) {
					return false
				}
			}
			return true
		}
		if holds(func(r *ssa.Return) lin { return bp.linOf(retResults(r)[ri], 0) }) {
			out = append(out, okSummary{ri, "nonneg", 0})
		}
		for pi, p := range g.Params {
			p := p
			switch {
			case isIntegerT(p.Type()):
				if holds(func(r *ssa.Return) lin {
					l := bp.linOf(p, 0).add(bp.linOf(retResults(r)[ri], 0), -1)
					l.c--
					return l
				}) {
					out = append(out, okSummary{ri, "below-param", pi})
				}
			default:
				if _, isSl := p.Type().Underlying().(*types.Slice); isSl {
					if holds(func(r *ssa.Return) lin {
						l := bp.lenOf(p, 0).add(bp.linOf(retResults(r)[ri], 0), -1)
						l.c--
						return l
					}) {
						out = append(out, okSummary{ri, "below-len", pi})
					}
				}
			}
		}
	}
	okSummaryMemo[g][okIdx] = out
	return out
}

var globalInitOnlyMemo = map[*ssa.Global]bool{}

// globalAssignedOnlyByInit: the unexported package-level variable g is stored (as a whole) only in its package's
// initialiser and its address is not taken otherwise (element writes do not change its length).
func globalAssignedOnlyByInit(g *ssa.Global) bool {
	if v, ok := globalInitOnlyMemo[g]; ok {
		return v
	}
	globalInitOnlyMemo[g] = false
	if g.Pkg == nil || token.IsExported(g.Name()) {
		return false
	}
	good := true
	var visit func(f *ssa.Function)
	seen := map[*ssa.Function]bool{}
	visit = func(f *ssa.Function) {
		if f == nil || seen[f] {
			return
		}
		seen[f] = true
		isInit := f.Name() == "init" && f.Parent() == nil
		allInstrs(f, func(in ssa.Instruction) {
			for _, op := range in.Operands(nil) {
				if op == nil || *op != ssa.Value(g) {
					continue
				}
				switch x := in.(type) {
				case *ssa.UnOp:
					if x.Op != token.MUL {
						good = false
					}
				case *ssa.Store:
					if x.Addr != ssa.Value(g) || !isInit {
						good = false
					}
				case *ssa.DebugRef:
				default:
					good = false
				}
			}
		})
		for _, a := range f.AnonFuncs {
			visit(a)
		}
	}
	for _, m := range g.Pkg.Members {
		switch x := m.(type) {
		case *ssa.Function:
			visit(x)
		case *ssa.Type:
			for _, t := range []types.Type{x.Type(), types.NewPointer(x.Type())} {
				ms := g.Pkg.Prog.MethodSets.MethodSet(t)
				for i := 0; i < ms.Len(); i++ {
					visit(g.Pkg.Prog.MethodValue(ms.At(i)))
				}
			}
		}
	}
	globalInitOnlyMemo[g] = good
	return good
}
