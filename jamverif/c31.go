package main

import (
	"fmt"
	"go/ast"
	"go/token"
	"go/types"
	"strings"

	"golang.org/x/tools/go/packages"

	"golang.org/x/tools/go/ssa"
)

func checkC31(c *Ctx) (string, []string) {
	A := "internal/accumulation."

	c.Rule("C31.availability", "isValidTime(l, t) equals GP 9.7's I for every arity: [] ↦ false, [x] ↦ x ≤ t, [x,y] ↦ x ≤ t < y, [x,y,z] ↦ x ≤ t < y ∨ z ≤ t, longer ↦ false (each case's returned expression is tabulated over all x,y,z,t ∈ 0..4); HistoricalLookup returns the stored blob exactly when it exists and isValidTime holds for the entry keyed by (hash, |blob|) at the requested time", 8)
	ivt := c.Fn(saPkg, "isValidTime")
	hl := c.Fn(saPkg, "HistoricalLookup")
	if ivt != nil && len(ivt.Params) == 2 {
		spec := func(n int64, l [4]int64, t int64) bool {
			switch n {
			case 1:
				return l[0] <= t
			case 2:
				return l[0] <= t && t < l[1]
			case 3:
				return (l[0] <= t && t < l[1]) || l[2] <= t
			}
			return false
		}
		dom := []int64{0, 1, 2, 3, 4}
		if c.Tier == "thorough" {
			dom = []int64{0, 1, 2, 3, 4, 5, 6, 1<<32 - 1}
		}
		for n := int64(0); n <= 4; n++ {
			key := fmt.Sprintf("%s.isValidTime · |l| = %d", saPkg, n)
			bad := ""
			count := 0
			for _, x := range dom {
				for _, y := range dom {
					for _, z := range dom {
						for _, t := range dom {
							if bad != "" {
								break
							}
							l := [4]int64{x, y, z, 0}
							env := intEnv{params: map[ssa.Value]int64{ivt.Params[1]: t}, lens: map[ssa.Value]int64{ivt.Params[0]: n}, unknown: map[ssa.Value]bool{}, closed: true, cells: map[ssa.Value]int64{}}
							env.opaque = func(v ssa.Value) (int64, bool) {
								// l[k] for a constant k inside the list
								var base, idx ssa.Value
								switch u := v.(type) {
								case *ssa.UnOp:
									if ia, ok := u.X.(*ssa.IndexAddr); ok && u.Op == token.MUL {
										base, idx = ia.X, ia.Index
									}
								case *ssa.Index:
									base, idx = u.X, u.Index
								}
								if base == ssa.Value(ivt.Params[0]) {
									if k, ok := constInt(idx); ok && k >= 0 && k < n && k < 4 {
										return l[k], true
									}
								}
								return 0, false
							}
							rs, ok := runFunc(ivt, env)
							count++
							if !ok || len(rs) != 1 {
								bad = fmt.Sprintf("isValidTime is not a comparison formula over l[0..|l|-1] and t (evaluation stops at l=%v[:%d], t=%d; an element outside the list would be read, or something else consulted)", l[:3], n, t)
							} else if (rs[0] != 0) != spec(n, l, t) {
								bad = fmt.Sprintf("for l=%v[:%d], t=%d the code yields %v, GP 9.7 yields %v", l[:3], n, t, rs[0] != 0, spec(n, l, t))
							}
						}
					}
				}
			}
			if bad == "" {
				c.OK("C31.availability", key, ivt.Pos(), "equals I(l,t) on all %d valuations", count)
			} else {
				c.Bad("C31.availability", key, ivt.Pos(), "%s", bad)
			}
		}
	}
	if hl != nil && ivt != nil {
		o := robustOpts
		// the availability test is made on the entry keyed by (hash, |stored blob|) at the requested time
		var vcall *ssa.Call
		allInstrs(hl, func(in ssa.Instruction) {
			if call, ok := in.(*ssa.Call); ok && call.Call.StaticCallee() == ivt {
				vcall = call
			}
		})
		if vcall == nil {
			c.Bad("C31.availability", saPkg+".HistoricalLookup · key", hl.Pos(), "HistoricalLookup does not consult isValidTime")
		} else {
			lk := map[string][]string{}
			allInstrs(hl, func(in ssa.Instruction) {
				if st, ok := in.(*ssa.Store); ok {
					a := abbr(exprStr(st.Addr, shapeOpts))
					if strings.HasPrefix(a, "&alloc:types.LookupMetaMapkey.") {
						f := strings.TrimPrefix(a, "&alloc:types.LookupMetaMapkey.")
						v := abbr(exprStr(st.Val, o))
						v = strings.ReplaceAll(v, "p0.PreimageLookup[p2]#0", "p0.PreimageLookup[p2]")
						lk[f] = append(lk[f], v)
					}
				}
			})
			c.checkShapes("C31.availability", saPkg+".HistoricalLookup · key", hl, lk, map[string][]string{"Hash": {"p2"}, "Length": {"u32(len(p0.PreimageLookup[p2]))"}})
			arg := abbr(exprStr(vcall.Call.Args[0], o))
			c.Check(arg == "p0.LookupDict[*alloc:types.LookupMetaMapkey]" && abbr(exprStr(vcall.Call.Args[1], o)) == "p1", "C31.availability", saPkg+".HistoricalLookup · entry", vcall.Pos(), "isValidTime(a_l[(h, |a_p[h]|)], t)", "the availability test is made on "+arg+" at "+abbr(exprStr(vcall.Call.Args[1], o)))
		}
		// blob iff present ∧ available (truth table)
		bad := ""
		for m := 0; m < 4 && bad == ""; m++ {
			present, valid := int64(m&1), int64(m>>1)
			// atoms are named with helpers kept as calls: isValidTime itself is the atom, whatever wraps it is evaluated
			oa := o
			oa.inline = nil
			r, ok := runWithAtoms(hl, oa, func(s string) (int64, bool) {
				switch {
				case s == "p0.PreimageLookup[p2]#1":
					return present, true
				case strings.HasPrefix(s, saPkg+".isValidTime("):
					return valid, true
				}
				return 0, false
			}, nil)
			if !ok || len(r.Results) != 1 {
				bad = "the result depends on something other than (the preimage is stored, the entry is available at t)"
				break
			}
			res := abbr(exprStr(r.Results[0], o))
			isBlob := res == "p0.PreimageLookup[p2]#0" || res == "p0.PreimageLookup[p2]"
			if !isBlob && res != "nil" {
				bad = "HistoricalLookup can return " + res
			} else if isBlob != (present == 1 && valid == 1) {
				bad = fmt.Sprintf("with stored=%d and available=%d the blob is returned=%v", present, valid, isBlob)
			}
		}
		c.Check(bad == "", "C31.availability", saPkg+".HistoricalLookup · arms", hl.Pos(), "blob iff present ∧ available, nil otherwise (4/4 rows)", "the blob is returned without both the presence test and the availability test (or withheld although both hold): "+bad)
	}

	c.Rule("C31.admission", "validateSortUnique rejects exactly when, for some adjacent pair, requester[i−1] > requester[i] or (equal and blob[i−1] ≥ blob[i]) (tabulated over all requester orderings and comparison outcomes); ValidatePreimageExtrinsics returns that error before looking at any entry, then rejects an entry unless ShouldIntegratePreimage(δ, requester, Blake2b(blob), |blob|) — which, for a known request, holds iff the preimage is not stored and the request's slot list is empty", 6)
	if fd, p := c.FuncDecl(accPkg, "validateSortUnique"); fd != nil {
		c31SortUnique(c, fd, p)
	}
	vpe := c.Fn(accPkg, "ValidatePreimageExtrinsics")
	vsu := c.Fn(accPkg, "validateSortUnique")
	sip := c.Fn(accPkg, "ShouldIntegratePreimage")
	if vpe != nil && vsu != nil && sip != nil {
		var sortCall, sipCall ssa.Instruction
		allInstrs(vpe, func(in ssa.Instruction) {
			switch calleeFunc2(in) {
			case vsu:
				sortCall = in
			case sip:
				sipCall = in
			}
		})
		ok := sortCall != nil && sipCall != nil
		if ok {
			pass := condEdges(vpe, func(v ssa.Value) (bool, bool) {
				return exprStr(v, shapeOpts) == "("+A+"validateSortUnique(p0) != nil)", false
			})
			ok = len(pass) == 1 && guardedBy(vpe, sipCall, pass)
			retOK := false
			allInstrs(vpe, func(in ssa.Instruction) {
				if r, isR := in.(*ssa.Return); isR && exprStr(r.Results[0], shapeOpts) == A+"validateSortUnique(p0)" {
					retOK = true
				}
			})
			ok = ok && retOK
		}
		c.Check(ok, "C31.admission", A+"ValidatePreimageExtrinsics · ordering first", vpe.Pos(), "entries are examined only after the ordering check passed; its error is returned unchanged", "entries are admitted without (or before) the sorted-unique check, or its error is not returned")
		args := ""
		if sipCall != nil {
			var as []string
			for _, a := range sipCall.(ssa.CallInstruction).Common().Args {
				as = append(as, abbr(exprStr(a, shapeOpts)))
			}
			args = strings.Join(as, ", ")
		}
		c.Check(args == "p1, p0[*].Requester, hash.Blake2bHash(p0[*].Blob), u32(len(p0[*].Blob)), p2, false", "C31.admission", A+"ValidatePreimageExtrinsics · solicitation check", vpe.Pos(), "ShouldIntegratePreimage(δ, requester, H(blob), |blob|)", "solicitation is checked with ("+args+")")
		need := condEdges(vpe, func(v ssa.Value) (bool, bool) {
			return strings.HasPrefix(exprStr(v, shapeOpts), A+"ShouldIntegratePreimage("), false
		})
		okU := len(need) == 1
		allInstrs(vpe, func(in ssa.Instruction) {
			if r, isR := in.(*ssa.Return); isR && abbr(exprStr(r.Results[0], shapeOpts)) == "cell(0)" && !guardedBy(vpe, r, need) {
				okU = false
			}
		})
		c.Check(okU, "C31.admission", A+"ValidatePreimageExtrinsics · unneeded", vpe.Pos(), "PreimageUnneeded exactly on the failing edge of the solicitation check", "the unneeded-preimage error is not tied to the solicitation check")
		c.checkShapes("C31.admission", A+"ShouldIntegratePreimage", sip, abbrMap(returnShapes(sip)), map[string][]string{"ret": {"false", A + "lookupAndRemoveKeyVal(p4, *alloc:types.LookupMetaMapkey, p1)", A + "lookupInKeyVal(*p4, *alloc:types.LookupMetaMapkey, p1)", "phi((0 == len(p0[p1]#0.LookupDict[*alloc:types.LookupMetaMapkey]#0)) | false)"}})
		// the final conjunction: !stored ∧ empty
		stored := condEdges(sip, func(v ssa.Value) (bool, bool) { return exprStr(v, shapeOpts) == "p0[p1]#0.PreimageLookup[p2]#1", false })
		var phiRet ssa.Instruction
		allInstrs(sip, func(in ssa.Instruction) {
			if r, isR := in.(*ssa.Return); isR && strings.HasPrefix(exprStr(r.Results[0], shapeOpts), "phi(") {
				phiRet = in
			}
		})
		okS := phiRet != nil && len(stored) == 1
		if okS {
			ph := phiRet.(*ssa.Return).Results[0].(*ssa.Phi)
			// the false edge of the phi comes from the block where "stored" was true
			for k, e := range ph.Edges {
				if cst, isC := e.(*ssa.Const); isC && cst.Value != nil && cst.Value.String() == "false" {
					pred := ph.Block().Preds[k]
					if pred != stored[0].from {
						okS = false
					}
				}
			}
		}
		c.Check(okS, "C31.admission", A+"ShouldIntegratePreimage · known request", sip.Pos(), "¬stored ∧ |slots| = 0", "for a known request the decision is not (preimage not stored ∧ slot list empty)")
	}

	c.Rule("C31.integration", "an accepted preimage is stored as a_p[H(blob)] = blob with a_l[(H(blob), |blob|)] = [τ'] for its requester, τ' being the posterior slot, over the filtered extrinsic", 3)
	upd := c.Fn(accPkg, "UpdateDeltaWithExtrinsicPreimage")
	proc := c.Fn(accPkg, "ProcessPreimageExtrinsics")
	if upd != nil && proc != nil {
		effs := abbrAll(effectShapesOpt(upd, func(string) bool { return false }, false))
		c.checkEffects("C31.integration", A+"UpdateDeltaWithExtrinsicPreimage", upd, effs, []string{
			"mapset p1[p0[*].Requester] ← p1[p0[*].Requester]#0",
			"mapset p1[p0[*].Requester]#0.LookupDict[*alloc:types.LookupMetaMapkey] ← [p2][:]",
			"mapset p1[p0[*].Requester]#0.PreimageLookup[hash.Blake2bHash(p0[*].Blob)] ← p0[*].Blob",
		})
		lk := map[string][]string{}
		allInstrs(upd, func(in ssa.Instruction) {
			if st, ok := in.(*ssa.Store); ok {
				a := abbr(exprStr(st.Addr, shapeOpts))
				if strings.HasPrefix(a, "&alloc:types.LookupMetaMapkey.") {
					f := strings.TrimPrefix(a, "&alloc:types.LookupMetaMapkey.")
					lk[f] = append(lk[f], abbr(exprStr(st.Val, shapeOpts)))
				}
			}
		})
		c.checkShapes("C31.integration", A+"UpdateDeltaWithExtrinsicPreimage · key", upd, lk, map[string][]string{"Hash": {"hash.Blake2bHash(p0[*].Blob)"}, "Length": {"u32(len(p0[*].Blob))"}})
		f := A + "filterPreimageExtrinsics(BLOCK.Extrinsic.Preimages, inter.GetDeltaDoubleDagger(INTER))"
		c.requireCall("C31.integration", A+"ProcessPreimageExtrinsics", proc, "UpdateDeltaWithExtrinsicPreimage", []string{f + "#0 ‖ " + f + "#1 ‖ post.GetTau(POST)"})
		c.requireCall("C31.integration", A+"ProcessPreimageExtrinsics", proc, "SetDelta", []string{"POST ‖ " + A + "UpdateDeltaWithExtrinsicPreimage(" + f + "#0, " + f + "#1, post.GetTau(POST))#0"})
	}
	c.Rule("C31.host-account", "the refine host call historical_lookup reads the calling service's own account only when ω7 = 2^64−1 (and the account exists), the account named by ω7 when that exists, and no account otherwise (GP B.8); the lookup is made at the refinement's anchor slot for the hash read from guest memory", 2)
	if hcl := c.Fn("PVM", "historicalLookup"); hcl != nil {
		st := "*cell(p0).Addition.GeneralArgs.ServiceAccountState"
		selfE := condEdges(hcl, func(v ssa.Value) (bool, bool) {
			return exprStr(v, shapeOpts) == st+"[*cell(p0).Addition.GeneralArgs.ServiceID]#1", true
		})
		maxE := condEdges(hcl, func(v ssa.Value) (bool, bool) {
			return exprStr(v, shapeOpts) == "(18446744073709551615 == cell(p0).VM.Registers[7])", true
		})
		otherE := condEdges(hcl, func(v ssa.Value) (bool, bool) {
			return exprStr(v, shapeOpts) == st+"[u32(cell(p0).VM.Registers[7])]#1", true
		})
		var acct *ssa.Phi
		allInstrs(hcl, func(in ssa.Instruction) {
			if ph, ok := in.(*ssa.Phi); ok && strings.Contains(typeStr(ph.Type()), "ServiceAccount") && acct == nil {
				acct = ph
			}
		})
		ok, why := acct != nil && len(selfE) == 1 && len(maxE) == 1 && len(otherE) == 1, "account selection structure not recognised"
		if ok {
			why = ""
			for k, e := range acct.Edges {
				pred := acct.Block().Preds[k]
				term := pred.Instrs[len(pred.Instrs)-1]
				s := exprStr(e, shapeOpts)
				switch {
				case strings.Contains(s, "[*cell(p0).Addition.GeneralArgs.ServiceID]#0"):
					if !(guardedBy(hcl, term, selfE) && guardedBy(hcl, term, maxE)) {
						ok, why = false, "the caller's own account is selected on a path where ω7 = 2^64−1 was not established: a lookup naming a missing service falls back to the caller's account instead of returning NONE"
					}
				case strings.Contains(s, "[u32(cell(p0).VM.Registers[7])]#0"):
					if !guardedBy(hcl, term, otherE) {
						ok, why = false, "the account named by ω7 is used without testing that it exists"
					}
				case s == "nil":
				default:
					ok, why = false, "unexpected account source "+abbr(s)
				}
			}
		}
		c.Check(ok, "C31.host-account", "PVM.historicalLookup · account selection", hcl.Pos(), "self only behind ω7 = 2^64−1 ∧ exists; named account behind exists; none otherwise", why)
		args := callArgShapes(hcl, func(ci ssa.CallInstruction) bool {
			return calleeFunc(ci) != nil && calleeFunc(ci).Name() == "HistoricalLookup"
		}, 1)
		args2 := callArgShapes(hcl, func(ci ssa.CallInstruction) bool {
			return calleeFunc(ci) != nil && calleeFunc(ci).Name() == "HistoricalLookup"
		}, 2)
		c.Check(len(args) == 1 && args[0] == "cell(p0).Addition.RefineArgs.TimeSlot" && len(args2) == 1 && args2[0] == "*(*PVM.Memory).Read(cell(p0).VM.Memory, cell(p0).VM.Registers[8], 32)", "C31.host-account", "PVM.historicalLookup · lookup arguments", hcl.Pos(), "Λ(a, refinement anchor slot, hash read from ω8)", fmt.Sprintf("HistoricalLookup called with time %v and hash %v", args, args2))
	}
	_ = token.ADD
	return "Historical-lookup and preimage-admission mechanisms decided statically: isValidTime's per-arity formulas are tabulated against GP 9.7 over all orderings of (x, y, z, t); HistoricalLookup's key, tests and arms; validateSortUnique's rejection condition tabulated over requester orderings and blob comparison outcomes on adjacent pairs; the admission pipeline (ordering first, solicitation with (H(blob), |blob|), unneeded error); ShouldIntegratePreimage's ¬stored ∧ empty-slots decision; integration with [τ'] for the requester.",
		[]string{"AST comparison-formula evaluator over finite atom tables (no statement execution); canonical SSA shapes", "not decided: the raw key-value fallback (lookupInKeyVal) semantics; the refine host call's account selection (C07's tables cover its register/memory discipline, not which account is chosen)"}
}

// c31SortUnique tabulates the two rejection conditions of the loop body.
func c31SortUnique(c *Ctx, fd *ast.FuncDecl, pkg *packages.Package) {
	info := pkg.TypesInfo
	_ = info
	key := accPkg + ".validateSortUnique"
	eps := fd.Type.Params.List[0].Names[0].Name
	var loop *ast.ForStmt
	ast.Inspect(fd.Body, func(n ast.Node) bool {
		if f, ok := n.(*ast.ForStmt); ok && loop == nil {
			loop = f
		}
		return true
	})
	if loop == nil {
		c.Unknown("C31.admission", key, fd.Pos(), "no loop over adjacent pairs")
		return
	}
	// loop variable and start
	iv := ""
	if as, ok := loop.Init.(*ast.AssignStmt); ok && len(as.Lhs) == 1 {
		iv = types.ExprString(as.Lhs[0])
		if types.ExprString(as.Rhs[0]) != "1" {
			c.Bad("C31.admission", key+" · pairs", fd.Pos(), "the loop does not start at the second element")
		}
	}
	which := func(e ast.Expr) (prev bool, ok bool) { // eps[i-1] or eps[i]
		ix, isIx := e.(*ast.IndexExpr)
		if !isIx || types.ExprString(ix.X) != eps {
			return false, false
		}
		switch types.ExprString(ix.Index) {
		case iv:
			return false, true
		case iv + " - 1", iv + "-1":
			return true, true
		}
		return false, false
	}
	bad := ""
	n := 0
	dom := []int64{0, 1, 2, 1 << 31, 1<<31 + 1, 1<<32 - 1}
	for _, rp := range dom {
		for _, rc := range dom {
			if bad != "" {
				break
			}
			for cmp := int64(-1); cmp <= 1 && bad == ""; cmp++ {
				resolve := func(a ast.Expr) (astVal, bool) {
					switch x := a.(type) {
					case *ast.SelectorExpr:
						if x.Sel.Name == "Requester" {
							if prev, ok := which(x.X); ok {
								if prev {
									return astVal{i: rp}, true
								}
								return astVal{i: rc}, true
							}
						}
					case *ast.CallExpr:
						if types.ExprString(x.Fun) == "bytes.Compare" && len(x.Args) == 2 {
							s0, ok0 := x.Args[0].(*ast.SelectorExpr)
							s1, ok1 := x.Args[1].(*ast.SelectorExpr)
							if ok0 && ok1 && s0.Sel.Name == "Blob" && s1.Sel.Name == "Blob" {
								p0, k0 := which(s0.X)
								p1, k1 := which(s1.X)
								if k0 && k1 && p0 && !p1 {
									return astVal{i: cmp}, true
								}
								if k0 && k1 && !p0 && p1 {
									return astVal{i: -cmp}, true
								}
							}
						}
					}
					return astVal{}, false
				}
				// decision of the loop body for this valuation: "reject", "accept" (falls through / continue), or unknown
				var decide func(stmts []ast.Stmt) string
				decide = func(stmts []ast.Stmt) string {
					for _, st := range stmts {
						switch x := st.(type) {
						case *ast.IfStmt:
							if x.Init != nil {
								return "?"
							}
							env := &astEnv{pkg: pkg, resolve: resolve}
							v, ok := env.eval(x.Cond)
							if !ok || !v.isBool {
								return "?" + types.ExprString(x.Cond)
							}
							var r string
							if v.b {
								r = decide(x.Body.List)
							} else if x.Else != nil {
								switch e := x.Else.(type) {
								case *ast.BlockStmt:
									r = decide(e.List)
								case *ast.IfStmt:
									r = decide([]ast.Stmt{e})
								}
							}
							if r != "" {
								return r
							}
						case *ast.ReturnStmt:
							if len(x.Results) == 1 && types.ExprString(x.Results[0]) == "nil" {
								return "accept"
							}
							return "reject"
						case *ast.BranchStmt:
							if x.Tok == token.CONTINUE {
								return "accept"
							}
							return "?"
						case *ast.AssignStmt, *ast.DeclStmt, *ast.ExprStmt:
							// error-code construction / logging before a return: no effect on the decision
						default:
							return "?"
						}
					}
					return ""
				}
				d := decide(loop.Body.List)
				if strings.HasPrefix(d, "?") {
					bad = "the loop body is not a decision over the adjacent requesters and their blob comparison (" + d + ")"
				}
				reject := d == "reject"
				n++
				want := rp > rc || (rp == rc && cmp >= 0)
				if bad == "" && reject != want {
					bad = fmt.Sprintf("requester[i−1]=%d, requester[i]=%d, compare(blob[i−1], blob[i])=%d: code rejects=%v, GP 12.39 rejects=%v", rp, rc, cmp, reject, want)
				}
			}
		}
	}
	if bad == "" {
		c.OK("C31.admission", key+" · rejection table", fd.Pos(), "rejects iff requester[i−1] > requester[i] ∨ (= ∧ blob[i−1] ≥ blob[i]) on all %d valuations", n)
	} else {
		c.Bad("C31.admission", key+" · rejection table", fd.Pos(), "%s", bad)
	}
}
