package main

import (
	"fmt"
	"strings"

	"golang.org/x/tools/go/ssa"
)

// dumpFuncs prints the canonical shapes of the named functions (authoring aid
// for specification tables; not used by any check).
func dumpFuncs(rel string, names []string) {
	c := newCtx("DUMP", "quick")
	c.Load()
	c.SSA()
	for _, n := range names {
		f := c.Fn(rel, n)
		if f == nil {
			fmt.Println("not found:", n, c.fatal)
			continue
		}
		fmt.Println("=====", funcKey(f))
		for _, s := range condShapes(f) {
			fmt.Println("COND  ", abbr(s))
		}
		for _, e := range effectShapesOpt(f, func(string) bool { return true }, true) {
			fmt.Println("EFFECT", abbr(e))
		}
		dumpShapes("RET", abbrMap(returnShapes(f)))
		allInstrs(f, func(in ssa.Instruction) {
			if sl, ok := in.(*ssa.Slice); ok {
				fmt.Println("SLICE ", abbr(exprStr(sl, shapeOpts)))
			}
		})
		for _, cl := range f.AnonFuncs {
			fmt.Println("  closure", cl.Name(), strings.Join(condShapes(cl), " ; "))
		}
	}
}
