package main

import (
	"fmt"
	"os"
	"strings"

	"golang.org/x/tools/go/ssa"
)

var extraDump func(c *Ctx, f *ssa.Function)

// dumpFuncs prints the canonical shapes of the named functions (authoring aid
// for specification tables; not used by any check).
func dumpFuncs(rel string, names []string) {
	c := newCtx("DUMP", "quick")
	c.Load()
	c.SSA()
	for _, n := range names {
		f := c.Fn(rel, n)
		if f == nil {
			fmt.Println("not found:", n, c.fatal)
			continue
		}
		fmt.Println("=====", funcKey(f))
		for _, s := range condShapes(f) {
			fmt.Println("COND  ", abbr(s))
		}
		for _, e := range effectShapesOpt(f, func(string) bool { return true }, true) {
			fmt.Println("EFFECT", abbr(e))
		}
		dumpShapes("RET", abbrMap(returnShapes(f)))
		allInstrs(f, func(in ssa.Instruction) {
			if sl, ok := in.(*ssa.Slice); ok {
				fmt.Println("SLICE ", abbr(exprStr(sl, shapeOpts)))
			}
		})
		if os.Getenv("JAMVERIF_ROBUST") != "" {
			for _, a := range condAtoms(f, robustOpts) {
				fmt.Println("ATOM  ", abbr(a))
			}
			for _, a := range robustCalls(f, robustOpts, nil) {
				fmt.Println("RCALL ", abbr(a))
			}
			dumpShapes("RRET", abbrMap(returnShapesO(f, robustOpts)))
		}
		if extraDump != nil {
			extraDump(c, f)
		}
		for _, cl := range f.AnonFuncs {
			fmt.Println("  closure", cl.Name(), strings.Join(condShapes(cl), " ; "))
		}
	}
}

func init() {
	extraDump = func(c *Ctx, f *ssa.Function) {
		for _, suf := range []string{"StateWrapper", "LookupMetaMapkey", "StateKeyVal", "ServiceAccount"} {
			ls := literalStores(f, suf)
			if len(ls) > 0 {
				fmt.Println("LITERAL", suf, ls)
			}
		}
		n := 0
		allInstrs(f, func(in ssa.Instruction) {
			if st, ok := in.(*ssa.Store); ok && n < 40 {
				s := exprStr(st.Addr, shapeOpts)
				if strings.Contains(s, "State") {
					n++
					fmt.Println("STORE ", abbr(s))
				}
			}
		})
	}
}

// dumpBounds prints the bounds-prover verdict for every index/slice site of the named functions.
func dumpBounds(rel string, names []string) {
	c := newCtx("DUMP", "quick")
	c.Load()
	c.SSA()
	var fs []*ssa.Function
	if len(names) == 1 && names[0] == "ALL" {
		fs = c.SrcFuncs(rel)
	} else {
		for _, n := range names {
			if f := c.Fn(rel, n); f != nil {
				fs = append(fs, f)
			}
		}
	}
	ok, bad := 0, 0
	for _, f := range fs {
		for _, s := range checkBounds(f) {
			if s.ok {
				ok++
			} else {
				bad++
				fmt.Printf("UNPROVEN %s · %s at %s  residual %s\n", funcKey(f), abbr(s.desc), c.pos(s.in.Pos()), s.goal)
			}
		}
	}
	fmt.Printf("proven %d, unproven %d\n", ok, bad)
}
