package main

import (
	"fmt"
	"os"
)

func checkC07(c *Ctx) (string, []string) {
	e := newOmegaEnv(c)
	if len(c.fatal) > 0 {
		return "", nil
	}
	c.extra["omega_functions"] = len(e.funcs)
	c.Rule("C07.charge-first", "every host-call function (signature func(OmegaInput) OmegaOutput) begins with chargeGasAndCheck(&input) before any other effect and returns its out-of-gas result unchanged", 28)
	e.ruleChargeFirst("C07.charge-first", map[string]string{
		"hostCallOutOfGas": "0.7.2: selected only when gas is already negative; returns out-of-gas without charging",
		"wrapWithG$1":      "wrapper: delegates to the wrapped host call, which charges first",
	})
	c.Rule("C07.write-after-writable", "every Memory.Write in a host call is dominated (path-sensitively) by the passing edge of isWriteable on the same memory, same offset and the written length", 8)
	c.Rule("C07.read-after-readable", "every Memory.Read in a host call is dominated by the passing edge of isReadable on the same memory, offset and length", 20)
	e.ruleMemoryGuards("C07.write-after-writable", "C07.read-after-readable", e.funcs)
	c.Rule("C07.registers", "host calls store only the registers the specification assigns (7; 7 and 8 for query and invoke; none for log)", 28)
	e.ruleRegisters("C07.registers", map[string][]int64{"query": {7, 8}, "invoke": {7, 8}, "logHostCall": {}, "hostCallOutOfGas": {}, "wrapWithG$1": {}}, []int64{7})
	c.Rule("C07.no-mutation-before-error", "on no path does a state mutation (map update/delete on shared maps, store through a pointer, store into the returned host-call context, guest-memory write, call of a mutating helper) precede a return with an error code (NONE…HUH in register 7) or a panic exit; reviewed exemptions carry a reason", 40)
	e.ruleNoMutationBeforeError("C07.no-mutation-before-error", map[string]string{})
	c.Rule("C07.range-arith", "no offset or length handed to isReadable/isWriteable is computed with wrapping +,*,<<,- on guest-controlled values unless it is min()-bounded or a checkOverflow product whose overflow flag is tested first", 60)
	e.ruleRangeArith("C07.range-arith")
	c.Rule("C07.range-check-shape", "isReadable/isWriteable implement the GP range test (zero length ok; length > 2^32 or start > 2^32-length rejected without wrapping; every page of ⌊start/ZP⌋..⌊(start+len-1)/ZP⌋ tested) and differ only in the page predicate", 6)
	e.ruleRangeCheckShape("C07.range-check-shape")
	c.Rule("C07.unknown-id", "Psi_H dispatches getOmega's result and otherwise hostCallException (charge, then WHAT); getOmega is bounds-checked; every table indexed by a raw host-call identifier is guarded by its length", 4)
	e.ruleUnknownID("C07.unknown-id")
	e.ruleOperationIndex("C07.unknown-id")
	c.Rule("C07.registries", "every entry of the accumulate/refine/is-authorized registries is the base registry's function for the same identifier (or its wrapWithG wrapper); every registered identifier has a name", 60)
	e.ruleRegistries("C07.registries")
	if os.Getenv("JAMVERIF_DUMP") != "" {
		for n, m := range e.registries() {
			for _, k := range sortedKeys(m) {
				fmt.Printf("REG %s[%d] = %s\n", n, k, m[k])
			}
		}
	}
	return "Host-call discipline decided on SSA for every function of signature func(OmegaInput) OmegaOutput: charge-first, path-sensitive dominance of every guest-memory Write/Read by isWriteable/isReadable on the same memory/offset/length (zero-length accesses exempt), register-output sets, absence of any state mutation on paths to error-code or panic exits (the raw-pool→dictionary migration idiom is recognised by data-flow shape), non-wrapping arithmetic in range-check operands, the GP range test inside isReadable/isWriteable, routing of unknown identifiers to WHAT, and registry agreement. Does not decide which error code each condition yields nor the order of checks.",
		[]string{"a zero-length Memory.Read/Write touches no page (confirmed in PVM/memory.go)", "stores into the by-value OmegaInput copy count as state only under its Addition field (the returned context)", "package-level protocol parameters are not guest-controlled"}
}
