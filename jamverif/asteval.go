package main

import (
	"go/ast"
	"go/constant"
	"go/token"
	"go/types"

	"golang.org/x/tools/go/packages"
)

// astEval evaluates side-effect-free Go expressions (integer comparisons,
// arithmetic with the wrap-around of the expression's static type,
// conversions, boolean connectives) and — through astEnv.call — pure helper
// functions of the same package whose bodies are decisions (if / return with
// optional init statements). Atoms (variables, indexed elements, designated
// library calls) are supplied by resolve. It is evaluation of formulas over a
// finite table of atom values, used to compare code with a specification
// table; no statement with an effect is ever interpreted.
type astVal struct {
	i      int64
	b      bool
	isBool bool
}

type astEnv struct {
	pkg     *packages.Package
	resolve func(ast.Expr) (astVal, bool)
	locals  map[string]astVal
	subst   map[string]ast.Expr // parameter name -> argument expression (evaluated in parent)
	parent  *astEnv
	depth   int
}

func astEval(info *types.Info, e ast.Expr, resolve func(ast.Expr) (astVal, bool)) (astVal, bool) {
	env := &astEnv{pkg: &packages.Package{TypesInfo: info}, resolve: resolve}
	return env.eval(e)
}

func (env *astEnv) info() *types.Info { return env.pkg.TypesInfo }

func (env *astEnv) eval(e ast.Expr) (astVal, bool) {
	if env.depth > 6 {
		return astVal{}, false
	}
	// substitution of helper parameters
	switch x := e.(type) {
	case *ast.Ident:
		if v, ok := env.locals[x.Name]; ok {
			return v, true
		}
		if a, ok := env.subst[x.Name]; ok && env.parent != nil {
			return env.parent.eval(a)
		}
	case *ast.SelectorExpr:
		if id, ok := x.X.(*ast.Ident); ok {
			if a, ok := env.subst[id.Name]; ok && env.parent != nil {
				return env.parent.eval(&ast.SelectorExpr{X: a, Sel: x.Sel})
			}
		}
	}
	if env.resolve != nil {
		if v, ok := env.resolve(e); ok {
			return v, true
		}
	}
	if tv, ok := env.info().Types[e]; ok && tv.Value != nil {
		switch tv.Value.Kind() {
		case constant.Int:
			if k, exact := constant.Int64Val(tv.Value); exact {
				return astVal{i: k}, true
			}
		case constant.Bool:
			return astVal{b: constant.BoolVal(tv.Value), isBool: true}, true
		}
	}
	wrap := func(v int64, ex ast.Expr) int64 {
		if t := env.info().TypeOf(ex); t != nil {
			return wrapToType(v, t)
		}
		return v
	}
	switch x := e.(type) {
	case *ast.ParenExpr:
		return env.eval(x.X)
	case *ast.UnaryExpr:
		v, ok := env.eval(x.X)
		if !ok {
			return astVal{}, false
		}
		switch x.Op {
		case token.NOT:
			return astVal{b: !v.b, isBool: true}, v.isBool
		case token.SUB:
			return astVal{i: wrap(-v.i, e)}, !v.isBool
		}
	case *ast.CallExpr:
		// conversion T(x)
		if tv, ok := env.info().Types[x.Fun]; ok && tv.IsType() && len(x.Args) == 1 {
			v, ok := env.eval(x.Args[0])
			if !ok || v.isBool {
				return astVal{}, false
			}
			return astVal{i: wrapToType(v.i, tv.Type)}, true
		}
		// cmp.Compare / cmp.Less on integer operands
		if sel, ok := x.Fun.(*ast.SelectorExpr); ok && len(x.Args) == 2 {
			if fn, ok := env.info().Uses[sel.Sel].(*types.Func); ok && fn.Pkg() != nil && fn.Pkg().Path() == "cmp" {
				a, ok1 := env.eval(x.Args[0])
				b, ok2 := env.eval(x.Args[1])
				if ok1 && ok2 && !a.isBool && !b.isBool {
					switch fn.Name() {
					case "Compare":
						switch {
						case a.i < b.i:
							return astVal{i: -1}, true
						case a.i > b.i:
							return astVal{i: 1}, true
						}
						return astVal{i: 0}, true
					case "Less":
						return astVal{b: a.i < b.i, isBool: true}, true
					}
				}
			}
		}
		// substituted argument forms of library calls (e.g. bytes.Compare(a.Blob, b.Blob) inside a helper)
		if env.parent != nil && len(env.subst) > 0 {
			na := make([]ast.Expr, len(x.Args))
			changed := false
			for i, a := range x.Args {
				na[i] = env.substitute(a)
				if na[i] != a {
					changed = true
				}
			}
			if changed {
				return env.parent.eval(&ast.CallExpr{Fun: x.Fun, Args: na})
			}
		}
		return env.call(x)
	case *ast.BinaryExpr:
		a, ok1 := env.eval(x.X)
		if !ok1 {
			return astVal{}, false
		}
		b, ok2 := env.eval(x.Y)
		if !ok2 {
			return astVal{}, false
		}
		switch x.Op {
		case token.LAND:
			return astVal{b: a.b && b.b, isBool: true}, a.isBool && b.isBool
		case token.LOR:
			return astVal{b: a.b || b.b, isBool: true}, a.isBool && b.isBool
		case token.EQL:
			if a.isBool {
				return astVal{b: a.b == b.b, isBool: true}, true
			}
			return astVal{b: a.i == b.i, isBool: true}, true
		case token.NEQ:
			if a.isBool {
				return astVal{b: a.b != b.b, isBool: true}, true
			}
			return astVal{b: a.i != b.i, isBool: true}, true
		case token.LSS:
			return astVal{b: a.i < b.i, isBool: true}, true
		case token.LEQ:
			return astVal{b: a.i <= b.i, isBool: true}, true
		case token.GTR:
			return astVal{b: a.i > b.i, isBool: true}, true
		case token.GEQ:
			return astVal{b: a.i >= b.i, isBool: true}, true
		case token.ADD:
			return astVal{i: wrap(a.i+b.i, e)}, true
		case token.SUB:
			return astVal{i: wrap(a.i-b.i, e)}, true
		case token.MUL:
			return astVal{i: wrap(a.i*b.i, e)}, true
		case token.QUO:
			if b.i == 0 {
				return astVal{}, false
			}
			return astVal{i: a.i / b.i}, true
		case token.REM:
			if b.i == 0 {
				return astVal{}, false
			}
			return astVal{i: a.i % b.i}, true
		}
	}
	return astVal{}, false
}

// substitute rewrites param / param.Field occurrences at the top of e by the bound argument.
func (env *astEnv) substitute(e ast.Expr) ast.Expr {
	switch x := e.(type) {
	case *ast.Ident:
		if a, ok := env.subst[x.Name]; ok {
			return a
		}
	case *ast.SelectorExpr:
		if nx := env.substitute(x.X); nx != x.X {
			return &ast.SelectorExpr{X: nx, Sel: x.Sel}
		}
	case *ast.SliceExpr:
		if nx := env.substitute(x.X); nx != x.X {
			return &ast.SliceExpr{X: nx, Low: x.Low, High: x.High, Max: x.Max, Slice3: x.Slice3}
		}
	}
	return e
}

// call evaluates a helper of the same package whose body is a decision.
func (env *astEnv) call(x *ast.CallExpr) (astVal, bool) {
	if env.pkg == nil || env.pkg.Syntax == nil {
		return astVal{}, false
	}
	var obj types.Object
	switch f := x.Fun.(type) {
	case *ast.Ident:
		obj = env.info().Uses[f]
	case *ast.SelectorExpr:
		obj = env.info().Uses[f.Sel]
	}
	fn, ok := obj.(*types.Func)
	if !ok || fn.Pkg() != env.pkg.Types {
		return astVal{}, false
	}
	var decl *ast.FuncDecl
	for _, file := range env.pkg.Syntax {
		for _, d := range file.Decls {
			if fd, ok := d.(*ast.FuncDecl); ok && env.info().Defs[fd.Name] == obj {
				decl = fd
			}
		}
	}
	if decl == nil || decl.Body == nil || decl.Recv != nil {
		return astVal{}, false
	}
	sub := &astEnv{pkg: env.pkg, locals: map[string]astVal{}, subst: map[string]ast.Expr{}, parent: env, depth: env.depth + 1}
	k := 0
	for _, fld := range decl.Type.Params.List {
		for _, nm := range fld.Names {
			if k < len(x.Args) {
				sub.subst[nm.Name] = x.Args[k]
			}
			k++
		}
	}
	v, st := sub.block(decl.Body.List)
	return v, st == "return"
}

// block runs a decision body: returns ("return", v), ("continue"), ("" fallthrough) or ("?").
func (env *astEnv) block(stmts []ast.Stmt) (astVal, string) {
	for _, st := range stmts {
		switch x := st.(type) {
		case *ast.IfStmt:
			if x.Init != nil {
				as, ok := x.Init.(*ast.AssignStmt)
				if !ok || as.Tok != token.DEFINE || len(as.Lhs) != 1 || len(as.Rhs) != 1 {
					return astVal{}, "?"
				}
				v, ok := env.eval(as.Rhs[0])
				if !ok {
					return astVal{}, "?"
				}
				env.locals[as.Lhs[0].(*ast.Ident).Name] = v
			}
			c, ok := env.eval(x.Cond)
			if !ok || !c.isBool {
				return astVal{}, "?"
			}
			if c.b {
				if v, s := env.block(x.Body.List); s != "" {
					return v, s
				}
			} else if x.Else != nil {
				var v astVal
				var s string
				switch e := x.Else.(type) {
				case *ast.BlockStmt:
					v, s = env.block(e.List)
				case *ast.IfStmt:
					v, s = env.block([]ast.Stmt{e})
				}
				if s != "" {
					return v, s
				}
			}
		case *ast.ReturnStmt:
			if len(x.Results) != 1 {
				return astVal{}, "?"
			}
			v, ok := env.eval(x.Results[0])
			if !ok {
				return astVal{}, "?"
			}
			return v, "return"
		case *ast.AssignStmt:
			if x.Tok == token.DEFINE && len(x.Lhs) == 1 && len(x.Rhs) == 1 {
				if v, ok := env.eval(x.Rhs[0]); ok {
					env.locals[x.Lhs[0].(*ast.Ident).Name] = v
					continue
				}
			}
			return astVal{}, "?"
		default:
			return astVal{}, "?"
		}
	}
	return astVal{}, ""
}
