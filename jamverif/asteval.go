package main

import (
	"go/ast"
	"go/constant"
	"go/token"
	"go/types"
)

// astEval evaluates a side-effect-free Go expression made of integer
// comparisons, arithmetic and boolean connectives; anything else is handed to
// resolve (atoms: variables, indexed elements, designated pure calls). It is
// expression evaluation over a finite table of atom values — used to compare a
// condition with its specification truth table — not execution of statements.
type astVal struct {
	i      int64
	b      bool
	isBool bool
}

func astEval(info *types.Info, e ast.Expr, resolve func(ast.Expr) (astVal, bool)) (astVal, bool) {
	if v, ok := resolve(e); ok {
		return v, true
	}
	if tv, ok := info.Types[e]; ok && tv.Value != nil {
		switch tv.Value.Kind() {
		case constant.Int:
			if k, exact := constant.Int64Val(tv.Value); exact {
				return astVal{i: k}, true
			}
		case constant.Bool:
			return astVal{b: constant.BoolVal(tv.Value), isBool: true}, true
		}
	}
	switch x := e.(type) {
	case *ast.ParenExpr:
		return astEval(info, x.X, resolve)
	case *ast.UnaryExpr:
		v, ok := astEval(info, x.X, resolve)
		if !ok {
			return astVal{}, false
		}
		switch x.Op {
		case token.NOT:
			return astVal{b: !v.b, isBool: true}, v.isBool
		case token.SUB:
			return astVal{i: -v.i}, !v.isBool
		}
	case *ast.BinaryExpr:
		a, ok1 := astEval(info, x.X, resolve)
		if !ok1 {
			return astVal{}, false
		}
		// short-circuit forms still evaluate both sides here: the expressions are pure
		b, ok2 := astEval(info, x.Y, resolve)
		if !ok2 {
			return astVal{}, false
		}
		switch x.Op {
		case token.LAND:
			return astVal{b: a.b && b.b, isBool: true}, a.isBool && b.isBool
		case token.LOR:
			return astVal{b: a.b || b.b, isBool: true}, a.isBool && b.isBool
		case token.EQL:
			if a.isBool {
				return astVal{b: a.b == b.b, isBool: true}, true
			}
			return astVal{b: a.i == b.i, isBool: true}, true
		case token.NEQ:
			if a.isBool {
				return astVal{b: a.b != b.b, isBool: true}, true
			}
			return astVal{b: a.i != b.i, isBool: true}, true
		case token.LSS:
			return astVal{b: a.i < b.i, isBool: true}, true
		case token.LEQ:
			return astVal{b: a.i <= b.i, isBool: true}, true
		case token.GTR:
			return astVal{b: a.i > b.i, isBool: true}, true
		case token.GEQ:
			return astVal{b: a.i >= b.i, isBool: true}, true
		case token.ADD:
			return astVal{i: a.i + b.i}, true
		case token.SUB:
			return astVal{i: a.i - b.i}, true
		case token.MUL:
			return astVal{i: a.i * b.i}, true
		case token.QUO:
			if b.i == 0 {
				return astVal{}, false
			}
			return astVal{i: a.i / b.i}, true
		case token.REM:
			if b.i == 0 {
				return astVal{}, false
			}
			return astVal{i: a.i % b.i}, true
		}
	}
	return astVal{}, false
}
