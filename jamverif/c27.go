package main

import (
	"fmt"
	"go/token"
	"go/types"
	"sort"
	"strings"

	"golang.org/x/tools/go/ssa"
)

const provRoot = "internal/database/provider/"

// copyingAPIs: external functions that copy (or synchronously consume) the
// byte slices handed to them — confirmed by reading the vendored sources.
var copyingAPIs = map[string]string{
	"(*github.com/cockroachdb/pebble.DB).Set":       "pebble applies the write through a batch that copies key and value",
	"(*github.com/cockroachdb/pebble.DB).Delete":    "same",
	"(*github.com/cockroachdb/pebble.DB).Get":       "key only read during the call",
	"(*github.com/cockroachdb/pebble.Batch).Set":    "pebble.Batch.Set copies key and value into the batch buffer",
	"(*github.com/cockroachdb/pebble.Batch).Delete": "pebble.Batch.Delete copies the key into the batch buffer",
	"(*github.com/go-redis/redis.cmdable).Set":      "executed synchronously on the client: arguments are serialised before the call returns",
}

func checkC27(c *Ctx) (string, []string) {
	provs := []string{"memory", "pebble", "redis"}
	byteSliceParam := func(p *ssa.Parameter) bool { return isByteSlice(p.Type()) }

	c.Rule("C27.argument-retention", "in every provider's Put/Delete (database and batch), a caller-owned []byte argument is never kept beyond the call: it is only measured, copied from, converted to a string, or handed to an API that copies it or consumes it synchronously; it is never stored in a struct/slice/map and never queued in a deferred pipeline", 12)
	for _, pv := range provs {
		for _, f := range c.SrcFuncs(provRoot + pv) {
			if f.Signature.Recv() == nil || (f.Name() != "Put" && f.Name() != "Delete") {
				continue
			}
			for _, p := range f.Params[1:] {
				if !byteSliceParam(p) {
					continue
				}
				key := funcKey(f) + " · " + p.Name()
				bad, unk := "", ""
				var why []string
				seen := map[ssa.Value]bool{}
				var walk func(v ssa.Value)
				walk = func(v ssa.Value) {
					if seen[v] {
						return
					}
					seen[v] = true
					for _, r := range *v.Referrers() {
						switch x := r.(type) {
						case *ssa.Store:
							if x.Val == v {
								bad = "stored into " + abbr(exprStr(x.Addr, shapeOpts))
							}
						case *ssa.MapUpdate:
							if x.Value == v || x.Key == v {
								bad = "stored into a map"
							}
						case *ssa.Convert:
							if isStringType(x.Type()) {
								why = append(why, "converted to string (copy)")
							} else {
								walk(x)
							}
						case *ssa.ChangeType:
							walk(x)
						case *ssa.MakeInterface:
							walk(x)
						case *ssa.Slice:
							walk(x)
						case *ssa.Phi:
							walk(x)
						case *ssa.Call:
							cc := x.Call
							if b, ok := cc.Value.(*ssa.Builtin); ok {
								switch b.Name() {
								case "len", "cap":
								case "copy":
									if cc.Args[0] == v {
										bad = "used as copy destination"
									} else {
										why = append(why, "copied from")
									}
								case "append":
									if cc.Args[0] == v {
										bad = "appended to in place"
									} else if len(cc.Args) > 1 && cc.Args[1] == v {
										// append(dst, p...) copies the bytes; append(list, p) as an element is retention
										if isByteSlice(cc.Args[0].Type()) {
											why = append(why, "bytes appended (copy)")
										} else {
											bad = "appended as an element of " + typeStr(cc.Args[0].Type())
										}
									}
								}
								continue
							}
							name := ""
							if cc.IsInvoke() {
								name = "invoke " + typeStr(cc.Value.Type()) + "." + cc.Method.Name()
								if strings.Contains(name, "Pipeliner") {
									bad = "queued in a redis pipeline (" + cc.Method.Name() + "), which keeps the slice until Exec"
								} else {
									unk = name
								}
							} else if sc := cc.StaticCallee(); sc != nil {
								name = sc.String()
								if reason, ok := copyingAPIs[name]; ok {
									why = append(why, "passed to "+relName(name)+" ("+reason+")")
								} else if sc.Pkg != nil && strings.HasPrefix(sc.Pkg.Pkg.Path(), modPath) && len(sc.Blocks) > 0 {
									// a helper of the module: the slice is followed into it; if the helper can hand the same storage back, the result is followed too
									for ai, a := range cc.Args {
										if a == v && ai < len(sc.Params) {
											hp := sc.Params[ai]
											walk(hp)
											aliasBack := false
											allInstrs(sc, func(in ssa.Instruction) {
												if r, isR := in.(*ssa.Return); isR {
													for _, rv := range r.Results {
														if seen[stripConv(rv)] || seen[rv] {
															aliasBack = true
														}
													}
												}
											})
											if aliasBack {
												walk(x)
											}
											why = append(why, "followed into "+relName(name))
										}
									}
								} else {
									unk = "passed to " + name
								}
							}
						case *ssa.Defer, *ssa.Go:
							bad = "captured by a deferred/concurrent call"
						}
					}
				}
				walk(p)
				switch {
				case bad != "":
					c.Bad("C27.argument-retention", key, f.Pos(), "caller's slice is %s: mutating the buffer after the call changes what is (or will be) written", bad)
				case unk != "":
					c.Unknown("C27.argument-retention", key, f.Pos(), "%s: copy semantics not in the confirmed table", unk)
				default:
					sort.Strings(why)
					c.OK("C27.argument-retention", key, f.Pos(), "%s", strings.Join(why, "; "))
				}
			}
		}
	}

	c.Rule("C27.fresh-results", "Get returns storage the provider does not keep using: a fresh copy (memory, pebble) or the client's own result buffer (redis); it never returns the stored slice itself", 3)
	for _, pv := range provs {
		for _, f := range c.SrcFuncs(provRoot + pv) {
			if f.Signature.Recv() == nil || f.Name() != "Get" {
				continue
			}
			ok := true
			var shapes []string
			allInstrs(f, func(in ssa.Instruction) {
				r, isR := in.(*ssa.Return)
				if !isR {
					return
				}
				rr := retResults(r)
				if len(rr) == 0 {
					return
				}
				v := stripConv(rr[0])
				shapes = append(shapes, abbr(exprStr(v, shapeOpts)))
				if isFreshCopyRender(abbr(exprStr(v, robustOpts))) {
					return
				}
				switch x := v.(type) {
				case *ssa.Const, *ssa.MakeSlice:
				case *ssa.Extract:
					if call, isCall := x.Tuple.(*ssa.Call); !isCall || call.Call.StaticCallee() == nil || !strings.Contains(call.Call.StaticCallee().String(), "go-redis") {
						ok = false
					}
				default:
					ok = false
				}
			})
			c.Check(ok, "C27.fresh-results", funcKey(f), f.Pos(), "returns "+strings.Join(shapes, " | "), "returns "+strings.Join(shapes, " | ")+": the caller receives the provider's own storage")
		}
	}

	c.Rule("C27.stored-immutable", "memory provider: a byte slice held in the store's map is either never written in place (every update installs a new slice) or never handed out (returned, or kept in an iterator/snapshot) without being copied; a stored slice that is both shared with a reader and overwritten in place makes a returned value change under a later write", 2)
	{
		var inPlace, shared []string
		var posIn, posSh token.Pos
		nfun := 0
		for _, f0 := range c.SrcFuncs(provRoot + "memory") {
			for _, f := range withClosures(f0) {
				nfun++
				stored := map[ssa.Value]bool{}
				isData := func(v ssa.Value) bool {
					u, ok := v.(*ssa.UnOp)
					if !ok || u.Op != token.MUL {
						return false
					}
					fa, ok := u.X.(*ssa.FieldAddr)
					if !ok {
						return false
					}
					st, ok := derefType(fa.X.Type()).Underlying().(*types.Struct)
					if !ok {
						return false
					}
					_, isMap := st.Field(fa.Field).Type().Underlying().(*types.Map)
					return isMap && strings.HasSuffix(typeStr(derefType(fa.X.Type())), "memoryDB")
				}
				// fixed point: values that alias a slice held in the map
				for changed := true; changed; {
					changed = false
					mark := func(v ssa.Value) {
						if !stored[v] {
							stored[v] = true
							changed = true
						}
					}
					allInstrs(f, func(in ssa.Instruction) {
						switch x := in.(type) {
						case *ssa.Lookup:
							if isData(x.X) {
								mark(x)
							}
						case *ssa.Extract:
							if stored[x.Tuple] && x.Index == 0 {
								mark(x)
							}
							if nx, ok := x.Tuple.(*ssa.Next); ok && x.Index == 2 {
								if rg, ok := nx.Iter.(*ssa.Range); ok && isData(rg.X) {
									mark(x)
								}
							}
						case *ssa.Slice:
							if stored[x.X] {
								mark(x)
							}
						case *ssa.ChangeType:
							if stored[x.X] {
								mark(x)
							}
						case *ssa.Phi:
							for _, e := range x.Edges {
								if stored[e] {
									mark(x)
								}
							}
						case *ssa.UnOp:
							// reload of a local that holds a stored slice
							if a, ok := x.X.(*ssa.Alloc); ok && x.Op == token.MUL {
								for _, r := range *a.Referrers() {
									if st, ok := r.(*ssa.Store); ok && st.Addr == ssa.Value(a) && stored[st.Val] {
										mark(x)
									}
								}
							}
						}
					})
				}
				allInstrs(f, func(in ssa.Instruction) {
					switch x := in.(type) {
					case *ssa.Store:
						if ia, ok := x.Addr.(*ssa.IndexAddr); ok && stored[ia.X] {
							inPlace = append(inPlace, funcKey(f)+": element store into a stored slice")
							posIn = x.Pos()
						}
						if stored[x.Val] {
							if _, isLocal := x.Addr.(*ssa.Alloc); !isLocal {
								shared = append(shared, funcKey(f)+": stored slice kept in "+abbr(exprStr(x.Addr, shapeOpts)))
								posSh = x.Pos()
							}
						}
					case *ssa.Return:
						for _, r := range retResults(x) {
							if stored[r] {
								shared = append(shared, funcKey(f)+": stored slice returned")
								posSh = x.Pos()
							}
						}
					case *ssa.MapUpdate:
						if stored[x.Value] && !isData(x.Map) {
							shared = append(shared, funcKey(f)+": stored slice kept in a map")
							posSh = x.Pos()
						}
					case ssa.CallInstruction:
						cc := x.Common()
						if b, ok := cc.Value.(*ssa.Builtin); ok {
							switch b.Name() {
							case "copy", "clear":
								if stored[cc.Args[0]] {
									inPlace = append(inPlace, funcKey(f)+": "+b.Name()+"() into a stored slice")
									posIn = x.Pos()
								}
							case "append":
								if stored[cc.Args[0]] {
									inPlace = append(inPlace, funcKey(f)+": append onto a stored slice (reuses its array)")
									posIn = x.Pos()
								}
								if len(cc.Args) > 1 && stored[cc.Args[1]] {
									// append(dst, stored...) copies the bytes
								}
							}
						}
					}
				})
			}
		}
		sort.Strings(inPlace)
		sort.Strings(shared)
		key := provRoot + "memory · stored slices"
		switch {
		case len(inPlace) > 0 && len(shared) > 0:
			p := posIn
			if p == 0 {
				p = posSh
			}
			c.Bad("C27.stored-immutable", key, p, "stored slices are handed out without a copy (%s) and also overwritten in place (%s): a value obtained earlier changes under a later write", strings.Join(shared, "; "), strings.Join(inPlace, "; "))
		case len(inPlace) > 0:
			c.OK("C27.stored-immutable", key, posIn, "stored slices are updated in place (%s) but never handed out uncopied", strings.Join(inPlace, "; "))
		case len(shared) > 0:
			c.OK("C27.stored-immutable", key, posSh, "stored slices are handed out (%s) but never written in place", strings.Join(shared, "; "))
		default:
			c.OK("C27.stored-immutable", key, 0, "stored slices are neither handed out uncopied nor written in place (%d functions examined)", nfun)
		}
		c.OK("C27.stored-immutable", provRoot+"memory · functions examined", 0, "%d functions and closures of the memory provider scanned", nfun)
	}

	c.Rule("C27.iterator-range", "NewIterator selects exactly the keys that carry `prefix` and are ≥ prefix ⌢ start: memory and redis test HasPrefix(key, prefix) and key ≥ prefix⌢start; pebble iterates [prefix⌢start, successor(prefix)) where successor increments the last non-0xFF byte of a copy and truncates after it; the memory iterator sorts its snapshot", 8)
	lower := "append(append(make([]byte, 0), p1), p2)"
	{
		f := c.Fn(provRoot+"memory", "memoryDB.NewIterator")
		c27MemorySelection(c, f)
		ms := &moScope{c: c, rule: "C27.iterator-range", reviewed: map[string]string{}}
		ms.checkMapOrder([]string{provRoot + "memory"}, func(fn string) bool { return strings.HasSuffix(fn, "iterator.go") })
	}
	{
		f := c.Fn(provRoot+"redis", "redisDB.NewIterator")
		scan := "(*github.com/go-redis/redis.ScanCmd).Result((*github.com/go-redis/redis.cmdable).Scan(&p0.client.cmdable, phi(0 | cyc#1), (internal/database/provider/redis.escapeGlob(p1) + \"*\"), 100))#0[*]"
		conds := condShapes(f)
		has := func(s string) bool {
			for _, x := range conds {
				if x == s {
					return true
				}
			}
			return false
		}
		c.Check(has("strings.HasPrefix("+scan+", p1)"), "C27.iterator-range", funcKey(f)+" · prefix test", f.Pos(), "HasPrefix(key, prefix) on every scanned key", "scanned keys are not filtered by HasPrefix(key, prefix)")
		c.Check(has("("+lower+" <= "+scan+")"), "C27.iterator-range", funcKey(f)+" · lower bound", f.Pos(), "key ≥ prefix ⌢ start", "scanned keys are not filtered by key ≥ prefix⌢start")
		c27Both(c, f, "strings.HasPrefix(", " <= ")
		pat := callArgShapes(f, func(ci ssa.CallInstruction) bool {
			sc := calleeFunc(ci)
			return sc != nil && strings.HasSuffix(sc.String(), "cmdable).Scan")
		}, 2)
		c.Check(len(pat) == 1 && pat[0] == "(internal/database/provider/redis.escapeGlob(p1) + \"*\")", "C27.iterator-range", funcKey(f)+" · scan pattern", f.Pos(), "pattern = escapeGlob(prefix) + \"*\"", fmt.Sprintf("SCAN pattern is %v: glob metacharacters in the prefix are interpreted, or the pattern narrows to prefix⌢start", pat))
		eg := c.TryFn(provRoot+"redis", "escapeGlob")
		if eg == nil {
			c.Bad("C27.iterator-range", "internal/database/provider/redis.escapeGlob · metacharacters", f.Pos(), "no glob-escaping helper: the prefix is handed to SCAN MATCH unescaped")
		} else {
			var metas []string
			for _, s := range condShapes(eg) {
				if strings.HasSuffix(s, " == p0[*])") {
					metas = append(metas, strings.TrimSuffix(strings.TrimPrefix(s, "("), " == p0[*])"))
				}
			}
			sort.Strings(metas)
			c.Check(strings.Join(metas, ",") == "42,63,91,92,93", "C27.iterator-range", funcKey(eg)+" · metacharacters", eg.Pos(), "escapes * ? [ \\ ]", fmt.Sprintf("escapeGlob escapes byte values %v, Redis MATCH metacharacters are 42,63,91,92,93", metas))
			effs := effectShapesOpt(eg, func(n string) bool { return strings.Contains(n, "WriteByte") }, false)
			c.Check(len(effs) == 2, "C27.iterator-range", funcKey(eg)+" · output", eg.Pos(), "writes a backslash before each metacharacter and every input byte", fmt.Sprintf("escapeGlob writes %v", effs))
		}
	}
	{
		f := c.Fn(provRoot+"pebble", "pebbleDB.NewIterator")
		ls := map[string][]string{}
		allInstrs(f, func(in ssa.Instruction) {
			if st, ok := in.(*ssa.Store); ok {
				a := exprStr(st.Addr, shapeOpts)
				if i := strings.Index(a, "pebble.IterOptions."); i >= 0 {
					fld := a[i+len("pebble.IterOptions."):]
					ls[fld] = append(ls[fld], exprStr(st.Val, shapeOpts))
				}
			}
		})
		var lowV, upV ssa.Value
		allInstrs(f, func(in ssa.Instruction) {
			if st, ok := in.(*ssa.Store); ok {
				a := exprStr(st.Addr, shapeOpts)
				if strings.HasSuffix(a, "pebble.IterOptions.LowerBound") {
					lowV = st.Val
				}
				if strings.HasSuffix(a, "pebble.IterOptions.UpperBound") {
					upV = st.Val
				}
			}
		})
		okL := false
		if lowV != nil {
			var ps []string
			for _, p := range catValues(lowV) {
				s := abbr(exprStr(p, robustOpts))
				if src, ok := freshCopyOf(s); ok {
					s = src
				}
				ps = append(ps, s)
			}
			okL = strings.Join(ps, " ⌢ ") == "p1 ⌢ p2"
		}
		var succ *ssa.Function
		if call, ok := upV.(*ssa.Call); ok && len(call.Call.Args) == 1 && call.Call.Args[0] == ssa.Value(f.Params[1]) {
			succ = call.Call.StaticCallee()
		}
		c.Check(okL && succ != nil, "C27.iterator-range", funcKey(f)+" · bounds", f.Pos(), "LowerBound = prefix⌢start, UpperBound = successor(prefix)", fmt.Sprintf("pebble bounds are %v", ls))
		if succ != nil && len(succ.Blocks) > 0 {
			c27Successor(c, succ)
		} else {
			c.Unknown("C27.iterator-range", funcKey(f)+" · successor", f.Pos(), "successor function not found")
		}
	}

	c.Rule("C27.batch-log", "the memory batch is an append-only operation log: Put appends exactly one record (private copies of key and value, not a delete), Delete appends exactly one record (private copy of the key, marked delete), neither touches anything else; Commit replays the log in order, applying each record as a delete or a put according to its own mark, so the last operation on a key wins", 6)
	{
		M := "(*internal/database/provider/memory.batch)."
		put := c.Fn(provRoot+"memory", "batch.Put")
		del := c.Fn(provRoot+"memory", "batch.Delete")
		com := c.Fn(provRoot+"memory", "batch.Commit")
		app := "store &p0.writeOps ← append(p0.writeOps, [*alloc:internal/database/provider/memory.writeOp][:])"
		for _, pf := range []*ssa.Function{put, del} {
			// the only effect outside local storage is the append of one record to the log; no branching
			var outside []string
			allInstrs(pf, func(in ssa.Instruction) {
				switch x := in.(type) {
				case *ssa.Store:
					if !rootedInLocal(x.Addr) {
						outside = append(outside, "store "+exprStr(x.Addr, shapeOpts)+" ← "+exprStr(x.Val, shapeOpts))
					}
				case *ssa.MapUpdate:
					if !rootedInLocal(x.Map) {
						outside = append(outside, "mapset "+exprStr(x.Map, shapeOpts))
					}
				}
			})
			c.requireSet("C27.batch-log", funcKey(pf)+" · effects", pf.Pos(), "effects outside local storage", outside, []string{app})
			c.Check(len(condAtoms(pf, robustOpts)) == 0, "C27.batch-log", funcKey(pf)+" · unconditional", pf.Pos(), "the record is appended unconditionally", fmt.Sprintf("logging is conditional on %v: an operation can be dropped or merged", condAtoms(pf, robustOpts)))
		}
		opFields := func(f *ssa.Function) map[string]string {
			out := map[string]string{}
			allInstrs(f, func(in ssa.Instruction) {
				if st, ok := in.(*ssa.Store); ok {
					a := exprStr(st.Addr, shapeOpts)
					if i := strings.Index(a, "memory.writeOp."); i >= 0 {
						v := exprStr(st.Val, robustOpts)
						if src, ok := freshCopyOf(v); ok {
							v = "copy of " + src
						}
						out[a[i+len("memory.writeOp."):]] = v
					}
				}
			})
			return out
		}
		pf, df := opFields(put), opFields(del)
		c.Check(pf["key"] == "copy of p1" && pf["value"] == "copy of p2" && (pf["isDelete"] == "" || pf["isDelete"] == "false"), "C27.batch-log", M+"Put · record", put.Pos(), "record = (put, copy of key, copy of value)", fmt.Sprintf("Put records %v", pf))
		c.Check(df["key"] == "copy of p1" && df["isDelete"] == "true" && df["value"] == "", "C27.batch-log", M+"Delete · record", del.Pos(), "record = (delete, copy of key)", fmt.Sprintf("Delete records %v", df))
		okArms := true
		nput, ndel := 0, 0
		allInstrs(com, func(in ssa.Instruction) {
			want := int64(-1)
			switch x := in.(type) {
			case *ssa.MapUpdate:
				if exprStr(x.Key, robustOpts) != "p0.writeOps[*].key" || exprStr(x.Value, robustOpts) != "p0.writeOps[*].value" || exprStr(x.Map, robustOpts) != "p0.db.data" {
					okArms = false
				}
				want = 0
				nput++
			case *ssa.Call:
				if b, ok := x.Call.Value.(*ssa.Builtin); ok && b.Name() == "delete" {
					if exprStr(x.Call.Args[1], robustOpts) != "p0.writeOps[*].key" || exprStr(x.Call.Args[0], robustOpts) != "p0.db.data" {
						okArms = false
					}
					want = 1
					ndel++
				}
			}
			if want < 0 {
				return
			}
			for d := int64(0); d <= 1; d++ {
				reached, ok := iterReaches(in, robustOpts, nil, func(s string) (int64, bool) {
					if s == "p0.writeOps[*].isDelete" {
						return d, true
					}
					return 0, false
				})
				if !ok || reached != (d == want) {
					okArms = false
				}
			}
		})
		okArms = okArms && nput == 1 && ndel == 1
		c.Check(okArms, "C27.batch-log", M+"Commit · replay", com.Pos(), "each record applied as delete(key) or data[key] = value by its own mark, in log order", "Commit does not apply each logged record according to its own delete mark")
	}

	c.Rule("C27.batch-atomic", "the memory batch is applied in one critical section: Commit takes the database write lock once, every map write it performs (directly or through callees) happens while that lock is held, and it calls no method that takes the lock itself; all other accesses to the map are under the lock (read lock for reads)", 8)
	c27Locks(c)
	_ = types.Typ
	_ = token.ADD
	return "Key-value provider mechanisms decided statically over {memory, pebble, redis}: caller-owned key/value slices are not retained by Put/Delete (reference-flow over stores, appends, pipelines, with a confirmed table of copying external APIs); Get returns fresh storage; the iterator predicate is (HasPrefix(key, prefix) ∧ key ≥ prefix⌢start) for memory and redis and [prefix⌢start, successor(prefix)) for pebble with the successor truncated after the incremented byte; the redis SCAN pattern is the escaped prefix; the memory snapshot is sorted; the memory batch commits inside one write-locked section and every access to the map is under the lock.",
		[]string{"go/ssa; table of external APIs' copy semantics (pebble Batch/DB Set/Delete, go-redis synchronous Set)", "not decided: committed-vs-discarded semantics inside pebble/redis themselves; ordering of Redis SCAN results (server-defined; cannot be witnessed offline, recorded as an observation in DESIGN.md)"}
}

// c27Both: the instruction that appends a key is reached only when both tests pass.
func c27Both(c *Ctx, f *ssa.Function, a, b string) {
	var app ssa.Instruction
	allInstrs(f, func(in ssa.Instruction) {
		if call, ok := in.(*ssa.Call); ok && app == nil {
			if bi, ok := call.Call.Value.(*ssa.Builtin); ok && bi.Name() == "append" && strings.Contains(typeStr(call.Type()), "string") {
				app = in
			}
		}
	})
	if app == nil {
		c.Bad("C27.iterator-range", funcKey(f)+" · selection", f.Pos(), "no key-collecting append found")
		return
	}
	ea := condEdges(f, func(v ssa.Value) (bool, bool) { return strings.HasPrefix(exprStr(v, shapeOpts), a), true })
	eb := condEdges(f, func(v ssa.Value) (bool, bool) { return strings.Contains(exprStr(v, shapeOpts), b), true })
	c.Check(len(ea) >= 1 && len(eb) >= 1 && guardedBy(f, app, ea) && guardedBy(f, app, eb), "C27.iterator-range", funcKey(f)+" · selection", app.Pos(), "a key is collected only when both tests pass", "a key can be collected without passing both the prefix test and the lower bound")
}

// c27Successor: closure increments bytes of a copy from the end and returns end[:i+1] at the first byte that does not wrap; nil if all wrap.
func c27Successor(c *Ctx, cl *ssa.Function) {
	key := funcKey(cl)
	fresh, trunc, inc := false, false, false
	allInstrs(cl, func(in ssa.Instruction) {
		switch x := in.(type) {
		case *ssa.Call:
			if b, ok := x.Call.Value.(*ssa.Builtin); ok && b.Name() == "copy" {
				if _, isMk := x.Call.Args[0].(*ssa.MakeSlice); isMk && x.Call.Args[1] == ssa.Value(cl.Params[0]) {
					fresh = true
				}
			}
		case *ssa.Return:
			if sl, ok := x.Results[0].(*ssa.Slice); ok && sl.High != nil {
				if b, ok := stripConv(sl.High).(*ssa.BinOp); ok && b.Op == token.ADD {
					if k, ok := constInt(b.Y); ok && k == 1 {
						if _, isPhi := stripConv(b.X).(*ssa.Phi); isPhi {
							trunc = true
						}
					}
				}
			}
		case *ssa.Store:
			if b, ok := x.Val.(*ssa.BinOp); ok && b.Op == token.ADD {
				if k, ok := constInt(b.Y); ok && k == 1 {
					inc = true
				}
			}
		}
	})
	if !(fresh && inc && trunc) && c27SuccessorStrip(cl) {
		c.OK("C27.iterator-range", key+" · successor", cl.Pos(), "drops trailing 0xff bytes, copies the rest into a fresh slice of exactly that length and increments its last byte (nil when nothing is left)")
		return
	}
	c.Check(fresh && inc && trunc, "C27.iterator-range", key+" · successor", cl.Pos(), "increments a private copy and returns it truncated after the incremented byte", fmt.Sprintf("successor computation: private copy=%v, increments=%v, truncates after the incremented byte=%v (an untruncated bound admits keys without the prefix)", fresh, inc, trunc))
}

// c27Locks: lock discipline of the memory provider.
func c27Locks(c *Ctx) {
	rel := provRoot + "memory"
	dataF := c.Field(rel, "memoryDB.data")
	isMu := func(in ssa.Instruction, names ...string) bool {
		ci, ok := in.(ssa.CallInstruction)
		if !ok {
			return false
		}
		sc := calleeFunc(ci)
		if sc == nil {
			return false
		}
		for _, n := range names {
			if sc.String() == "(*sync.RWMutex)."+n && strings.HasSuffix(exprStr(ci.Common().Args[0], shapeOpts), ".mu") {
				return true
			}
		}
		return false
	}
	locking := map[*ssa.Function]bool{}
	for _, f := range c.SrcFuncs(rel) {
		allInstrs(f, func(in ssa.Instruction) {
			if _, isDefer := in.(*ssa.Defer); isDefer {
				return
			}
			if isMu(in, "Lock", "RLock") {
				locking[f] = true
			}
		})
	}
	for _, f := range c.SrcFuncs(rel) {
		if f.Name() == "NewDatabase" || f.Name() == "init" {
			continue
		}
		w := lockStates(f, lockSpec{acquire: func(in ssa.Instruction) bool { return isMu(in, "Lock") }, release: func(in ssa.Instruction) bool { return isMu(in, "Unlock") }}, false)
		r := lockStates(f, lockSpec{acquire: func(in ssa.Instruction) bool { return isMu(in, "Lock", "RLock") }, release: func(in ssa.Instruction) bool { return isMu(in, "Unlock", "RUnlock") }}, false)
		bad := ""
		n := 0
		allInstrs(f, func(in ssa.Instruction) {
			write, read := false, false
			switch x := in.(type) {
			case *ssa.MapUpdate:
				if _, ok := fieldOf(x.Map, dataF); ok {
					write = true
				}
			case *ssa.Store:
				if fieldAddrVar(x.Addr) == dataF {
					write = true
				}
			case *ssa.Lookup:
				if _, ok := fieldOf(x.X, dataF); ok {
					read = true
				}
			case *ssa.Range:
				if _, ok := fieldOf(x.X, dataF); ok {
					read = true
				}
			case *ssa.Call:
				if b, ok := x.Call.Value.(*ssa.Builtin); ok && b.Name() == "delete" {
					if _, ok := fieldOf(x.Call.Args[0], dataF); ok {
						write = true
					}
				}
			}
			if write {
				n++
				if !w[in].must {
					bad = "writes the map at " + c.pos(in.Pos()) + " without holding the write lock"
				}
			}
			if read {
				n++
				if !r[in].must {
					bad = "reads the map at " + c.pos(in.Pos()) + " without holding the lock"
				}
			}
		})
		if n > 0 {
			c.Check(bad == "", "C27.batch-atomic", funcKey(f)+" · map access under lock", f.Pos(), fmt.Sprintf("%d map accesses, all under the lock", n), bad)
		}
	}
	commit := c.Fn(rel, "batch.Commit")
	if commit == nil {
		return
	}
	nLock, direct := 0, 0
	var selfLocking []string
	allInstrs(commit, func(in ssa.Instruction) {
		if _, isDefer := in.(*ssa.Defer); isDefer {
			return
		}
		if isMu(in, "Lock") {
			nLock++
		}
		if ci, ok := in.(ssa.CallInstruction); ok {
			if sc := calleeFunc(ci); sc != nil && locking[sc] {
				selfLocking = append(selfLocking, sc.Name())
			}
		}
		switch x := in.(type) {
		case *ssa.MapUpdate:
			if _, ok := fieldOf(x.Map, dataF); ok {
				direct++
			}
		case *ssa.Call:
			if b, ok := x.Call.Value.(*ssa.Builtin); ok && b.Name() == "delete" {
				direct++
			}
		}
	})
	c.Check(nLock == 1 && len(selfLocking) == 0 && direct >= 2, "C27.batch-atomic", funcKey(commit)+" · one critical section", commit.Pos(), "one write-lock acquisition; puts and deletes applied directly to the map inside it", fmt.Sprintf("Commit acquires the write lock %d time(s), applies %d operations directly and calls self-locking methods %v: the batch is applied piecewise and readers can observe part of it", nLock, direct, selfLocking))
}

// isFreshCopyRender: the robust rendering of a value that is a newly made
// slice filled from another one (make + copy, append to nil, bytes.Clone, a clone helper).
func isFreshCopyRender(s string) bool {
	_, ok := freshCopyOf(s)
	return ok
}

func freshCopyOf(s string) (string, bool) {
	for _, t := range []string{"uint8", "byte"} {
		pre := "make([]" + t + ", len("
		if strings.HasPrefix(s, pre) {
			rest := s[len(pre):]
			if k := strings.Index(rest, ")){[:] ⇐ "); k > 0 {
				src := rest[:k]
				if rest[k:] == ")){[:] ⇐ "+src+"}" {
					return src, true
				}
			}
		}
	}
	if strings.HasPrefix(s, "bytes.Clone(") && strings.HasSuffix(s, ")") {
		return s[len("bytes.Clone(") : len(s)-1], true
	}
	if strings.HasPrefix(s, "slices.Clone(") && strings.HasSuffix(s, ")") {
		return s[len("slices.Clone(") : len(s)-1], true
	}
	if strings.HasPrefix(s, "cat(") && strings.HasSuffix(s, ")") && !strings.Contains(s[4:len(s)-1], ", ") {
		return s[4 : len(s)-1], true // append(nil/empty, x...)
	}
	return "", false
}

// c27MemorySelection: a key is collected exactly when it carries the prefix and is
// >= prefix⌢start; decided as a truth table over the two tests, in either of the
// two equivalent formulations (HasPrefix ∧ key >= prefix⌢start; CutPrefix ok ∧ rest >= start).
func c27MemorySelection(c *Ctx, f *ssa.Function) {
	o := robustOpts
	var app *ssa.Call
	allInstrs(f, func(in ssa.Instruction) {
		if call, ok := in.(*ssa.Call); ok && app == nil {
			if bi, ok := call.Call.Value.(*ssa.Builtin); ok && bi.Name() == "append" && strings.Contains(typeStr(call.Type()), "string") {
				app = call
			}
		}
	})
	if app == nil {
		c.Bad("C27.iterator-range", funcKey(f)+" · selection", f.Pos(), "no key-collecting append found")
		return
	}
	key := "next(range(p0.data))#1"
	full := "cat(p1, p2)"
	cut := "strings.CutPrefix(" + key + ", p1)"
	// atom 0: has prefix; atom 1: ordering test. Each returns (index, value transform)
	type at struct {
		idx int
		f   func(has, ge int64) int64
	}
	classify := func(s string) (at, bool) {
		// prefix⌢start written as a string concatenation is the same bound as the joined byte slice
		s = strings.ReplaceAll(s, "(p1 + p2)", full)
		switch s {
		case "strings.HasPrefix(" + key + ", p1)", cut + "#1":
			return at{0, func(h, g int64) int64 { return h }}, true
		case "strings.Compare(" + key + ", " + full + ")":
			return at{1, func(h, g int64) int64 { return 2*g - 1 }}, true // -1 / +1
		case "(" + key + " < " + full + ")", "(" + cut + "#0 < p2)":
			return at{1, func(h, g int64) int64 { return 1 - g }}, true
		case "(" + full + " <= " + key + ")", "(p2 <= " + cut + "#0)":
			return at{1, func(h, g int64) int64 { return g }}, true
		case "(" + full + " < " + key + ")", "(p2 < " + cut + "#0)":
			return at{-1, nil}, true // strict: excludes the key equal to the bound
		}
		return at{}, false
	}
	seenPrefix, seenOrder, strict := false, false, false
	bad := ""
	for m := 0; m < 4 && bad == ""; m++ {
		has, ge := int64(m&1), int64(m>>1)
		reached, ok := iterReaches(app, o, nil, func(s string) (int64, bool) {
			a, is := classify(s)
			if !is {
				return 0, false
			}
			if a.idx < 0 {
				strict = true
				return 0, false
			}
			if a.idx == 0 {
				seenPrefix = true
			} else {
				seenOrder = true
			}
			return a.f(has, ge), true
		})
		if !ok {
			bad = "the selection depends on something other than (key carries the prefix, key ≥ prefix⌢start)"
			break
		}
		if reached != (has == 1 && ge == 1) {
			bad = fmt.Sprintf("with has-prefix=%d and key≥prefix⌢start=%d the key is collected=%v", has, ge, reached)
		}
	}
	if strict {
		bad = "the lower bound is strict: the key equal to prefix⌢start is skipped"
	}
	c.Check(bad == "" && seenPrefix && seenOrder, "C27.iterator-range", funcKey(f)+" · selection", app.Pos(), "a key is collected exactly when it carries the prefix and is ≥ prefix⌢start (4/4 rows)", "memory iterator selection: "+bad+fmt.Sprintf(" (prefix test seen=%v, order test seen=%v)", seenPrefix, seenOrder))
	c.Check(abbr(exprStr(app.Call.Args[1], o)) == "["+key+"][:]", "C27.iterator-range", funcKey(f)+" · collected key", app.Pos(), "the tested key is the one collected", "the collected element is "+abbr(exprStr(app.Call.Args[1], o)))
}

// c27SuccessorStrip: the second recognised successor form — n = |prefix| minus
// its trailing 0xff bytes; nil when n = 0; otherwise a fresh n-byte copy of
// prefix[:n] whose last byte is incremented.
func c27SuccessorStrip(f *ssa.Function) bool {
	if len(f.Params) != 1 {
		return false
	}
	p := f.Params[0]
	var n *ssa.Phi
	allInstrs(f, func(in ssa.Instruction) {
		if ph, ok := in.(*ssa.Phi); ok && isIntegerT(ph.Type()) && len(ph.Edges) == 2 {
			okLen, okDec := false, false
			for _, e := range ph.Edges {
				if call, isC := stripConv(e).(*ssa.Call); isC {
					if b, isB := call.Call.Value.(*ssa.Builtin); isB && b.Name() == "len" && call.Call.Args[0] == ssa.Value(p) {
						okLen = true
					}
				}
				if b, isB := stripConv(e).(*ssa.BinOp); isB && b.Op == token.SUB && stripConv(b.X) == ssa.Value(ph) {
					if k, ok := constInt(b.Y); ok && k == 1 {
						okDec = true
					}
				}
			}
			if okLen && okDec {
				n = ph
			}
		}
	})
	if n == nil {
		return false
	}
	isNm1 := func(v ssa.Value) bool {
		b, ok := stripConv(v).(*ssa.BinOp)
		if !ok || b.Op != token.SUB || stripConv(b.X) != ssa.Value(n) {
			return false
		}
		k, ok := constInt(b.Y)
		return ok && k == 1
	}
	// the loop keeps stripping only while the last remaining byte is 0xff
	stripOK := false
	allInstrs(f, func(in ssa.Instruction) {
		ifi, ok := in.(*ssa.If)
		if !ok {
			return
		}
		bo, ok := ifi.Cond.(*ssa.BinOp)
		if !ok || (bo.Op != token.EQL && bo.Op != token.NEQ) {
			return
		}
		isFF := func(v ssa.Value) bool { k, ok := constInt(v); return ok && k == 255 }
		isLast := func(v ssa.Value) bool {
			u, ok := stripConv(v).(*ssa.UnOp)
			if !ok || u.Op != token.MUL {
				return false
			}
			ia, ok := u.X.(*ssa.IndexAddr)
			return ok && ia.X == ssa.Value(p) && isNm1(ia.Index)
		}
		if isFF(bo.X) && isLast(bo.Y) || isFF(bo.Y) && isLast(bo.X) {
			stripOK = true
		}
	})
	var m *ssa.MakeSlice
	copyOK, incOK := false, false
	allInstrs(f, func(in ssa.Instruction) {
		switch x := in.(type) {
		case *ssa.MakeSlice:
			if stripConv(x.Len) == ssa.Value(n) {
				m = x
			}
		}
	})
	if m == nil {
		return false
	}
	allInstrs(f, func(in ssa.Instruction) {
		switch x := in.(type) {
		case ssa.CallInstruction:
			if b, ok := x.Common().Value.(*ssa.Builtin); ok && b.Name() == "copy" && x.Common().Args[0] == ssa.Value(m) {
				if sl, ok := x.Common().Args[1].(*ssa.Slice); ok && sl.X == ssa.Value(p) && sl.Low == nil && sl.High != nil && stripConv(sl.High) == ssa.Value(n) {
					copyOK = true
				}
			}
		case *ssa.Store:
			if ia, ok := x.Addr.(*ssa.IndexAddr); ok && ia.X == ssa.Value(m) && isNm1(ia.Index) {
				if b, ok := x.Val.(*ssa.BinOp); ok && b.Op == token.ADD {
					if k, ok := constInt(b.Y); ok && k == 1 {
						if ld, ok := b.X.(*ssa.UnOp); ok && ld.Op == token.MUL {
							if ia2, ok := ld.X.(*ssa.IndexAddr); ok && ia2.X == ssa.Value(m) && isNm1(ia2.Index) {
								incOK = true
							}
						}
					}
				}
			}
		}
	})
	retOK := true
	sawM := false
	allInstrs(f, func(in ssa.Instruction) {
		if r, ok := in.(*ssa.Return); ok && len(r.Results) == 1 {
			switch x := stripConv(r.Results[0]).(type) {
			case *ssa.Const:
				if !x.IsNil() {
					retOK = false
				}
			case *ssa.MakeSlice:
				if x != m {
					retOK = false
				}
				sawM = true
			default:
				retOK = false
			}
		}
	})
	return stripOK && copyOK && incOK && retOK && sawM
}
