package main

import (
	"sort"
	"strings"

	"golang.org/x/tools/go/ssa"
)

// effectShapes lists the externally visible effects of f in canonical form:
//
//	store <addr> ← <value>     stores whose address is not rooted in a local alloc
//	call <callee>(<args>)      calls selected by keepCall (setters, designated helpers)
//
// Closures are not descended into. Duplicates collapse.
func effectShapes(f *ssa.Function, keepCall func(name string) bool) []string {
	return effectShapesOpt(f, keepCall, false)
}

// effectShapesOpt with includeLocal also lists stores into local slices/arrays
// (element stores and copy() calls), for functions that build their result in
// a fresh slice.
type effArgs struct {
	keep         func(string) bool
	includeLocal bool
}

var lastEffectArgs = map[*ssa.Function]effArgs{}

func effectShapesOpt(f *ssa.Function, keepCall func(name string) bool, includeLocal bool) []string {
	lastEffectArgs[f] = effArgs{keepCall, includeLocal}
	return effectShapesSubst(f, keepCall, includeLocal, false)
}

// effectShapesSubst with through=true also lists the effects of the
// unexported package helpers f calls, in f's own terms (arguments
// substituted); the calls of those helpers themselves are not listed. It is
// the view used when a table does not match the plain effects, so that moving
// part of a function into a helper is not reported as a change of behaviour.
func effectShapesSubst(f *ssa.Function, keepCall func(name string) bool, includeLocal bool, through bool, named ...string) []string {
	if through {
		o := shapeOpts
		// helpers the table itself names stay calls: only helpers unknown to the table are seen through
		tableText := strings.Join(named, " ;; ")
		o.inline = func(g *ssa.Function) bool {
			if !helperInlinableLoops(g) || g == f {
				return false
			}
			n := relName(g.String())
			return !strings.Contains(tableText, n+"(") && !strings.Contains(tableText, abbr(n)+"(")
		}
		set := map[string]bool{}
		visitWithHelpers(f, o, func(g *ssa.Function, subst map[ssa.Value]string, in ssa.Instruction) {
			r := func(v ssa.Value) string { return exprStrSubst(v, o, subst) }
			switch x := in.(type) {
			case *ssa.Store:
				if rootedInLocal(x.Addr) {
					ia, isIdx := x.Addr.(*ssa.IndexAddr)
					if !(includeLocal && isIdx) {
						return
					}
					if a, ok := ia.X.(*ssa.Alloc); ok && arrayLiteral(a) != nil {
						return
					}
				}
				set["store "+r(x.Addr)+" ← "+r(x.Val)] = true
			case *ssa.MapUpdate:
				if rootedInLocal(x.Map) {
					return
				}
				set["mapset "+r(x.Map)+"["+r(x.Key)+"] ← "+r(x.Value)] = true
			case ssa.CallInstruction:
				cc := x.Common()
				if b, ok := cc.Value.(*ssa.Builtin); ok && includeLocal && b.Name() == "copy" {
					set["copy("+r(cc.Args[0])+", "+r(cc.Args[1])+")"] = true
					return
				}
				name := ""
				if cc.IsInvoke() {
					name = cc.Method.Name()
				} else if sc := cc.StaticCallee(); sc != nil {
					if o.inline(sc) {
						return
					}
					name = relName(sc.String())
				} else {
					return
				}
				if keepCall == nil || !keepCall(name) {
					return
				}
				var args []string
				for _, a := range cc.Args {
					args = append(args, r(a))
				}
				set["call "+name+"("+strings.Join(args, ", ")+")"] = true
			}
		})
		var out []string
		for s := range set {
			out = append(out, s)
		}
		sort.Strings(out)
		return out
	}
	set := map[string]bool{}
	allInstrs(f, func(in ssa.Instruction) {
		switch x := in.(type) {
		case *ssa.Store:
			if rootedInLocal(x.Addr) {
				ia, isIdx := x.Addr.(*ssa.IndexAddr)
				if !(includeLocal && isIdx) {
					return
				}
				if a, ok := ia.X.(*ssa.Alloc); ok && arrayLiteral(a) != nil {
					return // backing array of a variadic call
				}
			}
			set["store "+exprStr(x.Addr, shapeOpts)+" ← "+exprStr(x.Val, shapeOpts)] = true
		case *ssa.MapUpdate:
			if rootedInLocal(x.Map) {
				return
			}
			set["mapset "+exprStr(x.Map, shapeOpts)+"["+exprStr(x.Key, shapeOpts)+"] ← "+exprStr(x.Value, shapeOpts)] = true
		case ssa.CallInstruction:
			cc := x.Common()
			name := ""
			if b, ok := cc.Value.(*ssa.Builtin); ok && includeLocal && b.Name() == "copy" {
				set["copy("+exprStr(cc.Args[0], shapeOpts)+", "+exprStr(cc.Args[1], shapeOpts)+")"] = true
				return
			}
			if cc.IsInvoke() {
				name = cc.Method.Name()
			} else if sc := cc.StaticCallee(); sc != nil {
				name = relName(sc.String())
			} else {
				return
			}
			if keepCall == nil || !keepCall(name) {
				return
			}
			var args []string
			for _, a := range cc.Args {
				args = append(args, exprStr(a, shapeOpts))
			}
			set["call "+name+"("+strings.Join(args, ", ")+")"] = true
		}
	})
	var out []string
	for s := range set {
		out = append(out, s)
	}
	sort.Strings(out)
	return out
}

// rootedInLocal: the address derives (through field/index steps) from a local
// alloc that does not hold a parameter (i.e. a genuinely local variable).
func rootedInLocal(v ssa.Value) bool {
	for i := 0; i < 30; i++ {
		switch x := v.(type) {
		case *ssa.FieldAddr:
			v = x.X
		case *ssa.IndexAddr:
			v = x.X
		case *ssa.Alloc:
			// alloc holding a by-value parameter is still local storage
			return true
		case *ssa.UnOp:
			// load of a pointer/slice: the pointee is not local storage unless the pointer cell is a local holding a fresh value
			inner := x.X
			if a, ok := inner.(*ssa.Alloc); ok {
				if sv := singleStore(a); sv != nil {
					v = sv
					continue
				}
				return false
			}
			// a pointer/slice loaded from a field or element: its pointee is not
			// local storage even when the field itself lives in a local struct
			return false
		case *ssa.MakeSlice, *ssa.MakeMap:
			return true
		case *ssa.Slice:
			v = x.X
		case *ssa.ChangeType:
			v = x.X
		case *ssa.Convert:
			v = x.X
		case *ssa.Phi:
			// slices grown in loops: local if every edge is local
			for _, e := range x.Edges {
				if e == ssa.Value(x) {
					continue
				}
				if !rootedInLocal(e) {
					return false
				}
			}
			return true
		case *ssa.Call:
			if b, ok := x.Call.Value.(*ssa.Builtin); ok && b.Name() == "append" {
				v = x.Call.Args[0]
				continue
			}
			return false
		default:
			return false
		}
	}
	return false
}

// checkEffects: the effect list must equal want exactly.
func (c *Ctx) checkEffects(rule, fnKey string, f *ssa.Function, got, want []string) {
	sort.Strings(want)
	if a, ok := lastEffectArgs[f]; ok && !sameStringSet(got, want) {
		// second view: helpers seen through (abbreviated the same way when the table is)
		alt := effectShapesSubst(f, a.keep, a.includeLocal, true, want...)
		if sameStringSet(alt, want) {
			got = alt
		} else if ab := abbrAll(alt); sameStringSet(ab, want) {
			got = ab
		}
	}
	// a call made once with an argument merged by control flow (phi(a | b)) and the same call written once per
	// alternative are the same set of calls
	alts := func(s string) []string { return expandAlts(normEffect(s)) }
	g, w := map[string]bool{}, map[string]bool{}
	for _, s := range got {
		for _, a := range alts(s) {
			g[a] = true
		}
	}
	for _, s := range want {
		for _, a := range alts(s) {
			w[a] = true
		}
	}
	for _, s := range want {
		ok := true
		for _, a := range alts(s) {
			if !g[a] {
				ok = false
			}
		}
		if ok {
			c.OK(rule, fnKey+" · "+s, f.Pos(), "effect present")
		} else {
			c.Bad(rule, fnKey+" · "+s, f.Pos(), "required effect missing; function's effects are: %s", strings.Join(got, " ;; "))
		}
	}
	for _, s := range got {
		for _, a := range alts(s) {
			if !w[a] {
				c.Bad(rule, fnKey+" · unexpected", f.Pos(), "effect not in the specification table: %s", s)
				break
			}
		}
	}
}

// condShapes: canonical shapes of all branch conditions in f.
func condShapes(f *ssa.Function) []string {
	set := map[string]bool{}
	allInstrs(f, func(in ssa.Instruction) {
		if i, ok := in.(*ssa.If); ok {
			set[exprStr(i.Cond, shapeOpts)] = true
		}
	})
	var out []string
	for s := range set {
		out = append(out, s)
	}
	sort.Strings(out)
	return out
}

// normEffect: a field increased by a per-element amount inside the loop over
// the elements, and the same field increased once by the sum over the
// elements, are one effect: store &L ← (L + Σ(0; X)).
func normEffect(s string) string {
	const arrow = " ← "
	if !strings.HasPrefix(s, "store &") {
		return s
	}
	k := strings.Index(s, arrow)
	if k < 0 {
		return s
	}
	loc, val := s[len("store &"):k], s[k+len(arrow):]
	if len(val) < 2 || val[0] != '(' || matchParen(val, 0) != len(val)-1 {
		return s
	}
	inner := val[1 : len(val)-1]
	j := topLevelIndex(inner, " + ")
	if j < 0 {
		return s
	}
	a, b := inner[:j], inner[j+3:]
	var x string
	switch loc {
	case a:
		x = b
	case b:
		x = a
	default:
		return s
	}
	if strings.HasPrefix(x, "Σ(0; ") && matchParen(x, len("Σ")) == len(x)-1 {
		x = x[len("Σ(0; ") : len(x)-1]
	} else if !strings.Contains(x, "[*]") {
		return "store &" + loc + arrow + "(" + loc + " + " + x + ")"
	}
	return "store &" + loc + arrow + "(" + loc + " + Σ(0; " + x + "))"
}

func sameStringSet(a, b []string) bool {
	exp := func(in []string) []string {
		var out []string
		for _, s := range in {
			out = append(out, expandAlts(normEffect(s))...)
		}
		return uniqSorted(out)
	}
	x, y := exp(a), exp(b)
	return strings.Join(x, "\x00") == strings.Join(y, "\x00")
}
