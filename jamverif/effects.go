package main

import (
	"sort"
	"strings"

	"golang.org/x/tools/go/ssa"
)

// effectShapes lists the externally visible effects of f in canonical form:
//
//	store <addr> ← <value>     stores whose address is not rooted in a local alloc
//	call <callee>(<args>)      calls selected by keepCall (setters, designated helpers)
//
// Closures are not descended into. Duplicates collapse.
func effectShapes(f *ssa.Function, keepCall func(name string) bool) []string {
	return effectShapesOpt(f, keepCall, false)
}

// effectShapesOpt with includeLocal also lists stores into local slices/arrays
// (element stores and copy() calls), for functions that build their result in
// a fresh slice.
func effectShapesOpt(f *ssa.Function, keepCall func(name string) bool, includeLocal bool) []string {
	set := map[string]bool{}
	allInstrs(f, func(in ssa.Instruction) {
		switch x := in.(type) {
		case *ssa.Store:
			if rootedInLocal(x.Addr) {
				ia, isIdx := x.Addr.(*ssa.IndexAddr)
				if !(includeLocal && isIdx) {
					return
				}
				if a, ok := ia.X.(*ssa.Alloc); ok && arrayLiteral(a) != nil {
					return // backing array of a variadic call
				}
			}
			set["store "+exprStr(x.Addr, shapeOpts)+" ← "+exprStr(x.Val, shapeOpts)] = true
		case *ssa.MapUpdate:
			if rootedInLocal(x.Map) {
				return
			}
			set["mapset "+exprStr(x.Map, shapeOpts)+"["+exprStr(x.Key, shapeOpts)+"] ← "+exprStr(x.Value, shapeOpts)] = true
		case ssa.CallInstruction:
			cc := x.Common()
			name := ""
			if b, ok := cc.Value.(*ssa.Builtin); ok && includeLocal && b.Name() == "copy" {
				set["copy("+exprStr(cc.Args[0], shapeOpts)+", "+exprStr(cc.Args[1], shapeOpts)+")"] = true
				return
			}
			if cc.IsInvoke() {
				name = cc.Method.Name()
			} else if sc := cc.StaticCallee(); sc != nil {
				name = relName(sc.String())
			} else {
				return
			}
			if keepCall == nil || !keepCall(name) {
				return
			}
			var args []string
			for _, a := range cc.Args {
				args = append(args, exprStr(a, shapeOpts))
			}
			set["call "+name+"("+strings.Join(args, ", ")+")"] = true
		}
	})
	var out []string
	for s := range set {
		out = append(out, s)
	}
	sort.Strings(out)
	return out
}

// rootedInLocal: the address derives (through field/index steps) from a local
// alloc that does not hold a parameter (i.e. a genuinely local variable).
func rootedInLocal(v ssa.Value) bool {
	for i := 0; i < 30; i++ {
		switch x := v.(type) {
		case *ssa.FieldAddr:
			v = x.X
		case *ssa.IndexAddr:
			v = x.X
		case *ssa.Alloc:
			// alloc holding a by-value parameter is still local storage
			return true
		case *ssa.UnOp:
			// load of a pointer/slice: the pointee is not local storage unless the pointer cell is a local holding a fresh value
			inner := x.X
			if a, ok := inner.(*ssa.Alloc); ok {
				if sv := singleStore(a); sv != nil {
					v = sv
					continue
				}
				return false
			}
			// a pointer/slice loaded from a field or element: its pointee is not
			// local storage even when the field itself lives in a local struct
			return false
		case *ssa.MakeSlice, *ssa.MakeMap:
			return true
		case *ssa.Slice:
			v = x.X
		case *ssa.ChangeType:
			v = x.X
		case *ssa.Convert:
			v = x.X
		case *ssa.Phi:
			// slices grown in loops: local if every edge is local
			for _, e := range x.Edges {
				if e == ssa.Value(x) {
					continue
				}
				if !rootedInLocal(e) {
					return false
				}
			}
			return true
		case *ssa.Call:
			if b, ok := x.Call.Value.(*ssa.Builtin); ok && b.Name() == "append" {
				v = x.Call.Args[0]
				continue
			}
			return false
		default:
			return false
		}
	}
	return false
}

// checkEffects: the effect list must equal want exactly.
func (c *Ctx) checkEffects(rule, fnKey string, f *ssa.Function, got, want []string) {
	sort.Strings(want)
	g, w := map[string]bool{}, map[string]bool{}
	for _, s := range got {
		g[s] = true
	}
	for _, s := range want {
		w[s] = true
	}
	for _, s := range want {
		if g[s] {
			c.OK(rule, fnKey+" · "+s, f.Pos(), "effect present")
		} else {
			c.Bad(rule, fnKey+" · "+s, f.Pos(), "required effect missing; function's effects are: %s", strings.Join(got, " ;; "))
		}
	}
	for _, s := range got {
		if !w[s] {
			c.Bad(rule, fnKey+" · unexpected", f.Pos(), "effect not in the specification table: %s", s)
		}
	}
}

// condShapes: canonical shapes of all branch conditions in f.
func condShapes(f *ssa.Function) []string {
	set := map[string]bool{}
	allInstrs(f, func(in ssa.Instruction) {
		if i, ok := in.(*ssa.If); ok {
			set[exprStr(i.Cond, shapeOpts)] = true
		}
	})
	var out []string
	for s := range set {
		out = append(out, s)
	}
	sort.Strings(out)
	return out
}
