package main

import (
	"fmt"
	"regexp"
	"sort"
	"strings"

	"golang.org/x/tools/go/ssa"
)

var (
	c34TauRe  = regexp.MustCompile(`\bp2\b`)
	c34SlotRe = regexp.MustCompile(`\.Slot\b`)
)

// rotationIndexOf: s renders X / RotationPeriod (one division at the top level); returns X.
func rotationIndexOf(s string) (string, bool) {
	if len(s) < 2 || s[0] != '(' || s[len(s)-1] != ')' {
		return "", false
	}
	depth, cut := 0, -1
	for i := 0; i < len(s); i++ {
		switch s[i] {
		case '(', '[':
			depth++
		case ')', ']':
			depth--
			if depth == 0 && i != len(s)-1 {
				return "", false
			}
		case ' ':
			if depth == 1 && i+2 < len(s) && s[i+2] == ' ' {
				if s[i+1] != '/' || cut >= 0 {
					return "", false
				}
				cut = i
			}
		}
	}
	if cut < 0 || !strings.Contains(s[cut+3:], "RotationPeriod") {
		return "", false
	}
	return s[1:cut], true
}

// c34ReporterKeys: the reporters set is filled with the Ed25519 keys, at the guarantee's signer indices, of the
// key list of the guarantor assignment that applies to that guarantee: G (current rotation) when
// ⌊τ'/R⌋ = ⌊slot/R⌋, G* (previous rotation, possibly over λ') otherwise. Decided by following one iteration of
// the loop over the guarantees with the two rotation indices valued (equal and different) and reading which
// assignment the key list comes from on the path taken.
func c34ReporterKeys(c *Ctx, f *ssa.Function) {
	const rule = "C34.validator-record"
	key := funcKey(f) + " · reporter keys"
	var keys []ssa.Value
	allInstrs(f, func(in ssa.Instruction) {
		mu, ok := in.(*ssa.MapUpdate)
		if !ok {
			return
		}
		ks := exprStr(mu.Key, shapeOpts)
		if strings.HasSuffix(ks, ".Ed25519") && strings.Contains(ks, "PublicKeys") {
			keys = append(keys, mu.Key)
		}
	})
	if len(keys) == 0 {
		c.Bad(rule, key, f.Pos(), "no reporters set is filled from the key list of a guarantor assignment")
		return
	}
	for _, kv := range keys {
		sel := selectionOf(kv, 0)
		var leaves []ssa.Value
		var at *ssa.BasicBlock
		var cell *ssa.Alloc
		var phi *ssa.Phi
		switch x := sel.(type) {
		case *ssa.Phi:
			phi, at = x, x.Block()
			leaves = phiLeaves(x)
		case *ssa.Alloc:
			cell = x
			for _, r := range *x.Referrers() {
				if st, ok := r.(*ssa.Store); ok && st.Addr == ssa.Value(x) {
					leaves = append(leaves, phiLeaves(st.Val)...)
					at = st.Block()
				}
			}
		default:
			leaves = []ssa.Value{kv}
		}
		names := map[string]bool{}
		for _, l := range leaves {
			names[originCall(l, 0)] = true
		}
		var ns []string
		for n := range names {
			ns = append(ns, n)
		}
		sort.Strings(ns)
		if strings.Join(ns, ",") != "GFunc,GStarFunc" {
			c.Bad(rule, key, f.Pos(), "signer indices are resolved in the key list of [%s]; a guarantee of the previous rotation must be resolved in G* (whose keys are λ' when that rotation lies in the previous epoch) and one of the current rotation in G", strings.Join(ns, ", "))
			return
		}
		if at == nil {
			c.Bad(rule, key, f.Pos(), "the choice between G and G* is not made per guarantee")
			return
		}
		h, in := natLoop(at)
		if h == nil {
			c.Bad(rule, key, f.Pos(), "the choice between G and G* is not made inside the loop over the guarantees")
			return
		}
		for _, rot := range [][2]int64{{7, 7}, {7, 6}, {6, 7}, {0, 0}} {
			want := "GFunc"
			if rot[0] != rot[1] {
				want = "GStarFunc"
			}
			valued := map[string]bool{}
			var last map[*ssa.Phi]ssa.Value
			var stored ssa.Value
			_, _, ok := iterRun(h, in, shapeOpts, func(s string) (int64, bool) {
				x, isRot := rotationIndexOf(s)
				switch {
				case isRot && c34SlotRe.MatchString(x):
					valued["slot"] = true
					return rot[1], true
				case isRot && c34TauRe.MatchString(x):
					valued["tau"] = true
					return rot[0], true
				}
				return 0, false
			}, nil, func(in ssa.Instruction, choice map[*ssa.Phi]ssa.Value) {
				last = choice
				if st, isSt := in.(*ssa.Store); isSt && cell != nil && st.Addr == ssa.Value(cell) {
					stored = resolveChoice(st.Val, choice)
				}
			})
			got := ""
			if cell != nil && stored != nil {
				got = originCall(stored, 0)
			} else if phi != nil && last != nil {
				got = originCall(resolveChoice(phi, last), 0)
			}
			k2 := fmt.Sprintf("%s (⌊τ'/R⌋ = %d, ⌊slot/R⌋ = %d)", key, rot[0], rot[1])
			switch {
			case !ok || len(valued) < 2 || got == "":
				c.Bad(rule, k2, f.Pos(), "the assignment is not chosen by comparing ⌊τ'/R⌋ with ⌊slot/R⌋ (conditions: %s)", strings.Join(condShapes(f), " ; "))
			case got != want:
				c.Bad(rule, k2, f.Pos(), "signer indices are resolved in the key list of %s, the specification requires %s", got, want)
			default:
				c.OK(rule, k2, f.Pos(), "signer indices resolved in the key list of %s", want)
			}
		}
	}
}

// selectionOf: walking from v towards what it was read from, the first point at which control flow chooses
// between sources: a phi, or a local cell assigned in more than one place. nil when there is none.
func selectionOf(v ssa.Value, d int) ssa.Value {
	if d > 14 || v == nil {
		return nil
	}
	switch x := v.(type) {
	case *ssa.Phi:
		return x
	case *ssa.Alloc:
		n := 0
		var only ssa.Value
		for _, r := range *x.Referrers() {
			if st, ok := r.(*ssa.Store); ok && st.Addr == ssa.Value(x) {
				n++
				only = st.Val
			}
		}
		if n > 1 {
			return x
		}
		if n == 1 {
			return selectionOf(only, d+1)
		}
		return nil
	case *ssa.UnOp:
		return selectionOf(x.X, d+1)
	case *ssa.Field:
		return selectionOf(x.X, d+1)
	case *ssa.FieldAddr:
		return selectionOf(x.X, d+1)
	case *ssa.IndexAddr:
		return selectionOf(x.X, d+1)
	case *ssa.Index:
		return selectionOf(x.X, d+1)
	case *ssa.Slice:
		return selectionOf(x.X, d+1)
	case *ssa.ChangeType:
		return selectionOf(x.X, d+1)
	case *ssa.Convert:
		return selectionOf(x.X, d+1)
	}
	return nil
}

// originCall: the function whose (first) result v is read from, through field, element and cell accesses.
func originCall(v ssa.Value, d int) string {
	if d > 14 || v == nil {
		return "?"
	}
	switch x := v.(type) {
	case *ssa.Call:
		if g := x.Call.StaticCallee(); g != nil {
			return g.Name()
		}
	case *ssa.Extract:
		if x.Index == 0 {
			return originCall(x.Tuple, d+1)
		}
	case *ssa.Alloc:
		if sv := singleStore(x); sv != nil {
			return originCall(sv, d+1)
		}
	case *ssa.UnOp:
		return originCall(x.X, d+1)
	case *ssa.Field:
		return originCall(x.X, d+1)
	case *ssa.FieldAddr:
		return originCall(x.X, d+1)
	case *ssa.IndexAddr:
		return originCall(x.X, d+1)
	case *ssa.Index:
		return originCall(x.X, d+1)
	case *ssa.Slice:
		return originCall(x.X, d+1)
	case *ssa.ChangeType:
		return originCall(x.X, d+1)
	case *ssa.Convert:
		return originCall(x.X, d+1)
	}
	return "?" + exprStr(v, shapeOpts)
}

// baseOfField: walking from v towards what it was read from, the value whose field `name` is accessed.
func baseOfField(v ssa.Value, name string, d int) ssa.Value {
	if d > 12 || v == nil {
		return nil
	}
	v = stripConv(v)
	switch x := v.(type) {
	case *ssa.UnOp:
		return baseOfField(x.X, name, d+1)
	case *ssa.Field:
		if fieldName(x.X.Type(), x.Field) == name {
			return x.X
		}
		return baseOfField(x.X, name, d+1)
	case *ssa.FieldAddr:
		if fieldName(x.X.Type(), x.Field) == name {
			if u, ok := x.X.(*ssa.UnOp); ok {
				return u
			}
			return x.X
		}
		return baseOfField(x.X, name, d+1)
	case *ssa.IndexAddr:
		return baseOfField(x.X, name, d+1)
	case *ssa.Index:
		return baseOfField(x.X, name, d+1)
	case *ssa.Extract:
		// range over a slice held in a variable: the element comes from a Next/lookup tuple — not used for slices
		return nil
	case *ssa.Alloc:
		if sv := singleStore(x); sv != nil {
			return baseOfField(sv, name, d+1)
		}
	}
	return nil
}
