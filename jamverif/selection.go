package main

import (
	"strings"

	"golang.org/x/tools/go/ssa"
)

// Selection predicates. "Under which valuation of its atomic tests does one
// loop iteration reach this instruction?" is answered by following the loop
// body from its entry with the atoms given values (helpers and closures seen
// through by the evaluator), for every valuation. The answer is a truth table,
// so De Morgan rewrites, early continues, extracted predicate helpers and
// swapped branches do not change it.

// natLoop: the innermost natural loop containing block b.
func natLoop(b *ssa.BasicBlock) (header *ssa.BasicBlock, in map[*ssa.BasicBlock]bool) {
	for h := b; h != nil; h = h.Idom() {
		var backs []*ssa.BasicBlock
		for _, p := range h.Preds {
			if h.Dominates(p) {
				backs = append(backs, p)
			}
		}
		if len(backs) == 0 {
			continue
		}
		set := map[*ssa.BasicBlock]bool{h: true}
		work := append([]*ssa.BasicBlock{}, backs...)
		for len(work) > 0 {
			x := work[len(work)-1]
			work = work[:len(work)-1]
			if set[x] {
				continue
			}
			set[x] = true
			work = append(work, x.Preds...)
		}
		if set[b] {
			return h, set
		}
	}
	return nil, nil
}

// enclosingLoops: the natural loops around b, innermost first.
func enclosingLoops(b *ssa.BasicBlock) []map[*ssa.BasicBlock]bool {
	var out []map[*ssa.BasicBlock]bool
	for i := 0; i < 8 && b != nil; i++ {
		h, in := natLoop(b)
		if h == nil {
			break
		}
		out = append(out, in)
		// continue from outside this loop: the header's immediate dominator is outside it
		b = h.Idom()
	}
	return out
}

// atomFn gives the value of an atomic sub-expression (by its canonical
// rendering under the helper substitution in force), or ok=false.
type atomFn func(rendered string) (int64, bool)

// iterReaches: does one iteration of the innermost loop around target reach
// target, with atoms valued by av? ok=false when some other condition on the
// way cannot be evaluated.
func iterReaches(target ssa.Instruction, o exprOpts, subst map[ssa.Value]string, av atomFn) (reached, ok bool) {
	tb := target.Block()
	h, in := natLoop(tb)
	if h == nil {
		// an exit of the loop (a return or break target reached from the body): the loop of its predecessors
		for b, k := tb, 0; h == nil && k < 6 && len(b.Preds) > 0; b, k = b.Preds[0], k+1 {
			h, in = natLoop(b.Preds[0])
		}
	}
	if h == nil {
		return false, false
	}
	memo := map[ssa.Value]string{}
	env := intEnv{params: map[ssa.Value]int64{}, lens: map[ssa.Value]int64{}, unknown: map[ssa.Value]bool{}, cells: map[ssa.Value]int64{}, skipLoops: true}
	env.opaque = func(v ssa.Value) (int64, bool) {
		if !isIntegerT(v.Type()) && !isBoolT(v.Type()) {
			return 0, false
		}
		if _, isC := v.(*ssa.Const); isC {
			return 0, false
		}
		s, have := memo[v]
		if !have {
			// values of helper bodies are rendered in the helper's own terms
			if v.Parent() == target.Parent() {
				s = abbr(exprStrSubst(v, o, subst))
			} else {
				s = abbr(exprStr(v, o))
			}
			memo[v] = s
		}
		if s == "*" {
			// "*" stands for the loop counter; derived expressions (i+1, i == 0) render the same and are evaluated structurally
			if _, isPhi := v.(*ssa.Phi); !isPhi {
				return 0, false
			}
		}
		return av(s)
	}
	n := 4000
	env.fuel = &n
	any := false
	for _, s := range h.Succs {
		if !in[s] {
			continue
		}
		any = true
		some := reachQ(s, h, cloneEnv(env), func(b *ssa.BasicBlock) bool { return b == tb }, func(b *ssa.BasicBlock) bool { return b == h || !in[b] }, 0, false)
		if !some {
			continue
		}
		// reached on some path: it must then be reached on every path (no further, unvalued, guard in front of it)
		m := 4000
		env.fuel = &m
		if !reachQ(s, h, cloneEnv(env), func(b *ssa.BasicBlock) bool { return b == tb }, func(b *ssa.BasicBlock) bool { return b == h || !in[b] }, 0, true) {
			return false, false
		}
		return true, true
	}
	return false, any
}

func cloneEnv(e intEnv) intEnv {
	c := e
	c.params = map[ssa.Value]int64{}
	for k, v := range e.params {
		c.params[k] = v
	}
	c.lens = map[ssa.Value]int64{}
	for k, v := range e.lens {
		c.lens[k] = v
	}
	c.unknown = map[ssa.Value]bool{}
	for k, v := range e.unknown {
		c.unknown[k] = v
	}
	return c
}

// reachSome: is a block satisfying goal reached from b on some path whose
// evaluable conditions hold under env? Conditions that cannot be evaluated
// (they depend on nothing the rule valued) are explored both ways; blocks
// satisfying stop end a path.
func reachSome(b, from *ssa.BasicBlock, env intEnv, goal, stop func(*ssa.BasicBlock) bool, forks int) bool {
	return reachQ(b, from, env, goal, stop, forks, false)
}

// reachQ with all=true: is the goal reached on every such path?
func reachQ(b, from *ssa.BasicBlock, env intEnv, goal, stop func(*ssa.BasicBlock) bool, forks int, all bool) bool {
	for steps := 0; steps < 400; steps++ {
		if *env.fuel <= 0 {
			return false
		}
		*env.fuel--
		last := walkBlocks(b, from, env, func(x *ssa.BasicBlock) bool { return true })
		if last == nil {
			return false
		}
		// walkBlocks with stop=always assigns the phis of b and returns b
		if goal(b) {
			return true
		}
		if stop(b) {
			return false
		}
		switch t := b.Instrs[len(b.Instrs)-1].(type) {
		case *ssa.Jump:
			from, b = b, b.Succs[0]
		case *ssa.If:
			k, ok := evalInt(t.Cond, env, 0)
			if ok {
				if k != 0 {
					from, b = b, b.Succs[0]
				} else {
					from, b = b, b.Succs[1]
				}
				continue
			}
			if h2, in2 := natLoop(b); h2 == b && in2 != nil {
				// an inner loop with an unvalued trip count: stepped over (its phis become unknown)
				var exit *ssa.BasicBlock
				for _, s := range b.Succs {
					if !in2[s] {
						exit = s
					}
				}
				if exit != nil && !goalInside(in2, goal) {
					for lb := range in2 {
						for _, ins := range lb.Instrs {
							if p, isPhi := ins.(*ssa.Phi); isPhi {
								delete(env.params, p)
								delete(env.lens, p)
								env.unknown[p] = true
							}
						}
					}
					from, b = b, exit
					continue
				}
			}
			if forks > 10 {
				return false
			}
			if all {
				for _, s := range b.Succs {
					if !reachQ(s, b, cloneEnv(env), goal, stop, forks+1, true) {
						return false
					}
				}
				return true
			}
			for _, s := range b.Succs {
				if s.Dominates(b) && s != b {
					continue // do not re-enter an enclosing loop on an unknown condition
				}
				if reachQ(s, b, cloneEnv(env), goal, stop, forks+1, false) {
					return true
				}
			}
			return false
		default:
			return false
		}
	}
	return false
}

// selectionTable enumerates the valuations of the named atoms (each over its
// domain) and returns, per valuation (as the list of chosen values), whether
// the target is reached. matchers map a rendered atom to the atom's index.
func selectionTable(target ssa.Instruction, o exprOpts, subst map[ssa.Value]string, match func(rendered string) int, domains [][]int64) (rows [][]int64, reached []bool, ok bool) {
	idx := make([]int, len(domains))
	for {
		vals := make([]int64, len(domains))
		for i := range domains {
			vals[i] = domains[i][idx[i]]
		}
		r, okk := iterReaches(target, o, subst, func(s string) (int64, bool) {
			if k := match(s); k >= 0 && k < len(vals) {
				return vals[k], true
			}
			return 0, false
		})
		if !okk {
			return nil, nil, false
		}
		rows = append(rows, vals)
		reached = append(reached, r)
		// next
		i := 0
		for i < len(idx) {
			idx[i]++
			if idx[i] < len(domains[i]) {
				break
			}
			idx[i] = 0
			i++
		}
		if i == len(idx) {
			break
		}
	}
	return rows, reached, true
}

// runWithAtoms follows f from its entry with the atoms valued by av and
// returns the return instruction reached; watch sees every executed instruction.
func runWithAtoms(f *ssa.Function, o exprOpts, av atomFn, watch func(ssa.Instruction)) (*ssa.Return, bool) {
	var w2 func(ssa.Instruction, map[*ssa.Phi]ssa.Value)
	if watch != nil {
		w2 = func(in ssa.Instruction, _ map[*ssa.Phi]ssa.Value) { watch(in) }
	}
	return runWithAtomsChoice(f, o, av, w2)
}

// runWithAtomsEnv is runWithAtoms whose watcher can evaluate values at the instruction it sees.
func runWithAtomsEnv(f *ssa.Function, o exprOpts, av atomFn, watch func(ssa.Instruction, intEnv)) (*ssa.Return, bool) {
	return runWithAtomsFull(f, o, av, watch)
}

// runWithAtomsChoice is runWithAtoms whose watcher also sees which incoming
// edge every non-integer phi took on the path followed (resolveChoice).
func runWithAtomsChoice(f *ssa.Function, o exprOpts, av atomFn, watch func(ssa.Instruction, map[*ssa.Phi]ssa.Value)) (*ssa.Return, bool) {
	var w func(ssa.Instruction, intEnv)
	if watch != nil {
		w = func(in ssa.Instruction, e intEnv) { watch(in, e.choice) }
	}
	return runWithAtomsFull(f, o, av, w)
}

func runWithAtomsFull(f *ssa.Function, o exprOpts, av atomFn, watch func(ssa.Instruction, intEnv)) (*ssa.Return, bool) {
	memo := map[ssa.Value]string{}
	env := intEnv{params: map[ssa.Value]int64{}, lens: map[ssa.Value]int64{}, unknown: map[ssa.Value]bool{}, cells: map[ssa.Value]int64{}, skipLoops: true, choice: map[*ssa.Phi]ssa.Value{}}
	env.opaque = func(v ssa.Value) (int64, bool) {
		if !isIntegerT(v.Type()) && !isBoolT(v.Type()) {
			return 0, false
		}
		if _, isC := v.(*ssa.Const); isC {
			return 0, false
		}
		s, have := memo[v]
		if !have {
			s = abbr(exprStr(v, o))
			memo[v] = s
		}
		if s == "*" {
			if _, isPhi := v.(*ssa.Phi); !isPhi {
				return 0, false
			}
		}
		return av(s)
	}
	if watch != nil {
		env.watch = watch
	}
	n := 4000
	env.fuel = &n
	last := walkBlocks(f.Blocks[0], nil, env, func(*ssa.BasicBlock) bool { return false })
	if last == nil {
		return nil, false
	}
	r, ok := last.Instrs[len(last.Instrs)-1].(*ssa.Return)
	return r, ok
}

// eqAtom: s is the comparison (a == b) or (a != b) of the two given
// renderings (either order); returns whether it is, and whether it is negated.
func eqAtom(s, a, b string) (is, neg bool) {
	switch s {
	case "(" + a + " == " + b + ")", "(" + b + " == " + a + ")":
		return true, false
	case "(" + a + " != " + b + ")", "(" + b + " != " + a + ")":
		return true, true
	}
	return false, false
}

// boundTarget: for a bound-method closure (x.m used as a value) the method itself.
func boundTarget(f *ssa.Function) *ssa.Function {
	if f == nil || f.Synthetic == "" || len(f.Blocks) != 1 {
		return f
	}
	for _, in := range f.Blocks[0].Instrs {
		if call, ok := in.(*ssa.Call); ok {
			if sc := call.Call.StaticCallee(); sc != nil {
				return sc
			}
		}
	}
	return f
}

func goalInside(in map[*ssa.BasicBlock]bool, goal func(*ssa.BasicBlock) bool) bool {
	for b := range in {
		if goal(b) {
			return true
		}
	}
	return false
}

// iterRun follows one iteration of the loop with the given header from its
// body entry, atoms valued by av and globals fixed, until the header is reached
// again ("next"), the loop is left ("exit") or the function returns; every
// executed instruction is shown to watch together with the walker's choice of
// edge for pointer-valued phis.
func iterRun(h *ssa.BasicBlock, in map[*ssa.BasicBlock]bool, o exprOpts, av atomFn, globals map[string]int64, watch func(ssa.Instruction, map[*ssa.Phi]ssa.Value)) (outcome string, ret *ssa.Return, ok bool) {
	memo := map[ssa.Value]string{}
	env := intEnv{params: map[ssa.Value]int64{}, lens: map[ssa.Value]int64{}, unknown: map[ssa.Value]bool{}, cells: map[ssa.Value]int64{}, skipLoops: true, globals: globals, choice: map[*ssa.Phi]ssa.Value{}}
	env.opaque = func(v ssa.Value) (int64, bool) {
		if !isIntegerT(v.Type()) && !isBoolT(v.Type()) {
			return 0, false
		}
		if _, isC := v.(*ssa.Const); isC {
			return 0, false
		}
		s, have := memo[v]
		if !have {
			s = abbr(exprStr(v, o))
			memo[v] = s
		}
		if s == "*" {
			if _, isPhi := v.(*ssa.Phi); !isPhi {
				return 0, false
			}
		}
		return av(s)
	}
	if watch != nil {
		env.watch = func(i ssa.Instruction, e intEnv) { watch(i, e.choice) }
	}
	n := 4000
	env.fuel = &n
	for _, s := range h.Succs {
		if !in[s] {
			continue
		}
		last := walkBlocks(s, h, env, func(b *ssa.BasicBlock) bool { return b == h || !in[b] && !endsInReturn(b) })
		if last == nil {
			return "", nil, false
		}
		if last == h {
			return "next", nil, true
		}
		if r, isR := last.Instrs[len(last.Instrs)-1].(*ssa.Return); isR && !in[last] || isR {
			// returns are executed (watch has seen the block) — walkBlocks stops at a return after running it
			return "return", r, true
		}
		return "exit", nil, true
	}
	return "", nil, false
}

func endsInReturn(b *ssa.BasicBlock) bool {
	_, ok := b.Instrs[len(b.Instrs)-1].(*ssa.Return)
	return ok
}

// resolveChoice follows pointer phis along the edges the walker took.
func resolveChoice(v ssa.Value, choice map[*ssa.Phi]ssa.Value) ssa.Value {
	for i := 0; i < 8; i++ {
		p, ok := v.(*ssa.Phi)
		if !ok {
			return v
		}
		c, ok := choice[p]
		if !ok {
			return v
		}
		v = c
	}
	return v
}

// byteOrderSort: call sorts its first argument ascending by the bytes of the
// elements (or of one field): sort.Slice(x, less) with less = bytes.Compare(x[i]…, x[j]…) < 0,
// or slices.SortFunc(x, cmp) with cmp = bytes.Compare(a…, b…). Returns the field ("" for whole elements).
func byteOrderSort(call *ssa.Call) (field string, ok bool) {
	sc := call.Call.StaticCallee()
	if sc == nil || len(call.Call.Args) != 2 {
		return "", false
	}
	name := sc.String()
	if sc.Origin() != nil {
		name = sc.Origin().String()
	}
	var cmp *ssa.Function
	switch x := stripConv(call.Call.Args[1]).(type) {
	case *ssa.MakeClosure:
		cmp, _ = x.Fn.(*ssa.Function)
	case *ssa.Function:
		cmp = x
	}
	if cmp == nil {
		return "", false
	}
	rs := abbrMap(returnShapesO(cmp, robustOpts))["ret"]
	if len(rs) != 1 {
		return "", false
	}
	s := strings.NewReplacer("&cell(p0)", "p0", "&cell(p1)", "p1", "cell(p0)", "p0", "cell(p1)", "p1").Replace(rs[0])
	switch name {
	case "sort.Slice", "sort.SliceStable":
		for _, l := range []string{"*fv0", "fv0"} {
			pre := "(bytes.Compare(" + l + "[p0]"
			if strings.HasPrefix(s, pre) && strings.HasSuffix(s, "[:]) < 0)") {
				mid := s[len(pre) : len(s)-len("[:]) < 0)")] // F[:], L[p1]F
				parts := strings.Split(mid, "[:], "+l+"[p1]")
				if len(parts) == 2 && parts[0] == parts[1] {
					return strings.TrimPrefix(parts[0], "."), true
				}
			}
		}
	case "slices.SortFunc", "slices.SortStableFunc":
		pre := "bytes.Compare(p0"
		if strings.HasPrefix(s, pre) && strings.HasSuffix(s, "[:])") {
			mid := s[len(pre) : len(s)-len("[:])")]
			parts := strings.Split(mid, "[:], p1")
			if len(parts) == 2 && parts[0] == parts[1] {
				return strings.TrimPrefix(parts[0], "."), true
			}
		}
	}
	return "", false
}

// reachFromEntry: with atoms valued by av (unvalued conditions explored both
// ways), is target's block reached from the function entry on some path / on every path?
func reachFromEntry(target ssa.Instruction, o exprOpts, av atomFn) (some, all bool) {
	f := target.Parent()
	tb := target.Block()
	memo := map[ssa.Value]string{}
	mk := func() intEnv {
		env := intEnv{params: map[ssa.Value]int64{}, lens: map[ssa.Value]int64{}, unknown: map[ssa.Value]bool{}, cells: map[ssa.Value]int64{}, skipLoops: true}
		env.opaque = func(v ssa.Value) (int64, bool) {
			if !isIntegerT(v.Type()) && !isBoolT(v.Type()) {
				return 0, false
			}
			if _, isC := v.(*ssa.Const); isC {
				return 0, false
			}
			s, have := memo[v]
			if !have {
				s = abbr(exprStr(v, o))
				memo[v] = s
			}
			return av(s)
		}
		n := 4000
		env.fuel = &n
		return env
	}
	goal := func(b *ssa.BasicBlock) bool { return b == tb }
	stop := func(b *ssa.BasicBlock) bool { return false }
	some = reachQ(f.Blocks[0], nil, mk(), goal, stop, 0, false)
	all = some && reachQ(f.Blocks[0], nil, mk(), goal, stop, 0, true)
	return
}

// reachAvoiding: with atoms valued by av (other conditions explored both ways),
// can target be reached from the function entry without passing avoid?
func reachAvoiding(target, avoid ssa.Instruction, o exprOpts, av atomFn) bool {
	f := target.Parent()
	memo := map[ssa.Value]string{}
	env := intEnv{params: map[ssa.Value]int64{}, lens: map[ssa.Value]int64{}, unknown: map[ssa.Value]bool{}, cells: map[ssa.Value]int64{}, skipLoops: true}
	env.opaque = func(v ssa.Value) (int64, bool) {
		if !isIntegerT(v.Type()) && !isBoolT(v.Type()) {
			return 0, false
		}
		if _, isC := v.(*ssa.Const); isC {
			return 0, false
		}
		s, have := memo[v]
		if !have {
			s = abbr(exprStr(v, o))
			memo[v] = s
		}
		return av(s)
	}
	n := 6000
	env.fuel = &n
	tb, ab := target.Block(), avoid.Block()
	if tb == ab {
		// same block: reachable without avoid only if target comes first
		for _, in := range tb.Instrs {
			if in == target {
				break
			}
			if in == avoid {
				return false
			}
		}
	}
	return reachQ(f.Blocks[0], nil, env, func(b *ssa.BasicBlock) bool { return b == tb }, func(b *ssa.BasicBlock) bool { return b == ab && b != tb }, 0, false)
}
