package main

import (
	"fmt"
	"go/token"
	"go/types"
	"os"
	"sort"
	"strings"

	"golang.org/x/tools/go/ssa"
)

// c14Funcs: the functions that parse untrusted bytes.
func c14Funcs(c *Ctx) []*ssa.Function {
	var out []*ssa.Function
	seen := map[*ssa.Function]bool{}
	add := func(f *ssa.Function) {
		if f != nil && !seen[f] {
			seen[f] = true
			out = append(out, f)
		}
	}
	_, dec := c.codecMethods(typesPkg)
	for _, f := range dec {
		add(f)
	}
	_, fdec := c.codecMethods(fuzzPkg)
	for _, f := range fdec {
		add(f)
	}
	for _, f := range c.SrcFuncs(typesPkg) {
		if f.Signature.Recv() != nil && typeIs(f.Signature.Recv().Type(), modPath+"/"+typesPkg, "Decoder") {
			add(f)
		}
		if f.Name() == "MakeBitfieldFromByteSlice" {
			add(f)
		}
	}
	for _, f := range c.SrcFuncs(fuzzPkg) {
		switch f.Name() {
		case "UnmarshalBinary", "ReadFrom", "compactDecode", "unmarshalUint32LE", "unmarshalUint8":
			add(f)
		}
	}
	sort.Slice(out, func(i, j int) bool { return funcKey(out[i]) < funcKey(out[j]) })
	return out
}

var wireSourceFuncs = map[string]bool{
	"DecodeLength": true, "DecodeInteger": true, "decodeUintFromReader": true, "DecodeUint": true,
	"compactDecode": true, "ReadByte": true, "ReadPointerFlag": true, "ReadErrorByte": true, "ReadLegnthFlag": true,
	"unmarshalUint32LE": true, "unmarshalUint8": true, "Uint16": true, "Uint32": true, "Uint64": true, "IdentifyLength": true,
}

// wireOrigin: the integer value derives from bytes of the input. Returns the
// name of the first source found ("" if none) and whether it is exactly the
// result of DecodeLength.
func wireOrigin(v ssa.Value, seen map[ssa.Value]bool, d int) (src string) {
	if v == nil || seen[v] || d > 30 {
		return ""
	}
	seen[v] = true
	switch x := v.(type) {
	case *ssa.Const, *ssa.Global, *ssa.Parameter:
		return ""
	case *ssa.Convert:
		return wireOrigin(x.X, seen, d+1)
	case *ssa.ChangeType:
		return wireOrigin(x.X, seen, d+1)
	case *ssa.BinOp:
		if s := wireOrigin(x.X, seen, d+1); s != "" {
			return s
		}
		return wireOrigin(x.Y, seen, d+1)
	case *ssa.Phi:
		for _, e := range x.Edges {
			if s := wireOrigin(e, seen, d+1); s != "" {
				return s
			}
		}
	case *ssa.Extract:
		src := wireOrigin(x.Tuple, seen, d+1)
		if idx, ok := wireResultIdx[src]; ok && !idx[x.Index] {
			return ""
		}
		return src
	case *ssa.Call:
		if b, ok := x.Call.Value.(*ssa.Builtin); ok {
			if b.Name() == "len" || b.Name() == "cap" || b.Name() == "min" || b.Name() == "max" {
				return ""
			}
		}
		if sc := x.Call.StaticCallee(); sc != nil && wireSourceFuncs[sc.Name()] {
			return sc.Name()
		}
	case *ssa.UnOp:
		if x.Op == token.MUL {
			// load of a local filled by binary.Read, or of a field
			if a, ok := x.X.(*ssa.Alloc); ok {
				for _, r := range *a.Referrers() {
					if ci, ok := r.(ssa.CallInstruction); ok {
						if sc := ci.Common().StaticCallee(); sc != nil && sc.String() == "encoding/binary.Read" {
							return "binary.Read"
						}
					}
					if mi, ok := r.(*ssa.MakeInterface); ok {
						for _, r2 := range *mi.Referrers() {
							if ci, ok := r2.(ssa.CallInstruction); ok {
								if sc := ci.Common().StaticCallee(); sc != nil && sc.String() == "encoding/binary.Read" {
									return "binary.Read"
								}
							}
						}
					}
					if st, ok := r.(*ssa.Store); ok && st.Addr == ssa.Value(a) {
						if s := wireOrigin(st.Val, seen, d+1); s != "" {
							return s
						}
					}
				}
			}
			return ""
		}
		return wireOrigin(x.X, seen, d+1)
	}
	return ""
}

// wireResultIdx: for sources with several results, the result indices that
// carry a value taken from the input (the rest are byte counts and errors).
var wireResultIdx = map[string]map[int]bool{"compactDecode": {0: true}}

// widenCore strips value-preserving conversions (named-type changes, widening
// of an unsigned value, widening between signed types).
func widenCore(v ssa.Value) ssa.Value {
	for {
		switch x := v.(type) {
		case *ssa.ChangeType:
			v = x.X
		case *ssa.Convert:
			if !isIntegerT(x.Type()) || !isIntegerT(x.X.Type()) || intBits(x.Type()) < intBits(x.X.Type()) {
				return v
			}
			if !isUnsignedT(x.X.Type()) && isUnsignedT(x.Type()) {
				return v
			}
			if isUnsignedT(x.X.Type()) && !isUnsignedT(x.Type()) && intBits(x.Type()) == intBits(x.X.Type()) {
				return v
			}
			v = x.X
		default:
			return v
		}
	}
}

// sameWireValue: s denotes the same run-time value as core (identical SSA
// value, or two loads of one local that is written once).
func sameWireValue(s, core ssa.Value) bool {
	s = widenCore(s)
	if s == core {
		return true
	}
	l1, ok1 := s.(*ssa.UnOp)
	l2, ok2 := core.(*ssa.UnOp)
	if ok1 && ok2 && l1.Op == token.MUL && l2.Op == token.MUL && l1.X == l2.X {
		if a, ok := l1.X.(*ssa.Alloc); ok {
			stores := 0
			for _, r := range *a.Referrers() {
				if _, ok := r.(*ssa.Store); ok {
					stores++
				}
			}
			return stores <= 1
		}
	}
	return false
}

// boundingOperand: o is a quantity the input cannot choose freely: it does not
// derive from input bytes, and where a signed value is reinterpreted as
// unsigned it is provably non-negative (a negative one would wrap to a huge bound).
func boundingOperand(f *ssa.Function, at *ssa.BasicBlock, o ssa.Value) bool {
	if wireOrigin(o, map[ssa.Value]bool{}, 0) != "" {
		return false
	}
	for {
		switch x := o.(type) {
		case *ssa.ChangeType:
			o = x.X
			continue
		case *ssa.Convert:
			if isIntegerT(x.X.Type()) && !isUnsignedT(x.X.Type()) && isUnsignedT(x.Type()) {
				if _, isConst := x.X.(*ssa.Const); isConst {
					return true
				}
				if call, ok := x.X.(*ssa.Call); ok {
					if b, ok := call.Call.Value.(*ssa.Builtin); ok && (b.Name() == "len" || b.Name() == "cap") {
						return true
					}
					if sc := call.Call.StaticCallee(); sc != nil && (sc.Name() == "Len" || sc.Name() == "Size") {
						return true
					}
				}
				bp := &boundsProver{fn: f}
				facts := append(bp.factsAt(at), consumedFacts(bp, x.X)...)
				return bp.prove(bp.linOf(x.X, 0), facts, 4)
			}
			o = x.X
			continue
		}
		return true
	}
}

// consumedFacts: for each integer result k of a call g(…, a, …) to a module
// function that occurs in v, the fact len(a) - result_k >= 0 when g's body
// establishes it at every return (a parser's "bytes consumed" result never
// exceeds the slice it parsed).
func consumedFacts(bp *boundsProver, v ssa.Value) []lin {
	var out []lin
	seen := map[ssa.Value]bool{}
	var walk func(ssa.Value, int)
	walk = func(v ssa.Value, d int) {
		if v == nil || seen[v] || d > 8 {
			return
		}
		seen[v] = true
		switch x := v.(type) {
		case *ssa.BinOp:
			walk(x.X, d+1)
			walk(x.Y, d+1)
		case *ssa.Convert:
			walk(x.X, d+1)
		case *ssa.ChangeType:
			walk(x.X, d+1)
		case *ssa.Extract:
			call, ok := x.Tuple.(*ssa.Call)
			if !ok || !isIntegerT(x.Type()) {
				return
			}
			g := call.Call.StaticCallee()
			if g == nil || len(g.Blocks) == 0 || call.Call.IsInvoke() {
				return
			}
			for pi, p := range g.Params {
				if _, isSlice := p.Type().Underlying().(*types.Slice); !isSlice || pi >= len(call.Call.Args) {
					continue
				}
				if consumedSummary(g, pi, x.Index) {
					out = append(out, bp.lenOf(call.Call.Args[pi], 0).add(bp.linOf(x, 0), -1))
				}
				if nonNegSummary(g, x.Index) {
					out = append(out, bp.linOf(x, 0))
				}
			}
		}
	}
	walk(v, 0)
	return out
}

// nonNegSummary: result k of g is ≥ 0 at every return (a count).
func nonNegSummary(g *ssa.Function, k int) bool {
	key := fmt.Sprintf("%s/nonneg/%d", g.String(), k)
	if r, ok := consumedMemo[key]; ok {
		return r
	}
	consumedMemo[key] = false
	ok := true
	nret := 0
	allInstrs(g, func(in ssa.Instruction) {
		r, isR := in.(*ssa.Return)
		if !isR || !ok {
			return
		}
		res := retResults(r)
		if res == nil {
			return
		}
		nret++
		if k >= len(res) {
			ok = false
			return
		}
		bp := &boundsProver{fn: g}
		if !bp.prove(bp.linOf(res[k], 0), bp.factsAt(r.Block()), 4) {
			ok = false
		}
	})
	consumedMemo[key] = ok && nret > 0
	return consumedMemo[key]
}

var consumedMemo = map[string]bool{}

func consumedSummary(g *ssa.Function, pi, k int) bool {
	key := fmt.Sprintf("%s/%d/%d", g.String(), pi, k)
	if r, ok := consumedMemo[key]; ok {
		return r
	}
	consumedMemo[key] = false
	ok := true
	nret := 0
	allInstrs(g, func(in ssa.Instruction) {
		r, isR := in.(*ssa.Return)
		if !isR || !ok {
			return
		}
		nret++
		if k >= len(r.Results) {
			ok = false
			return
		}
		bp := &boundsProver{fn: g}
		goal := bp.lenOf(g.Params[pi], 0).add(bp.linOf(r.Results[k], 0), -1)
		if !bp.prove(goal, bp.factsAt(r.Block()), 4) {
			ok = false
		}
	})
	consumedMemo[key] = ok && nret > 0
	return consumedMemo[key]
}

// upperBounded: every path to `at` passes a comparison of v itself (not of an
// arithmetic image of it, which can wrap) against a quantity the input does
// not choose, on the edge where v is the smaller.
func upperBounded(f *ssa.Function, at ssa.Instruction, v ssa.Value) bool {
	core := widenCore(v)
	var pass []edge
	for _, b := range f.Blocks {
		ifi, ok := b.Instrs[len(b.Instrs)-1].(*ssa.If)
		if !ok {
			continue
		}
		cond, pol := ifi.Cond, true
		for {
			if u, ok := cond.(*ssa.UnOp); ok && u.Op == token.NOT {
				cond, pol = u.X, !pol
				continue
			}
			break
		}
		bo, ok := cond.(*ssa.BinOp)
		if !ok {
			continue
		}
		op, x, y := bo.Op, bo.X, bo.Y
		if sameWireValue(y, core) && !sameWireValue(x, core) {
			// mirror: o OP v  ⇒  v OP' o
			x, y = y, x
			switch op {
			case token.LSS:
				op = token.GTR
			case token.LEQ:
				op = token.GEQ
			case token.GTR:
				op = token.LSS
			case token.GEQ:
				op = token.LEQ
			}
		}
		if !sameWireValue(x, core) || !boundingOperand(f, b, y) {
			continue
		}
		succ := -1
		switch op {
		case token.GTR, token.GEQ: // v > o: bounded on the false edge
			succ = 1
		case token.LEQ, token.LSS, token.EQL:
			succ = 0
		case token.NEQ:
			succ = 1
		}
		if succ < 0 {
			continue
		}
		if !pol {
			succ = 1 - succ
		}
		pass = append(pass, edge{b, succ})
	}
	return guardedBy(f, at, pass)
}

func checkC14(c *Ctx) (string, []string) {
	dump := os.Getenv("JAMVERIF_DUMP") != ""
	funcs := c14Funcs(c)
	c.extra["parser_functions"] = len(funcs)

	c.Rule("C14.length-guard", "Decoder.DecodeLength returns a value only after comparing it with the bytes remaining in the input (value > buf.Len() is an error), so every count it hands out is bounded by the input length", 1)
	if f := c.Fn(typesPkg, "Decoder.DecodeLength"); f != nil {
		ok := false
		var pass []edge
		for _, b := range f.Blocks {
			ifi, isIf := b.Instrs[len(b.Instrs)-1].(*ssa.If)
			if !isIf {
				continue
			}
			bo, isBo := ifi.Cond.(*ssa.BinOp)
			if !isBo {
				continue
			}
			isLen := func(v ssa.Value) bool {
				call, ok := stripConv(v).(*ssa.Call)
				return ok && call.Call.StaticCallee() != nil && call.Call.StaticCallee().String() == "(*bytes.Reader).Len"
			}
			isVal := func(v ssa.Value) bool { return wireOrigin(v, map[ssa.Value]bool{}, 0) == "decodeUintFromReader" }
			switch {
			case bo.Op == token.GTR && isVal(bo.X) && isLen(bo.Y), bo.Op == token.LSS && isLen(bo.X) && isVal(bo.Y):
				pass = append(pass, edge{b, 1})
			case bo.Op == token.LEQ && isVal(bo.X) && isLen(bo.Y), bo.Op == token.GEQ && isLen(bo.X) && isVal(bo.Y):
				pass = append(pass, edge{b, 0})
			}
		}
		if len(pass) > 0 {
			ok = true
			allInstrs(f, func(in ssa.Instruction) {
				if r, isR := in.(*ssa.Return); isR && !isErrorReturn(f, r) && !guardedBy(f, r, pass) {
					ok = false
				}
			})
		}
		c.Check(ok, "C14.length-guard", funcKey(f), f.Pos(), "every successful return is behind value <= buf.Len()", "DecodeLength returns a length that was not compared with the remaining input: the ~45 make(T, length) sites allocate attacker-chosen sizes (makeslice panic for 2^63)")
	}

	c.Rule("C14.alloc", "in every parser function (Decode methods, Decoder helpers, fuzz UnmarshalBinary/ReadFrom) the size of each make is a constant, a protocol parameter, a len()/Len() of existing data, the result of the guarded DecodeLength, or a wire-derived value that a dominating comparison bounds from above", 40)
	c.Rule("C14.signed-conversion", "a wire-derived unsigned 64-bit value is converted to a signed integer only after a dominating upper-bound comparison (otherwise values >= 2^63 turn negative and slip under later checks)", 1)
	nconv := 0
	for _, f := range funcs {
		idx := 0
		allInstrs(f, func(in ssa.Instruction) {
			var size ssa.Value
			what := ""
			switch x := in.(type) {
			case *ssa.MakeSlice:
				size, what = x.Len, "make([]…)"
				if c2, ok := constInt(x.Len); ok && c2 == 0 {
					size = x.Cap
				}
			case *ssa.MakeMap:
				if x.Reserve == nil {
					return
				}
				size, what = x.Reserve, "make(map…)"
			case *ssa.Convert:
				// signed conversion of wire-derived u64
				if isUnsignedT(x.X.Type()) && intBits(x.X.Type()) == 64 && !isUnsignedT(x.Type()) && isIntegerT(x.Type()) {
					if src := wireOrigin(x.X, map[ssa.Value]bool{}, 0); src != "" {
						nconv++
						key := fmt.Sprintf("%s · %s(%s)", funcKey(f), typeStr(x.Type()), abbr(exprStr(x.X, shapeOpts)))
						if src == "DecodeLength" || upperBounded(f, x, x.X) {
							c.OK("C14.signed-conversion", key, x.Pos(), "operand bounded above before the conversion (source %s)", src)
						} else {
							c.Bad("C14.signed-conversion", key, x.Pos(), "%s-derived uint64 converted to %s with no dominating upper bound: a value >= 2^63 becomes negative", src, typeStr(x.Type()))
						}
					}
				}
				return
			default:
				return
			}
			idx++
			key := fmt.Sprintf("%s · %s #%d", funcKey(f), what, idx)
			if _, ok := constInt(size); ok {
				c.OK("C14.alloc", key, in.Pos(), "constant size")
				return
			}
			src := wireOrigin(size, map[ssa.Value]bool{}, 0)
			if dump {
				fmt.Printf("MAKE %s size=%s src=%q\n", key, abbr(exprStr(size, shapeOpts)), src)
			}
			narrow := intBits(stripIntConv(size).Type()) <= 16
			switch {
			case narrow:
				c.OK("C14.alloc", key, in.Pos(), "size is computed in a %d-bit type: bounded by a constant", intBits(stripIntConv(size).Type()))
			case src == "":
				c.OK("C14.alloc", key, in.Pos(), "size %s does not derive from input bytes (protocol parameter / length of existing data)", abbr(exprStr(size, shapeOpts)))
			case src == "DecodeLength":
				c.OK("C14.alloc", key, in.Pos(), "size comes from the guarded DecodeLength (bounded by the remaining input)")
			case upperBounded(f, in, size):
				c.OK("C14.alloc", key, in.Pos(), "wire-derived size (%s) bounded above by a dominating comparison", src)
			default:
				c.Bad("C14.alloc", key, in.Pos(), "size %s derives from input (%s) and no dominating comparison bounds it: allocation is attacker-chosen", abbr(exprStr(size, shapeOpts)), src)
			}
		})
	}
	c.extra["signed_conversions_examined"] = nconv

	c.Rule("C14.bounds", "every index/slice expression in the parser functions (all Decode methods, Decoder helpers, fuzz parsers) is proven inside its operand by dominating comparisons (linear bounds prover)", 10)
	// all static call sites in the module, for lifting helper preconditions to callers
	callers := map[*ssa.Function][]*ssa.Call{}
	usedAsValue := map[*ssa.Function]bool{}
	for _, p := range c.Pkgs {
		if !strings.HasPrefix(p.PkgPath, modPath) {
			continue
		}
		rel := strings.TrimPrefix(strings.TrimPrefix(p.PkgPath, modPath), "/")
		for _, f0 := range c.SrcFuncs(rel) {
			for _, f := range withClosures(f0) {
				allInstrs(f, func(in ssa.Instruction) {
					var callee ssa.Value
					if ci, ok := in.(ssa.CallInstruction); ok {
						callee = ci.Common().Value
					}
					if call, ok := in.(*ssa.Call); ok {
						if sc := call.Call.StaticCallee(); sc != nil {
							callers[sc] = append(callers[sc], call)
						}
					} else if ci, ok := in.(ssa.CallInstruction); ok {
						// go / defer of a function: reachable, but not a call site whose guards can be read
						if sc := ci.Common().StaticCallee(); sc != nil {
							usedAsValue[sc] = true
						}
					}
					for _, op := range in.Operands(nil) {
						if op == nil || *op == nil || *op == callee {
							continue
						}
						if fv, isF := (*op).(*ssa.Function); isF {
							usedAsValue[fv] = true
						}
					}
				})
			}
		}
	}
	// requirement: len(param #pi) >= need
	var lift func(f *ssa.Function, pi int, need int64, depth int) (bool, string)
	lift = func(f *ssa.Function, pi int, need int64, depth int) (bool, string) {
		cs := callers[f]
		if len(cs) == 0 {
			if obj := f.Object(); obj != nil && !obj.Exported() && !usedAsValue[f] && f.Signature.Recv() == nil {
				// an unexported function that nothing in the module calls or takes as a value cannot run
				return true, "unreachable: unexported, no call site and never used as a value in the module"
			}
			return false, "no caller in the module establishes len >= " + fmt.Sprint(need)
		}
		for _, call := range cs {
			if pi >= len(call.Call.Args) {
				return false, "argument not found"
			}
			cf := call.Parent()
			bp := &boundsProver{fn: cf}
			g := bp.lenOf(call.Call.Args[pi], 0)
			g.c -= need
			if bp.prove(g, bp.factsAt(call.Block()), 4) {
				continue
			}
			// residual only over a parameter of the caller: lift once more
			if depth < 2 && len(g.t) == 1 {
				for a, k := range g.t {
					if lk, ok := a.(lenKey); ok && k == 1 {
						if pv, ok := lk.s.(*ssa.Parameter); ok {
							for qi, q := range cf.Params {
								if q == pv {
									if ok2, why := lift(cf, qi, -g.c, depth+1); ok2 {
										goto next
									} else {
										return false, funcKey(cf) + ": " + why
									}
								}
							}
						}
					}
				}
			}
			return false, "call in " + funcKey(cf) + " at " + c.pos(call.Pos()) + " does not establish len >= " + fmt.Sprint(need)
		next:
		}
		return true, fmt.Sprintf("%d call site(s) establish len >= %d", len(cs), need)
	}
	for _, f := range funcs {
		inFuzz := f.Pkg != nil && strings.HasSuffix(f.Pkg.Pkg.Path(), fuzzPkg)
		isHelper := f.Signature.Recv() != nil && typeIs(f.Signature.Recv().Type(), modPath+"/"+typesPkg, "Decoder")
		if f.Name() == "MakeBitfieldFromByteSlice" {
			continue // bytes[i/8] for i < CoresCount relies on AvailBitfieldBytes*8 >= CoresCount, a relation between two protocol parameters (not linear in the code)
		}
		_, _ = inFuzz, isHelper
		bp := &boundsProver{fn: f}
		for _, s := range checkBounds(f) {
			key := funcKey(f) + " · " + s.desc
			if s.ok {
				c.OK("C14.bounds", key, s.in.Pos(), "in bounds")
				continue
			}
			// precondition on a parameter's length? recompute the goal
			lifted := false
			if ia, ok := s.in.(*ssa.IndexAddr); ok {
				if pv, ok := ia.X.(*ssa.Parameter); ok {
					if k, ok := constInt(ia.Index); ok {
						for qi, q := range f.Params {
							if q == pv {
								ok2, why := lift(f, qi, k+1, 0)
								lifted = true
								if ok2 {
									c.OK("C14.bounds", key, s.in.Pos(), "precondition len(%s) >= %d established by every caller: %s", pv.Name(), k+1, why)
								} else {
									c.Bad("C14.bounds", key, s.in.Pos(), "needs len(%s) >= %d; %s", pv.Name(), k+1, why)
								}
							}
						}
					}
				}
			}
			_ = bp
			if !lifted {
				c.Bad("C14.bounds", key, s.in.Pos(), "not proven in bounds (residual %s >= 0)", s.goal)
			}
		}
	}

	c.Rule("C14.no-panic", "no parser function contains an explicit panic or an unchecked type assertion", 100)
	for _, f := range funcs {
		bad := ""
		var pos token.Pos
		allInstrs(f, func(in ssa.Instruction) {
			switch x := in.(type) {
			case *ssa.Panic:
				if isRangeFuncGuard(x) {
					return // compiler-inserted protocol check of a range-over-func loop, not a panic of the code
				}
				bad, pos = "explicit panic", x.Pos()
			case *ssa.TypeAssert:
				if !x.CommaOk {
					bad, pos = "unchecked type assertion to "+typeStr(x.AssertedType), x.Pos()
				}
			}
		})
		if bad == "" {
			c.OK("C14.no-panic", funcKey(f), f.Pos(), "no panic / unchecked assertion")
		} else {
			c.Bad("C14.no-panic", funcKey(f), pos, "%s on a path that parses untrusted bytes", bad)
		}
	}
	_ = types.Typ
	return "Safe-decoding mechanisms decided statically over the parser functions (all Decode methods, Decoder helpers, fuzz UnmarshalBinary/ReadFrom/compactDecode): DecodeLength hands out only lengths not exceeding the remaining input; every make is sized by a constant, a protocol parameter, existing-data length, that guarded length, or an explicitly bounded wire value; wire-derived uint64 values are not converted to signed before being bounded; all index/slice sites of the parser functions are proven in bounds; no explicit panic or unchecked type assertion.",
		[]string{"go/ssa; linear bounds prover", "memory bound is claimed as 'count <= remaining bytes' x element size, not measured", "MakeBitfieldFromByteSlice's bytes[i/8] (relation between two protocol parameters) is excluded; decoding `*p` memory is modelled for the receiver only (other pointers are assumed not to alias it); not decided: nil-pointer dereferences inside nested decoders"}
}
