package main

import (
	"fmt"
	"go/ast"
	"go/types"
	"sort"
	"strings"

	"golang.org/x/tools/go/ssa"
)

func checkC35(c *Ctx) (string, []string) {
	X := "internal/extrinsic."
	get := func(n string) *ssa.Function { return c.Fn(extrPkg, n) }
	cmpF, lam, upo, gbw, disj, clr, disp := get("CompareVerdictsWithPsi"), get("updateListAndMap"), get("DisputeController.UpdatePsiO"), get("DisputeController.UpdatePsiGBW"), get("VerdictController.SetDisjoint"), get("VerdictController.ClearWorkReports"), get("Disputes")
	if len(c.fatal) > 0 {
		return "", nil
	}
	Vs := []int64{5, 6, 7, 9, 100, 1023}
	if c.Tier == "thorough" {
		Vs = nil
		for v := int64(3); v <= 2048; v++ {
			Vs = append(Vs, v)
		}
	}
	vcResolve := func(V, sum int64, sumText string) func(ast.Expr) (astVal, bool) {
		return func(a ast.Expr) (astVal, bool) {
			s := types.ExprString(a)
			if s == "types.ValidatorsCount" {
				return astVal{i: V}, true
			}
			if sumText != "" && s == sumText {
				return astVal{i: sum}, true
			}
			return astVal{}, false
		}
	}

	c.Rule("C35.vote-split", "CompareVerdictsWithPsi classifies a verdict by its positive-vote count: ⌊2V/3⌋+1 ↦ good, 0 ↦ bad, ⌊V/3⌋ ↦ wonky, anything else is an error (case expressions evaluated for V ∈ {5,6,7,9,100,1023}); each case appends the verdict's report hash to the same-named list", 4)
	if fd, p := c.FuncDecl(extrPkg, "CompareVerdictsWithPsi"); fd != nil {
		var sw *ast.SwitchStmt
		ast.Inspect(fd.Body, func(n ast.Node) bool {
			if s, ok := n.(*ast.SwitchStmt); ok && sw == nil {
				sw = s
			}
			return true
		})
		if sw == nil || !strings.HasSuffix(types.ExprString(sw.Tag), ".PositiveJudgmentsSum") {
			c.Unknown("C35.vote-split", X+"CompareVerdictsWithPsi", fd.Pos(), "no switch on the positive-vote count")
		} else {
			want := map[string]func(V int64) int64{
				"Good":  func(V int64) int64 { return V*2/3 + 1 },
				"Bad":   func(V int64) int64 { return 0 },
				"Wonky": func(V int64) int64 { return V / 3 },
			}
			seen := map[string]bool{}
			defaultErr := false
			for _, st := range sw.Body.List {
				cl := st.(*ast.CaseClause)
				if cl.List == nil {
					for _, b := range cl.Body {
						if r, ok := b.(*ast.ReturnStmt); ok && len(r.Results) == 2 && types.ExprString(r.Results[1]) != "nil" {
							defaultErr = true
						}
					}
					continue
				}
				// which list does the body append to?
				list := ""
				for _, b := range cl.Body {
					if as, ok := b.(*ast.AssignStmt); ok && len(as.Lhs) == 1 {
						if sel, ok := as.Lhs[0].(*ast.SelectorExpr); ok {
							if call, ok := as.Rhs[0].(*ast.CallExpr); ok && types.ExprString(call.Fun) == "append" && len(call.Args) == 2 && types.ExprString(call.Args[0]) == types.ExprString(sel) && strings.Contains(types.ExprString(call.Args[1]), ".ReportHash") {
								list = sel.Sel.Name
							}
						}
					}
				}
				key := X + "CompareVerdictsWithPsi · case " + types.ExprString(cl.List[0])
				f, known := want[list]
				if !known || len(cl.List) != 1 {
					c.Bad("C35.vote-split", key, cl.Pos(), "case does not append the report hash to Good, Bad or Wonky (appends to %q)", list)
					continue
				}
				seen[list] = true
				bad := ""
				for _, V := range Vs {
					got, ok := astEval(p.TypesInfo, cl.List[0], vcResolve(V, 0, ""))
					if !ok {
						bad = "case expression is not arithmetic over the validator count"
					} else if got.i != f(V) {
						bad = fmt.Sprintf("for V=%d the %s threshold is %d, GP 10.11-10.12 gives %d", V, strings.ToLower(list), got.i, f(V))
					}
				}
				if bad == "" {
					c.OK("C35.vote-split", key, cl.Pos(), "%s threshold correct for %d validator counts (%d..%d)", strings.ToLower(list), len(Vs), Vs[0], Vs[len(Vs)-1])
				} else {
					c.Bad("C35.vote-split", key, cl.Pos(), "%s", bad)
				}
			}
			c.Check(seen["Good"] && seen["Bad"] && seen["Wonky"] && defaultErr, "C35.vote-split", X+"CompareVerdictsWithPsi · exhaustive", sw.Pos(), "three classes and an error for every other count", fmt.Sprintf("classes present %v, other counts rejected=%v", seen, defaultErr))
		}
	}
	_ = cmpF

	c.Rule("C35.clearing", "ClearWorkReports removes from pending availability exactly the reports judged bad or wonky: its threshold predicate holds for 0 and ⌊V/3⌋ positive votes and fails for ⌊2V/3⌋+1 (evaluated for V ∈ {5,6,7,9,100,1023}); the cleared set is matched against the hash of each pending report", 2)
	if fd, p := c.FuncDecl(extrPkg, "VerdictController.ClearWorkReports"); fd != nil {
		var cond ast.Expr
		sumText := ""
		ast.Inspect(fd.Body, func(n ast.Node) bool {
			ifs, ok := n.(*ast.IfStmt)
			if !ok || cond != nil {
				return true
			}
			ast.Inspect(ifs.Cond, func(m ast.Node) bool {
				if se, ok := m.(*ast.SelectorExpr); ok && se.Sel.Name == "PositiveJudgmentsSum" {
					sumText = types.ExprString(se)
				}
				return true
			})
			if sumText != "" {
				cond = ifs.Cond
			}
			return true
		})
		if cond == nil {
			c.Unknown("C35.clearing", X+"ClearWorkReports · threshold", fd.Pos(), "no condition on the positive-vote count found")
		} else {
			bad := ""
			for _, V := range Vs {
				for _, tc := range []struct {
					sum  int64
					want bool
					name string
				}{{0, true, "bad"}, {V / 3, true, "wonky"}, {V*2/3 + 1, false, "good"}} {
					got, ok := astEval(p.TypesInfo, cond, vcResolve(V, tc.sum, sumText))
					if !ok {
						bad = "threshold condition is not arithmetic over the vote count and the validator count"
					} else if got.b != tc.want {
						bad = fmt.Sprintf("V=%d: a %s verdict (%d positive votes) is cleared=%v, GP 10.15 requires %v", V, tc.name, tc.sum, got.b, tc.want)
					}
				}
			}
			if bad == "" {
				c.OK("C35.clearing", X+"ClearWorkReports · threshold", cond.Pos(), "clears bad and wonky, keeps good, for %d validator counts (%d..%d)", len(Vs), Vs[0], Vs[len(Vs)-1])
			} else {
				c.Bad("C35.clearing", X+"ClearWorkReports · threshold", cond.Pos(), "%s", bad)
			}
		}
	}
	{
		// cleared iff membership of Blake2b(Encode(report)) in the set; stored as ρ†
		var got []string
		for _, e := range abbrAll(effectShapesOpt(clr, func(n string) bool { return strings.Contains(n, "SetRhoDagger") }, false)) {
			if strings.HasPrefix(e, "call ") {
				got = append(got, e)
			}
		}
		c.Check(len(got) == 1 && got[0] == "call inter.SetRhoDagger(INTER, prior.GetRho(PRIOR))", "C35.clearing", X+"ClearWorkReports · result", clr.Pos(), "the edited assignment list is installed as ρ†", fmt.Sprintf("ρ† is set by %v", got))
	}

	c.Rule("C35.sets", "a verdict on a report that is already in the prior good, bad or wonky set is rejected (the already-judged set is filled from all three prior sets); each posterior set is the same-named prior set plus the same-named new reports, de-duplicated and sorted by hash bytes; offenders are prior ⌢ new keys not already present, sorted", 8)
	{
		getters := map[string]bool{}
		allInstrs(disj, func(in ssa.Instruction) {
			mu, ok := in.(*ssa.MapUpdate)
			if !ok {
				return
			}
			s := abbr(exprStr(mu.Key, shapeOpts))
			for _, g := range []string{"GetPsiG", "GetPsiB", "GetPsiW"} {
				if strings.Contains(s, "prior."+g+"(PRIOR)") {
					getters[g] = true
				}
			}
		})
		c.Check(len(getters) == 3, "C35.sets", X+"SetDisjoint · already-judged set", disj.Pos(), "filled from prior ψ_g, ψ_b and ψ_w", fmt.Sprintf("the already-judged set is filled only from %v: a report in the missing set can be judged again", keysOf(getters)))
		c.checkCondSet("C35.sets", X+"SetDisjoint", disj, []string{"(* < len(prior.GetPsiB(PRIOR)))", "(* < len(prior.GetPsiG(PRIOR)))", "(* < len(prior.GetPsiW(PRIOR)))", "(* < len(p0.Verdicts))", "makemap[p0.Verdicts[*].Verdict.Target]"})
	}
	for _, n := range []string{"Good", "Bad", "Wonky"} {
		f := get("UpdatePsi" + n[:1])
		if f == nil {
			continue
		}
		c.checkShapes("C35.sets", X+"UpdatePsi"+n[:1], f, abbrMap(returnShapes(f)), map[string][]string{"ret": {X + "updateListAndMap(p0." + n + ", p1." + n + ", makemap)"}})
		// the membership map is filled from the same prior list
		ok := false
		allInstrs(f, func(in ssa.Instruction) {
			if mu, isMu := in.(*ssa.MapUpdate); isMu && exprStr(mu.Key, shapeOpts) == "p0."+n+"[*]" {
				ok = true
			}
		})
		c.Check(ok, "C35.sets", X+"UpdatePsi"+n[:1]+" · membership", f.Pos(), "membership map built from the prior "+n+" list", "membership map is not built from the prior "+n+" list")
	}
	if fd, p := c.FuncDecl(extrPkg, "updateListAndMap"); fd != nil {
		ok, why := returnsSortedBy(p, fd, "")
		if !ok {
			// comparator on whole elements: result[i][:] vs result[j][:]
			ok = sortsWholeBefore(p, fd)
		}
		c.Check(ok, "C35.sets", X+"updateListAndMap · sorted", fd.Pos(), "result sorted by hash bytes immediately before it is returned", "merged set is returned in (prior, then verdict) order, not sorted: "+why)
	}
	c.checkCondSet("C35.sets", X+"updateListAndMap", lam, []string{"(* < len(p1))", "p2[p1[*]]"})
	{
		effs := abbrAll(effectShapesOpt(lam, func(string) bool { return false }, true))
		has := map[string]bool{}
		for _, e := range effs {
			has[e] = true
		}
		c.Check((has["copy(*alloc:[]types.WorkReportHash, p0)"] || has["copy(make([]types.WorkReportHash, len(p0)), p0)"]) && has["mapset p2[p1[*]] ← true"], "C35.sets", X+"updateListAndMap · merge", lam.Pos(), "starts from a copy of the prior list, adds each new hash once", fmt.Sprintf("merge effects are %v", effs))
	}
	if fd, p := c.FuncDecl(extrPkg, "DisputeController.UpdatePsiO"); fd != nil {
		c.Check(sortsWholeBefore(p, fd), "C35.sets", X+"UpdatePsiO · sorted", fd.Pos(), "offender list sorted by key bytes before it is stored", "offenders are stored unsorted")
	}
	{
		// psiO = prior offenders ⌢ new: the stored slice is appended from prior.Offenders first
		var apps []string
		allInstrs(upo, func(in ssa.Instruction) {
			if call, ok := in.(*ssa.Call); ok {
				if b, ok := call.Call.Value.(*ssa.Builtin); ok && b.Name() == "append" {
					apps = append(apps, abbr(exprStr(call.Call.Args[1], shapeOpts)))
				}
			}
		})
		hasPrior := false
		for _, a := range apps {
			if a == "prior.GetPsi(PRIOR).Offenders" {
				hasPrior = true
			}
		}
		c.Check(hasPrior, "C35.sets", X+"UpdatePsiO · grows", upo.Pos(), "every prior offender is carried into ψ_o'", fmt.Sprintf("prior offenders are not appended to the new list (appends: %v)", apps))
		c.checkCondSet("C35.sets", X+"UpdatePsiO", upo, []string{"(* < len(prior.GetPsi(PRIOR).Offenders))", "(* < len(p1))", "(* < len(p2))", "makemap[p1[*].Key]", "makemap[p2[*].Key]"})
	}
	cv := X + "CompareVerdictsWithPsi(prior.GetPsi(PRIOR), p1)#0"
	for _, n := range []string{"G", "B", "W"} {
		c.requireCall("C35.sets", X+"UpdatePsiGBW", gbw, "SetPsi"+n, []string{"POST ‖ " + X + "UpdatePsi" + n + "(prior.GetPsi(PRIOR), " + cv + ")"})
	}

	c.Rule("C35.sorted-unique-inputs", "verdict targets, culprit keys and fault keys of a block must be strictly ascending: each controller's CheckSortUnique runs both a duplicate detection keyed by that field (a repeated key is an error) and an adjacent-pair order test (descending neighbours are an error), and returns either error", 9)
	for _, k := range []struct{ ctl, list, field, cmp string }{
		{"VerdictController", "Verdicts", "Verdict.Target", X + "CompareWorkReportHash(p0.Verdicts[*].Verdict.Target, p0.Verdicts[*].Verdict.Target)"},
		{"CulpritController", "Culprits", "Key", "bytes.Compare(&p0.Culprits[*].Key[:], &p0.Culprits[*].Key[:])"},
		{"FaultController", "Faults", "Key", "bytes.Compare(&p0.Faults[*].Key[:], &p0.Faults[*].Key[:])"},
	} {
		cu, cs2, csu := get(k.ctl+".CheckUnique"), get(k.ctl+".CheckSorted"), get(k.ctl+".CheckSortUnique")
		if cu == nil || cs2 == nil || csu == nil {
			continue
		}
		K := "(*internal/extrinsic." + k.ctl + ")."
		// duplicate detection: lookup keyed by the field guards an error return, and the key is recorded
		member := "makemap[p0." + k.list + "[*]." + k.field + "]"
		dupE := condEdges(cu, func(v ssa.Value) (bool, bool) { return exprStr(v, shapeOpts) == member, true })
		okDup := len(dupE) == 1
		if okDup {
			_, reachOK := findPath(pathQuery{startEdges: dupE, target: func(in ssa.Instruction) bool {
				r, isR := in.(*ssa.Return)
				return isR && !isErrorReturn(cu, r)
			}, blocker: func(in ssa.Instruction) bool { _, isR := in.(*ssa.Return); return isR }})
			okDup = !reachOK
		}
		recorded := false
		allInstrs(cu, func(in ssa.Instruction) {
			if mu, ok := in.(*ssa.MapUpdate); ok && exprStr(mu.Key, shapeOpts) == "p0."+k.list+"[*]."+k.field {
				recorded = true
			}
		})
		c.Check(okDup && recorded, "C35.sorted-unique-inputs", K+"CheckUnique · duplicate "+k.field, cu.Pos(), "a repeated "+k.field+" leads only to an error; every key is recorded", "two entries with the same "+k.field+" are not rejected: the same report/key can be judged twice in one block")
		// order test on adjacent pairs
		var call *ssa.Call
		allInstrs(cs2, func(in ssa.Instruction) {
			if cl, ok := in.(*ssa.Call); ok && calleeFunc(cl) != nil && (calleeFunc(cl).String() == "bytes.Compare" || calleeFunc(cl).Name() == "CompareWorkReportHash") {
				call = cl
			}
		})
		okOrd := call != nil
		if okOrd {
			pc, okA := adjacentArgs(call)
			if !okA {
				// arguments are values (not slices of addressed elements): compare index expressions of the loads
				pc, okA = adjacentValueArgs(call)
			}
			descE := condEdges(cs2, func(v ssa.Value) (bool, bool) { return exprStr(v, shapeOpts) == "(0 < "+k.cmp+")", true })
			okOrd = okA && pc && len(descE) == 1
			if okOrd {
				_, reachOK := findPath(pathQuery{startEdges: descE, target: func(in ssa.Instruction) bool {
					r, isR := in.(*ssa.Return)
					return isR && !isErrorReturn(cs2, r)
				}, blocker: func(in ssa.Instruction) bool { _, isR := in.(*ssa.Return); return isR }})
				okOrd = !reachOK
			}
		}
		c.Check(okOrd, "C35.sorted-unique-inputs", K+"CheckSorted · order of "+k.field, cs2.Pos(), "compare(entry[i−1], entry[i]) > 0 leads only to an error", "descending neighbours are not rejected (or the pair compared is not (i−1, i))")
		c.checkShapes("C35.sorted-unique-inputs", K+"CheckSortUnique", csu, abbrMap(returnShapes(csu)), map[string][]string{"ret": {K + "CheckSorted(p0)", K + "CheckUnique(p0)", "nil"}})
	}

	c.Rule("C35.pipeline", "Disputes(): the judgement sets are updated only after verdict signatures, verdict ordering/uniqueness, disjointness from prior judgements, culprit/fault sufficiency and culprit/fault ordering checks have all passed; the offender set only after culprit and fault validity; every failed check returns its error", 9)
	{
		var gbwCall, psiOCall ssa.Instruction
		allInstrs(disp, func(in ssa.Instruction) {
			switch calleeFunc2(in) {
			case gbw:
				gbwCall = in
			case upo:
				psiOCall = in
			}
		})
		type chk struct {
			name   string
			before *ssa.Instruction
		}
		checks := []chk{{"VerifySignature", &gbwCall}, {"VerdictController).CheckSortUnique", &gbwCall}, {"SetDisjoint", &gbwCall}, {"ValidateCulprits", &gbwCall}, {"ValidateFaults", &gbwCall}, {"CulpritController).CheckSortUnique", &gbwCall}, {"FaultController).CheckSortUnique", &gbwCall}, {"VerifyCulpritValidity", &psiOCall}, {"VerifyFaultValidity", &psiOCall}}
		for _, ck := range checks {
			var call *ssa.Call
			allInstrs(disp, func(in ssa.Instruction) {
				if cl, ok := in.(*ssa.Call); ok && calleeFunc(cl) != nil && strings.HasSuffix(calleeFunc(cl).String(), ck.name) {
					call = cl
				}
			})
			key := X + "Disputes · " + ck.name
			if call == nil || *ck.before == nil {
				c.Bad("C35.pipeline", key, disp.Pos(), "check or state update not found")
				continue
			}
			pass := condEdges(disp, func(v ssa.Value) (bool, bool) {
				bo, ok := v.(*ssa.BinOp)
				if !ok || bo.X != ssa.Value(call) {
					return false, false
				}
				return true, bo.Op.String() == "=="
			})
			upd := *ck.before
			okP := len(pass) == 1
			if okP {
				fail := []edge{{pass[0].from, 1 - pass[0].succ}}
				_, leak := findPath(pathQuery{startEdges: fail, target: func(in ssa.Instruction) bool { return in == upd }})
				_, after := findPath(pathQuery{start: upd, target: func(in ssa.Instruction) bool { return in == ssa.Instruction(call) }})
				okP = !leak && !after
			}
			c.Check(okP, "C35.pipeline", key, call.Pos(), "its failing edge cannot reach the state update, and it is not performed after the update", "the state update is reachable after this check failed, or the check runs only after the update")
		}
	}
	return "Dispute-record mechanisms decided statically: the vote-split thresholds and the clearing threshold are evaluated as arithmetic over the validator count for six parameter values; the already-judged set is fed by all three prior sets; each posterior set merges same-named prior and new lists, de-duplicated and sorted; offenders carry every prior entry and are sorted; the state updates sit behind the passing edges of all validation steps.",
		[]string{"AST arithmetic evaluator over finite parameter tables; canonical SSA shapes; guard-edge dominance", "not decided: pairwise disjointness across many blocks as a history invariant beyond the per-block rejection of already-judged reports; signature validity"}
}

func keysOf(m map[string]bool) []string {
	var ks []string
	for k := range m {
		ks = append(ks, k)
	}
	sort.Strings(ks)
	return ks
}

// adjacentValueArgs: like adjacentArgs for calls whose two arguments are element
// values loaded from list[i−1] and list[i] (possibly through field selections).
func adjacentValueArgs(call *ssa.Call) (prevThenCur bool, ok bool) {
	if len(call.Call.Args) != 2 {
		return false, false
	}
	idxOf := func(v ssa.Value) ssa.Value {
		for i := 0; i < 10; i++ {
			switch x := v.(type) {
			case *ssa.UnOp:
				v = x.X
			case *ssa.FieldAddr:
				v = x.X
			case *ssa.Field:
				v = x.X
			case *ssa.IndexAddr:
				return x.Index
			case *ssa.Index:
				return x.Index
			default:
				return nil
			}
		}
		return nil
	}
	a, b := idxOf(call.Call.Args[0]), idxOf(call.Call.Args[1])
	if a == nil || b == nil {
		return false, false
	}
	minus1 := func(x, base ssa.Value) bool {
		bo, ok := stripConv(x).(*ssa.BinOp)
		if !ok || bo.Op.String() != "-" || stripConv(bo.X) != stripConv(base) {
			return false
		}
		k, ok := constInt(bo.Y)
		return ok && k == 1
	}
	if minus1(a, b) {
		return true, true
	}
	if minus1(b, a) {
		return false, true
	}
	return false, false
}
