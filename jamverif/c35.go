package main

import (
	"fmt"
	"go/ast"
	"go/token"
	"go/types"
	"sort"
	"strings"

	"golang.org/x/tools/go/ssa"
)

func checkC35(c *Ctx) (string, []string) {
	X := "internal/extrinsic."
	get := func(n string) *ssa.Function { return c.Fn(extrPkg, n) }
	cmpF, upo, gbw, disj, clr, disp := get("CompareVerdictsWithPsi"), get("DisputeController.UpdatePsiO"), get("DisputeController.UpdatePsiGBW"), get("VerdictController.SetDisjoint"), get("VerdictController.ClearWorkReports"), get("Disputes")
	if len(c.fatal) > 0 {
		return "", nil
	}
	Vs := []int64{5, 6, 7, 9, 100, 1023}
	if c.Tier == "thorough" {
		Vs = nil
		for v := int64(3); v <= 2048; v++ {
			Vs = append(Vs, v)
		}
	}
	vcResolve := func(V, sum int64, sumText string) func(ast.Expr) (astVal, bool) {
		return func(a ast.Expr) (astVal, bool) {
			s := types.ExprString(a)
			if s == "types.ValidatorsCount" {
				return astVal{i: V}, true
			}
			if sumText != "" && s == sumText {
				return astVal{i: sum}, true
			}
			return astVal{}, false
		}
	}

	c.Rule("C35.vote-split", "CompareVerdictsWithPsi classifies a verdict by its positive-vote count: ⌊2V/3⌋+1 ↦ good, 0 ↦ bad, ⌊V/3⌋ ↦ wonky, anything else is an error (case expressions evaluated for V ∈ {5,6,7,9,100,1023}); decided by following one loop iteration per (V, count) and recording which list receives the report hash", 2)
	{
		o := robustOpts
		var anyApp *ssa.Call
		allInstrs(cmpF, func(in ssa.Instruction) {
			if call, ok := in.(*ssa.Call); ok {
				if b, ok := call.Call.Value.(*ssa.Builtin); ok && b.Name() == "append" && strings.HasSuffix(abbr(exprStr(call.Call.Args[1], o)), ".ReportHash][:]") {
					anyApp = call
				}
			}
		})
		if anyApp == nil {
			c.Bad("C35.vote-split", X+"CompareVerdictsWithPsi · classes", cmpF.Pos(), "no report hash is appended to a judgement list")
		} else {
			h, in := natLoop(anyApp.Block())
			classOf := func(V, s int64) (string, bool) {
				var lists []string
				outcome, ret, ok := iterRun(h, in, o, func(r string) (int64, bool) {
					if strings.HasSuffix(r, ".PositiveJudgmentsSum") {
						return s, true
					}
					return 0, false
				}, map[string]int64{"ValidatorsCount": V}, func(ins ssa.Instruction, choice map[*ssa.Phi]ssa.Value) {
					st, isSt := ins.(*ssa.Store)
					if !isSt {
						return
					}
					call, isCall := st.Val.(*ssa.Call)
					if !isCall {
						return
					}
					if b, isB := call.Call.Value.(*ssa.Builtin); !isB || b.Name() != "append" || !strings.HasSuffix(abbr(exprStr(call.Call.Args[1], o)), ".ReportHash][:]") {
						return
					}
					if fa, isFA := resolveChoice(st.Addr, choice).(*ssa.FieldAddr); isFA {
						lists = append(lists, fieldName(fa.X.Type(), fa.Field))
					}
				})
				if !ok {
					return "", false
				}
				switch {
				case outcome == "return" && ret != nil && isErrorReturn(cmpF, ret) && len(lists) == 0:
					return "error", true
				case outcome == "next" && len(lists) == 1:
					return lists[0], true
				}
				return fmt.Sprintf("%s%v", outcome, lists), true
			}
			bad := ""
			n := 0
			for _, V := range Vs {
				want := map[int64]string{V*2/3 + 1: "Good", 0: "Bad", V / 3: "Wonky"}
				for _, s := range []int64{0, 1, V/3 - 1, V / 3, V/3 + 1, V * 2 / 3, V*2/3 + 1, V*2/3 + 2, V} {
					if s < 0 {
						continue
					}
					w, has := want[s]
					if !has {
						w = "error"
					}
					got, ok := classOf(V, s)
					n++
					if !ok {
						bad = "the classification depends on something other than the positive-vote count and the validator count"
					} else if got != w {
						bad = fmt.Sprintf("with V=%d a verdict with %d positive votes is classified %s; GP 10.11-10.12 gives %s", V, s, got, w)
					}
					if bad != "" {
						break
					}
				}
				if bad != "" {
					break
				}
			}
			c.Check(bad == "", "C35.vote-split", X+"CompareVerdictsWithPsi · classes", anyApp.Pos(), fmt.Sprintf("⌊2V/3⌋+1 ↦ good, 0 ↦ bad, ⌊V/3⌋ ↦ wonky, anything else an error (%d evaluations, V = %d..%d)", n, Vs[0], Vs[len(Vs)-1]), bad)
			// the three lists are what is returned
			rs := abbrMap(returnShapesO(cmpF, o))
			okRet := len(rs["ret#0.Good"]) > 0 || len(rs["ret#0"]) > 0
			c.Check(okRet, "C35.vote-split", X+"CompareVerdictsWithPsi · result", cmpF.Pos(), "returns the three lists", "the classified lists are not returned")
		}
	}
	_ = cmpF
	_ = vcResolve

	c.Rule("C35.clearing", "ClearWorkReports removes from pending availability exactly the reports judged bad or wonky: its threshold predicate holds for 0 and ⌊V/3⌋ positive votes and fails for ⌊2V/3⌋+1 (evaluated for V ∈ {5,6,7,9,100,1023}); the cleared set is matched against the hash of each pending report", 2)
	{
		// decided by valuation: one iteration of the loop over the verdict summaries is followed with the positive-vote
		// count and the validator count valued, and whether the report is put into the cleared set is read off
		var mark *ssa.MapUpdate
		allInstrs(clr, func(in ssa.Instruction) {
			if mu, ok := in.(*ssa.MapUpdate); ok && strings.HasSuffix(abbr(exprStr(mu.Key, shapeOpts)), ".ReportHash") {
				mark = mu
			}
		})
		key := X + "ClearWorkReports · threshold"
		if mark == nil {
			c.Unknown("C35.clearing", key, clr.Pos(), "no set of reports to clear is filled from the verdict summaries")
		} else if h, in := natLoop(mark.Block()); h == nil {
			c.Unknown("C35.clearing", key, clr.Pos(), "the cleared set is not filled in a loop over the verdict summaries")
		} else {
			bad := ""
			for _, V := range Vs {
				for _, tc := range []struct {
					sum  int64
					want bool
					name string
				}{{0, true, "bad"}, {V / 3, true, "wonky"}, {V*2/3 + 1, false, "good"}, {V, false, "unanimous"}} {
					marked, valued := false, false
					_, _, ok := iterRun(h, in, shapeOpts, func(s string) (int64, bool) {
						if strings.HasSuffix(s, ".PositiveJudgmentsSum") {
							valued = true
							return tc.sum, true
						}
						return 0, false
					}, map[string]int64{"ValidatorsCount": V}, func(x ssa.Instruction, _ map[*ssa.Phi]ssa.Value) {
						if x == ssa.Instruction(mark) {
							marked = true
						}
					})
					if !ok || !valued {
						bad = "the clearing decision is not arithmetic over the vote count and the validator count"
					} else if marked != tc.want {
						bad = fmt.Sprintf("V=%d: a %s verdict (%d positive votes) is cleared=%v, GP 10.15 requires %v", V, tc.name, tc.sum, marked, tc.want)
					}
				}
			}
			if bad == "" {
				c.OK("C35.clearing", key, mark.Pos(), "clears bad and wonky, keeps good, for %d validator counts (%d..%d)", len(Vs), Vs[0], Vs[len(Vs)-1])
			} else {
				c.Bad("C35.clearing", key, mark.Pos(), "%s", bad)
			}
		}
	}
	{
		// cleared iff membership of Blake2b(Encode(report)) in the set; stored as ρ†
		var got []string
		for _, e := range abbrAll(effectShapesOpt(clr, func(n string) bool { return strings.Contains(n, "SetRhoDagger") }, false)) {
			if strings.HasPrefix(e, "call ") {
				got = append(got, e)
			}
		}
		c.Check(len(got) == 1 && got[0] == "call inter.SetRhoDagger(INTER, prior.GetRho(PRIOR))", "C35.clearing", X+"ClearWorkReports · result", clr.Pos(), "the edited assignment list is installed as ρ†", fmt.Sprintf("ρ† is set by %v", got))
	}

	c.Rule("C35.sets", "a verdict on a report that is already in the prior good, bad or wonky set is rejected (the already-judged set is filled from all three prior sets); each posterior set is the same-named prior set plus the same-named new reports, de-duplicated and sorted by hash bytes; offenders are prior ⌢ new keys not already present, sorted", 8)
	{
		getters := map[string]bool{}
		allInstrs(disj, func(in ssa.Instruction) {
			mu, ok := in.(*ssa.MapUpdate)
			if !ok {
				return
			}
			s := abbr(exprStr(mu.Key, shapeOpts))
			for _, g := range []string{"GetPsiG", "GetPsiB", "GetPsiW"} {
				if strings.Contains(s, "prior."+g+"(PRIOR)") {
					getters[g] = true
				}
			}
		})
		c.Check(len(getters) == 3, "C35.sets", X+"SetDisjoint · already-judged set", disj.Pos(), "filled from prior ψ_g, ψ_b and ψ_w", fmt.Sprintf("the already-judged set is filled only from %v: a report in the missing set can be judged again", keysOf(getters)))
		c.checkCondSet("C35.sets", X+"SetDisjoint", disj, []string{"(* < len(prior.GetPsiB(PRIOR)))", "(* < len(prior.GetPsiG(PRIOR)))", "(* < len(prior.GetPsiW(PRIOR)))", "(* < len(p0.Verdicts))", "makemap[p0.Verdicts[*].Verdict.Target]"})
	}
	for _, n := range []string{"Good", "Bad", "Wonky"} {
		f := get("UpdatePsi" + n[:1])
		if f == nil {
			continue
		}
		c35Merge(c, f, X+"UpdatePsi"+n[:1], "p0."+n, "p1."+n, n)
	}
	c35Offenders(c, upo, X+"UpdatePsiO")
	cv := X + "CompareVerdictsWithPsi(prior.GetPsi(PRIOR), p1)#0"
	for _, n := range []string{"G", "B", "W"} {
		c.requireCall("C35.sets", X+"UpdatePsiGBW", gbw, "SetPsi"+n, []string{"POST ‖ " + X + "UpdatePsi" + n + "(prior.GetPsi(PRIOR), " + cv + ")"})
	}

	c.Rule("C35.sorted-unique-inputs", "verdict targets, culprit keys and fault keys of a block must be strictly ascending: each controller's CheckSortUnique runs both a duplicate detection keyed by that field (a repeated key is an error) and an adjacent-pair order test (descending neighbours are an error), and returns either error", 9)
	for _, k := range []struct{ ctl, list, field, cmp string }{
		{"VerdictController", "Verdicts", "Verdict.Target", X + "CompareWorkReportHash(p0.Verdicts[*].Verdict.Target, p0.Verdicts[*].Verdict.Target)"},
		{"CulpritController", "Culprits", "Key", "bytes.Compare(&p0.Culprits[*].Key[:], &p0.Culprits[*].Key[:])"},
		{"FaultController", "Faults", "Key", "bytes.Compare(&p0.Faults[*].Key[:], &p0.Faults[*].Key[:])"},
	} {
		cu, cs2, csu := get(k.ctl+".CheckUnique"), get(k.ctl+".CheckSorted"), get(k.ctl+".CheckSortUnique")
		if cu == nil || cs2 == nil || csu == nil {
			continue
		}
		K := "(*internal/extrinsic." + k.ctl + ")."
		// duplicate detection: lookup keyed by the field guards an error return, and the key is recorded
		member := "makemap[p0." + k.list + "[*]." + k.field + "]"
		dupE := condEdges(cu, func(v ssa.Value) (bool, bool) { return exprStr(v, shapeOpts) == member, true })
		okDup := len(dupE) == 1
		if okDup {
			_, reachOK := findPath(pathQuery{startEdges: dupE, target: func(in ssa.Instruction) bool {
				r, isR := in.(*ssa.Return)
				return isR && !isErrorReturn(cu, r)
			}, blocker: func(in ssa.Instruction) bool { _, isR := in.(*ssa.Return); return isR }})
			okDup = !reachOK
		}
		recorded := false
		allInstrs(cu, func(in ssa.Instruction) {
			if mu, ok := in.(*ssa.MapUpdate); ok && exprStr(mu.Key, shapeOpts) == "p0."+k.list+"[*]."+k.field {
				recorded = true
			}
		})
		c.Check(okDup && recorded, "C35.sorted-unique-inputs", K+"CheckUnique · duplicate "+k.field, cu.Pos(), "a repeated "+k.field+" leads only to an error; every key is recorded", "two entries with the same "+k.field+" are not rejected: the same report/key can be judged twice in one block")
		// order test on adjacent pairs
		var call *ssa.Call
		allInstrs(cs2, func(in ssa.Instruction) {
			if cl, ok := in.(*ssa.Call); ok && calleeFunc(cl) != nil && (calleeFunc(cl).String() == "bytes.Compare" || calleeFunc(cl).Name() == "CompareWorkReportHash") {
				call = cl
			}
		})
		okOrd := call != nil
		if okOrd {
			pc, okA := adjacentArgs(call)
			if !okA {
				// arguments are values (not slices of addressed elements): compare index expressions of the loads
				pc, okA = adjacentValueArgs(call)
			}
			descE := condEdges(cs2, func(v ssa.Value) (bool, bool) { return exprStr(v, shapeOpts) == "(0 < "+k.cmp+")", true })
			okOrd = okA && pc && len(descE) == 1
			if okOrd {
				_, reachOK := findPath(pathQuery{startEdges: descE, target: func(in ssa.Instruction) bool {
					r, isR := in.(*ssa.Return)
					return isR && !isErrorReturn(cs2, r)
				}, blocker: func(in ssa.Instruction) bool { _, isR := in.(*ssa.Return); return isR }})
				okOrd = !reachOK
			}
		}
		c.Check(okOrd, "C35.sorted-unique-inputs", K+"CheckSorted · order of "+k.field, cs2.Pos(), "compare(entry[i−1], entry[i]) > 0 leads only to an error", "descending neighbours are not rejected (or the pair compared is not (i−1, i))")
		c.checkShapes("C35.sorted-unique-inputs", K+"CheckSortUnique", csu, abbrMap(returnShapes(csu)), map[string][]string{"ret": {K + "CheckSorted(p0)", K + "CheckUnique(p0)", "nil"}})
	}

	c.Rule("C35.pipeline", "Disputes(): the judgement sets are updated only after verdict signatures, verdict ordering/uniqueness, disjointness from prior judgements, culprit/fault sufficiency and culprit/fault ordering checks have all passed; the offender set only after culprit and fault validity; every failed check returns its error", 9)
	{
		var gbwCall, psiOCall ssa.Instruction
		allInstrs(disp, func(in ssa.Instruction) {
			switch calleeFunc2(in) {
			case gbw:
				gbwCall = in
			case upo:
				psiOCall = in
			}
		})
		type chk struct {
			name   string
			before *ssa.Instruction
		}
		checks := []chk{{"VerifySignature", &gbwCall}, {"VerdictController).CheckSortUnique", &gbwCall}, {"SetDisjoint", &gbwCall}, {"ValidateCulprits", &gbwCall}, {"ValidateFaults", &gbwCall}, {"CulpritController).CheckSortUnique", &gbwCall}, {"FaultController).CheckSortUnique", &gbwCall}, {"VerifyCulpritValidity", &psiOCall}, {"VerifyFaultValidity", &psiOCall}}
		for _, ck := range checks {
			var call *ssa.Call
			allInstrs(disp, func(in ssa.Instruction) {
				if cl, ok := in.(*ssa.Call); ok && calleeFunc(cl) != nil && strings.HasSuffix(calleeFunc(cl).String(), ck.name) {
					call = cl
				}
			})
			key := X + "Disputes · " + ck.name
			if call == nil || *ck.before == nil {
				c.Bad("C35.pipeline", key, disp.Pos(), "check or state update not found")
				continue
			}
			pass := condEdges(disp, func(v ssa.Value) (bool, bool) {
				bo, ok := v.(*ssa.BinOp)
				if !ok || bo.X != ssa.Value(call) {
					return false, false
				}
				return true, bo.Op.String() == "=="
			})
			upd := *ck.before
			okP := len(pass) == 1
			if okP {
				fail := []edge{{pass[0].from, 1 - pass[0].succ}}
				_, leak := findPath(pathQuery{startEdges: fail, target: func(in ssa.Instruction) bool { return in == upd }})
				_, after := findPath(pathQuery{start: upd, target: func(in ssa.Instruction) bool { return in == ssa.Instruction(call) }})
				okP = !leak && !after
			}
			c.Check(okP, "C35.pipeline", key, call.Pos(), "its failing edge cannot reach the state update, and it is not performed after the update", "the state update is reachable after this check failed, or the check runs only after the update")
		}
	}
	return "Dispute-record mechanisms decided statically: the vote-split thresholds and the clearing threshold are evaluated as arithmetic over the validator count for six parameter values; the already-judged set is fed by all three prior sets; each posterior set merges same-named prior and new lists, de-duplicated and sorted; offenders carry every prior entry and are sorted; the state updates sit behind the passing edges of all validation steps.",
		[]string{"AST arithmetic evaluator over finite parameter tables; canonical SSA shapes; guard-edge dominance", "not decided: pairwise disjointness across many blocks as a history invariant beyond the per-block rejection of already-judged reports; signature validity"}
}

func keysOf(m map[string]bool) []string {
	var ks []string
	for k := range m {
		ks = append(ks, k)
	}
	sort.Strings(ks)
	return ks
}

// adjacentValueArgs: like adjacentArgs for calls whose two arguments are element
// values loaded from list[i−1] and list[i] (possibly through field selections).
func adjacentValueArgs(call *ssa.Call) (prevThenCur bool, ok bool) {
	if len(call.Call.Args) != 2 {
		return false, false
	}
	idxOf := func(v ssa.Value) ssa.Value {
		for i := 0; i < 10; i++ {
			switch x := v.(type) {
			case *ssa.UnOp:
				v = x.X
			case *ssa.FieldAddr:
				v = x.X
			case *ssa.Field:
				v = x.X
			case *ssa.IndexAddr:
				return x.Index
			case *ssa.Index:
				return x.Index
			default:
				return nil
			}
		}
		return nil
	}
	a, b := idxOf(call.Call.Args[0]), idxOf(call.Call.Args[1])
	if a == nil || b == nil {
		return false, false
	}
	minus1 := func(x, base ssa.Value) bool {
		bo, ok := stripConv(x).(*ssa.BinOp)
		if !ok || bo.Op.String() != "-" || stripConv(bo.X) != stripConv(base) {
			return false
		}
		k, ok := constInt(bo.Y)
		return ok && k == 1
	}
	if minus1(a, b) {
		return true, true
	}
	if minus1(b, a) {
		return false, true
	}
	return false, false
}

// c35Helpers: rendering options that see through the unexported helpers and closures of the package.
func c35Helpers(root *ssa.Function) exprOpts {
	o := robustOpts
	o.inline = func(f *ssa.Function) bool {
		if f == nil || len(f.Blocks) == 0 || f == root {
			return false
		}
		if f.Parent() != nil {
			return true
		}
		return f.Pkg != nil && f.Pkg == root.Pkg && !token.IsExported(f.Name()) && f.Signature.Recv() == nil
	}
	return o
}

type c35site struct {
	in    ssa.Instruction
	g     *ssa.Function
	subst map[ssa.Value]string
}

// c35Merge: posterior set = sorted(prior ∪ new), de-duplicated — helpers seen through.
func c35Merge(c *Ctx, f *ssa.Function, key, prior, added, name string) {
	o := c35Helpers(f)
	var seedPrior, markNew, freshPrior bool
	var app, sortCall *c35site
	visitWithHelpers(f, o, func(g *ssa.Function, subst map[ssa.Value]string, in ssa.Instruction) {
		switch x := in.(type) {
		case *ssa.MapUpdate:
			switch abbr(exprStrSubst(x.Key, o, subst)) {
			case prior + "[*]":
				seedPrior = true
			case added + "[*]":
				markNew = true
			}
		case *ssa.Call:
			if b, ok := x.Call.Value.(*ssa.Builtin); ok {
				switch b.Name() {
				case "copy":
					if abbr(exprStrSubst(x.Call.Args[1], o, subst)) == prior && holdsFreshMake(x.Call.Args[0]) {
						freshPrior = true
					}
				case "append":
					el := abbr(exprStrSubst(x.Call.Args[1], o, subst))
					if el == "["+added+"[*]][:]" {
						app = &c35site{in, g, subst}
					}
					if el == prior && abbr(exprStrSubst(x.Call.Args[0], o, subst)) != prior {
						if isFreshSliceBase(x.Call.Args[0]) {
							freshPrior = true
						}
					}
					// or element by element, in a loop over the whole prior list, onto a list made here
					if el == "["+prior+"[*]][:]" && growsFromFresh(x.Call.Args[0], 0) {
						freshPrior = true
					}
				}
			} else if _, ok := byteOrderSort(x); ok {
				sortCall = &c35site{in, g, subst}
			}
		}
	})
	c.Check(seedPrior, "C35.sets", key+" · membership", f.Pos(), "membership set built from the prior "+name+" list", "membership map is not built from the prior "+name+" list")
	c.Check(freshPrior, "C35.sets", key+" · starts from prior", f.Pos(), "the result starts as a private copy of the prior list", "the result does not start from a private copy of the prior "+name+" list")
	if app == nil {
		c.Bad("C35.sets", key+" · merge", f.Pos(), "the new %s reports are not appended to the result", name)
	} else {
		call := app.in.(*ssa.Call)
		bad := ""
		for m := int64(0); m <= 1 && bad == ""; m++ {
			reached, ok := iterReaches(call, o, app.subst, func(s string) (int64, bool) {
				if strings.HasSuffix(s, "["+added+"[*]]") || strings.HasSuffix(s, "["+added+"[*]]#1") {
					return m, true
				}
				return 0, false
			})
			if !ok {
				bad = "the decision to add a new report depends on something other than its membership in the set"
			} else if reached != (m == 0) {
				bad = fmt.Sprintf("a report with already-present=%d is added=%v", m, reached)
			}
		}
		c.Check(bad == "" && markNew, "C35.sets", key+" · merge", call.Pos(), "a new report is added exactly when not yet present, and then marked present", "merge: "+bad+fmt.Sprintf(" (marks added reports as present: %v)", markNew))
	}
	if sortCall == nil {
		c.Bad("C35.sets", key+" · sorted", f.Pos(), "merged set is returned in (prior, then verdict) order, not sorted by hash bytes")
	} else {
		call := sortCall.in.(*ssa.Call)
		sorted := abbr(exprStr(call.Call.Args[0], o))
		okRet := true
		allInstrs(sortCall.g, func(in ssa.Instruction) {
			if r, ok := in.(*ssa.Return); ok && len(r.Results) == 1 && abbr(exprStr(r.Results[0], o)) != sorted {
				okRet = false
			}
		})
		_, skip := findPath(pathQuery{fn: sortCall.g, target: isReturn, blocker: func(in ssa.Instruction) bool { return in == sortCall.in }, edgeBlock: constFeasible})
		c.Check(okRet && !skip, "C35.sets", key+" · sorted", call.Pos(), "result sorted by hash bytes on every path before it is returned", "the sorted list is not the returned one, or a path returns without sorting")
	}
}

func isFreshSliceBase(v ssa.Value) bool {
	switch x := stripConv(v).(type) {
	case *ssa.MakeSlice:
		return true
	case *ssa.Const:
		return x.IsNil()
	case *ssa.Slice:
		if k, ok := constInt(x.High); ok && k == 0 {
			return isFreshSliceBase(x.X)
		}
	}
	return false
}

// growsFromFresh: v is a list made in this function (make / nil / x[:0] of one) or the result of appending to such
// a list, through the loop's phis.
func growsFromFresh(v ssa.Value, d int) bool {
	if d > 8 {
		return false
	}
	v = stripConv(v)
	if isFreshSliceBase(v) {
		return true
	}
	switch x := v.(type) {
	case *ssa.Phi:
		ok, some := true, false
		for _, e := range x.Edges {
			if stripConv(e) == ssa.Value(x) {
				continue
			}
			if call, isCall := stripConv(e).(*ssa.Call); isCall {
				if b, isB := call.Call.Value.(*ssa.Builtin); isB && b.Name() == "append" {
					// appended onto this same phi (the loop's own growth) or onto another fresh list
					if stripConv(call.Call.Args[0]) == ssa.Value(x) {
						continue
					}
				}
			}
			some = true
			if !growsFromFresh(e, d+1) {
				ok = false
			}
		}
		return ok && some
	case *ssa.Call:
		if b, isB := x.Call.Value.(*ssa.Builtin); isB && b.Name() == "append" {
			return growsFromFresh(x.Call.Args[0], d+1)
		}
	}
	return false
}

// c35Offenders: ψ_o' = sorted(prior offenders ∪ culprit keys ∪ fault keys), new keys added once.
func c35Offenders(c *Ctx, f *ssa.Function, key string) {
	o := c35Helpers(f)
	prior := "prior.GetPsi(PRIOR).Offenders"
	var hasPrior bool
	var sortCall *ssa.Call
	apps := map[string]*c35site{}
	marks := map[string]bool{}
	visitWithHelpers(f, o, func(g *ssa.Function, subst map[ssa.Value]string, in ssa.Instruction) {
		switch x := in.(type) {
		case *ssa.MapUpdate:
			marks[abbr(exprStrSubst(x.Key, o, subst))] = true
		case *ssa.Call:
			if b, ok := x.Call.Value.(*ssa.Builtin); ok {
				switch b.Name() {
				case "append":
					el := abbr(exprStrSubst(x.Call.Args[1], o, subst))
					switch el {
					case prior:
						hasPrior = true
					case "[p1[*].Key][:]":
						apps["culprit"] = &c35site{in, g, subst}
					case "[p2[*].Key][:]":
						apps["fault"] = &c35site{in, g, subst}
					}
				case "copy":
					if abbr(exprStrSubst(x.Call.Args[1], o, subst)) == prior {
						hasPrior = true
					}
				}
			} else if fld, ok := byteOrderSort(x); ok && fld == "" && g == f {
				sortCall = x
			}
		}
	})
	c.Check(hasPrior, "C35.sets", key+" · grows", f.Pos(), "every prior offender is carried into ψ_o'", "prior offenders are not carried into the new list")
	// the keys may come combined from a function of (culprits, faults) that lists every culprit key and every fault key
	if apps["culprit"] == nil && apps["fault"] == nil {
		var comb *c35site
		var src *ssa.Call
		visitWithHelpers(f, o, func(g *ssa.Function, subst map[ssa.Value]string, in ssa.Instruction) {
			call, ok := in.(*ssa.Call)
			if !ok {
				return
			}
			if b, isB := call.Call.Value.(*ssa.Builtin); !isB || b.Name() != "append" {
				return
			}
			es := appendedElems(call.Call.Args[1])
			if len(es) != 1 {
				return
			}
			// element = X[*] with X the result of a call taking (culprits, faults)
			ld, ok := stripConv(es[0]).(*ssa.UnOp)
			if !ok {
				return
			}
			ia, ok := ld.X.(*ssa.IndexAddr)
			if !ok {
				return
			}
			sc, ok := stripConv(ia.X).(*ssa.Call)
			if !ok || sc.Call.StaticCallee() == nil {
				return
			}
			comb, src = &c35site{in, g, subst}, sc
		})
		okSrc := false
		srcDesc := ""
		if src != nil {
			h := src.Call.StaticCallee()
			var as []string
			for _, a := range src.Call.Args {
				as = append(as, abbr(exprStr(a, o)))
			}
			srcDesc = relName(h.String()) + "(" + strings.Join(as, ", ") + ")"
			np := len(h.Params)
			if np >= 2 && len(as) == np && as[np-2] == "p1" && as[np-1] == "p2" {
				// every element of both inputs contributes its Key, nothing else
				var els []string
				allInstrs(h, func(in ssa.Instruction) {
					if call, ok := in.(*ssa.Call); ok {
						if b, isB := call.Call.Value.(*ssa.Builtin); isB && b.Name() == "append" {
							els = append(els, abbr(exprStr(call.Call.Args[1], o)))
						}
					}
				})
				cp, fp := fmt.Sprintf("[p%d[*].Key][:]", np-2), fmt.Sprintf("[p%d[*].Key][:]", np-1)
				okSrc = len(els) == 2 && contains(els, cp) && contains(els, fp) && len(condAtoms(h, o)) <= 2 && returnsItsAppends(h)
			}
		}
		if comb != nil && okSrc {
			call := comb.in.(*ssa.Call)
			bad := ""
			for m := int64(0); m <= 1 && bad == ""; m++ {
				reached, ok := iterReaches(call, o, comb.subst, func(r string) (int64, bool) {
					if strings.HasPrefix(r, "makemap[") && (strings.HasSuffix(r, "[*]]") || strings.HasSuffix(r, "[*]]#1")) {
						return m, true
					}
					return 0, false
				})
				if !ok {
					bad = "the decision to add a key depends on something other than its membership in the offender set"
				} else if reached != (m == 0) {
					bad = fmt.Sprintf("a key with already-present=%d is added=%v", m, reached)
				}
			}
			marked := false
			for k := range marks {
				if strings.HasSuffix(k, "[*]") && strings.Contains(k, "(") {
					marked = true
				}
			}
			c.Check(bad == "" && marked, "C35.sets", key+" · culprit keys", call.Pos(), "culprit and fault keys (taken together from "+srcDesc+") are added exactly when not yet offenders, and then marked", "offender keys: "+bad)
			c.OK("C35.sets", key+" · fault keys", call.Pos(), "covered by the combined key list %s", srcDesc)
			apps["culprit"], apps["fault"] = nil, nil
			goto sorted
		}
	}
	for _, kind := range []string{"culprit", "fault"} {
		pk := map[string]string{"culprit": "p1[*].Key", "fault": "p2[*].Key"}[kind]
		s := apps[kind]
		if s == nil {
			c.Bad("C35.sets", key+" · "+kind+" keys", f.Pos(), "%s keys are not added to the offenders", kind)
			continue
		}
		call := s.in.(*ssa.Call)
		bad := ""
		for m := int64(0); m <= 1 && bad == ""; m++ {
			var reached, ok bool
			av := func(r string) (int64, bool) {
				if strings.HasSuffix(r, "["+pk+"]") || strings.HasSuffix(r, "["+pk+"]#1") || strings.HasSuffix(r, "[p0]") || strings.HasSuffix(r, "[p0]#1") {
					return m, true
				}
				return 0, false
			}
			if h, _ := natLoop(call.Block()); h != nil {
				reached, ok = iterReaches(call, o, s.subst, av)
			} else {
				reached, ok = reachesInFunc(call, o, av)
			}
			if !ok {
				bad = "the decision to add a key depends on something other than its membership in the offender set"
			} else if reached != (m == 0) {
				bad = fmt.Sprintf("a key with already-present=%d is added=%v", m, reached)
			}
		}
		c.Check(bad == "" && (marks[pk] || marks["p0"]), "C35.sets", key+" · "+kind+" keys", call.Pos(), "a "+kind+" key is added exactly when not yet an offender, and then marked", kind+" keys: "+bad)
	}
sorted:
	if sortCall == nil {
		c.Bad("C35.sets", key+" · sorted", f.Pos(), "offenders are stored unsorted")
	} else {
		// the sorted list is the one stored, and the sort precedes the store on every path
		sorted := abbr(exprStr(sortCall.Call.Args[0], o))
		var setter ssa.CallInstruction
		allInstrs(f, func(in ssa.Instruction) {
			if ci, ok := in.(ssa.CallInstruction); ok {
				n := ""
				if ci.Common().IsInvoke() {
					n = ci.Common().Method.Name()
				} else if sc := calleeFunc(ci); sc != nil {
					n = sc.Name()
				}
				if n == "SetPsiO" {
					setter = ci
				}
			}
		})
		ok := setter != nil && abbr(exprStr(setter.Common().Args[len(setter.Common().Args)-1], o)) == sorted
		if ok {
			_, skip := findPath(pathQuery{fn: f, target: func(in ssa.Instruction) bool { return in == setter.(ssa.Instruction) }, blocker: func(in ssa.Instruction) bool { return in == ssa.Instruction(sortCall) }})
			ok = !skip
		}
		c.Check(ok, "C35.sets", key+" · sorted", sortCall.Pos(), "offender list sorted by key bytes before it is stored", "offenders are stored unsorted (the stored list is not the sorted one, or the store can precede the sort)")
	}
}

// holdsFreshMake: v is a slice made in this function (directly, or the content
// of a local variable that was assigned such a slice, e.g. one captured by a closure).
func holdsFreshMake(v ssa.Value) bool {
	v = stripConv(v)
	if _, ok := v.(*ssa.MakeSlice); ok {
		return true
	}
	if u, ok := v.(*ssa.UnOp); ok && u.Op == token.MUL {
		if a, ok := u.X.(*ssa.Alloc); ok {
			for _, r := range *a.Referrers() {
				if st, ok := r.(*ssa.Store); ok && st.Addr == ssa.Value(a) {
					if _, isMk := stripConv(st.Val).(*ssa.MakeSlice); isMk {
						return true
					}
				}
			}
		}
	}
	return false
}
