package main

import (
	"fmt"
	"go/token"
	"go/types"
	"sort"
	"strings"

	"golang.org/x/tools/go/ssa"
)

const shufflePkg = "internal/utilities/shuffle"
const extrPkg = "internal/extrinsic"

// loopIndexPhi: the integer phi (init const 0, step +1) of f's counting loop whose bound renders as boundShape.
func loopIndexPhis(f *ssa.Function) []*ssa.Phi {
	var out []*ssa.Phi
	allInstrs(f, func(in ssa.Instruction) {
		p, ok := in.(*ssa.Phi)
		if !ok || !isIntegerT(p.Type()) || len(p.Edges) != 2 {
			return
		}
		if k, ok := constInt(p.Edges[0]); !ok || k != 0 {
			return
		}
		if b, ok := stripConv(p.Edges[1]).(*ssa.BinOp); ok && b.Op == token.ADD && stripConv(b.X) == ssa.Value(p) {
			if k, ok := constInt(b.Y); ok && k == 1 {
				out = append(out, p)
			}
		}
	})
	return out
}

func checkC20(c *Ctx) (string, []string) {
	nsq := c.Fn(shufflePkg, "numericSequenceFromHash")
	fy := c.Fn(shufflePkg, "FisherYatesShuffle")
	sh := c.Fn(shufflePkg, "Shuffle")
	ser := c.Fn(shufflePkg, "SerializeFixedLength")
	des := c.Fn(shufflePkg, "DeserializeFixedLength")
	perm := c.Fn(extrPkg, "permute")
	rot := c.Fn(extrPkg, "rotateCores")
	nga := c.Fn(extrPkg, "NewGuranatorAssignments")
	gf := c.Fn(extrPkg, "GFunc")
	gs := c.Fn(extrPkg, "GStarFunc")
	if len(c.fatal) > 0 {
		return "", nil
	}
	S := "shuffle."

	c.Rule("C20.shuffle", "numericSequenceFromHash: r_i is the 4-byte little-endian number at offset 4i mod 32 of Blake2b(h ⌢ E_4(⌊i/8⌋)) (the block counter and the offsets are evaluated for i = 0..5000); FisherYatesShuffle selects s[r_0 mod |s|], swaps it with the last element, recurses on (s[:|s|-1], r[1:]) and prepends the selected element; Shuffle draws |s| numbers", 10)
	{
		idx := loopIndexPhis(nsq)
		var i *ssa.Phi
		if len(idx) == 1 {
			i = idx[0]
		}
		var floorArg, lenArg, lo, hi ssa.Value
		allInstrs(nsq, func(in ssa.Instruction) {
			switch x := in.(type) {
			case *ssa.Call:
				if calleeFunc(x) == ser {
					floorArg, lenArg = x.Call.Args[0], x.Call.Args[1]
				}
			case *ssa.Slice:
				if x.Low != nil && x.High != nil {
					lo, hi = x.Low, x.High
				}
			}
		})
		ok := i != nil && floorArg != nil && lo != nil
		why := ""
		if ok {
			for k := int64(0); k <= c.Deep(5000, 300000) && ok; k++ {
				env := intEnv{params: map[ssa.Value]int64{i: k}}
				f, ok1 := evalInt(floorArg, env, 0)
				l, ok2 := evalInt(lo, env, 0)
				h, ok3 := evalInt(hi, env, 0)
				n, ok4 := evalInt(lenArg, env, 0)
				if !(ok1 && ok2 && ok3 && ok4) {
					ok, why = false, "counter/offset expressions are not pure functions of the loop index"
				} else if f != k/8 || l != (4*k)%32 || h != l+4 || n != 4 {
					ok, why = false, fmt.Sprintf("for i=%d: counter=%d in %d bytes, slice [%d:%d]; GP: counter %d in 4 bytes, slice [%d:%d]", k, f, n, l, h, k/8, (4*k)%32, (4*k)%32+4)
				}
			}
		} else {
			why = "loop index / SerializeFixedLength call / hash slice not found"
		}
		c.Check(ok, "C20.shuffle", S+"numericSequenceFromHash · counter and offsets", nsq.Pos(), "E_4(⌊i/8⌋), bytes [4i mod 32, +4) for i = 0..5000", why)
		effs := abbrAll(effectShapesOpt(nsq, func(n string) bool { return strings.Contains(n, "shuffle.") || strings.Contains(n, "hash.") }, true))
		h := "hash.Blake2bHash(append(p0[:], shuffle.SerializeFixedLength(u64(*), 4)))"
		c.checkEffects("C20.shuffle", S+"numericSequenceFromHash", nsq, effs, []string{
			"call " + h, "call shuffle.DeserializeFixedLength(" + h + "[*:*])", "call shuffle.SerializeFixedLength(u64(*), 4)",
			"store &make([]types.U32, p1)[*] ← u32(shuffle.DeserializeFixedLength(" + h + "[*:*]))",
		})
		// the counter is widened, never narrowed, on its way to the serializer
		narrow := false
		var walk func(v ssa.Value, d int)
		walk = func(v ssa.Value, d int) {
			if d > 6 {
				return
			}
			if cv, ok := v.(*ssa.Convert); ok {
				if intBits(cv.Type()) < 32 {
					narrow = true
				}
				walk(cv.X, d+1)
			}
			if b, ok := v.(*ssa.BinOp); ok {
				walk(b.X, d+1)
			}
		}
		if floorArg != nil {
			walk(floorArg, 0)
		}
		c.Check(!narrow, "C20.shuffle", S+"numericSequenceFromHash · counter width", nsq.Pos(), "block counter keeps at least 32 bits", "the block counter is narrowed below 32 bits before it is serialised: the sequence repeats for long inputs")
	}
	c.checkEffects("C20.shuffle", S+"SerializeFixedLength", ser, abbrAll(effectShapesOpt(ser, nil, true)), []string{"store &make([]byte, p1)[*] ← u8((255 & phi((cyc >> 8) | p0)))"})
	c.checkShapes("C20.shuffle", S+"DeserializeFixedLength", des, abbrMap(returnShapes(des)), map[string][]string{"ret": {"phi(((cyc << 8) | u64(p0[phi((cyc - 1) | (len(p0) - 1))])) | 0)"}})
	sel := "p0[(p1[0] % u32(len(p0)))]"
	c.checkCondSet("C20.shuffle", S+"FisherYatesShuffle", fy, []string{"(0 == len(p0))"})
	c.checkEffects("C20.shuffle", S+"FisherYatesShuffle", fy, abbrAll(effectShapesOpt(fy, func(n string) bool { return strings.Contains(n, "shuffle.") }, true)), []string{
		"call shuffle.FisherYatesShuffle(p0[:(len(p0) - 1)], p1[1:])",
		"store &p0[(len(p0) - 1)] ← " + sel,
		"store &p0[(p1[0] % u32(len(p0)))] ← p0[(len(p0) - 1)]",
	})
	c.checkShapes("C20.shuffle", S+"FisherYatesShuffle", fy, abbrMap(returnShapes(fy)), map[string][]string{"ret": {"[][:0]", "append([" + sel + "][:], shuffle.FisherYatesShuffle(p0[:(len(p0) - 1)], p1[1:]))"}})
	c.checkShapes("C20.shuffle", S+"Shuffle", sh, abbrMap(returnShapes(sh)), map[string][]string{"ret": {"shuffle.FisherYatesShuffle(p0, shuffle.numericSequenceFromHash(p1, u32(len(p0))))"}})

	c.Rule("C20.determinism", "the call trees of Shuffle and NewGuranatorAssignments contain no map iteration, randomness, clock or goroutine, read no package-level variable other than protocol parameters and write none; because FisherYatesShuffle permutes its input in place, every caller of Shuffle/FisherYatesShuffle in the module passes a slice it has just made", 6)
	allowedGlobals := map[string]bool{"ValidatorsCount": true, "CoresCount": true, "EpochLength": true, "RotationPeriod": true}
	tree := map[*ssa.Function]bool{}
	var grow func(f *ssa.Function)
	grow = func(f *ssa.Function) {
		if f == nil || tree[f] || f.Pkg == nil || !strings.HasPrefix(f.Pkg.Pkg.Path(), modPath) {
			return
		}
		tree[f] = true
		allInstrs(f, func(in ssa.Instruction) {
			if ci, ok := in.(ssa.CallInstruction); ok {
				grow(calleeFunc(ci))
			}
		})
		for _, a := range f.AnonFuncs {
			grow(a)
		}
	}
	grow(sh)
	grow(perm)
	grow(rot)
	var names []string
	for f := range tree {
		names = append(names, funcKey(f))
	}
	sort.Strings(names)
	c.extra["determinism_call_tree"] = names
	for f := range tree {
		// hash helpers and logging below the tree are pure library code: only inspect shuffle/extrinsic functions
		pk := f.Pkg.Pkg.Path()
		if !(strings.HasSuffix(pk, shufflePkg) || strings.HasSuffix(pk, extrPkg)) {
			continue
		}
		bad := ""
		allInstrs(f, func(in ssa.Instruction) {
			switch x := in.(type) {
			case *ssa.Range:
				if _, isMap := x.X.Type().Underlying().(*types.Map); isMap {
					bad = "iterates a map"
				}
			case *ssa.Go:
				bad = "starts a goroutine"
			case *ssa.Select:
				bad = "selects on channels"
			case ssa.CallInstruction:
				if sc := calleeFunc(x); sc != nil && sc.Pkg != nil {
					pp := sc.Pkg.Pkg.Path()
					if pp == "math/rand" || pp == "math/rand/v2" || pp == "crypto/rand" || (pp == "time" && sc.Name() == "Now") {
						bad = "calls " + sc.String()
					}
				}
			}
			for _, op := range in.Operands(nil) {
				if g, ok := (*op).(*ssa.Global); ok && g.Pkg != nil && strings.HasPrefix(g.Pkg.Pkg.Path(), modPath) && !allowedGlobals[g.Name()] {
					if _, isLogger := g.Type().Underlying().(*types.Pointer); isLogger && strings.Contains(strings.ToLower(g.Name()), "log") {
						continue
					}
					if st, isStore := in.(*ssa.Store); isStore && st.Addr == ssa.Value(g) {
						bad = "writes package-level variable " + g.Name()
					} else {
						bad = "reads package-level variable " + g.Name() + " (not a protocol parameter)"
					}
				}
			}
		})
		c.Check(bad == "", "C20.determinism", funcKey(f), f.Pos(), "pure function of its arguments and protocol parameters", bad+": the result depends on more than (entropy, slot, validators)")
	}
	// callers pass fresh slices
	ncall := 0
	for _, p := range c.Pkgs {
		if !strings.HasPrefix(p.PkgPath, modPath) {
			continue
		}
		rel := strings.TrimPrefix(strings.TrimPrefix(p.PkgPath, modPath), "/")
		for _, f0 := range c.SrcFuncs(rel) {
			for _, f := range withClosures(f0) {
				allInstrs(f, func(in ssa.Instruction) {
					ci, ok := in.(ssa.CallInstruction)
					if !ok {
						return
					}
					callee := calleeFunc(ci)
					if callee != sh && callee != fy {
						return
					}
					if f == sh || f == fy {
						return // internal recursion / Shuffle's hand-off of its own parameter
					}
					ncall++
					a := ci.Common().Args[0]
					_, fresh := stripConv(a).(*ssa.MakeSlice)
					c.Check(fresh, "C20.determinism", funcKey(f)+" · argument of "+callee.Name(), in.Pos(), "passes a slice made in this call", "passes "+abbr(exprStr(a, shapeOpts))+", which outlives the call: the in-place shuffle corrupts it for the next evaluation")
				})
			}
		}
	}
	c.extra["shuffle_call_sites"] = ncall

	c.Rule("C20.assignment", "permute: base[i] = ⌊C·i/V⌋ (evaluated for tiny and full parameter sets and every i), shuffled with the entropy, rotated by n = ⌊(slot mod E)/R⌋; rotateCores maps x to (x+n) mod C; G uses (η'_2, κ', τ'); G* uses (η'_2, κ') when ⌊(τ'−R)/E⌋ = ⌊τ'/E⌋ and (η'_3, λ') otherwise, at slot τ'−R", 8)
	{
		idx := loopIndexPhis(perm)
		var baseVal ssa.Value
		allInstrs(perm, func(in ssa.Instruction) {
			if st, ok := in.(*ssa.Store); ok {
				if strings.HasPrefix(abbr(exprStr(st.Addr, shapeOpts)), "&make([]types.U32, types.ValidatorsCount)[") {
					baseVal = st.Val
				}
			}
		})
		ok, why := baseVal != nil && len(idx) >= 1, "base assignment store not found"
		if ok {
			for _, cv := range append([][2]int64{{2, 6}, {341, 1023}, {3, 7}, {16, 100}}, c20MoreParams(c)...) {
				for k := int64(0); k < cv[1] && ok; k++ {
					good := false
					for _, ip := range idx {
						got, ok1 := evalInt(baseVal, intEnv{params: map[ssa.Value]int64{ip: k}, globals: map[string]int64{"CoresCount": cv[0], "ValidatorsCount": cv[1]}}, 0)
						if ok1 && got == cv[0]*k/cv[1] {
							good = true
						}
					}
					if !good {
						ok, why = false, fmt.Sprintf("base[%d] for C=%d V=%d is not ⌊C·i/V⌋ = %d (expression %s)", k, cv[0], cv[1], cv[0]*k/cv[1], abbr(exprStr(baseVal, shapeOpts)))
					}
				}
			}
		}
		c.Check(ok, "C20.assignment", extrPkg+".permute · base", perm.Pos(), "base[i] = ⌊C·i/V⌋ for C,V ∈ {(2,6),(341,1023),(3,7),(16,100)}", why)
		rc := "internal/extrinsic.rotateCores(shuffle.Shuffle(make([]types.U32, types.ValidatorsCount), p0), u32(((int(p1) % types.EpochLength) / types.RotationPeriod)))"
		has := false
		for _, e := range abbrAll(effectShapesOpt(perm, func(n string) bool { return strings.Contains(n, "rotateCores") }, false)) {
			if e == "call "+rc {
				has = true
			}
		}
		c.Check(has, "C20.assignment", extrPkg+".permute · shuffle and rotation", perm.Pos(), "rotateCores(Shuffle(base, entropy), ⌊(slot mod E)/R⌋)", "permute does not rotate Shuffle(base, entropy) by ⌊(slot mod E)/R⌋")
		c.checkShapes("C20.assignment", extrPkg+".permute · result", perm, abbrMap(returnShapes(perm)), map[string][]string{"ret": {"make([]types.CoreIndex, len(" + rc + "))"}})
	}
	c.checkEffects("C20.assignment", extrPkg+".rotateCores", rot, abbrAll(effectShapesOpt(rot, nil, true)), []string{"store &make([]types.U32, len(p0))[*] ← ((p0[*] + p1) % u32(types.CoresCount))"})
	c.checkShapes("C20.assignment", extrPkg+".NewGuranatorAssignments", nga, abbrMap(returnShapes(nga)), map[string][]string{
		"ret.CoreAssignments": {"internal/extrinsic.permute(p0, p1)"}, "ret.PublicKeys": {"make([]types.Validator, len(internal/safrole.ReplaceOffenderKeys(p2)))"},
	})
	N := "internal/extrinsic.NewGuranatorAssignments("
	c.checkShapes("C20.assignment", extrPkg+".GFunc", gf, abbrMap(returnShapes(gf)), map[string][]string{
		"ret#0": {N + "cell(post.GetEta(POST))[2], post.GetTau(POST), post.GetKappa(POST))", "nil"}, "ret#1": {"cell(23)", "nil"},
	})
	c.checkShapes("C20.assignment", extrPkg+".GStarFunc", gs, abbrMap(returnShapes(gs)), map[string][]string{
		"ret#0": {N + "phi(cell(post.GetEta(POST))[2] | cell(post.GetEta(POST))[3]), (post.GetTau(POST) - u32(types.RotationPeriod)), phi(post.GetKappa(POST) | post.GetLambda(POST)))", "nil"}, "ret#1": {"cell(23)", "nil"},
	})
	{
		// the (η2, κ) arm is the same-epoch arm
		same := condEdges(gs, func(v ssa.Value) (bool, bool) {
			return abbr(exprStr(v, shapeOpts)) == "(((int(post.GetTau(POST)) - types.RotationPeriod) / types.EpochLength) == (int(post.GetTau(POST)) / types.EpochLength))", true
		})
		ok := len(same) == 1
		allInstrs(gs, func(in ssa.Instruction) {
			ci, isCall := in.(ssa.CallInstruction)
			if !isCall || calleeFunc(ci) == nil {
				return
			}
			switch calleeFunc(ci).Name() {
			case "GetKappa":
				if !guardedBy(gs, in, same) {
					ok = false
				}
			case "GetLambda":
				if guardedBy(gs, in, same) || len(same) == 0 {
					ok = false
				}
			}
		})
		c.Check(ok, "C20.assignment", extrPkg+".GStarFunc · epoch test", gs.Pos(), "κ' on the same-epoch arm, λ' on the other", "the previous-rotation key set is not selected by ⌊(τ'−R)/E⌋ = ⌊τ'/E⌋")
	}
	return "Shuffle and assignment mechanisms decided statically: the number sequence's block counter and byte offsets (evaluated symbolically for i = 0..5000), the Fisher-Yates step (selection index, swap, recursion, prepend), purity of the call trees (no map order, randomness, clock, goroutines, no package state other than protocol parameters), freshness of every slice handed to the in-place shuffle (who-may-call over the module), the base assignment ⌊C·i/V⌋ (evaluated for four parameter sets), rotation (x+n) mod C with n = ⌊(slot mod E)/R⌋, and the G / G* argument selection.",
		[]string{"canonical renderer; pure integer-expression evaluator", "not decided: that the produced permutation equals GP's as a value for every input (needs execution); behaviour of G* in the first R slots of the chain (τ' − R wraps)"}
}

// c20MoreParams: additional (C, V) pairs for the thorough tier.
func c20MoreParams(c *Ctx) [][2]int64 {
	if c.Tier != "thorough" {
		return nil
	}
	var out [][2]int64
	for _, C := range []int64{1, 2, 5, 7, 64, 341, 512} {
		for _, V := range []int64{1, 3, 6, 10, 99, 1000, 1023, 4096} {
			if C <= V {
				out = append(out, [2]int64{C, V})
			}
		}
	}
	return out
}
