package main

import (
	"fmt"
	"go/token"
	"go/types"
	"sort"
	"strings"

	"golang.org/x/tools/go/ssa"
)

const shufflePkg = "internal/utilities/shuffle"
const extrPkg = "internal/extrinsic"

// loopIndexPhi: the integer phi (init const 0, step +1) of f's counting loop whose bound renders as boundShape.
func loopIndexPhis(f *ssa.Function) []*ssa.Phi {
	var out []*ssa.Phi
	allInstrs(f, func(in ssa.Instruction) {
		p, ok := in.(*ssa.Phi)
		if !ok || !isIntegerT(p.Type()) || len(p.Edges) != 2 {
			return
		}
		// for i := 0; …; i++ starts at 0; for i := range x is compiled with a counter that starts at −1 and is used as counter+1
		if k, ok := constInt(p.Edges[0]); !ok || (k != 0 && k != -1) {
			return
		}
		if b, ok := stripConv(p.Edges[1]).(*ssa.BinOp); ok && b.Op == token.ADD && stripConv(b.X) == ssa.Value(p) {
			if k, ok := constInt(b.Y); ok && k == 1 {
				out = append(out, p)
			}
		}
	})
	return out
}

func checkC20(c *Ctx) (string, []string) {
	nsq := c.Fn(shufflePkg, "numericSequenceFromHash")
	fy := c.Fn(shufflePkg, "FisherYatesShuffle")
	sh := c.Fn(shufflePkg, "Shuffle")
	ser := c.Fn(shufflePkg, "SerializeFixedLength")
	des := c.Fn(shufflePkg, "DeserializeFixedLength")
	perm := c.Fn(extrPkg, "permute")
	rot := c.Fn(extrPkg, "rotateCores")
	nga := c.Fn(extrPkg, "NewGuranatorAssignments")
	gf := c.Fn(extrPkg, "GFunc")
	gs := c.Fn(extrPkg, "GStarFunc")
	if len(c.fatal) > 0 {
		return "", nil
	}
	S := "shuffle."

	c.Rule("C20.shuffle", "numericSequenceFromHash: r_i is the 4-byte little-endian number at offset 4i mod 32 of Blake2b(h ⌢ E_4(⌊i/8⌋)) (the block counter and the offsets are evaluated for i = 0..5000); FisherYatesShuffle selects s[r_0 mod |s|], swaps it with the last element, recurses on (s[:|s|-1], r[1:]) and prepends the selected element; Shuffle draws |s| numbers", 10)
	c20NumericSequence(c, nsq, ser, des)
	// the fixed-length little-endian helpers, bit by bit (bit-provenance abstract interpretation, bitfield.go)
	{
		bad := ""
		for l := 0; l <= 8 && bad == ""; l++ {
			m := &bfMachine{maxSteps: 20000}
			x := bfInt{w: 64}
			for j := 0; j < 64; j++ {
				x.b[j] = bfBit{k: 2, i: uint16(j)}
			}
			args := make([]any, len(ser.Params))
			for i, p := range ser.Params {
				if w, s, ok := bfWidth(p.Type()); ok && w == 64 && !s {
					args[i] = x
				} else if ok {
					args[i] = bfConst(uint64(l), w, s)
				} else {
					args[i] = bfUnknown{"parameter"}
				}
			}
			for _, o := range m.call(ser, args, bfHeap{}, 0) {
				sl, isSl := bfUnknown{}, false
				var out bfSlice
				_ = sl
				if o.fault == "" && len(o.results) == 1 {
					out, isSl = o.results[0].(bfSlice)
				}
				if !isSl || out.hi-out.lo != l {
					bad = fmt.Sprintf("length %d: %s %v", l, o.fault, o.results)
					break
				}
				for k := 0; k < l && bad == ""; k++ {
					el := bfElem(o.heap, out.obj, out.lo+k)
					for j := 0; j < 8; j++ {
						if el.b[j] != (bfBit{k: 2, i: uint16(8*k + j)}) {
							bad = fmt.Sprintf("length %d: bit %d of byte %d is %s, expected bit %d of x", l, j, k, bfBitString(el.b[j]), 8*k+j)
						}
					}
				}
			}
		}
		c.Check(bad == "", "C20.shuffle", S+"SerializeFixedLength", ser.Pos(), "byte k of E_l(x) is bits 8k..8k+7 of x, for l = 0..8 and symbolic x", "SerializeFixedLength is not the l-byte little-endian form: "+bad)
		bad = ""
		for n := 0; n <= 8 && bad == ""; n++ {
			m := &bfMachine{maxSteps: 20000}
			heap := bfHeap{}
			arr := m.newArray(heap, n)
			for b := 0; b < n; b++ {
				v := bfInt{w: 8}
				for j := 0; j < 8; j++ {
					v.b[j] = bfBit{k: 2, i: uint16(8*b + j)}
				}
				heap[arr][b] = v
			}
			for _, o := range m.call(des, []any{bfSlice{obj: arr, lo: 0, hi: n, cp: n}}, heap, 0) {
				v, isInt := bfInt{}, false
				if o.fault == "" && len(o.results) == 1 {
					v, isInt = o.results[0].(bfInt)
				}
				if !isInt {
					bad = fmt.Sprintf("%d bytes: %s", n, o.fault)
					break
				}
				for j := 0; j < 64; j++ {
					var want bfBit
					if j < 8*n {
						want = bfBit{k: 2, i: uint16(j)}
					}
					if v.b[j] != want {
						bad = fmt.Sprintf("%d bytes: bit %d of the result is %s, expected %s", n, j, bfBitString(v.b[j]), bfBitString(want))
						break
					}
				}
			}
		}
		c.Check(bad == "", "C20.shuffle", S+"DeserializeFixedLength", des.Pos(), "bit 8k+j of the value is bit j of byte k, for 0..8 symbolic bytes", "DeserializeFixedLength is not the little-endian value of its bytes: "+bad)
	}
	c20FisherYates(c, fy)
	{
		// Shuffle(s, h) = F(s, Q(h, |s|)); a return of an empty sequence is the same value where |s| = 0 is established
		want := "shuffle.FisherYatesShuffle(p0, shuffle.numericSequenceFromHash(p1, u32(len(p0))))"
		var lenZero []edge
		if len(sh.Params) > 0 {
			lenZero = lenZeroEdges(sh, sh.Params[0])
		}
		n, bad := 0, ""
		allInstrs(sh, func(in ssa.Instruction) {
			r, isR := in.(*ssa.Return)
			if !isR || len(retResults(r)) != 1 {
				return
			}
			v := retResults(r)[0]
			g := abbr(exprStr(v, shapeOpts))
			switch {
			case looseForm(g) == want:
				n++
			case isEmptySliceValue(v) && guardedBy(sh, in, lenZero):
			default:
				bad = g
			}
		})
		c.Check(n > 0 && bad == "", "C20.shuffle", S+"Shuffle · ret", sh.Pos(), "returns F(s, Q(h, |s|)) (an empty sequence only where |s| = 0)", "ret is derived as ["+bad+"]; the specification requires ["+want+"]")
	}

	c.Rule("C20.determinism", "the call trees of Shuffle and NewGuranatorAssignments contain no map iteration, randomness, clock or goroutine, read no package-level variable other than protocol parameters and write none; because FisherYatesShuffle permutes its input in place, every caller of Shuffle/FisherYatesShuffle in the module passes a slice it has just made", 6)
	allowedGlobals := map[string]bool{"ValidatorsCount": true, "CoresCount": true, "EpochLength": true, "RotationPeriod": true}
	tree := map[*ssa.Function]bool{}
	var grow func(f *ssa.Function)
	grow = func(f *ssa.Function) {
		if f == nil || tree[f] || f.Pkg == nil || !strings.HasPrefix(f.Pkg.Pkg.Path(), modPath) {
			return
		}
		tree[f] = true
		allInstrs(f, func(in ssa.Instruction) {
			if ci, ok := in.(ssa.CallInstruction); ok {
				grow(calleeFunc(ci))
			}
		})
		for _, a := range f.AnonFuncs {
			grow(a)
		}
	}
	grow(sh)
	grow(perm)
	grow(rot)
	var names []string
	for f := range tree {
		names = append(names, funcKey(f))
	}
	sort.Strings(names)
	c.extra["determinism_call_tree"] = names
	for f := range tree {
		// hash helpers and logging below the tree are pure library code: only inspect shuffle/extrinsic functions
		pk := f.Pkg.Pkg.Path()
		if !(strings.HasSuffix(pk, shufflePkg) || strings.HasSuffix(pk, extrPkg)) {
			continue
		}
		bad := ""
		allInstrs(f, func(in ssa.Instruction) {
			switch x := in.(type) {
			case *ssa.Range:
				if _, isMap := x.X.Type().Underlying().(*types.Map); isMap {
					bad = "iterates a map"
				}
			case *ssa.Go:
				bad = "starts a goroutine"
			case *ssa.Select:
				bad = "selects on channels"
			case ssa.CallInstruction:
				if sc := calleeFunc(x); sc != nil && sc.Pkg != nil {
					pp := sc.Pkg.Pkg.Path()
					if pp == "math/rand" || pp == "math/rand/v2" || pp == "crypto/rand" || (pp == "time" && sc.Name() == "Now") {
						bad = "calls " + sc.String()
					}
				}
			}
			for _, op := range in.Operands(nil) {
				if g, ok := (*op).(*ssa.Global); ok && g.Pkg != nil && strings.HasPrefix(g.Pkg.Pkg.Path(), modPath) && !allowedGlobals[g.Name()] {
					if _, isLogger := g.Type().Underlying().(*types.Pointer); isLogger && strings.Contains(strings.ToLower(g.Name()), "log") {
						continue
					}
					if st, isStore := in.(*ssa.Store); isStore && st.Addr == ssa.Value(g) {
						bad = "writes package-level variable " + g.Name()
					} else {
						bad = "reads package-level variable " + g.Name() + " (not a protocol parameter)"
					}
				}
			}
		})
		c.Check(bad == "", "C20.determinism", funcKey(f), f.Pos(), "pure function of its arguments and protocol parameters", bad+": the result depends on more than (entropy, slot, validators)")
	}
	// callers pass fresh slices
	ncall := 0
	for _, p := range c.Pkgs {
		if !strings.HasPrefix(p.PkgPath, modPath) {
			continue
		}
		rel := strings.TrimPrefix(strings.TrimPrefix(p.PkgPath, modPath), "/")
		for _, f0 := range c.SrcFuncs(rel) {
			for _, f := range withClosures(f0) {
				allInstrs(f, func(in ssa.Instruction) {
					ci, ok := in.(ssa.CallInstruction)
					if !ok {
						return
					}
					callee := calleeFunc(ci)
					if callee != sh && callee != fy {
						return
					}
					if f == sh || f == fy {
						return // internal recursion / Shuffle's hand-off of its own parameter
					}
					ncall++
					a := ci.Common().Args[0]
					_, fresh := stripConv(a).(*ssa.MakeSlice)
					if hc, isCall := stripConv(a).(*ssa.Call); isCall && !fresh {
						// a package helper that hands out a slice it has just made, on every return
						if g := hc.Call.StaticCallee(); g != nil && len(g.Blocks) > 0 {
							fresh = true
							nret := 0
							allInstrs(g, func(x ssa.Instruction) {
								if r, isR := x.(*ssa.Return); isR {
									nret++
									res := retResults(r)
									if len(res) == 0 {
										fresh = false
										return
									}
									if _, mk := stripConv(resolveLocal(res[0])).(*ssa.MakeSlice); !mk {
										fresh = false
									}
								}
							})
							fresh = fresh && nret > 0
						}
					}
					c.Check(fresh, "C20.determinism", funcKey(f)+" · argument of "+callee.Name(), in.Pos(), "passes a slice made in this call", "passes "+abbr(exprStr(a, shapeOpts))+", which outlives the call: the in-place shuffle corrupts it for the next evaluation")
				})
			}
		}
	}
	c.extra["shuffle_call_sites"] = ncall

	c.Rule("C20.assignment", "permute: base[i] = ⌊C·i/V⌋ (evaluated for tiny and full parameter sets and every i), shuffled with the entropy, rotated by n = ⌊(slot mod E)/R⌋; rotateCores maps x to (x+n) mod C; G uses (η'_2, κ', τ'); G* uses (η'_2, κ') when ⌊(τ'−R)/E⌋ = ⌊τ'/E⌋ and (η'_3, λ') otherwise, at slot τ'−R", 8)
	{
		idx := loopIndexPhis(perm)
		var baseVal ssa.Value
		findBase := func(g *ssa.Function) {
			allInstrs(g, func(in ssa.Instruction) {
				if st, ok := in.(*ssa.Store); ok && baseVal == nil {
					if strings.HasPrefix(abbr(exprStr(st.Addr, shapeOpts)), "&make([]types.U32, types.ValidatorsCount)[") {
						baseVal = st.Val
						idx = loopIndexPhis(g)
					}
				}
			})
		}
		findBase(perm)
		if baseVal == nil {
			// built by a package helper
			allInstrs(perm, func(in ssa.Instruction) {
				if call, ok := in.(*ssa.Call); ok && baseVal == nil {
					if g := call.Call.StaticCallee(); g != nil && len(g.Blocks) > 0 && g.Pkg == perm.Pkg {
						findBase(g)
					}
				}
			})
		}
		ok, why := baseVal != nil && len(idx) >= 1, "base assignment store not found"
		if ok {
			for _, cv := range append([][2]int64{{2, 6}, {341, 1023}, {3, 7}, {16, 100}}, c20MoreParams(c)...) {
				for k := int64(0); k < cv[1] && ok; k++ {
					good := false
					for _, ip := range idx {
						start, _ := constInt(ip.Edges[0])
						got, ok1 := evalInt(baseVal, intEnv{params: map[ssa.Value]int64{ip: k + start}, globals: map[string]int64{"CoresCount": cv[0], "ValidatorsCount": cv[1]}}, 0)
						if ok1 && got == cv[0]*k/cv[1] {
							good = true
						}
					}
					if !good {
						ok, why = false, fmt.Sprintf("base[%d] for C=%d V=%d is not ⌊C·i/V⌋ = %d (expression %s)", k, cv[0], cv[1], cv[0]*k/cv[1], abbr(exprStr(baseVal, shapeOpts)))
					}
				}
			}
		}
		c.Check(ok, "C20.assignment", extrPkg+".permute · base", perm.Pos(), "base[i] = ⌊C·i/V⌋ for C,V ∈ {(2,6),(341,1023),(3,7),(16,100)}", why)
		// the whole composition as one term, with package helpers seen through and append-in-a-loop / indexed fill equated
		S := "shuffle.Shuffle(make([]types.U32, types.ValidatorsCount){[*] ← u32(((* * types.CoresCount) / types.ValidatorsCount))}, p0)"
		n := "u32(((int(p1) % types.EpochLength) / types.RotationPeriod))"
		wantPerm := "each[u16(each[((" + S + "[*] + " + n + ") % u32(types.CoresCount))][*])]"
		var gotPerm []string
		for _, s := range returnShapesO(perm, robustOpts)["ret"] {
			gotPerm = append(gotPerm, normEach(abbr(s)))
		}
		wantPerm = normEach(wantPerm)
		c.Check(len(gotPerm) == 1 && gotPerm[0] == wantPerm, "C20.assignment", extrPkg+".permute · shuffle and rotation", perm.Pos(), "every element is CoreIndex((Shuffle(base, entropy)[i] + ⌊(slot mod E)/R⌋) mod C)", "permute does not return the element-wise rotation of Shuffle(base, entropy) by ⌊(slot mod E)/R⌋: "+strings.Join(gotPerm, " | "))
		var gotRot []string
		for _, s := range returnShapesO(rot, robustOpts)["ret"] {
			gotRot = append(gotRot, normEach(abbr(s)))
		}
		c.Check(len(gotRot) == 1 && gotRot[0] == "each[((p0[*] + p1) % u32(types.CoresCount))]", "C20.assignment", extrPkg+".rotateCores", rot.Pos(), "every element is (x + n) mod C", "rotateCores does not map every x to (x + n) mod C: "+strings.Join(gotRot, " | "))
	}
	c.checkShapes("C20.assignment", extrPkg+".NewGuranatorAssignments", nga, abbrMap(returnShapes(nga)), map[string][]string{
		"ret.CoreAssignments": {"internal/extrinsic.permute(p0, p1)"}, "ret.PublicKeys": {"make([]types.Validator, len(internal/safrole.ReplaceOffenderKeys(p2)))"},
	})
	N := "internal/extrinsic.NewGuranatorAssignments("
	// compared up to the local cell a value is copied into (an array result indexed directly or through a variable)
	withUncelled := func(m map[string][]string) map[string][]string {
		out := map[string][]string{}
		for k, vs := range m {
			for _, v := range vs {
				out[k] = append(out[k], v)
				if u := c33Loose(v); u != v && k == "ret#0" {
					out[k] = append(out[k], u)
				}
			}
		}
		return out
	}
	c.checkShapes("C20.assignment", extrPkg+".GFunc", gf, abbrMap(returnShapes(gf)), withUncelled(map[string][]string{
		"ret#0": {N + "cell(post.GetEta(POST))[2], post.GetTau(POST), post.GetKappa(POST))", "nil"}, "ret#1": {"cell(23)", "nil"},
	}))
	c.checkShapes("C20.assignment", extrPkg+".GStarFunc", gs, abbrMap(returnShapes(gs)), withUncelled(map[string][]string{
		"ret#0": {N + "phi(cell(post.GetEta(POST))[2] | cell(post.GetEta(POST))[3]), (post.GetTau(POST) - u32(types.RotationPeriod)), phi(post.GetKappa(POST) | post.GetLambda(POST)))", "nil"}, "ret#1": {"cell(23)", "nil"},
	}))
	{
		// the (η2, κ) arm is the same-epoch arm
		same := condEdges(gs, func(v ssa.Value) (bool, bool) {
			// ⌊(τ'−R)/E⌋ = ⌊τ'/E⌋, written with == or != and the operands in either order
			a, b := "((int(post.GetTau(POST)) - types.RotationPeriod) / types.EpochLength)", "(int(post.GetTau(POST)) / types.EpochLength)"
			switch abbr(exprStr(v, shapeOpts)) {
			case "(" + a + " == " + b + ")", "(" + b + " == " + a + ")":
				return true, true
			case "(" + a + " != " + b + ")", "(" + b + " != " + a + ")":
				return true, false
			}
			return false, false
		})
		ok := len(same) == 1
		allInstrs(gs, func(in ssa.Instruction) {
			ci, isCall := in.(ssa.CallInstruction)
			if !isCall || calleeFunc(ci) == nil {
				return
			}
			switch calleeFunc(ci).Name() {
			case "GetKappa":
				if !guardedBy(gs, in, same) {
					ok = false
				}
			case "GetLambda":
				if guardedBy(gs, in, same) || len(same) == 0 {
					ok = false
				}
			}
		})
		c.Check(ok, "C20.assignment", extrPkg+".GStarFunc · epoch test", gs.Pos(), "κ' on the same-epoch arm, λ' on the other", "the previous-rotation key set is not selected by ⌊(τ'−R)/E⌋ = ⌊τ'/E⌋")
	}
	return "Shuffle and assignment mechanisms decided statically: the number sequence's block counter and byte offsets (evaluated symbolically for i = 0..5000), the Fisher-Yates step (selection index, swap, recursion, prepend), purity of the call trees (no map order, randomness, clock, goroutines, no package state other than protocol parameters), freshness of every slice handed to the in-place shuffle (who-may-call over the module), the base assignment ⌊C·i/V⌋ (evaluated for four parameter sets), rotation (x+n) mod C with n = ⌊(slot mod E)/R⌋, and the G / G* argument selection.",
		[]string{"canonical renderer; pure integer-expression evaluator", "not decided: that the produced permutation equals GP's as a value for every input (needs execution); behaviour of G* in the first R slots of the chain (τ' − R wraps)"}
}

// c20MoreParams: additional (C, V) pairs for the thorough tier.
func c20MoreParams(c *Ctx) [][2]int64 {
	if c.Tier != "thorough" {
		return nil
	}
	var out [][2]int64
	for _, C := range []int64{1, 2, 5, 7, 64, 341, 512} {
		for _, V := range []int64{1, 3, 6, 10, 99, 1000, 1023, 4096} {
			if C <= V {
				out = append(out, [2]int64{C, V})
			}
		}
	}
	return out
}

// c20NumericSequence: r_i = LE32(Blake2b(h ⌢ E_4(⌊i/8⌋))[4(i mod 8) : +4]).
// Two recognised forms: the hash is recomputed for every i from h ⌢ E_4(counter),
// or it is recomputed exactly when ⌊i/8⌋ changes, from a buffer that holds a copy of
// h followed by a 4-byte little-endian counter patched in place.
func c20NumericSequence(c *Ctx, f, ser, des *ssa.Function) {
	S := "shuffle."
	key := S + "numericSequenceFromHash"
	idx := loopIndexPhis(f)
	if len(idx) != 1 {
		c.Bad("C20.shuffle", key+" · counter and offsets", f.Pos(), "the counting loop over i was not found")
		return
	}
	i := idx[0]
	h := f.Params[0]
	maxI := c.Deep(5000, 300000)
	evalAll := func(v ssa.Value, want func(k int64) int64, what string) string {
		for k := int64(0); k <= maxI; k++ {
			got, ok := evalInt(v, intEnv{params: map[ssa.Value]int64{i: k}, closed: true}, 0)
			if !ok {
				return what + " " + abbr(exprStr(v, shapeOpts)) + " is not a pure function of the loop index"
			}
			if got != want(k) {
				return fmt.Sprintf("%s %s evaluates to %d for i=%d; GP F.2 gives %d", what, abbr(exprStr(v, shapeOpts)), got, k, want(k))
			}
		}
		return ""
	}
	widthOK := func(v ssa.Value) bool {
		// the counter keeps at least 32 bits on its way
		ok := true
		var walk func(x ssa.Value, d int)
		walk = func(x ssa.Value, d int) {
			if d > 6 {
				return
			}
			switch y := x.(type) {
			case *ssa.Convert:
				if intBits(y.Type()) < 32 {
					ok = false
				}
				walk(y.X, d+1)
			case *ssa.BinOp:
				walk(y.X, d+1)
			}
		}
		walk(v, 0)
		return ok
	}
	var hcall *ssa.Call
	nh := 0
	allInstrs(f, func(in ssa.Instruction) {
		if call, ok := in.(*ssa.Call); ok && call.Call.StaticCallee() != nil && strings.HasSuffix(call.Call.StaticCallee().String(), "hash.Blake2bHash") {
			hcall = call
			nh++
		}
	})
	if nh != 1 {
		c.Bad("C20.shuffle", key+" · counter and offsets", f.Pos(), "expected one Blake2b call, found %d", nh)
		return
	}
	bad := ""
	form := ""
	isWholeHash := func(v ssa.Value) bool {
		x, whole := wholeOf(v)
		return whole && (abbr(exprStr(x, shapeOpts)) == "p0" || abbr(exprStr(x, shapeOpts)) == "cell(p0)" || x == ssa.Value(h))
	}
	parts := catValues(hcall.Call.Args[0])
	var hashOut ssa.Value = hcall
	switch {
	case len(parts) == 2 && isWholeHash(parts[0]):
		form = "per-element"
		sc, ok := stripConv(parts[1]).(*ssa.Call)
		if !ok || sc.Call.StaticCallee() != ser {
			bad = "the second part of the hashed buffer is not SerializeFixedLength(counter, 4)"
			break
		}
		if n, ok := constInt(sc.Call.Args[1]); !ok || n != 4 {
			bad = "the counter is not serialised in 4 bytes"
			break
		}
		if !widthOK(sc.Call.Args[0]) {
			bad = "the block counter is narrowed below 32 bits before it is serialised: the sequence repeats for long inputs"
			break
		}
		bad = evalAll(sc.Call.Args[0], func(k int64) int64 { return k / 8 }, "block counter")
		// computed for every i: no guard between the loop head and the hash
		if bad == "" {
			if _, in := natLoop(hcall.Block()); in != nil {
				reached, ok := iterReaches(hcall, shapeOpts, nil, func(string) (int64, bool) { return 0, false })
				if !ok || !reached {
					bad = "the hash is not recomputed for every element although it is built from the per-element counter"
				}
			}
		}
	default:
		form = "per-block"
		// buffer: local array or slice of |h|+4 bytes
		buf, whole := wholeOf(hcall.Call.Args[0])
		if !whole {
			buf = stripConv(hcall.Call.Args[0])
		}
		root := localRoot(buf)
		if root == nil {
			bad = "the hashed buffer is neither h ⌢ E_4(counter) nor a local buffer"
			break
		}
		copied, counter := false, false
		var cval ssa.Value
		allInstrs(f, func(in ssa.Instruction) {
			ci, ok := in.(ssa.CallInstruction)
			if !ok {
				return
			}
			cc := ci.Common()
			if b, isB := cc.Value.(*ssa.Builtin); isB && b.Name() == "copy" && localRoot(cc.Args[0]) == root && isWholeHash(cc.Args[1]) {
				if sl, isSl := cc.Args[0].(*ssa.Slice); !isSl || sl.Low == nil {
					copied = true
				}
			}
			if sc := cc.StaticCallee(); sc != nil && sc.String() == "(encoding/binary.littleEndian).PutUint32" && len(cc.Args) == 3 {
				// destination: buffer[|h|:]
				dst := cc.Args[1]
				for k := 0; k < 4; k++ {
					if u, isU := dst.(*ssa.UnOp); isU {
						if a, isA := u.X.(*ssa.Alloc); isA {
							if sv := uniqueStore(a); sv != nil {
								dst = sv
								continue
							}
						}
					}
					break
				}
				if sl, isSl := stripConv(dst).(*ssa.Slice); isSl && localRoot(sl.X) == root && sl.Low != nil {
					if lo, ok := evalInt(sl.Low, intEnv{closed: true}, 0); ok && lo == 32 {
						counter = true
						cval = cc.Args[2]
					}
				}
			}
		})
		switch {
		case !copied:
			bad = "the buffer that is hashed does not start with a copy of h"
		case !counter:
			bad = "the block counter is not written into the buffer as a 4-byte little-endian number after h (a narrower counter wraps: the sequence repeats)"
		case !widthOK(cval):
			bad = "the block counter is narrowed below 32 bits before it is written"
		default:
			bad = evalAll(cval, func(k int64) int64 { return k / 8 }, "block counter")
		}
		if bad == "" {
			// recomputed exactly when ⌊i/8⌋ changes
			for k := int64(0); k <= 64 && bad == ""; k++ {
				reached, ok := iterReaches(hcall, shapeOpts, nil, func(s string) (int64, bool) {
					if s == "*" {
						return k, true
					}
					return 0, false
				})
				if !ok {
					bad = "the decision to recompute the hash depends on something other than the loop index"
				} else if reached != (k%8 == 0) {
					bad = fmt.Sprintf("for i=%d the hash is recomputed=%v; one hash covers exactly the eight numbers of a block (recompute iff i mod 8 = 0)", k, reached)
				}
			}
			// the hash result is kept in a local that the extraction reads
			for _, r := range *hcall.Referrers() {
				if st, ok := r.(*ssa.Store); ok {
					hashOut = st.Addr
				}
			}
		}
	}
	if bad == "" {
		// extraction: LE32 of hashOut[off : off+4], stored at out[i]
		var dec *ssa.Call
		allInstrs(f, func(in ssa.Instruction) {
			if call, ok := in.(*ssa.Call); ok && call.Call.StaticCallee() != nil {
				if call.Call.StaticCallee() == des || call.Call.StaticCallee().String() == "(encoding/binary.littleEndian).Uint32" {
					dec = call
				}
			}
		})
		if dec == nil {
			bad = "no little-endian decoding of four bytes of the hash"
		} else {
			arg := dec.Call.Args[len(dec.Call.Args)-1]
			sl, ok := stripConv(arg).(*ssa.Slice)
			fromHash := false
			if ok {
				switch x := sl.X.(type) {
				case *ssa.Alloc:
					fromHash = ssa.Value(x) == hashOut || func() bool {
						for _, r := range *x.Referrers() {
							if st, isSt := r.(*ssa.Store); isSt && st.Val == ssa.Value(hcall) {
								return true
							}
						}
						return false
					}()
				default:
					fromHash = false
				}
			}
			if !ok || sl.Low == nil || sl.High == nil || !fromHash {
				bad = "the decoded bytes are not a two-sided slice of the hash output"
			} else {
				bad = evalAll(sl.Low, func(k int64) int64 { return (4 * k) % 32 }, "offset")
				if bad == "" {
					bad = evalAll(sl.High, func(k int64) int64 { return (4*k)%32 + 4 }, "end offset")
				}
			}
			if bad == "" {
				// stored at out[i]
				st := false
				allInstrs(f, func(in ssa.Instruction) {
					if s, ok := in.(*ssa.Store); ok {
						if ia, ok := s.Addr.(*ssa.IndexAddr); ok && stripConv(ia.Index) == ssa.Value(i) {
							if _, isMk := ia.X.(*ssa.MakeSlice); isMk && (stripConv(s.Val) == ssa.Value(dec) || strings.Contains(exprStr(s.Val, shapeOpts), "Uint32(") || strings.Contains(exprStr(s.Val, shapeOpts), "DeserializeFixedLength(")) {
								st = true
							}
						}
					}
				})
				if !st {
					bad = "the decoded number is not stored at position i of the result"
				}
			}
		}
	}
	c.Check(bad == "", "C20.shuffle", key+" · counter and offsets", f.Pos(), fmt.Sprintf("(%s form) Blake2b(h ⌢ E_4(⌊i/8⌋)), bytes [4i mod 32, +4) decoded little-endian into r_i, for i = 0..%d", form, maxI), bad)
	c.Check(bad == "" || !strings.Contains(bad, "narrowed"), "C20.shuffle", key+" · counter width", f.Pos(), "block counter keeps at least 32 bits", bad)
	// the result is the freshly made sequence of the requested length
	rs := abbrMap(returnShapesO(f, shapeOpts))["ret"]
	okR := len(rs) >= 1
	for _, r := range rs {
		if r != "make([]types.U32, p1)" {
			okR = false
		}
	}
	c.Check(okR, "C20.shuffle", key+" · result", f.Pos(), "returns the freshly made sequence of the requested length", fmt.Sprintf("returns %v", rs))
}

// c20FisherYates: GP F.1 in its recursive or iterative form, as flow facts.
func c20FisherYates(c *Ctx, f *ssa.Function) {
	S := "shuffle."
	key := S + "FisherYatesShuffle"
	s0, r0 := f.Params[0], f.Params[1]
	fresh := func() map[ssa.Value]bool { return map[ssa.Value]bool{} }
	var isS, isR, isL func(v ssa.Value, seen map[ssa.Value]bool) bool
	isS = func(v ssa.Value, seen map[ssa.Value]bool) bool {
		v = stripConv(v)
		if v == ssa.Value(s0) || seen[v] {
			return true
		}
		seen[v] = true
		if ph, ok := v.(*ssa.Phi); ok {
			for _, e := range ph.Edges {
				if !isS(e, seen) {
					return false
				}
			}
			return true
		}
		return false
	}
	isR = func(v ssa.Value, seen map[ssa.Value]bool) bool {
		v = stripConv(v)
		if v == ssa.Value(r0) || seen[v] {
			return true
		}
		seen[v] = true
		switch x := v.(type) {
		case *ssa.Phi:
			for _, e := range x.Edges {
				if !isR(e, seen) {
					return false
				}
			}
			return true
		case *ssa.Slice:
			if k, ok := constInt(x.Low); ok && k == 1 && x.High == nil {
				return isR(x.X, seen)
			}
		}
		return false
	}
	isL = func(v ssa.Value, seen map[ssa.Value]bool) bool {
		v = stripConv(v)
		if seen[v] {
			return true
		}
		seen[v] = true
		switch x := v.(type) {
		case *ssa.Call:
			if b, ok := x.Call.Value.(*ssa.Builtin); ok && b.Name() == "len" {
				return isS(x.Call.Args[0], fresh())
			}
		case *ssa.Phi:
			for _, e := range x.Edges {
				if !isL(e, seen) {
					return false
				}
			}
			return true
		case *ssa.BinOp:
			if k, ok := constInt(x.Y); ok && k == 1 && x.Op == token.SUB {
				return isL(x.X, seen)
			}
		}
		return false
	}
	isLm1 := func(v ssa.Value) bool {
		b, ok := stripConv(v).(*ssa.BinOp)
		if !ok || b.Op != token.SUB {
			return false
		}
		k, ok := constInt(b.Y)
		return ok && k == 1 && isL(b.X, fresh())
	}
	// index = R[0] % u32(L)
	isIndex := func(v ssa.Value) bool {
		b, ok := stripConv(v).(*ssa.BinOp)
		if !ok || b.Op != token.REM {
			return false
		}
		ld, ok := stripConv(b.X).(*ssa.UnOp)
		if !ok || ld.Op != token.MUL {
			return false
		}
		ia, ok := ld.X.(*ssa.IndexAddr)
		if !ok || !isR(ia.X, fresh()) {
			return false
		}
		k, ok := constInt(ia.Index)
		return ok && k == 0 && isL(b.Y, fresh())
	}
	elem := func(v ssa.Value) (idx ssa.Value, ok bool) {
		ld, isLd := stripConv(v).(*ssa.UnOp)
		if !isLd || ld.Op != token.MUL {
			return nil, false
		}
		ia, isIA := ld.X.(*ssa.IndexAddr)
		if !isIA || !isS(ia.X, fresh()) {
			return nil, false
		}
		return ia.Index, true
	}
	// stores into s
	var swapA, swapB bool
	nst := 0
	allInstrs(f, func(in ssa.Instruction) {
		st, ok := in.(*ssa.Store)
		if !ok {
			return
		}
		ia, ok := st.Addr.(*ssa.IndexAddr)
		if !ok || !isS(ia.X, fresh()) {
			return
		}
		nst++
		vi, vok := elem(st.Val)
		switch {
		case isIndex(ia.Index) && vok && isLm1(vi):
			swapA = true // s[index] ← s[L-1]
		case isLm1(ia.Index) && vok && isIndex(vi):
			swapB = true // s[L-1] ← s[index]
		}
	})
	c.Check(swapA && swapB && nst == 2, "C20.shuffle", key+" · swap", f.Pos(), "s[r_0 mod L] and s[L−1] are exchanged (L the current length), nothing else of s is written", fmt.Sprintf("the selected element is not exchanged with the last one (s[index]←s[L−1]=%v, s[L−1]←s[index]=%v, stores into s=%d)", swapA, swapB, nst))
	// the selected element is emitted, in order
	var rec *ssa.Call
	allInstrs(f, func(in ssa.Instruction) {
		if call, ok := in.(*ssa.Call); ok && call.Call.StaticCallee() == f {
			rec = call
		}
	})
	emitted := false
	order := false
	allInstrs(f, func(in ssa.Instruction) {
		call, ok := in.(*ssa.Call)
		if !ok {
			return
		}
		if b, isB := call.Call.Value.(*ssa.Builtin); !isB || b.Name() != "append" || len(call.Call.Args) != 2 {
			return
		}
		sel := func(v ssa.Value) bool {
			es := appendedElems(v)
			if len(es) != 1 {
				return false
			}
			ix, ok := elem(es[0])
			return ok && isIndex(ix)
		}
		switch {
		case rec != nil && sel(call.Call.Args[0]) && stripConv(call.Call.Args[1]) == ssa.Value(rec):
			emitted, order = true, true // [selected] ⌢ F(rest)
		case rec == nil && sel(call.Call.Args[1]):
			emitted = true
			if _, isPhi := stripConv(call.Call.Args[0]).(*ssa.Phi); isPhi {
				order = true // output ⌢ [selected], round after round
			}
		}
	})
	c.Check(emitted && order, "C20.shuffle", key+" · output", f.Pos(), "each round's selected element s[r_0 mod L] is emitted, first round first", "the selected element is not emitted in round order")
	// the next round works on (s[:L−1], r[1:])
	next := false
	if rec != nil {
		a0, ok0 := stripConv(rec.Call.Args[0]).(*ssa.Slice)
		a1 := rec.Call.Args[1]
		next = ok0 && a0.Low == nil && a0.High != nil && isLm1(a0.High) && isS(a0.X, fresh()) && isR(a1, fresh()) && stripConv(a1) != ssa.Value(r0)
	} else {
		// loop: L decreases by one and r advances by one per round
		decL, advR := false, false
		allInstrs(f, func(in ssa.Instruction) {
			ph, ok := in.(*ssa.Phi)
			if !ok {
				return
			}
			for k, e := range ph.Edges {
				if !ph.Block().Dominates(ph.Block().Preds[k]) {
					continue
				}
				if isIntegerT(ph.Type()) && isL(ph, fresh()) {
					if b, isB := stripConv(e).(*ssa.BinOp); isB && b.Op == token.SUB && stripConv(b.X) == ssa.Value(ph) {
						if k1, ok := constInt(b.Y); ok && k1 == 1 {
							decL = true
						}
					}
				}
				if sl, isSl := stripConv(e).(*ssa.Slice); isSl && isR(ph, fresh()) && stripConv(sl.X) == ssa.Value(ph) {
					if k1, ok := constInt(sl.Low); ok && k1 == 1 && sl.High == nil {
						advR = true
					}
				}
			}
		})
		next = decL && advR
	}
	c.Check(next, "C20.shuffle", key+" · next round", f.Pos(), "continues on (s[:L−1], r[1:])", "the next round does not work on the first L−1 elements with the next random number")
	// empty input ↦ empty (non-nil) result
	rs := abbrMap(returnShapesO(f, shapeOpts))["ret"]
	okE := false
	for _, r := range rs {
		for _, a := range expandAlts(r) {
			if a == "[][:0]" || strings.HasPrefix(a, "make([]types.U32, 0") || strings.HasPrefix(a, "⊕(make([]types.U32, 0)") {
				okE = true
			}
		}
	}
	c.Check(okE, "C20.shuffle", key+" · empty", f.Pos(), "an empty sequence gives an empty (non-nil) result", fmt.Sprintf("the result for the empty sequence is %v", rs))
}

func mapShapes(m map[string][]string, f func(string) string) map[string][]string {
	out := map[string][]string{}
	for k, vs := range m {
		for _, v := range vs {
			out[k] = append(out[k], f(v))
		}
	}
	return out
}

// lenZeroEdges: the conditional edges of f on which len(p) = 0 is established (a comparison of len(p) with a
// constant whose solution set among lengths is exactly {0}).
func lenZeroEdges(f *ssa.Function, p ssa.Value) []edge {
	return lenZeroEdgesOf(f, func(x ssa.Value) bool { return resolveLocal(stripConv(x)) == p })
}

func lenZeroEdgesOf(f *ssa.Function, isSubject func(ssa.Value) bool) []edge {
	isLen := func(v ssa.Value) bool {
		call, ok := stripConv(v).(*ssa.Call)
		if !ok {
			return false
		}
		b, isB := call.Call.Value.(*ssa.Builtin)
		return isB && b.Name() == "len" && len(call.Call.Args) == 1 && isSubject(call.Call.Args[0])
	}
	return condEdges(f, func(v ssa.Value) (bool, bool) {
		b, ok := v.(*ssa.BinOp)
		if !ok {
			return false, false
		}
		op, x, y := b.Op, b.X, b.Y
		if isLen(y) {
			x, y = y, x
			op = map[token.Token]token.Token{token.LSS: token.GTR, token.GTR: token.LSS, token.LEQ: token.GEQ, token.GEQ: token.LEQ, token.EQL: token.EQL, token.NEQ: token.NEQ}[op]
		}
		k, isC := constInt(y)
		if !isLen(x) || !isC {
			return false, false
		}
		switch {
		case op == token.EQL && k == 0, op == token.LEQ && k == 0, op == token.LSS && k == 1:
			return true, true
		case op == token.NEQ && k == 0, op == token.GTR && k == 0, op == token.GEQ && k == 1:
			return true, false
		}
		return false, false
	})
}

// isEmptySliceValue: a slice of length 0 (nil, make(T, 0), x[:0] / x[k:k]).
func isEmptySliceValue(v ssa.Value) bool {
	switch x := stripConv(v).(type) {
	case *ssa.Const:
		return x.Value == nil
	case *ssa.MakeSlice:
		k, ok := constInt(x.Len)
		return ok && k == 0
	case *ssa.Slice:
		if x.High != nil {
			h, ok := constInt(x.High)
			if ok && h == 0 {
				return true
			}
			if x.Low != nil {
				l, okl := constInt(x.Low)
				return ok && okl && l == h
			}
		}
		if a, ok := x.X.(*ssa.Alloc); ok {
			if at, isArr := derefType(a.Type()).Underlying().(*types.Array); isArr && at.Len() == 0 {
				return true
			}
		}
	}
	return false
}
