package main

import (
	"fmt"
	"go/token"

	"golang.org/x/tools/go/ssa"
)

// c34Tally decides "v = Σ over the preimages p with p.Requester = key of delta(p)" from the construction of the
// table v is read from, wherever the table is built (in f or in a helper that returns it) and whether it holds
// one record per requester or one number:
//
//   - v is the entry under key (optionally one field of it) of a map made in f or made and returned by a helper
//     that receives the preimage list;
//   - every write of that map happens in a loop that visits every element of the list exactly once (index from
//     the first to the last element by 1, left only at the end), on every iteration, under the element's
//     Requester, and stores old + delta where old is the entry (field) read under the same key;
//   - the map is not handed to any other function before it is read.
//
// delta: "1" (count) or "len" (u32(len(element.Blob))).
func c34Tally(f *ssa.Function, v ssa.Value, wantKey, listShape, delta string) (bool, string) {
	lk, fi := tallyLookup(v)
	if lk == nil {
		return false, "the value is not an entry of a tally table"
	}
	if k := exprStr(lk.Index, shapeOpts); k != wantKey {
		return false, "the entry is read under " + k + ", not under the service"
	}
	m := resolveLocal(stripConv(lk.X))
	owner, P := f, listShape
	var mk *ssa.MakeMap
	switch x := m.(type) {
	case *ssa.MakeMap:
		mk = x
	case *ssa.Extract, *ssa.Call:
		idx := 0
		var call *ssa.Call
		if ex, ok := x.(*ssa.Extract); ok {
			idx = ex.Index
			call, _ = ex.Tuple.(*ssa.Call)
		} else {
			call = x.(*ssa.Call)
		}
		if call == nil {
			return false, "the table is not made here nor returned by a helper"
		}
		g := call.Call.StaticCallee()
		if g == nil || len(g.Blocks) == 0 || !inModule(g) {
			return false, "the table comes from a call that is not a module helper"
		}
		pi := -1
		for i, a := range call.Call.Args {
			if exprStr(a, shapeOpts) == listShape {
				pi = i
			}
		}
		if pi < 0 {
			return false, "the helper building the table does not receive the preimage list"
		}
		owner, P = g, fmt.Sprintf("p%d", pi)
		n := 0
		bad := false
		allInstrs(g, func(in ssa.Instruction) {
			r, isR := in.(*ssa.Return)
			if !isR {
				return
			}
			rs := retResults(r)
			if idx >= len(rs) {
				bad = true
				return
			}
			n++
			y, isMk := resolveLocal(stripConv(rs[idx])).(*ssa.MakeMap)
			if !isMk || (mk != nil && mk != y) {
				bad = true
				return
			}
			mk = y
		})
		if bad || n == 0 || mk == nil {
			return false, "the helper does not return a table it made"
		}
	default:
		return false, "the table is not made here nor returned by a helper"
	}
	isTable := func(x ssa.Value) bool { return resolveLocal(stripConv(x)) == ssa.Value(mk) }
	updates := 0
	why := ""
	fail := func(s string) {
		if why == "" {
			why = s
		}
	}
	allInstrs(owner, func(in ssa.Instruction) {
		switch x := in.(type) {
		case *ssa.MapUpdate:
			if !isTable(x.Map) {
				return
			}
			updates++
			if k := exprStr(x.Key, shapeOpts); k != P+"[*].Requester" {
				fail("a table entry is written under " + k + ", not under the preimage's requester")
				return
			}
			if !visitsEveryElement(x, P) {
				fail("the tally loop does not visit every preimage exactly once (or skips the update on some iteration)")
				return
			}
			if !tallyStep(x, fi, isTable, P, delta) {
				fail("an update does not store the previous entry plus " + map[string]string{"1": "one", "len": "the blob length"}[delta])
			}
		case ssa.CallInstruction:
			if b, isB := x.Common().Value.(*ssa.Builtin); isB {
				if (b.Name() == "delete" || b.Name() == "clear") && isTable(x.Common().Args[0]) {
					fail("entries are removed from the table")
				}
				return
			}
			for _, a := range x.Common().Args {
				if isTable(a) {
					fail("the table is handed to another function")
				}
			}
		}
	})
	if updates == 0 {
		fail("the table is never written")
	}
	return why == "", why
}

// tallyLookup: v = m[k] or m[k].field → the lookup and the field index (−1: the entry itself).
func tallyLookup(v ssa.Value) (*ssa.Lookup, int) {
	v = stripConv(v)
	fi := -1
	switch x := v.(type) {
	case *ssa.Field:
		fi, v = x.Field, stripConv(x.X)
	case *ssa.UnOp:
		if fa, ok := x.X.(*ssa.FieldAddr); ok && x.Op == token.MUL {
			if a, isA := fa.X.(*ssa.Alloc); isA {
				if sv := singleStore(a); sv != nil {
					fi, v = fa.Field, stripConv(sv)
				}
			}
		}
	}
	v = resolveLocal(v)
	if ex, ok := v.(*ssa.Extract); ok && ex.Index == 0 {
		v = ex.Tuple
	}
	lk, _ := v.(*ssa.Lookup)
	if lk == nil {
		return nil, -1
	}
	return lk, fi
}

// visitsEveryElement: at is executed once for every element of the list rendered P: it lies in a loop whose
// index runs from the first element by 1 while index < len(P), the loop is left only by that test, and at's block
// is passed on every way round.
func visitsEveryElement(at ssa.Instruction, P string) bool {
	h, in := natLoop(at.Block())
	if h == nil {
		return false
	}
	iff, ok := h.Instrs[len(h.Instrs)-1].(*ssa.If)
	if !ok {
		return false
	}
	cond, ok := iff.Cond.(*ssa.BinOp)
	if !ok || cond.Op != token.LSS {
		return false
	}
	if lc, isC := stripConv(cond.Y).(*ssa.Call); !isC {
		return false
	} else if b, isB := lc.Call.Value.(*ssa.Builtin); !isB || b.Name() != "len" || exprStr(lc.Call.Args[0], shapeOpts) != P {
		return false
	}
	// index: phi from 0 by 1, or (phi from −1) + 1 stepping to itself (range form)
	idx := stripConv(cond.X)
	okIdx := false
	if p, isP := idx.(*ssa.Phi); isP && p.Block() == h {
		okIdx = counterFrom(p, h, in, 0, nil)
	} else if b, isB := idx.(*ssa.BinOp); isB && b.Op == token.ADD && b.Block() == h {
		if p, isP := stripConv(b.X).(*ssa.Phi); isP && p.Block() == h {
			if k, isC := constInt(b.Y); isC && k == 1 {
				okIdx = counterFrom(p, h, in, -1, b)
			}
		}
	}
	if !okIdx || !in[h.Succs[0]] || in[h.Succs[1]] {
		return false
	}
	for b := range in {
		for _, s := range b.Succs {
			if !in[s] && b != h {
				return false // break / return out of the loop
			}
		}
	}
	for _, p := range h.Preds {
		if in[p] && !at.Block().Dominates(p) {
			return false
		}
	}
	return true
}

// counterFrom: phi p of header h enters with start and comes round as p+1 (or as the given step value).
func counterFrom(p *ssa.Phi, h *ssa.BasicBlock, in map[*ssa.BasicBlock]bool, start int64, step ssa.Value) bool {
	for i, e := range p.Edges {
		if !in[h.Preds[i]] {
			if k, ok := constInt(e); !ok || k != start {
				return false
			}
			continue
		}
		if step != nil {
			if stripConv(e) != step {
				return false
			}
			continue
		}
		b, ok := stripConv(e).(*ssa.BinOp)
		if !ok || b.Op != token.ADD || stripConv(b.X) != ssa.Value(p) {
			return false
		}
		if k, isC := constInt(b.Y); !isC || k != 1 {
			return false
		}
	}
	return true
}

// tallyStep: the update stores (in field fi of the entry, or as the entry) old + delta, old being the entry (field)
// read from the same table under the same key.
func tallyStep(u *ssa.MapUpdate, fi int, isTable func(ssa.Value) bool, P, delta string) bool {
	isOldEntry := func(v ssa.Value) bool {
		v = stripConv(v)
		if ex, ok := v.(*ssa.Extract); ok && ex.Index == 0 {
			v = ex.Tuple
		}
		lk, ok := v.(*ssa.Lookup)
		return ok && isTable(lk.X) && sameExpr(lk.Index, u.Key)
	}
	isDelta := func(v ssa.Value) bool {
		if delta == "1" {
			k, ok := constInt(v)
			return ok && k == 1
		}
		c, ok := stripConv(v).(*ssa.Call)
		if !ok {
			return false
		}
		b, isB := c.Call.Value.(*ssa.Builtin)
		return isB && b.Name() == "len" && exprStr(c.Call.Args[0], shapeOpts) == P+"[*].Blob"
	}
	isSum := func(v ssa.Value, isOld func(ssa.Value) bool) bool {
		b, ok := stripIntConv(v).(*ssa.BinOp)
		if !ok || b.Op != token.ADD {
			return false
		}
		return isOld(b.X) && isDelta(b.Y) || isOld(b.Y) && isDelta(b.X)
	}
	if fi < 0 {
		return isSum(u.Value, isOldEntry)
	}
	// record form: the stored record is a local copy of the old entry with field fi replaced by old.fi + delta
	ld, ok := stripConv(u.Value).(*ssa.UnOp)
	if !ok || ld.Op != token.MUL {
		return false
	}
	a, ok := ld.X.(*ssa.Alloc)
	if !ok {
		return false
	}
	// straight-line reading of the block: what field fi of the local holds when the record is stored
	state := ""                   // "", "old", "sum"
	loads := map[ssa.Value]bool{} // loads of field fi while it still held the old value
	for _, in := range u.Block().Instrs {
		if in == ssa.Instruction(u) {
			break
		}
		switch x := in.(type) {
		case *ssa.Store:
			if x.Addr == ssa.Value(a) {
				if isOldEntry(x.Val) {
					state = "old"
				} else {
					state = ""
				}
				continue
			}
			if fa, isFA := x.Addr.(*ssa.FieldAddr); isFA && fa.X == ssa.Value(a) && fa.Field == fi {
				if state == "old" && isSum(x.Val, func(v ssa.Value) bool { return loads[stripConv(v)] }) {
					state = "sum"
				} else {
					state = ""
				}
			}
		case *ssa.UnOp:
			if fa, isFA := x.X.(*ssa.FieldAddr); isFA && x.Op == token.MUL && fa.X == ssa.Value(a) && fa.Field == fi && state == "old" {
				loads[x] = true
			}
		}
	}
	return state == "sum"
}
