package main

import (
	"golang.org/x/tools/go/ssa"
)

// lockSpec classifies instructions with respect to one abstract lock.
type lockSpec struct {
	acquire func(in ssa.Instruction) bool // non-deferred acquire
	release func(in ssa.Instruction) bool // non-deferred release
}

type lockState struct{ must, may bool }

// lockStates runs a forward must/may-held dataflow for one lock over fn and
// returns the state holding immediately BEFORE each instruction. A deferred
// release keeps the lock held until the function returns.
func lockStates(fn *ssa.Function, spec lockSpec, entryHeld bool) map[ssa.Instruction]lockState {
	in := map[*ssa.BasicBlock]lockState{}
	out := map[*ssa.BasicBlock]lockState{}
	have := map[*ssa.BasicBlock]bool{}
	transfer := func(b *ssa.BasicBlock, s lockState, rec map[ssa.Instruction]lockState) lockState {
		for _, instr := range b.Instrs {
			if rec != nil {
				rec[instr] = s
			}
			if _, isDefer := instr.(*ssa.Defer); isDefer {
				continue
			}
			if _, isGo := instr.(*ssa.Go); isGo {
				continue
			}
			if spec.acquire(instr) {
				s = lockState{true, true}
			} else if spec.release(instr) {
				s = lockState{false, false}
			}
		}
		return s
	}
	changed := true
	for iter := 0; changed && iter < 1000; iter++ {
		changed = false
		for _, b := range fn.Blocks {
			var s lockState
			if b == fn.Blocks[0] {
				s = lockState{entryHeld, entryHeld}
			} else {
				first := true
				for _, p := range b.Preds {
					if !have[p] {
						continue
					}
					if first {
						s = out[p]
						first = false
					} else {
						s.must = s.must && out[p].must
						s.may = s.may || out[p].may
					}
				}
				if first {
					// no processed predecessor yet (or recover block): unknown -> conservative
					if len(b.Preds) == 0 {
						s = lockState{false, entryHeld}
					} else {
						continue
					}
				}
			}
			o := transfer(b, s, nil)
			if !have[b] || in[b] != s || out[b] != o {
				have[b] = true
				in[b] = s
				out[b] = o
				changed = true
			}
		}
	}
	rec := map[ssa.Instruction]lockState{}
	for _, b := range fn.Blocks {
		if have[b] {
			transfer(b, in[b], rec)
		}
	}
	return rec
}
