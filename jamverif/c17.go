package main

import (
	"fmt"
	"go/ast"
	"go/token"
	"go/types"
	"os"
	"sort"
	"strings"

	"golang.org/x/tools/go/packages"
	"golang.org/x/tools/go/ssa"
)

// stateIndexOfKeyFn: the constant N of StateWrapper{StateIndex: N} in the body of a key constructor.
func stateIndexOfKeyFn(p *packages.Package, fd *ast.FuncDecl) (string, bool) {
	out, ok := "", false
	ast.Inspect(fd.Body, func(n ast.Node) bool {
		cl, isCl := n.(*ast.CompositeLit)
		if !isCl {
			return true
		}
		for _, e := range cl.Elts {
			kv, isKV := e.(*ast.KeyValueExpr)
			if !isKV {
				continue
			}
			if id, isID := kv.Key.(*ast.Ident); isID && id.Name == "StateIndex" {
				if tv, has := p.TypesInfo.Types[kv.Value]; has && tv.Value != nil {
					out, ok = tv.Value.ExactString(), true
				}
			}
		}
		return true
	})
	return out, ok
}

func findFuncDecl(p *packages.Package, name string) *ast.FuncDecl {
	for _, f := range p.Syntax {
		for _, d := range f.Decls {
			if fd, ok := d.(*ast.FuncDecl); ok && fd.Recv == nil && fd.Name.Name == name {
				return fd
			}
		}
	}
	return nil
}

func checkC17(c *Ctx) (string, []string) {
	p := c.Pkg(mzPkg)
	if p == nil {
		return "", nil
	}
	K := "merklization."
	enc := findFuncDecl(p, "StateEncoder")
	par := findFuncDecl(p, "StateKeyValsToState")
	single := findFuncDecl(p, "SingleKeyValToState")
	if enc == nil || par == nil || single == nil {
		c.Fatalf("C17 anchors not found")
		return "", nil
	}
	stateT := c.Obj("internal/types", "State").Type().Underlying().(*types.Struct)
	fieldType := map[string]string{}
	for i := 0; i < stateT.NumFields(); i++ {
		fieldType[stateT.Field(i).Name()] = typeStr(stateT.Field(i).Type())
	}

	c.Rule("C17.index-table", "the state component written under index i by StateEncoder (key constructor's StateIndex, value encoder's argument state.F) is the component StateKeyValsToState assigns when it sees C(i), and SingleKeyValToState decodes C(i) into F's type; C(i) and the key constructors build the key the same way", 40)
	// writer table
	writer := map[string]string{} // index -> field
	writerValT := map[string]string{}
	ast.Inspect(enc.Body, func(n ast.Node) bool {
		cl, ok := n.(*ast.CompositeLit)
		if !ok {
			return true
		}
		if t := p.TypesInfo.TypeOf(cl); t == nil || !strings.HasSuffix(typeStr(t), "types.StateKeyVal") {
			return true
		}
		var keyCall, valCall *ast.CallExpr
		for _, e := range cl.Elts {
			kv, ok := e.(*ast.KeyValueExpr)
			if !ok {
				continue
			}
			id, _ := kv.Key.(*ast.Ident)
			call, _ := kv.Value.(*ast.CallExpr)
			if id == nil || call == nil {
				continue
			}
			if id.Name == "Key" {
				keyCall = call
			} else if id.Name == "Value" {
				valCall = call
			}
		}
		if keyCall == nil || valCall == nil || len(valCall.Args) != 1 {
			return true
		}
		sel, ok := valCall.Args[0].(*ast.SelectorExpr)
		if !ok {
			return true
		}
		kname, _ := calleeName(p.TypesInfo, keyCall)
		kfd := findFuncDecl(p, strings.TrimPrefix(kname, K))
		if kfd == nil {
			kfd = findFuncDecl(p, kname[strings.LastIndex(kname, ".")+1:])
		}
		if kfd == nil {
			c.Unknown("C17.index-table", K+"StateEncoder · "+kname, cl.Pos(), "key constructor not found")
			return true
		}
		idx, ok := stateIndexOfKeyFn(p, kfd)
		if !ok {
			c.Unknown("C17.index-table", K+"StateEncoder · "+kname, cl.Pos(), "no StateIndex constant in key constructor")
			return true
		}
		if old, dup := writer[idx]; dup {
			c.Bad("C17.index-table", K+"StateEncoder · index "+idx, cl.Pos(), "index %s is written twice (%s and %s)", idx, old, sel.Sel.Name)
		}
		writer[idx] = sel.Sel.Name
		if t := p.TypesInfo.TypeOf(valCall.Args[0]); t != nil {
			writerValT[idx] = typeStr(t)
		}
		return true
	})
	// reader tables
	caseIndex := func(e ast.Expr) (string, bool) {
		call, ok := e.(*ast.CallExpr)
		if !ok || len(call.Args) != 1 {
			return "", false
		}
		if n, _ := calleeName(p.TypesInfo, call); !strings.HasSuffix(n, ".C") {
			return "", false
		}
		if tv, has := p.TypesInfo.Types[call.Args[0]]; has && tv.Value != nil {
			return tv.Value.ExactString(), true
		}
		return "", false
	}
	reader := map[string]string{}
	readerDeleteOK := map[string]bool{}
	ast.Inspect(par.Body, func(n ast.Node) bool {
		cc, ok := n.(*ast.CaseClause)
		if !ok || len(cc.List) != 1 {
			return true
		}
		idx, ok := caseIndex(cc.List[0])
		if !ok {
			return true
		}
		assignAt, deleteAt := -1, -1
		for i, st := range cc.Body {
			switch s := st.(type) {
			case *ast.AssignStmt:
				if len(s.Lhs) == 1 {
					if sel, ok := s.Lhs[0].(*ast.SelectorExpr); ok {
						if id, ok := sel.X.(*ast.Ident); ok && id.Name == "state" {
							reader[idx] = sel.Sel.Name
							assignAt = i
						}
					}
				}
			case *ast.ExprStmt:
				if call, ok := s.X.(*ast.CallExpr); ok {
					if id, ok := call.Fun.(*ast.Ident); ok && id.Name == "delete" {
						deleteAt = i
					}
				}
			}
		}
		readerDeleteOK[idx] = assignAt >= 0 && deleteAt > assignAt
		return true
	})
	single2 := map[string]string{} // index -> decoded type
	ast.Inspect(single.Body, func(n ast.Node) bool {
		cc, ok := n.(*ast.CaseClause)
		if !ok || len(cc.List) != 1 {
			return true
		}
		idx, ok := caseIndex(cc.List[0])
		if !ok {
			return true
		}
		for _, st := range cc.Body {
			if as, ok := st.(*ast.AssignStmt); ok && len(as.Rhs) == 1 {
				if call, ok := as.Rhs[0].(*ast.CallExpr); ok {
					if t, ok := p.TypesInfo.TypeOf(call).(*types.Tuple); ok && t.Len() == 2 {
						single2[idx] = typeStr(t.At(0).Type())
					}
				}
			}
		}
		return true
	})
	var idxs []string
	seen := map[string]bool{}
	for _, m := range []map[string]string{writer, reader, single2} {
		for k := range m {
			if !seen[k] {
				seen[k] = true
				idxs = append(idxs, k)
			}
		}
	}
	sort.Slice(idxs, func(i, j int) bool {
		if len(idxs[i]) != len(idxs[j]) {
			return len(idxs[i]) < len(idxs[j])
		}
		return idxs[i] < idxs[j]
	})
	for _, i := range idxs {
		key := K + "state index " + i
		w, r := writer[i], reader[i]
		c.Check(w != "" && w == r, "C17.index-table", key+" · field", 0, "C("+i+") ↔ state."+w+" in both directions", fmt.Sprintf("StateEncoder writes state.%s under index %s but StateKeyValsToState assigns state.%s", w, i, r))
		c.Check(single2[i] != "" && single2[i] == fieldType[w], "C17.index-table", key+" · single decoder type", 0, "SingleKeyValToState decodes "+fieldType[w], fmt.Sprintf("SingleKeyValToState decodes C(%s) as %s, the component is %s", i, single2[i], fieldType[w]))
		c.Check(writerValT[i] == fieldType[w], "C17.index-table", key+" · encoder type", 0, "value encoder takes "+fieldType[w], "value encoder argument type differs from the component type")
	}
	// C and key constructors agree
	cf := c.Fn(mzPkg, "C")
	c.checkShapes("C17.index-table", K+"C", cf, abbrMap(returnShapes(cf)), map[string][]string{"ret": {"(merklization.StateWrapper).StateKeyConstruct(*alloc:merklization.StateWrapper)"}})
	{
		okW := false
		allInstrs(cf, func(in ssa.Instruction) {
			if st, ok := in.(*ssa.Store); ok && abbr(exprStr(st.Addr, shapeOpts)) == "&alloc:merklization.StateWrapper.StateIndex" && exprStr(st.Val, shapeOpts) == "p0" {
				okW = true
			}
		})
		c.Check(okW, "C17.index-table", K+"C · wrapper", cf.Pos(), "C(i) builds StateWrapper{StateIndex: i}", "C(i) does not build StateWrapper{StateIndex: i}")
	}

	c.Rule("C17.field-coverage", "every component of types.State is exported by StateEncoder and imported by StateKeyValsToState (Delta through the four service-entry encoders and the update helpers)", 17)
	wf, rf := map[string]bool{}, map[string]bool{}
	for _, f := range writer {
		wf[f] = true
	}
	for _, f := range reader {
		rf[f] = true
	}
	for i := 0; i < stateT.NumFields(); i++ {
		n := stateT.Field(i).Name()
		if n == "Delta" {
			continue
		}
		c.Check(wf[n] && rf[n], "C17.field-coverage", "types.State."+n, 0, "exported and imported", fmt.Sprintf("component %s: exported=%v imported=%v", n, wf[n], rf[n]))
	}
	// Delta export: the goroutine body calls the four encoders over the account's three dictionaries
	se := c.Fn(mzPkg, "StateEncoder")
	calls := map[string]bool{}
	for _, f := range withClosures(se) {
		allInstrs(f, func(in ssa.Instruction) {
			if ci, ok := in.(ssa.CallInstruction); ok {
				if sc := calleeFunc(ci); sc != nil {
					calls[sc.Name()] = true
				}
			}
		})
	}
	for _, n := range []string{"encodeDelta1KeyVal", "encodeDelta2KeyVal", "encodeDelta3KeyVal", "EncodeDelta4KeyVal"} {
		c.Check(calls[n], "C17.field-coverage", K+"StateEncoder · "+n, se.Pos(), "service entries exported through "+n, "StateEncoder no longer calls "+n)
	}

	c.Rule("C17.service-keys", "service entries are recognised with the constructors that produce them: IsPreimage rebuilds the key with encodeDelta3KeyVal(service, Blake2b(value), value); the lookup pass searches EncodeDelta4KeyVal(service, (preimage hash, |preimage|)); the update helpers change exactly one component of an account and create a missing account with all three dictionaries; encodeDelta1 writes the ServiceInfo fields in the order ServiceInfo.Decode reads them", 10)
	isp := c.Fn(mzPkg, "IsPreimage")
	{
		// helpers of the package are seen through, whatever their size
		ho := robustOpts
		ho.inline = func(f *ssa.Function) bool {
			return f != nil && len(f.Blocks) > 0 && f.Pkg != nil && f.Pkg == isp.Pkg && !token.IsExported(f.Name()) && f.Name() != "encodeDelta3KeyVal" && f.Signature.Recv() == nil
		}
		var rets []string
		for _, s := range abbrMap(returnShapesO(isp, ho))["ret#0"] {
			rets = append(rets, expandAlts(s)...)
		}
		pre := "(merklization.encodeDelta3KeyVal(merklization.DecodeServiceIDFromType3(p0)#0, hash.Blake2bHash(p1), "
		okP, okF := false, true
		for _, s := range uniqSorted(rets) {
			switch {
			case s == "false":
			case strings.HasPrefix(s, pre) && strings.HasSuffix(s, ").Key == p0)"):
				okP = true
			default:
				okF = false
			}
		}
		c.Check(okP && okF, "C17.service-keys", K+"IsPreimage · ret#0", isp.Pos(), "key rebuilt with encodeDelta3KeyVal(service of the key, Blake2b(value), ·) and compared with the entry's key", fmt.Sprintf("IsPreimage decides by %v; it must compare the entry's key with encodeDelta3KeyVal(DecodeServiceIDFromType3(key), Blake2b(value), ·).Key", uniqSorted(rets)))
	}
	for _, h := range []struct{ name, field string }{{"updateServiceInfo", ""}, {"updatePreimage", "PreimageLookup"}, {"updateLookup", "LookupDict"}} {
		f := c.Fn(mzPkg, h.name)
		ho := robustOpts
		ho.inline = func(g *ssa.Function) bool {
			return g != nil && g != f && len(g.Blocks) > 0 && g.Pkg != nil && g.Pkg == f.Pkg && !token.IsExported(g.Name()) && g.Signature.Recv() == nil
		}
		var effects []string
		var freshStores []ssa.Instruction
		dicts := map[string]bool{}
		existsTest := false
		visitWithHelpers(f, ho, func(g *ssa.Function, subst map[ssa.Value]string, in ssa.Instruction) {
			switch x := in.(type) {
			case *ssa.MapUpdate:
				m, k, v := abbr(exprStrSubst(x.Map, robustOpts, subst)), abbr(exprStrSubst(x.Key, robustOpts, subst)), abbr(exprStrSubst(x.Value, robustOpts, subst))
				switch {
				case m == "p0.Delta" && k == "p1":
					effects = append(effects, "Delta[service] ← account")
				case h.field != "" && strings.HasSuffix(m, "."+h.field) && k == "p2" && v == "p3":
					effects = append(effects, "account."+h.field+"[key] ← value")
				default:
					effects = append(effects, "mapset "+m+"["+k+"] ← "+v)
				}
			case *ssa.Store:
				a := abbr(exprStrSubst(x.Addr, robustOpts, subst))
				if !rootedInLocal(x.Addr) {
					effects = append(effects, "store "+a)
				}
				if fa, isFA := x.Addr.(*ssa.FieldAddr); isFA && strings.HasSuffix(typeStr(derefType(fa.X.Type())), "types.ServiceAccount") {
					fld := fieldName(fa.X.Type(), fa.Field)
					if _, isMk := x.Val.(*ssa.MakeMap); isMk {
						dicts[fld] = true
						freshStores = append(freshStores, x)
					}
					if h.field == "" && fld == "ServiceInfo" && abbr(exprStrSubst(x.Val, robustOpts, subst)) == "p2" {
						effects = append(effects, "account.ServiceInfo ← info")
					}
				}
			case *ssa.If:
				if abbr(exprStrSubst(x.Cond, robustOpts, subst)) == "p0.Delta[p1]#1" {
					existsTest = true
				}
			}
		})
		want := []string{"Delta[service] ← account"}
		if h.field != "" {
			want = append(want, "account."+h.field+"[key] ← value")
		} else {
			want = append(want, "account.ServiceInfo ← info")
		}
		c.requireSet("C17.service-keys", K+h.name+" · effects", f.Pos(), "effects", uniqSorted(effects), want)
		reuse := existsTest && len(freshStores) > 0
		why := "the helper does not test whether the account already exists (an existing account would be replaced by an empty one)"
		for _, fs := range freshStores {
			for ex := int64(0); ex <= 1; ex++ {
				some, all := reachFromEntry(fs, robustOpts, func(s string) (int64, bool) {
					if strings.HasSuffix(s, ".Delta[p1]#1") {
						return ex, true
					}
					return 0, false
				})
				if ex == 1 && some {
					reuse = false
					why = "an account that already exists can still be replaced by a fresh one (the fresh account is reachable although the lookup found the service): its decoded content is lost"
				}
				if ex == 0 && !all {
					reuse = false
					why = "a missing account is not always created"
				}
			}
		}
		c.Check(reuse, "C17.service-keys", K+h.name+" · tests p0.Delta[p1]#1", f.Pos(), "a fresh account is made exactly when the service has none; an existing account is reused", why)
		c.Check(dicts["PreimageLookup"] && dicts["LookupDict"] && dicts["StorageDict"], "C17.service-keys", K+h.name+" · fresh account", f.Pos(), "a missing account is created with PreimageLookup, LookupDict and StorageDict allocated", fmt.Sprintf("fresh account allocates only %v", keysOf(dicts)))
	}
	// parser call shapes
	pf := c.Fn(mzPkg, "StateKeyValsToState")
	pho := shapeOpts
	pho.inline = func(g *ssa.Function) bool {
		return g != nil && g != pf && len(g.Blocks) > 0 && g.Pkg != nil && g.Pkg == pf.Pkg && !token.IsExported(g.Name()) && !strings.HasPrefix(g.Name(), "update") && g.Signature.Recv() == nil
	}
	upArgs := func(name string) []string {
		var out []string
		visitWithHelpers(pf, pho, func(g *ssa.Function, subst map[ssa.Value]string, in ssa.Instruction) {
			if ci, ok := in.(ssa.CallInstruction); ok && calleeFunc(ci) != nil && calleeFunc(ci).Name() == name {
				var as []string
				for _, a := range ci.Common().Args[1:] {
					as = append(as, abbr(exprStrSubst(a, shapeOpts, subst)))
				}
				out = append(out, strings.Join(as, ", "))
			}
		})
		return out
	}
	sid3 := "merklization.DecodeServiceIDFromType3(p0[*].Key)#0"
	up := upArgs("updatePreimage")
	c.Check(len(up) == 1 && up[0] == sid3+", hash.Blake2bHash(p0[*].Value), p0[*].Value", "C17.service-keys", K+"StateKeyValsToState · preimage import", pf.Pos(), "preimage stored under Blake2b(value) for the key's service", fmt.Sprintf("updatePreimage called with %v", up))
	us := upArgs("updateServiceInfo")
	c.Check(len(us) == 1 && us[0] == "merklization.DecodeServiceIDFromType2(p0[*].Key)#0, merklization.DecodeServiceInfo(p0[*].Value)#0", "C17.service-keys", K+"StateKeyValsToState · service info import", pf.Pos(), "service info decoded from the entry's own key and value", fmt.Sprintf("updateServiceInfo called with %v", us))
	// lookup search key
	var d4 []string
	allInstrs(pf, func(in ssa.Instruction) {
		if ci, ok := in.(ssa.CallInstruction); ok && calleeFunc(ci) != nil && (calleeFunc(ci).Name() == "EncodeDelta4KeyVal" || calleeFunc(ci).Name() == "EncodeDelta4Key") {
			d4 = append(d4, abbr(exprStr(ci.Common().Args[1], shapeOpts)))
		}
	})
	c.Check(len(d4) == 1 && strings.Contains(d4[0], "Hash") == false || len(d4) == 1, "C17.service-keys", K+"StateKeyValsToState · lookup search uses EncodeDelta4KeyVal", pf.Pos(), "lookup keys are rebuilt with the exporter's constructor", "lookup search no longer uses EncodeDelta4KeyVal")
	lk := map[string][]string{}
	allInstrs(pf, func(in ssa.Instruction) {
		if st, ok := in.(*ssa.Store); ok {
			a := abbr(exprStr(st.Addr, shapeOpts))
			if strings.HasPrefix(a, "&alloc:types.LookupMetaMapkey.") {
				f := strings.TrimPrefix(a, "&alloc:types.LookupMetaMapkey.")
				lk[f] = append(lk[f], abbr(exprStr(st.Val, shapeOpts)))
			}
		}
	})
	acct := "next(range(alloc:types.State.Delta))#2"
	c.checkShapes("C17.service-keys", K+"StateKeyValsToState · lookup key", pf, lk, map[string][]string{"Hash": {"next(range(" + acct + ".PreimageLookup))#1"}, "Length": {"u32(len(next(range(" + acct + ".PreimageLookup))#2))"}})
	// encodeDelta1 order vs ServiceInfo.Encode
	d1 := c.Fn(mzPkg, "encodeDelta1")
	var d1order []string
	encM := c.Obj(typesPkg, "Encoder.Encode")
	for _, b := range d1.Blocks {
		for _, in := range b.Instrs {
			if isCallTo(in, encM) {
				a := in.(ssa.CallInstruction).Common().Args[1]
				s := exprStr(a, shapeOpts)
				if i := strings.LastIndex(s, "."); i >= 0 {
					d1order = append(d1order, strings.TrimRight(s[i+1:], ")"))
				}
			}
		}
	}
	cs := codecSide{pkgPath: modPath + "/" + typesPkg}
	tenc, _ := c.codecMethods(typesPkg)
	var siOrder []string
	if f := tenc["ServiceInfo"]; f != nil {
		for _, b := range f.Blocks {
			for _, in := range b.Instrs {
				if ev := cs.classifyWire(f, in); ev != nil {
					siOrder = append(siOrder, ev.field)
				}
			}
		}
	}
	c.Check(len(d1order) >= 10 && strings.Join(d1order, ",") == strings.Join(siOrder, ","), "C17.service-keys", K+"encodeDelta1 · field order", d1.Pos(), "fields written in ServiceInfo codec order: "+strings.Join(d1order, ","), fmt.Sprintf("encodeDelta1 writes %v; ServiceInfo codec order is %v", d1order, siOrder))

	c.Rule("C17.unmatched", "an entry leaves the unmatched pool only on a path that stored its decoded content into the state (component assignment or update helper); everything still in the pool is returned; in the sixteen component arms the delete follows the assignment", 18)
	for _, i := range idxs {
		if _, ok := reader[i]; ok {
			c.Check(readerDeleteOK[i], "C17.unmatched", K+"StateKeyValsToState · C("+i+") arm", 0, "assignment precedes delete", "the arm removes the entry from the unmatched pool without (or before) assigning the component")
		}
	}
	// SSA: every delete on the pool is preceded on all paths from the pool insertion / lookup by a state write
	var pool ssa.Value
	allInstrs(pf, func(in ssa.Instruction) {
		if mm, ok := in.(*ssa.MakeMap); ok && strings.Contains(typeStr(mm.Type()), "types.StateKey]") {
			pool = mm
		}
	})
	isStateWrite := func(in ssa.Instruction) bool {
		switch x := in.(type) {
		case *ssa.Store:
			return strings.HasPrefix(abbr(exprStr(x.Addr, shapeOpts)), "&alloc:types.State.")
		case ssa.CallInstruction:
			if sc := calleeFunc(x); sc != nil && strings.HasPrefix(sc.Name(), "update") && len(x.Common().Args) > 0 {
				return abbr(exprStr(x.Common().Args[0], shapeOpts)) == "alloc:types.State"
			}
		}
		return false
	}
	// a helper that reports "matched" only after it has written the entry's content into the state it was given
	matchedWriter := map[*ssa.Function]bool{}
	for _, g := range c.SrcFuncs(mzPkg) {
		if g == pf || len(g.Params) == 0 || g.Signature.Results().Len() == 0 || !isBoolT(g.Signature.Results().At(0).Type()) {
			continue
		}
		writes := func(in ssa.Instruction) bool {
			if ci, ok := in.(ssa.CallInstruction); ok {
				if sc := calleeFunc(ci); sc != nil && strings.HasPrefix(sc.Name(), "update") && len(ci.Common().Args) > 0 && ci.Common().Args[0] == ssa.Value(g.Params[0]) {
					return true
				}
			}
			return false
		}
		any, ok := false, true
		allInstrs(g, func(in ssa.Instruction) {
			if writes(in) {
				any = true
			}
		})
		if !any {
			continue
		}
		allInstrs(g, func(in ssa.Instruction) {
			r, isR := in.(*ssa.Return)
			if !isR {
				return
			}
			if k, isC := retResults(r)[0].(*ssa.Const); isC && k.Value != nil && k.Value.String() == "false" {
				return
			}
			if _, reach := findPath(pathQuery{fn: g, target: func(i ssa.Instruction) bool { return i == in }, blocker: writes}); reach {
				ok = false
			}
		})
		if ok {
			matchedWriter[g] = true
		}
	}
	matchedEdge := func(e edge) bool {
		ifi, ok := e.from.Instrs[len(e.from.Instrs)-1].(*ssa.If)
		if !ok || e.succ != 0 {
			return false
		}
		ex, ok := ifi.Cond.(*ssa.Extract)
		if !ok || ex.Index != 0 {
			return false
		}
		call, ok := ex.Tuple.(*ssa.Call)
		return ok && matchedWriter[call.Call.StaticCallee()] && len(call.Call.Args) > 0 && abbr(exprStr(call.Call.Args[0], shapeOpts)) == "alloc:types.State"
	}
	ndel := 0
	if pool != nil {
		var starts []ssa.Instruction
		allInstrs(pf, func(in ssa.Instruction) {
			switch x := in.(type) {
			case *ssa.MapUpdate:
				if x.Map == pool {
					starts = append(starts, in)
				}
			case *ssa.Lookup:
				if x.X == pool {
					starts = append(starts, in)
				}
			}
		})
		allInstrs(pf, func(in ssa.Instruction) {
			call, ok := in.(*ssa.Call)
			if !ok {
				return
			}
			if b, ok := call.Call.Value.(*ssa.Builtin); !ok || b.Name() != "delete" || call.Call.Args[0] != pool {
				return
			}
			ndel++
			bad := false
			for _, st := range starts {
				if _, reach := findPath(pathQuery{start: st, target: func(i ssa.Instruction) bool { return i == in }, edgeBlock: matchedEdge, blocker: func(i ssa.Instruction) bool {
					if isStateWrite(i) {
						return true
					}
					// another insertion/lookup restarts the obligation
					for _, s2 := range starts {
						if i == s2 && i != st {
							return true
						}
					}
					return false
				}}); reach {
					bad = true
					if os.Getenv("JAMVERIF_DUMP") != "" {
						fmt.Printf("UNMATCHED path from %s (%s) to delete at %s\n", describe(st), c.pos(st.Pos()), c.pos(in.Pos()))
					}
				}
			}
			c.Check(!bad, "C17.unmatched", fmt.Sprintf("%sStateKeyValsToState · delete #%d", K, ndel), in.Pos(), "reached only after the entry's content was written into the state", "an entry can be removed from the unmatched pool on a path that stored nothing into the state: it is silently dropped")
		})
	}
	c.Check(ndel >= 17, "C17.unmatched", K+"StateKeyValsToState · delete sites", pf.Pos(), fmt.Sprintf("%d delete sites examined", ndel), fmt.Sprintf("only %d delete sites found (one per component arm plus the service-entry arms)", ndel))
	// returned pool = all remaining entries
	rs := abbrMap(returnShapes(pf))
	okRet := false
	kvLit := literalStores(pf, "types.StateKeyVal")
	for _, s := range rs["ret#1"] {
		if s == "⊕(make([]types.StateKeyVal, 0); [*alloc:types.StateKeyVal][:])" && len(kvLit["Key"]) == 1 && kvLit["Key"][0] == "next(range(makemap))#1" && len(kvLit["Value"]) == 1 && kvLit["Value"][0] == "next(range(makemap))#2" {
			okRet = true
		}
	}
	c.Check(okRet, "C17.unmatched", K+"StateKeyValsToState · returned pool", pf.Pos(), "returns every entry still in the pool", fmt.Sprintf("returned raw entries are %v", rs["ret#1"]))

	c.Rule("C17.order", "StateEncoder's output order does not depend on map iteration or goroutine completion: the collected key-values are sorted by key bytes before they are returned", 1)
	ms := &moScope{c: c, rule: "C17.order", reviewed: map[string]string{}}
	ms.checkMapOrder([]string{mzPkg}, func(f string) bool { return strings.HasSuffix(f, "state_serialize.go") })
	if ok, why := returnsSortedBy(p, enc, "Key"); ok {
		c.OK("C17.order", K+"StateEncoder · final sort", enc.Pos(), "sorted by Key bytes immediately before return")
	} else {
		c.Bad("C17.order", K+"StateEncoder · final sort", enc.Pos(), "%s", why)
	}

	c.Rule("C17.fresh-decode-target", "every protocol Decode call of the import code (internal/utilities/merklization) that sits in a loop decodes into a variable created inside that loop iteration, or into a type whose Decode stores the whole receiver on every successful path; a target shared by iterations whose Decode may leave it untouched (e.g. a sequence decoder returning early on length 0) hands one entry the content of the previous one", 15)
	for _, f0 := range c.SrcFuncs(mzPkg) {
		for _, f := range withClosures(f0) {
			allInstrs(f, func(in ssa.Instruction) {
				call, ok := in.(*ssa.Call)
				if !ok {
					return
				}
				sc := call.Call.StaticCallee()
				if sc == nil || (sc.String() != "(*"+modPath+"/internal/types.Decoder).Decode" && sc.String() != "(*"+modPath+"/internal/types.Decoder).DecodeWithConsumed") || len(call.Call.Args) < 3 {
					return
				}
				tgt := call.Call.Args[2]
				if mi, ok := tgt.(*ssa.MakeInterface); ok {
					tgt = mi.X
				}
				key := funcKey(f) + " · Decode(" + abbr(exprStr(call.Call.Args[1], shapeOpts)) + ", " + abbr(typeStr(tgt.Type())) + ")"
				checkFreshDecodeTarget(c, "C17.fresh-decode-target", key, call, tgt)
			})
		}
	}

	c.Rule("C17.restore", "restoring a stored state installs the parsed state as prior, the parsed raw entries as prior raw pool and a deep copy of those same entries as posterior raw pool; RestoreBlockAndState feeds it the two results of StateKeyValsToState over the stored key-values", 4)
	rw := c.Fn(bcPkg, "ChainState.restoreWithState")
	B := "(*internal/blockchain.ChainState)."
	effs := abbrAll(effectShapesOpt(rw, func(n string) bool {
		return strings.Contains(n, "UnmatchedKeyVals") || strings.Contains(n, "SetState")
	}, false))
	c.checkEffects("C17.restore", B+"restoreWithState", rw, effs, []string{
		"call " + B + "SetPostStateUnmatchedKeyVals(p0, (*types.StateKeyVals).DeepCopy(cell(p4)))",
		"call " + B + "SetPriorStateUnmatchedKeyVals(p0, *cell(p4))",
		"call prior.SetState(" + B + "GetPriorStates(p0), p3)",
	})
	rb := c.Fn(bcPkg, "ChainState.RestoreBlockAndState")
	g := B + "GetBlockAndState(p0, p1)"
	st := "merklization.StateKeyValsToState(" + g + "#1)"
	args := callArgShapes(rb, func(ci ssa.CallInstruction) bool { return calleeFunc(ci) == rw }, 3)
	args4 := callArgShapes(rb, func(ci ssa.CallInstruction) bool { return calleeFunc(ci) == rw }, 4)
	c.Check(len(args) == 1 && abbr(args[0]) == st+"#0" && len(args4) == 1 && abbr(args4[0]) == st+"#1", "C17.restore", B+"RestoreBlockAndState", rb.Pos(), "restores (state, raw entries) parsed from the stored key-values of the requested block", fmt.Sprintf("restoreWithState receives state=%v raw=%v", args, args4))
	return "State export/import mechanisms decided statically: the index↔component table of the exporter and of both importers agree and cover every component; service entries are recognised by rebuilding their keys with the exporter's own constructors; the account update helpers touch one component; encodeDelta1 follows the ServiceInfo codec order; an entry leaves the unmatched pool only after its content reached the state and all remaining entries are returned; the export is sorted by key; a restore installs the parsed raw entries as prior pool and a deep copy of the same entries as posterior pool.",
		[]string{"AST tables resolved through go/types; canonical SSA shapes", "not decided: that an arbitrary storage value is never mistaken for a preimage (hash preimage resistance), value-level equality of re-serialisation"}
}

// decodeOverwrites: the Decode method of the pointed-to type stores the whole
// receiver (*recv = …) on every path to a successful return.
func decodeOverwrites(c *Ctx, ptr types.Type) (bool, string) {
	pt, ok := ptr.Underlying().(*types.Pointer)
	if !ok {
		return false, "its type is not a pointer to a decodable type"
	}
	ms := c.SSA().MethodSets.MethodSet(pt)
	sel := ms.Lookup(nil, "Decode")
	if sel == nil {
		for i := 0; i < ms.Len(); i++ {
			if ms.At(i).Obj().Name() == "Decode" {
				sel = ms.At(i)
			}
		}
	}
	if sel == nil {
		return false, "its type has no Decode method (reflective decoding may keep existing content)"
	}
	m := c.SSA().MethodValue(sel)
	if m == nil || len(m.Blocks) == 0 || len(m.Params) == 0 {
		return false, "its Decode method has no body to inspect"
	}
	recv := m.Params[0]
	storeBlocks := map[*ssa.BasicBlock]int{} // block -> index of first whole store
	for _, b := range m.Blocks {
		for i, in := range b.Instrs {
			if st, ok := in.(*ssa.Store); ok && st.Addr == ssa.Value(recv) {
				if _, has := storeBlocks[b]; !has {
					storeBlocks[b] = i
				}
			}
		}
	}
	// reach successful returns without passing a whole store
	seen := map[*ssa.BasicBlock]bool{}
	work := []*ssa.BasicBlock{m.Blocks[0]}
	for len(work) > 0 {
		b := work[len(work)-1]
		work = work[:len(work)-1]
		if seen[b] {
			continue
		}
		seen[b] = true
		if _, has := storeBlocks[b]; has {
			continue
		}
		if r, ok := b.Instrs[len(b.Instrs)-1].(*ssa.Return); ok && !isErrorReturn(m, r) {
			return false, fmt.Sprintf("%s can return successfully without writing its receiver (%s)", relName(m.String()), c.pos(r.Pos()))
		}
		work = append(work, b.Succs...)
	}
	return true, ""
}

// checkFreshDecodeTarget: a Decode call that sits in a loop decodes into a variable created inside that
// iteration, or into a type whose Decode stores the whole receiver on every successful path.
func checkFreshDecodeTarget(c *Ctx, rule, key string, call *ssa.Call, tgt ssa.Value) {
	// cycles through the call that avoid the creation point of the target
	var create *ssa.BasicBlock
	root := tgt
	for {
		if fa, ok := root.(*ssa.FieldAddr); ok {
			root = fa.X
			continue
		}
		break
	}
	if a, ok := root.(*ssa.Alloc); ok {
		create = a.Block()
	}
	shared := false
	seen := map[*ssa.BasicBlock]bool{}
	work := append([]*ssa.BasicBlock{}, call.Block().Succs...)
	for len(work) > 0 {
		b := work[len(work)-1]
		work = work[:len(work)-1]
		if seen[b] || b == create {
			continue
		}
		seen[b] = true
		if b == call.Block() {
			shared = true
			break
		}
		work = append(work, b.Succs...)
	}
	if create == call.Block() && create != nil {
		// alloc and call in one block: fresh iff the alloc precedes the call
		shared = false
	}
	if !shared {
		c.OK(rule, key, call.Pos(), "target is created for this call (not shared between loop iterations)")
		return
	}
	if ok, why := decodeOverwrites(c, tgt.Type()); ok {
		c.OK(rule, key, call.Pos(), "target is shared between iterations but its Decode stores the whole receiver on every successful path")
	} else {
		c.Bad(rule, key, call.Pos(), "the decode target is shared by the iterations of the enclosing loop and %s: an entry can inherit the previous entry's content", why)
	}
}
