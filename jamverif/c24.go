package main

import (
	"fmt"
	"go/constant"
	"go/token"
	"go/types"
	"strings"

	"golang.org/x/tools/go/ssa"
)

const authPkg = "internal/authorization"

func checkC24(c *Ctx) (string, []string) {
	stf := c.Fn(authPkg, "STFAlpha2AlphaPrime")
	auth := c.Fn(authPkg, "Authorization")
	rem := c.Fn(typesPkg, "AuthPool.RemoveLeftMostPairedValue")
	if len(c.fatal) > 0 {
		return "", nil
	}
	O := int64(8)
	if k, ok := c.Obj(typesPkg, "AuthPoolMaxSize").(*types.Const); ok {
		if v, exact := constant.Int64Val(k.Val()); exact {
			O = v
		}
	}
	A := "internal/authorization."
	o := robustOpts
	// helpers of the transition: same-package functions it calls (seen through whatever their name)
	ho := o
	ho.inline = func(f *ssa.Function) bool {
		return f != nil && f.Pkg != nil && f.Pkg == stf.Pkg && f != stf && len(f.Blocks) > 0 && !token.IsExported(f.Name())
	}

	c.Rule("C24.transition", "STFAlpha2AlphaPrime (helpers seen through): for every guarantee the report's authorizer hash is removed (RemoveLeftMostPairedValue) from the pool of the report's core, on every non-error path; then for every core the queue entry φ'[c][slot mod |φ'[c]|] is appended and, exactly when the pool is longer than O, only its last O entries are kept; no removal happens after an append; Authorization feeds it (header slot, block guarantees, prior α, posterior φ') and installs the result as α'", 8)
	type site struct {
		in    ssa.Instruction
		g     *ssa.Function
		subst map[ssa.Value]string
	}
	var removals, appends, slices []site
	visitWithHelpers(stf, ho, func(g *ssa.Function, subst map[ssa.Value]string, in ssa.Instruction) {
		switch x := in.(type) {
		case *ssa.Call:
			if x.Call.StaticCallee() == rem {
				removals = append(removals, site{in, g, subst})
			}
			if b, ok := x.Call.Value.(*ssa.Builtin); ok && b.Name() == "append" && strings.HasSuffix(typeStr(x.Type()), "types.AuthPool") {
				appends = append(appends, site{in, g, subst})
			}
		case *ssa.Slice:
			if strings.HasSuffix(typeStr(x.Type()), "types.AuthPool") && x.Low != nil && x.High == nil {
				slices = append(slices, site{in, g, subst})
			}
		}
	})
	// in stf itself: the instruction through which a site is reached (the site itself or the call of its helper chain)
	topLevel := func(s site) map[ssa.Instruction]bool {
		out := map[ssa.Instruction]bool{}
		if s.g == stf {
			out[s.in] = true
			return out
		}
		reach := map[*ssa.Function]bool{s.g: true}
		for changed := true; changed; {
			changed = false
			visitWithHelpers(stf, ho, func(g *ssa.Function, _ map[ssa.Value]string, in ssa.Instruction) {
				if ci, ok := in.(ssa.CallInstruction); ok {
					if h := calleeFunc(ci); h != nil && reach[h] && !reach[g] && g != stf {
						reach[g] = true
						changed = true
					}
				}
			})
		}
		allInstrs(stf, func(in ssa.Instruction) {
			if ci, ok := in.(ssa.CallInstruction); ok {
				if h := calleeFunc(ci); h != nil && reach[h] {
					out[in] = true
				}
			}
		})
		return out
	}
	normP := func(s string) string {
		for _, k := range []string{"*alloc:types.AuthPools", "*cell(p2)", "cell(p2)"} {
			s = strings.ReplaceAll(s, k, "α")
		}
		return s
	}
	if len(removals) != 1 {
		c.Bad("C24.transition", A+"STFAlpha2AlphaPrime · removal", stf.Pos(), "expected one RemoveLeftMostPairedValue site in the transition, found %d", len(removals))
	} else {
		r := removals[0]
		call := r.in.(*ssa.Call)
		recv := normP(abbr(exprStrSubst(call.Call.Args[0], o, r.subst)))
		arg := abbr(exprStrSubst(call.Call.Args[1], o, r.subst))
		okRecv := recv == "&α[p1[*].Report.CoreIndex]" || recv == "cell(α[p1[*].Report.CoreIndex])"
		c.Check(okRecv && arg == "p1[*].Report.AuthorizerHash", "C24.transition", A+"STFAlpha2AlphaPrime · removal", call.Pos(), "removes guarantee.Report.AuthorizerHash from α[guarantee.Report.CoreIndex]", fmt.Sprintf("the removal is %s.RemoveLeftMostPairedValue(%s); GP 8.3 removes the report's authorizer hash from the pool of the report's core", recv, arg))
		// when the removal works on a local copy of the pool, the copy is written back to the same slot
		if strings.HasPrefix(recv, "cell(") {
			back := false
			visitWithHelpers(stf, ho, func(g *ssa.Function, subst map[ssa.Value]string, in ssa.Instruction) {
				if st, ok := in.(*ssa.Store); ok && g == r.g {
					a := normP(abbr(exprStrSubst(st.Addr, o, subst)))
					v := normP(abbr(exprStrSubst(st.Val, o, subst)))
					if a == "&α[p1[*].Report.CoreIndex]" && v == "*"+recv {
						back = true
					}
				}
			})
			c.Check(back, "C24.transition", A+"STFAlpha2AlphaPrime · removal written back", call.Pos(), "the filtered copy is stored back into α[core]", "the removal works on a copy of the pool that is never stored back")
		} else {
			c.OK("C24.transition", A+"STFAlpha2AlphaPrime · removal written back", call.Pos(), "the removal acts on α[core] itself")
		}
		// every guarantee reaches it; inside helpers every non-error path reaches it
		tl := topLevel(r)
		var loopIf *ssa.If
		allInstrs(stf, func(in ssa.Instruction) {
			if i, ok := in.(*ssa.If); ok && exprStr(i.Cond, shapeOpts) == "(* < len(p1))" {
				loopIf = i
			}
		})
		okEvery := loopIf != nil && len(tl) > 0
		if okEvery {
			body := []edge{{loopIf.Block(), 0}}
			_, skip := findPath(pathQuery{startEdges: body, target: func(in ssa.Instruction) bool { return in == ssa.Instruction(loopIf) }, blocker: func(in ssa.Instruction) bool { return tl[in] }})
			okEvery = !skip
		}
		if okEvery && r.g != stf {
			// the helper chain: every return without an error has passed the removal
			var chain []*ssa.Function
			visitWithHelpers(stf, ho, func(g *ssa.Function, _ map[ssa.Value]string, in ssa.Instruction) {
				if g != stf {
					for _, x := range chain {
						if x == g {
							return
						}
					}
					chain = append(chain, g)
				}
			})
			for _, g := range chain {
				inner := map[ssa.Instruction]bool{}
				allInstrs(g, func(in ssa.Instruction) {
					if ci, ok := in.(ssa.CallInstruction); ok {
						if h := calleeFunc(ci); h == rem {
							inner[in] = true
						} else if h != nil {
							for _, x := range chain {
								if x == h {
									inner[in] = true
								}
							}
						}
					}
				})
				if len(inner) == 0 {
					continue
				}
				_, skip := findPath(pathQuery{fn: g, target: func(in ssa.Instruction) bool {
					ret, ok := in.(*ssa.Return)
					return ok && !isErrorReturn(g, ret)
				}, blocker: func(in ssa.Instruction) bool { return inner[in] }, edgeBlock: constFeasible})
				if skip {
					okEvery = false
				}
			}
		}
		c.Check(okEvery, "C24.transition", A+"STFAlpha2AlphaPrime · every guarantee", stf.Pos(), "each guarantee of the block reaches the removal of its authorizer", "a guarantee can be passed over without removing its authorizer from its core's pool")
	}
	if len(appends) != 1 {
		c.Bad("C24.transition", A+"STFAlpha2AlphaPrime · append", stf.Pos(), "expected one append to a pool in the transition, found %d", len(appends))
	} else {
		a := appends[0]
		call := a.in.(*ssa.Call)
		base := normP(abbr(exprStrSubst(call.Call.Args[0], o, a.subst)))
		el := abbr(exprStrSubst(call.Call.Args[1], o, a.subst))
		c.Check(base == "α[*]" && el == "[p3[*][(int(p0) % len(p3[*]))]][:]", "C24.transition", A+"STFAlpha2AlphaPrime · append", call.Pos(), "α[c] ⌢ φ'[c][slot mod |φ'[c]|]", fmt.Sprintf("appends %s to %s; GP 8.2 appends φ'[c][slot mod |φ'[c]|] to α[c]", el, base))
		// ordering
		tlA := topLevel(a)
		later := false
		if len(removals) == 1 {
			tlR := topLevel(removals[0])
			for in := range tlA {
				if _, l := findPath(pathQuery{start: in, target: func(x ssa.Instruction) bool { return tlR[x] }}); l {
					later = true
				}
			}
		}
		c.Check(!later, "C24.transition", A+"STFAlpha2AlphaPrime · removal before append", call.Pos(), "no removal is reachable after a queue entry has been appended", "a guarantee's authorizer can be removed after the slot's queue entry was appended and the pool truncated: removal acts on the rotated pool, not the prior one")
	}
	// the cut to the last O entries
	if len(slices) != 1 {
		c.Bad("C24.transition", A+"STFAlpha2AlphaPrime · bound", stf.Pos(), "expected one cut pool[k:] in the transition, found %d", len(slices))
	} else {
		s := slices[0]
		sl := s.in.(*ssa.Slice)
		lenAtom := "len(" + abbr(exprStr(sl.X, o)) + ")"
		bad := ""
		for n := O - 1; n <= O+3 && bad == ""; n++ {
			av := func(str string) (int64, bool) {
				if str == lenAtom {
					return n, true
				}
				return 0, false
			}
			reached, ok := reachesInFunc(sl, o, av)
			if !ok {
				bad = "the cut is guarded by something other than the length of the pool after the append"
				break
			}
			if reached != (n > O) {
				bad = fmt.Sprintf("with %d entries after the append the cut is taken=%v (O = %d)", n, reached, O)
				break
			}
			if reached {
				env := intEnv{params: map[ssa.Value]int64{}, lens: map[ssa.Value]int64{sl.X: n}, unknown: map[ssa.Value]bool{}, cells: map[ssa.Value]int64{}}
				env.opaque = func(v ssa.Value) (int64, bool) {
					if isIntegerT(v.Type()) {
						if _, isC := v.(*ssa.Const); !isC {
							return av(abbr(exprStr(v, o)))
						}
					}
					return 0, false
				}
				lo, ok := evalInt(sl.Low, env, 0)
				if !ok || lo != n-O {
					bad = fmt.Sprintf("with %d entries the pool is cut at %d (evaluable=%v); keeping the last O=%d entries cuts at %d", n, lo, ok, O, n-O)
				}
			}
		}
		c.Check(bad == "", "C24.transition", A+"STFAlpha2AlphaPrime · bound", sl.Pos(), "exactly when the pool is longer than O it is cut to its last O entries", bad)
		// what is stored in α[c] after the append phase derives from the cut
		stored := false
		allInstrs(stf, func(in ssa.Instruction) {
			st, ok := in.(*ssa.Store)
			if !ok || normP(abbr(exprStr(st.Addr, o))) != "&α[*]" {
				return
			}
			var from func(v ssa.Value, d int) bool
			from = func(v ssa.Value, d int) bool {
				if d > 6 {
					return false
				}
				switch x := v.(type) {
				case *ssa.Slice:
					return x == sl
				case *ssa.Phi:
					for _, e := range x.Edges {
						if from(e, d+1) {
							return true
						}
					}
				case *ssa.Call:
					if h := x.Call.StaticCallee(); h != nil && h == s.g && s.g != stf {
						return true
					}
				}
				return false
			}
			if from(st.Val, 0) {
				stored = true
			}
		})
		c.Check(stored, "C24.transition", A+"STFAlpha2AlphaPrime · bound stored", sl.Pos(), "the cut pool is what α[c] receives", "the cut pool is never stored into α[c]")
	}
	c.requireCall("C24.transition", A+"Authorization", auth, "SetAlpha", []string{"POST ‖ " + A + "STFAlpha2AlphaPrime(BLOCK.Header.Slot, *cell(BLOCK.Extrinsic.Guarantees), *cell(prior.GetAlpha(PRIOR)), *cell(post.GetVarphi(POST)))#0"})

	c.Rule("C24.leftmost", "RemoveLeftMostPairedValue keeps every element except the first one equal to the given hash — recognised as a filter whose skip arm is behind (equal ∧ nothing skipped yet) and records the skip, or as find-first-then-shift (the search stops at the first equal element, the tail is shifted one place left from that index, the pool shrinks by one)", 2)
	c24Leftmost(c, rem)
	return "Authorizer-pool mechanisms decided statically with helpers seen through: removal of each guarantee's authorizer from its core's pool on every non-error path, before every append; the appended entry is φ'[c][slot mod |φ'[c]|]; the cut to the last O entries is taken exactly when the pool is longer than O and starts at len−O (evaluated); the removal helper removes only the leftmost equal element (two recognised forms); Authorization wires (header slot, guarantees, prior α, posterior φ') into α'.",
		[]string{"robust renderer; truth tables over the pool length; O read from types.AuthPoolMaxSize", "not decided: leftmost-occurrence semantics as values on runtime pools; the in-place filter writes through the prior pool (reported under C26 as an observation)"}
}

// reachesInFunc: following target's function from its entry with atoms valued by av, is target's block reached?
func reachesInFunc(target ssa.Instruction, o exprOpts, av atomFn) (bool, bool) {
	f := target.Parent()
	tb := target.Block()
	if h, in := natLoop(tb); h != nil && in != nil {
		return iterReaches(target, o, nil, av)
	}
	hit := false
	r, ok := runWithAtoms(f, o, av, func(in ssa.Instruction) {
		if in == target {
			hit = true
		}
	})
	if !ok && !hit {
		return false, false
	}
	_ = r
	return hit, true
}

func c24Leftmost(c *Ctx, rem *ssa.Function) {
	key := "(*types.AuthPool).RemoveLeftMostPairedValue"
	o := robustOpts
	// form (a): filter with a removed-once flag
	var flag *ssa.Phi
	var app *ssa.Call
	var cp ssa.CallInstruction
	allInstrs(rem, func(in ssa.Instruction) {
		if p, ok := in.(*ssa.Phi); ok && isBoolT(p.Type()) {
			flag = p
		}
		if call, ok := in.(*ssa.Call); ok {
			if b, ok := call.Call.Value.(*ssa.Builtin); ok {
				switch b.Name() {
				case "append":
					app = call
				case "copy":
					cp = call
				}
			}
		}
	})
	isEq := func(s string) (bool, bool) {
		switch {
		case s == "bytes.Equal(*p0[*][:], p1[:])" || s == "(*p0[*] == p1)" || s == "(p1 == *p0[*])":
			return true, false
		case s == "(*p0[*] != p1)" || s == "(p1 != *p0[*])":
			return true, true
		}
		return false, false
	}
	switch {
	case app != nil && flag != nil:
		// selection of the append over (equal, already removed)
		bad := ""
		for m := 0; m < 4 && bad == ""; m++ {
			eq, removed := int64(m&1), int64(m>>1)
			reached, ok := iterReaches(app, o, nil, func(s string) (int64, bool) {
				if is, neg := isEq(s); is {
					if neg {
						return 1 - eq, true
					}
					return eq, true
				}
				if s == abbr(exprStr(flag, o)) {
					return removed, true
				}
				return 0, false
			})
			if !ok {
				bad = "the keep decision depends on something other than (element equals the hash, an element was already removed)"
				break
			}
			if reached != (removed == 1 || eq == 0) {
				bad = fmt.Sprintf("with equal=%d and already-removed=%d the element is kept=%v", eq, removed, reached)
			}
		}
		// the flag becomes true exactly on the skip path
		setOK := false
		for k, e := range flag.Edges {
			if cst, isC := e.(*ssa.Const); isC && cst.Value != nil && cst.Value.String() == "true" {
				pb := flag.Block().Preds[k]
				hasApp := false
				for _, in := range pb.Instrs {
					if in == ssa.Instruction(app) {
						hasApp = true
					}
				}
				if !hasApp {
					setOK = true
				}
			}
		}
		c.Check(bad == "" && setOK, "C24.leftmost", key+" · single removal", rem.Pos(), "an element is dropped exactly when it equals the hash and nothing was dropped before (4/4 rows); dropping records the fact", "elements equal to the hash are skipped without a 'removed once' guard: every occurrence is removed, not only the leftmost ("+bad+")")
		c.requireSet("C24.leftmost", key+" · result", rem.Pos(), "the pool becomes", abbrAll(effectShapes(rem, nil)), []string{"store p0 ← ⊕(*p0[:0]; [*p0[*]][:])"})
	case cp != nil:
		// form (b): find first, shift, shrink
		dst, src := cp.Common().Args[0], cp.Common().Args[1]
		ds, ss := abbr(exprStr(dst, o)), abbr(exprStr(src, o))
		var hit ssa.Value
		if sl, ok := dst.(*ssa.Slice); ok && sl.High == nil {
			hit = sl.Low
		}
		okShift := false
		if sl2, ok := src.(*ssa.Slice); ok && hit != nil && sl2.High == nil {
			if b, ok := stripConv(sl2.Low).(*ssa.BinOp); ok && b.Op == token.ADD {
				if k, isK := constInt(b.Y); isK && k == 1 && stripConv(b.X) == stripConv(hit) {
					okShift = true
				}
			}
		}
		// hit is the index at which the search loop was left on an equal element: phi(-1 | i) with i the loop index on the break edge
		okFirst := false
		if call, ok := stripConv(hit).(*ssa.Call); ok && call.Call.StaticCallee() != nil {
			// slices.Index(pool, h): the first index holding h, or -1
			n := call.Call.StaticCallee().String()
			if call.Call.StaticCallee().Origin() != nil {
				n = call.Call.StaticCallee().Origin().String()
			}
			if n == "slices.Index" && len(call.Call.Args) == 2 && abbr(exprStr(call.Call.Args[0], o)) == "*p0" && abbr(exprStr(call.Call.Args[1], o)) == "p1" {
				// and nothing is removed when it reports -1
				neg := false
				for _, a := range condAtoms(rem, o) {
					if a == "(slices.Index(*p0, p1) < 0)" || a == "(-1 == slices.Index(*p0, p1))" {
						neg = true
					}
				}
				okFirst = neg
			}
		}
		if ph, ok := stripConv(hit).(*ssa.Phi); ok {
			for k, e := range ph.Edges {
				if _, isC := e.(*ssa.Const); isC {
					continue
				}
				pb := ph.Block().Preds[k]
				// pb ends the iteration in which the element equals the hash, and leaves the loop
				if ifi, isIf := pb.Instrs[len(pb.Instrs)-1].(*ssa.If); isIf {
					if is, neg := isEq(abbr(exprStr(ifi.Cond, o))); is {
						succ := 0
						if neg {
							succ = 1
						}
						_, in := natLoop(pb)
						if pb.Succs[succ] == ph.Block() && (in == nil || !in[ph.Block()]) && abbr(exprStr(e, o)) == "*" {
							okFirst = true
						}
					}
				} else if _, isJ := pb.Instrs[len(pb.Instrs)-1].(*ssa.Jump); isJ && len(pb.Preds) == 1 {
					// break block reached from the equality test
					pp := pb.Preds[0]
					if ifi, isIf := pp.Instrs[len(pp.Instrs)-1].(*ssa.If); isIf {
						if is, neg := isEq(abbr(exprStr(ifi.Cond, o))); is {
							succ := 0
							if neg {
								succ = 1
							}
							_, in := natLoop(pp)
							if pp.Succs[succ] == pb && (in == nil || !in[ph.Block()]) && abbr(exprStr(e, o)) == "*" {
								okFirst = true
							}
						}
					}
				}
			}
		}
		// shrink by one
		shrink := false
		allInstrs(rem, func(in ssa.Instruction) {
			if st, ok := in.(*ssa.Store); ok && st.Addr == ssa.Value(rem.Params[0]) {
				if s := abbr(exprStr(st.Val, o)); s == "*p0[:(len(*p0) - 1)]" {
					shrink = true
				}
			}
		})
		c.Check(okShift && okFirst && shrink, "C24.leftmost", key+" · single removal", rem.Pos(), "search stops at the first equal element; tail shifted one place left from there; pool shrinks by one", fmt.Sprintf("find-first-then-shift form not established (copy(%s, %s); first-hit=%v shift=%v shrink=%v)", ds, ss, okFirst, okShift, shrink))
		c.OK("C24.leftmost", key+" · result", rem.Pos(), "pool[:len-1] after the shift")
	default:
		c.Bad("C24.leftmost", key+" · single removal", rem.Pos(), "neither a flag-guarded filter nor a find-first-then-shift removal was recognised")
	}
}
