package main

import (
	"fmt"
	"go/constant"
	"go/types"
	"strings"

	"golang.org/x/tools/go/ssa"
)

const authPkg = "internal/authorization"

func checkC24(c *Ctx) (string, []string) {
	stf := c.Fn(authPkg, "STFAlpha2AlphaPrime")
	upd := c.Fn(authPkg, "updatePoolFromQueue")
	auth := c.Fn(authPkg, "Authorization")
	rem := c.Fn(typesPkg, "AuthPool.RemoveLeftMostPairedValue")
	if len(c.fatal) > 0 {
		return "", nil
	}
	O := "8"
	if k, ok := c.Obj(typesPkg, "AuthPoolMaxSize").(*types.Const); ok {
		if v, exact := constant.Int64Val(k.Val()); exact {
			O = fmt.Sprint(v)
		}
	}
	A := "internal/authorization."
	al := "*alloc:types.AuthPools"

	c.Rule("C24.transition", "STFAlpha2AlphaPrime: for every guarantee the authorizer used is removed from its core's pool (updatePoolFromQueue(core of the report, guarantee, pools)); then for every core the queue entry φ'[c][slot mod |φ'[c]|] is appended and, when the pool is longer than O, only its last O entries are kept; no removal happens after an append; Authorization feeds it (header slot, block guarantees, prior α, posterior φ') and installs the result as α'", 8)
	effs := abbrAll(effectShapesOpt(stf, func(n string) bool { return strings.Contains(n, "updatePoolFromQueue") }, false))
	c.checkEffects("C24.transition", A+"STFAlpha2AlphaPrime", stf, effs, []string{
		"call " + A + "updatePoolFromQueue(p1[*].Report.CoreIndex, p1[*], " + al + ")",
		"store &" + al + "[*] ← " + al + "[*][(len(" + al + "[*]) - " + O + "):]",
		"store &" + al + "[*] ← append(" + al + "[*], [p3[*][(int(p0) % len(p3[*]))]][:])",
	})
	// ordering and truncation guard
	var appendSt, truncSt ssa.Instruction
	allInstrs(stf, func(in ssa.Instruction) {
		if st, ok := in.(*ssa.Store); ok && !rootedInLocal(st.Addr) || ok && strings.HasPrefix(abbr(exprStr(st.Addr, shapeOpts)), "&"+al) {
			v := abbr(exprStr(st.Val, shapeOpts))
			if strings.HasPrefix(v, "append(") {
				appendSt = in
			} else if strings.Contains(v, "[(len(") {
				truncSt = in
			}
		}
	})
	if appendSt == nil || truncSt == nil {
		c.Bad("C24.transition", A+"STFAlpha2AlphaPrime · structure", stf.Pos(), "append / truncation stores not found")
	} else {
		_, later := findPath(pathQuery{start: appendSt, target: func(in ssa.Instruction) bool { return calleeFunc2(in) == upd }})
		c.Check(!later, "C24.transition", A+"STFAlpha2AlphaPrime · removal before append", appendSt.Pos(), "no removal is reachable after a queue entry has been appended", "a guarantee's authorizer can be removed after the slot's queue entry was appended and the pool truncated: removal acts on the rotated pool, not the prior one")
		over := condEdges(stf, func(v ssa.Value) (bool, bool) {
			return abbr(exprStr(v, shapeOpts)) == "("+O+" < len("+al+"[*]))", true
		})
		okT := len(over) == 1 && guardedBy(stf, truncSt, over)
		// every path from the append to the next iteration / return passes the length test
		if okT {
			_, skip := findPath(pathQuery{start: appendSt, target: func(in ssa.Instruction) bool { return isReturn(in) || in == appendSt },
				blocker: func(in ssa.Instruction) bool { return in == over[0].from.Instrs[len(over[0].from.Instrs)-1] }})
			okT = !skip
		}
		c.Check(okT, "C24.transition", A+"STFAlpha2AlphaPrime · bound", truncSt.Pos(), "after every append the pool is cut to its last O entries when longer than O", "an appended pool can leave the function (or the iteration) longer than O entries")
	}
	c.checkCondSet("C24.transition", A+"STFAlpha2AlphaPrime", stf, []string{
		"((*types.AuthPools).Validate(alloc:types.AuthPools) != nil)", "(* < types.CoresCount)", "(* < len(p1))", "(0 < types.CoresCount)", "(0 == len(p3[*]))",
		"(" + O + " < len(" + al + "[*]))", "(" + A + "updatePoolFromQueue(p1[*].Report.CoreIndex, p1[*], " + al + ")#0 == nil)", "(" + A + "updatePoolFromQueue(p1[*].Report.CoreIndex, p1[*], " + al + ")#1 != nil)",
	})
	{
		// every guarantee reaches the removal: from the loop test of the guarantee loop, the next iteration is not reachable without the call
		var loopIf *ssa.If
		allInstrs(stf, func(in ssa.Instruction) {
			if i, ok := in.(*ssa.If); ok && exprStr(i.Cond, shapeOpts) == "(* < len(p1))" {
				loopIf = i
			}
		})
		ok := loopIf != nil
		if ok {
			body := []edge{{loopIf.Block(), 0}}
			_, skip := findPath(pathQuery{startEdges: body, target: func(in ssa.Instruction) bool { return in == ssa.Instruction(loopIf) }, blocker: func(in ssa.Instruction) bool { return calleeFunc2(in) == upd }})
			ok = !skip
		}
		c.Check(ok, "C24.transition", A+"STFAlpha2AlphaPrime · every guarantee", stf.Pos(), "each guarantee of the block reaches the removal of its authorizer", "a guarantee can be passed over without removing its authorizer from its core's pool")
	}
	c.checkEffects("C24.transition", A+"updatePoolFromQueue", upd, abbrAll(effectShapesOpt(upd, func(n string) bool { return strings.Contains(n, "RemoveLeftMost") }, false)), []string{
		"call (*types.AuthPool).RemoveLeftMostPairedValue(cell(p2[p0]), p1.Report.AuthorizerHash)",
		"store &p2[p0] ← *cell(p2[p0])",
	})
	c.requireCall("C24.transition", A+"Authorization", auth, "SetAlpha", []string{"POST ‖ " + A + "STFAlpha2AlphaPrime(BLOCK.Header.Slot, *cell(BLOCK.Extrinsic.Guarantees), *cell(prior.GetAlpha(PRIOR)), *cell(post.GetVarphi(POST)))#0"})

	c.Rule("C24.leftmost", "RemoveLeftMostPairedValue keeps every element except the first one equal to the given hash: an element is skipped only when it equals the hash and nothing has been skipped yet, and skipping records that fact", 3)
	c.checkCondSet("C24.leftmost", "(*types.AuthPool).RemoveLeftMostPairedValue", rem, []string{"(* < len(*p0))", "bytes.Equal(*p0[*][:], p1[:])", "phi(cyc | false | true)"})
	// the flag phi: false on entry, true exactly on the edge from the skip block
	var flag *ssa.Phi
	var app *ssa.Call
	allInstrs(rem, func(in ssa.Instruction) {
		if p, ok := in.(*ssa.Phi); ok {
			if b, ok := p.Type().Underlying().(*types.Basic); ok && b.Kind() == types.Bool {
				flag = p
			}
		}
		if call, ok := in.(*ssa.Call); ok {
			if b, ok := call.Call.Value.(*ssa.Builtin); ok && b.Name() == "append" {
				app = call
			}
		}
	})
	ok := flag != nil && app != nil
	if ok {
		// skip path: from loop body to next iteration without the append, must be behind !flag ∧ equal
		eq := condEdges(rem, func(v ssa.Value) (bool, bool) {
			return abbr(exprStr(v, shapeOpts)) == "bytes.Equal(*p0[*][:], p1[:])", true
		})
		notRemoved := condEdges(rem, func(v ssa.Value) (bool, bool) { return v == ssa.Value(flag), false })
		// the block that sets removed=true: the phi edge carrying const true
		var skipBlock *ssa.BasicBlock
		for k, e := range flag.Edges {
			if cst, isC := e.(*ssa.Const); isC && cst.Value != nil && cst.Value.String() == "true" {
				skipBlock = flag.Block().Preds[k]
			}
		}
		ok = len(eq) == 1 && len(notRemoved) == 1 && skipBlock != nil
		if ok {
			first := skipBlock.Instrs[0]
			ok = guardedBy(rem, first, eq) && guardedBy(rem, first, notRemoved)
			// append happens on every other path of the body: the append is NOT guarded by both
			hasAppendInSkip := false
			for _, in := range skipBlock.Instrs {
				if in == ssa.Instruction(app) {
					hasAppendInSkip = true
				}
			}
			ok = ok && !hasAppendInSkip
		}
	}
	c.Check(ok, "C24.leftmost", "(*types.AuthPool).RemoveLeftMostPairedValue · single removal", rem.Pos(), "the skip arm is behind (equal ∧ not yet removed) and sets the removed flag", "elements equal to the hash are skipped without a 'removed once' guard: every occurrence is removed, not only the leftmost")
	c.checkEffects("C24.leftmost", "(*types.AuthPool).RemoveLeftMostPairedValue", rem, abbrAll(effectShapes(rem, nil)), []string{"store p0 ← ⊕(*p0[:0]; [*p0[*]][:])"})
	return "Authorizer-pool mechanisms decided statically: removal of each guarantee's authorizer from its core's pool precedes every append (no removal reachable after an append), the appended entry is φ'[c][slot mod |φ'[c]|], every append is followed on all paths by the cut to the last O entries, the removal helper skips at most one element (flag-guarded skip arm), and Authorization wires (header slot, guarantees, prior α, posterior φ') into α'.",
		[]string{"canonical renderer; O read from types.AuthPoolMaxSize", "not decided: leftmost-occurrence semantics as values on runtime pools; the in-place filter writes through the prior pool (reported under C26 as an observation)"}
}
