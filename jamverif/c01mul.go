package main

import (
	"go/token"

	"golang.org/x/tools/go/ssa"
)

// c01MulUpperBorrow: the upper word of a signed 128-bit product computed from magnitudes. Where a handler takes
// the high word of bits.Mul64(|a|, |b|) and negates it for a negative product, the negated high word is
// ^hi + [lo = 0] = −hi − [lo ≠ 0]: it depends on the low word. A negated high word stored into a register without
// the same multiplication's low word flowing into it (as an operand or as the condition selecting it) is wrong
// for every product with a non-zero low word (e.g. −1 · 1: upper word 0 instead of 2^64 − 1).
func c01MulUpperBorrow(c *Ctx, e *omegaEnv) {
	const rule = "C01.mul-upper-borrow"
	c.Rule(rule, "in every instruction handler that negates the high word of a bits.Mul64 product and writes it to a register, the written value depends on the low word of the same product (two's-complement negation of a 128-bit value borrows from the high word when the low word is non-zero)", 2)
	n := 0
	for _, f := range c.SrcFuncs("PVM") {
		allInstrs(f, func(in ssa.Instruction) {
			call, ok := in.(*ssa.Call)
			if !ok || call.Call.StaticCallee() == nil || call.Call.StaticCallee().String() != "math/bits.Mul64" {
				return
			}
			var hi, lo ssa.Value
			for _, r := range *call.Referrers() {
				if ex, isEx := r.(*ssa.Extract); isEx {
					if ex.Index == 0 {
						hi = ex
					} else {
						lo = ex
					}
				}
			}
			if hi == nil {
				return
			}
			// register stores whose value contains a negation of hi
			allInstrs(f, func(x ssa.Instruction) {
				st, isSt := x.(*ssa.Store)
				if !isSt {
					return
				}
				if _, _, _, isReg := e.registerStore(x); !isReg {
					return
				}
				if !negates(st.Val, hi, 0) {
					return
				}
				n++
				dep := lo != nil && (dependsOn(st.Val, lo, 0) || controlDependsOn(st, lo))
				c.Check(dep, rule, funcKey(f)+" · negated high word", st.Pos(), "the negated high word takes the borrow from the low word", "the high word of the product is negated without consulting the low word: for a negative product with a non-zero low word the upper half is one too large (−1 · 1 gives 0 instead of 2^64 − 1)")
			})
		})
	}
	c.extra["negated_high_words"] = n
}

// negates: v contains −x (0 − x, unary minus, or ^x) of a value derived from hi.
func negates(v, hi ssa.Value, d int) bool {
	if d > 10 || v == nil {
		return false
	}
	switch x := v.(type) {
	case *ssa.UnOp:
		if (x.Op == token.SUB || x.Op == token.XOR) && dependsOn(x.X, hi, 0) {
			return true
		}
		return negates(x.X, hi, d+1)
	case *ssa.BinOp:
		if x.Op == token.SUB {
			if k, isC := constInt(x.X); isC && k == 0 && dependsOn(x.Y, hi, 0) {
				return true
			}
		}
		return negates(x.X, hi, d+1) || negates(x.Y, hi, d+1)
	case *ssa.Convert:
		return negates(x.X, hi, d+1)
	case *ssa.ChangeType:
		return negates(x.X, hi, d+1)
	case *ssa.Phi:
		for _, e := range x.Edges {
			if e != v && negates(e, hi, d+1) {
				return true
			}
		}
	}
	return false
}

// dependsOn: w occurs in the expression tree of v (through arithmetic, conversions and phis).
func dependsOn(v, w ssa.Value, d int) bool {
	if d > 12 || v == nil {
		return false
	}
	if v == w {
		return true
	}
	switch x := v.(type) {
	case *ssa.UnOp:
		return dependsOn(x.X, w, d+1)
	case *ssa.BinOp:
		return dependsOn(x.X, w, d+1) || dependsOn(x.Y, w, d+1)
	case *ssa.Convert:
		return dependsOn(x.X, w, d+1)
	case *ssa.ChangeType:
		return dependsOn(x.X, w, d+1)
	case *ssa.Phi:
		for _, e := range x.Edges {
			if e != v && dependsOn(e, w, d+1) {
				return true
			}
		}
		// a condition selecting between the phi's edges: any test between the phi's immediate dominator and the
		// blocks its values arrive from
		top := x.Block().Idom()
		for _, p := range x.Block().Preds {
			for b := p; b != nil; b = b.Idom() {
				if iff, ok := b.Instrs[len(b.Instrs)-1].(*ssa.If); ok && dependsOn(iff.Cond, w, d+1) {
					return true
				}
				if b == top {
					break
				}
			}
		}
	case *ssa.Call:
		for _, a := range x.Call.Args {
			if dependsOn(a, w, d+1) {
				return true
			}
		}
	}
	return false
}

// controlDependsOn: some branch condition on the way to st tests a value derived from w.
func controlDependsOn(st *ssa.Store, w ssa.Value) bool {
	for b := st.Block(); b != nil; b = b.Idom() {
		d := b.Idom()
		if d == nil {
			break
		}
		if iff, ok := d.Instrs[len(d.Instrs)-1].(*ssa.If); ok && dependsOn(iff.Cond, w, 0) {
			return true
		}
	}
	return false
}
