package main

import (
	"fmt"
	"go/token"
	"go/types"
	"sort"
	"strings"

	"golang.org/x/tools/go/ssa"
)

// evalByteCond evaluates a branch condition under the assumption b == k.
// known=false when the condition does not depend (only) on b and constants.
func evalByteCond(cond ssa.Value, b ssa.Value, k int64, d int) (val, known bool) {
	if d > 8 {
		return false, false
	}
	if u, ok := cond.(*ssa.UnOp); ok && u.Op == token.NOT {
		v, kn := evalByteCond(u.X, b, k, d+1)
		return !v, kn
	}
	bo, ok := cond.(*ssa.BinOp)
	if !ok {
		return false, false
	}
	isB := func(v ssa.Value) bool { return stripIntConv(stripConv(v)) == b || stripConv(v) == b }
	var c int64
	var flip bool
	if isB(bo.X) {
		cc, ok := constInt(bo.Y)
		if !ok {
			return false, false
		}
		c = cc
	} else if isB(bo.Y) {
		cc, ok := constInt(bo.X)
		if !ok {
			return false, false
		}
		c, flip = cc, true
	} else {
		return false, false
	}
	l, r := k, c
	if flip {
		l, r = c, k
	}
	switch bo.Op {
	case token.EQL:
		return l == r, true
	case token.NEQ:
		return l != r, true
	case token.LSS:
		return l < r, true
	case token.LEQ:
		return l <= r, true
	case token.GTR:
		return l > r, true
	case token.GEQ:
		return l >= r, true
	}
	return false, false
}

// acceptedByteValues: the values k of the byte read by `read` for which a
// successful return or a further wire event is reachable when every branch on
// that byte is resolved for b == k.
func acceptedByteValues(cs codecSide, f *ssa.Function, read ssa.Instruction, b ssa.Value) []int {
	isEvent := map[ssa.Instruction]bool{}
	allInstrs(f, func(in ssa.Instruction) {
		if in != read && cs.classifyWire(f, in) != nil {
			isEvent[in] = true
		}
	})
	var acc []int
	for k := 0; k < 256; k++ {
		_, ok := findPath(pathQuery{start: read,
			target: func(in ssa.Instruction) bool {
				if isEvent[in] {
					return true
				}
				if r, isR := in.(*ssa.Return); isR {
					return !isErrorReturn(f, r)
				}
				return false
			},
			blocker: func(in ssa.Instruction) bool {
				_, isR := in.(*ssa.Return)
				_, isP := in.(*ssa.Panic)
				return isR || isP
			},
			edgeBlock: func(e edge) bool {
				ifi, ok := e.from.Instrs[len(e.from.Instrs)-1].(*ssa.If)
				if !ok {
					return false
				}
				v, known := evalByteCond(ifi.Cond, b, int64(k), 0)
				if !known {
					return false
				}
				return (e.succ == 0) != v
			}})
		if ok {
			acc = append(acc, k)
		}
	}
	return acc
}

func intsStr(xs []int) string {
	if len(xs) > 12 {
		return fmt.Sprintf("%d values (%d..%d)", len(xs), xs[0], xs[len(xs)-1])
	}
	return fmt.Sprint(xs)
}

func checkC13(c *Ctx) (string, []string) {
	enc, dec := c.codecMethods(typesPkg)
	cs := codecSide{pkgPath: modPath + "/" + typesPkg}
	cs.leaves = cs.computeLeaves(enc)
	csE, csD := cs, cs
	csE.shapeFacts = true

	c.Rule("C13.discriminator", "for every single byte read by a Decode method (option flag, variant tag, bool): resolving each branch on that byte for every value 0..255, the values that still reach a successful return or a further read are a subset of the byte constants the sibling Encode writes (all other values end in an error return)", 10)
	c.Rule("C13.flag-error-checked", "the error result of every single-byte read in a Decode method is tested against nil before the byte is used", 10)
	var names []string
	for n := range dec {
		names = append(names, n)
	}
	sort.Strings(names)
	nread := 0
	for _, n := range names {
		fd := dec[n]
		// constants the sibling Encode writes as single bytes
		written := map[int]bool{}
		encVar := false
		if fe := enc[n]; fe != nil {
			allInstrs(fe, func(in ssa.Instruction) {
				for _, ev := range csE.instrEvents(fe, in) {
					if ev.kind == "byte" {
						if ev.konst == "" {
							encVar = true
						} else {
							var k int
							fmt.Sscan(ev.konst, &k)
							written[k] = true
						}
					}
				}
			})
		}
		idx := 0
		allInstrs(fd, func(in ssa.Instruction) {
			ev := csD.classifyWire(fd, in)
			if ev == nil || ev.kind != "byte" {
				return
			}
			call, ok := in.(*ssa.Call)
			if !ok {
				return
			}
			idx++
			nread++
			key := fmt.Sprintf("%s.%s.Decode · byte read #%d", typesPkg, n, idx)
			var bval, errv ssa.Value
			for _, r := range *call.Referrers() {
				if ex, ok := r.(*ssa.Extract); ok {
					if ex.Index == 0 {
						bval = ex
					} else {
						errv = ex
					}
				}
			}
			// error checked?
			checked := false
			if errv != nil {
				for _, r := range *errv.Referrers() {
					if bo, ok := r.(*ssa.BinOp); ok && (bo.Op == token.NEQ || bo.Op == token.EQL) {
						checked = true
					}
					if _, ok := r.(*ssa.Return); ok {
						checked = true
					}
				}
			}
			c.Check(checked, "C13.flag-error-checked", key, in.Pos(), "read error is tested", "the error of this byte read is never examined: at end of input the byte reads as 0 and decoding continues")
			if bval == nil {
				c.Bad("C13.discriminator", key, in.Pos(), "the byte is read and discarded")
				return
			}
			acc := acceptedByteValues(csD, fd, in, bval)
			if encVar || len(written) == 0 {
				// Encode writes a computed byte: fall back to "some value must be rejected unless the byte is plain data"
				c.Check(len(acc) < 256, "C13.discriminator", key, in.Pos(), "accepted values: "+intsStr(acc), "every byte value is accepted and the sibling Encode does not write a plain data byte here")
				return
			}
			var extra []int
			for _, k := range acc {
				if !written[k] {
					extra = append(extra, k)
				}
			}
			var ws []int
			for k := range written {
				ws = append(ws, k)
			}
			sort.Ints(ws)
			if len(extra) == 0 {
				c.OK("C13.discriminator", key, in.Pos(), "accepted %s ⊆ written %v", intsStr(acc), ws)
			} else {
				c.Bad("C13.discriminator", key, in.Pos(), "Decode accepts byte values %s that Encode never writes (it writes %v): the accepted input is not the encoding of the decoded value", intsStr(extra), ws)
			}
		})
	}
	c.extra["byte_reads_examined"] = nread

	c.Rule("C13.short-read", "every call in internal/types that the input reader (Decoder.buf, directly or wrapped by io.LimitReader / bufio / an interface conversion, or handed to a helper) flows into is one that fails on short input (io.ReadFull, binary.Read, io.ReadAtLeast with the full length, io.CopyN, ReadByte) or has its returned count / result length compared; readers that accept a short payload (Read, io.ReadAll, io.Copy, ReadAt, WriteTo) without such a comparison are violations", 30)
	{
		type item struct {
			f *ssa.Function
			v ssa.Value
		}
		seenV := map[ssa.Value]bool{}
		var work []item
		for _, f := range c.SrcFuncs(typesPkg) {
			if strings.Contains(c.pos(f.Pos()), "json") {
				continue
			}
			for _, fc := range withClosures(f) {
				allInstrs(fc, func(in ssa.Instruction) {
					u, ok := in.(*ssa.UnOp)
					if !ok || u.Op != token.MUL {
						return
					}
					fa, ok := u.X.(*ssa.FieldAddr)
					if !ok {
						return
					}
					st, ok := derefType(fa.X.Type()).Underlying().(*types.Struct)
					if !ok || st.Field(fa.Field).Name() != "buf" || !strings.HasSuffix(typeStr(derefType(fa.X.Type())), "types.Decoder") {
						return
					}
					work = append(work, item{fc, u})
				})
			}
		}
		compared := func(v ssa.Value) bool {
			// v (an int count, or a slice whose len is taken) takes part in a comparison
			ok := false
			var visit func(ssa.Value, int)
			visit = func(v ssa.Value, d int) {
				if d > 4 || v.Referrers() == nil {
					return
				}
				for _, r := range *v.Referrers() {
					switch x := r.(type) {
					case *ssa.BinOp:
						switch x.Op {
						case token.NEQ, token.EQL, token.LSS, token.GTR, token.LEQ, token.GEQ:
							ok = true
						}
					case *ssa.Convert:
						visit(x, d+1)
					case *ssa.Call:
						if b, isB := x.Call.Value.(*ssa.Builtin); isB && b.Name() == "len" {
							visit(x, d+1)
						}
					}
				}
			}
			visit(v, 0)
			return ok
		}
		resultOf := func(call *ssa.Call, idx int) ssa.Value {
			for _, r := range *call.Referrers() {
				if ex, ok := r.(*ssa.Extract); ok && ex.Index == idx {
					return ex
				}
			}
			return nil
		}
		for len(work) > 0 {
			it := work[len(work)-1]
			work = work[:len(work)-1]
			if seenV[it.v] || it.v.Referrers() == nil {
				continue
			}
			seenV[it.v] = true
			f := it.f
			for _, r := range *it.v.Referrers() {
				switch x := r.(type) {
				case *ssa.MakeInterface:
					work = append(work, item{f, x})
				case *ssa.ChangeInterface:
					work = append(work, item{f, x})
				case *ssa.ChangeType:
					work = append(work, item{f, x})
				case *ssa.Phi:
					work = append(work, item{f, x})
				case *ssa.Call:
					name := ""
					if x.Call.IsInvoke() {
						name = "io.Reader." + x.Call.Method.Name()
					} else if sc := x.Call.StaticCallee(); sc != nil {
						name = sc.String()
					} else {
						c.Unknown("C13.short-read", funcKey(f)+" · dynamic call on the input reader", x.Pos(), "cannot resolve the callee the input reader is passed to")
						continue
					}
					short := strings.TrimPrefix(strings.TrimPrefix(name, "(*bytes.Reader)."), "io.Reader.")
					key := funcKey(f) + " · " + strings.Replace(name, "(*bytes.Reader).", "bytes.Reader.", 1)
					switch name {
					case "io.ReadFull":
						c.OK("C13.short-read", key, x.Pos(), "io.ReadFull fails on short input")
					case "encoding/binary.Read":
						c.OK("C13.short-read", key, x.Pos(), "binary.Read fails on short input")
					case "io.CopyN":
						c.OK("C13.short-read", key, x.Pos(), "io.CopyN fails on short input")
					case "io.ReadAtLeast":
						full := false
						if len(x.Call.Args) == 3 {
							if l, ok := stripConv(x.Call.Args[2]).(*ssa.Call); ok {
								if b, isB := l.Call.Value.(*ssa.Builtin); isB && b.Name() == "len" && l.Call.Args[0] == x.Call.Args[1] {
									full = true
								}
							}
						}
						c.Check(full, "C13.short-read", key, x.Pos(), "io.ReadAtLeast with min = len(buf) fails on short input", "io.ReadAtLeast with a minimum below the buffer length accepts a short payload")
					case "io.LimitReader", "bufio.NewReader", "bufio.NewReaderSize", "io.TeeReader", "io.NewSectionReader":
						work = append(work, item{f, x})
					case "(*bytes.Reader).Read", "io.Reader.Read", "(*bytes.Reader).ReadAt":
						n := resultOf(x, 0)
						c.Check(n != nil && compared(n), "C13.short-read", key, x.Pos(), "returned count compared with the requested length", short+" returns n < len(p) with a nil error when the input is short; the count is ignored, so truncated input is zero-filled and accepted")
					case "io.ReadAll", "io.Copy", "(*bytes.Reader).WriteTo", "(*bytes.Buffer).ReadFrom":
						n := resultOf(x, 0)
						c.Check(n != nil && compared(n), "C13.short-read", key, x.Pos(), "length of what was read is compared with the declared length", name+" treats end of input as success: a payload shorter than its declared length is accepted (the result's length is never compared)")
					case "(*bytes.Reader).ReadByte", "(*bytes.Reader).Len", "(*bytes.Reader).Size", "(*bytes.Reader).UnreadByte", "(*bytes.Reader).Reset", "(*bytes.Reader).Seek":
						// single-byte read reports EOF; the others do not consume payload
					default:
						sc := x.Call.StaticCallee()
						if sc != nil && len(sc.Blocks) > 0 && strings.HasPrefix(sc.String(), "") && sc.Pkg != nil && strings.HasPrefix(sc.Pkg.Pkg.Path(), modPath) {
							args := x.Call.Args
							for ai, a := range args {
								if a == it.v && ai < len(sc.Params) {
									work = append(work, item{sc, sc.Params[ai]})
								}
							}
							continue
						}
						c.Unknown("C13.short-read", key, x.Pos(), "the input reader is passed to %s, whose short-input behaviour is not in the rule's table", name)
					}
				}
			}
		}
	}

	c.Rule("C13.minimality", "the protocol decoder's natural-number reader accepts exactly the canonical encodings: truncated and non-minimal strings fail on every path, canonical ones succeed with the defined value (bit-provenance abstract interpretation shared with C12.decoded-value)", 12)
	if f := c.Fn(typesPkg, "Decoder.DecodeUint"); f != nil {
		c12DecodedValue(c, f, "C13.minimality")
	}
	// DecodeLength / DecodeInteger go through decodeUintFromReader -> DecodeUint
	for _, m := range []string{"Decoder.DecodeLength", "Decoder.DecodeInteger", "Decoder.decodeUintFromReader"} {
		f := c.Fn(typesPkg, m)
		if f == nil {
			continue
		}
		target := c.Obj(typesPkg, "Decoder.DecodeUint")
		via := c.Obj(typesPkg, "Decoder.decodeUintFromReader")
		ok := len(callsIn(f, target, via)) > 0
		c.Check(ok, "C13.minimality", funcKey(f)+" · delegates", f.Pos(), "delegates to the checked reader", "does not go through DecodeUint")
	}

	c.Rule("C13.accept-only-encodings", "for every type pair, no event sequence is a complete message for Decode but not for Encode (language inclusion of the wire automata; the converse direction is C11)", 120)
	for _, n := range names {
		fe, fd := enc[n], dec[n]
		if fe == nil {
			continue
		}
		lab := func(e *wireEvent) string { return e.label(true) }
		de, dd := csE.automaton(fe).determinize(lab), csD.automaton(fd).determinize(lab)
		key := typesPkg + "." + n
		nbad := 0
		if de.canonical() != dd.canonical() {
			for _, dw := range distinguishAll(de, dd, 6) {
				if !dw.inA {
					nbad++
					c.Bad("C13.accept-only-encodings", key+" · ["+strings.Join(dw.word, " ")+"] complete only for Decode", fd.Pos(), "Decode accepts the event sequence [%s] as a complete message; Encode never produces it", strings.Join(dw.word, " "))
				}
			}
		}
		if nbad == 0 {
			c.OK("C13.accept-only-encodings", key, fd.Pos(), "L(Decode) ⊆ L(Encode)")
		}
	}
	_ = types.Typ
	return "Strict-decoding mechanisms decided statically for internal/types: (1) each single-byte discriminator/bool read is resolved for all 256 values against the branches that test it — the surviving values must be among the byte constants the sibling Encode writes; (2) the error of each such read is tested; (3) raw reads cannot be silently short (io.ReadFull/binary.Read or a checked count); (4) the natural-number reader enforces minimality (2^(7l), 2^56) and every length/integer read delegates to it; (5) wire-automaton inclusion L(Decode) ⊆ L(Encode) for all type pairs.",
		[]string{"go/ssa; wire-event vocabulary of C11", "path-insensitive except for branches on the discriminator byte itself (resolved concretely per value)", "not decided: canonicity of map key order on decode (a decoder accepting unsorted dictionary keys), value ranges of fixed-width integers"}
}
