package main

import (
	"fmt"
	"go/token"
	"go/types"
	"sort"
	"strings"

	"golang.org/x/tools/go/ssa"
)

const telPkg = "internal/telemetry"

type c28 struct {
	c *Ctx

	seqLock, seqUnlock                                  types.Object
	nextID, bumpEpoch, validateParentLocked             types.Object
	record, peekFirst, popFirst, reset                  types.Object
	drainQueueLocked, writeEvent, writeDropped          types.Object
	writeNodeInfo, writeLoop, flushReadyDrops, dial     types.Object
	eventIDSeq, eventIDEpoch, makeEventID               types.Object
	fMu, fEpoch, fSeqCounter, fRanges, fQueue, fEnabled *types.Var
	fEnvID, fCount, fFirstID                            *types.Var

	funcs    []*ssa.Function
	requires map[*ssa.Function]string // function -> reason (first unheld guarded access)
	acquires map[*ssa.Function]bool
	mayBlock map[*ssa.Function]string
	states   map[*ssa.Function]map[ssa.Instruction]lockState
}

func checkC28(c *Ctx) (string, []string) {
	k := &c28{c: c}
	o := func(n string) types.Object { return c.Obj(telPkg, n) }
	k.seqLock, k.seqUnlock = o("sequencer.Lock"), o("sequencer.Unlock")
	k.nextID, k.bumpEpoch, k.validateParentLocked = o("sequencer.nextID"), o("sequencer.bumpEpoch"), o("sequencer.validateParentLocked")
	k.record, k.peekFirst, k.popFirst, k.reset = o("dropState.record"), o("dropState.peekFirst"), o("dropState.popFirst"), o("dropState.reset")
	k.drainQueueLocked, k.writeEvent, k.writeDropped = o("tcpClient.drainQueueLocked"), o("tcpClient.writeEvent"), o("tcpClient.writeDropped")
	k.writeNodeInfo, k.writeLoop, k.flushReadyDrops, k.dial = o("tcpClient.writeNodeInfo"), o("tcpClient.writeLoop"), o("tcpClient.flushReadyDrops"), o("tcpClient.dial")
	k.eventIDSeq, k.eventIDEpoch, k.makeEventID = o("eventIDSeq"), o("eventIDEpoch"), o("makeEventID")
	k.fMu, k.fEpoch, k.fSeqCounter = c.Field(telPkg, "sequencer.mu"), c.Field(telPkg, "sequencer.currentEpoch"), c.Field(telPkg, "sequencer.seqCounter")
	k.fRanges, k.fQueue, k.fEnabled = c.Field(telPkg, "dropState.ranges"), c.Field(telPkg, "tcpClient.queue"), c.Field(telPkg, "tcpClient.enabledFlag")
	k.fEnvID, k.fCount = c.Field(telPkg, "envelope.id"), c.Field(telPkg, "dropRange.count")
	k.fFirstID = c.Field(telPkg, "dropRange.firstID")
	if len(c.fatal) > 0 {
		return "", nil
	}
	k.funcs = c.SrcFuncs(telPkg)
	c.extra["functions_analysed"] = len(k.funcs)

	k.inferLocking()
	k.ruleGuardedAccess()
	k.ruleNoReacquire()
	k.ruleNoBlocking()
	k.ruleProducer()
	k.ruleWriter()
	k.ruleConnect()
	k.ruleSequencerShapes()

	return "Lock discipline and ordering rules of the telemetry client (tcpClient/sequencer/dropState), decided on SSA with a must/may lockset dataflow, " +
			"CFG path queries (must-pass-through, guard edges) and canonical expression shapes. Decides the structural mechanisms that carry wire/ID alignment; " +
			"does NOT decide alignment over all interleavings (a model-checking question) nor frame well-formedness.",
		[]string{
			"one sequencer per tcpClient: the abstract lock 'seq' is instance-insensitive",
			"log.Printf, fmt, time.Now, sync/atomic and append are non-blocking; net/io/os/bufio calls, channel operations outside select-with-default, time.Sleep, WaitGroup.Wait, foreign Mutex.Lock, sync.Once.Do and dynamic calls of function values are (potentially) blocking",
			"loads from structurally equal addresses yield equal values (no intervening store) in expression comparison",
		}
}

func (k *c28) isMuCall(in ssa.Instruction, method string) bool {
	ci, ok := in.(ssa.CallInstruction)
	if !ok {
		return false
	}
	cc := ci.Common()
	f := cc.StaticCallee()
	if f == nil || f.Name() != method || f.Pkg == nil || f.Pkg.Pkg.Path() != "sync" {
		return false
	}
	if len(cc.Args) == 0 {
		return false
	}
	fa, ok := cc.Args[0].(*ssa.FieldAddr)
	return ok && structField(fa.X.Type(), fa.Field) == k.fMu
}

func (k *c28) isAcquire(in ssa.Instruction) bool {
	return isCallTo(in, k.seqLock) || k.isMuCall(in, "Lock")
}
func (k *c28) isRelease(in ssa.Instruction) bool {
	return isCallTo(in, k.seqUnlock) || k.isMuCall(in, "Unlock")
}

func (k *c28) spec() lockSpec { return lockSpec{acquire: k.isAcquire, release: k.isRelease} }

func (k *c28) guardedField(in ssa.Instruction) *types.Var {
	for _, f := range instrFieldRefs(in) {
		if f == k.fEpoch || f == k.fSeqCounter || f == k.fRanges {
			return f
		}
	}
	return nil
}

// isFreshObject: field access on a value allocated in this function
// (constructor initialising a not-yet-shared object).
func isFreshBase(in ssa.Instruction) bool {
	fa, ok := in.(*ssa.FieldAddr)
	if !ok {
		return false
	}
	_, isAlloc := fa.X.(*ssa.Alloc)
	return isAlloc
}

func (k *c28) isLockWrapper(f *ssa.Function) bool {
	o := f.Object()
	return o == k.seqLock || o == k.seqUnlock
}

// inferLocking computes, to a fixpoint: requires(seq) = functions with a
// guarded access (guarded field, queue drain, or call to a requires function)
// at a point where the lock is not must-held inside the function itself.
func (k *c28) inferLocking() {
	k.requires = map[*ssa.Function]string{}
	if f := k.c.SSA().FuncValue(k.drainQueueLocked.(*types.Func)); f != nil {
		k.requires[f] = "documented: called under sequencer lock between connections (drains c.queue)"
	}
	for changed := true; changed; {
		changed = false
		k.states = map[*ssa.Function]map[ssa.Instruction]lockState{}
		for _, f := range k.funcs {
			if k.isLockWrapper(f) {
				continue
			}
			_, req := k.requires[f]
			st := lockStates(f, k.spec(), req)
			k.states[f] = st
			if req {
				continue
			}
			allInstrs(f, func(in ssa.Instruction) {
				if _, already := k.requires[f]; already {
					return
				}
				if st[in].must {
					return
				}
				if g := k.guardedField(in); g != nil && !isFreshBase(in) {
					k.requires[f] = fmt.Sprintf("accesses %s without holding seq at %s", g.Name(), k.c.pos(in.Pos()))
					changed = true
					return
				}
				if ci, ok := in.(ssa.CallInstruction); ok {
					if callee := calleeFunc(ci); callee != nil {
						if why, r := k.requires[callee]; r {
							k.requires[f] = fmt.Sprintf("calls %s (%s) without holding seq at %s", funcKey(callee), why, k.c.pos(in.Pos()))
							changed = true
						}
					}
				}
			})
		}
	}
	// acquires: transitively takes the lock
	k.acquires = map[*ssa.Function]bool{}
	for changed := true; changed; {
		changed = false
		for _, f := range k.funcs {
			if k.acquires[f] {
				continue
			}
			allInstrs(f, func(in ssa.Instruction) {
				if k.acquires[f] {
					return
				}
				if _, isDefer := in.(*ssa.Defer); isDefer {
					return
				}
				if k.isAcquire(in) {
					k.acquires[f] = true
					changed = true
					return
				}
				if ci, ok := in.(ssa.CallInstruction); ok {
					if callee := calleeFunc(ci); callee != nil && k.acquires[callee] {
						k.acquires[f] = true
						changed = true
					}
				}
			})
		}
	}
	k.computeMayBlock()
}

func isExportedRoot(f *ssa.Function) bool {
	if f.Parent() != nil {
		return true // closure: invoked dynamically
	}
	return token.IsExported(f.Name())
}

// ruleGuardedAccess: R1/R7. No root (exported function/method, closure,
// goroutine body) may be in requires(seq); no function outside the owner
// types may touch the guarded fields at all.
func (k *c28) ruleGuardedAccess() {
	c := k.c
	c.Rule("C28.guarded-state", "every access to sequencer.currentEpoch/seqCounter and dropState.ranges, every call of a function that needs the sequencer lock (inferred: it touches guarded state without locking) and the queue drain happen with the sequencer lock must-held; functions that need it are never exported, closures or goroutine bodies", 20)
	c.Rule("C28.field-owner", "guarded fields are referenced only inside methods of their owner type (or on a freshly allocated object in a constructor)", 8)
	// go targets and address-taken functions are roots as well
	roots := map[*ssa.Function]string{}
	for _, f := range k.funcs {
		if isExportedRoot(f) {
			roots[f] = "exported or closure"
		}
		allInstrs(f, func(in ssa.Instruction) {
			if g, ok := in.(*ssa.Go); ok {
				if callee := g.Call.StaticCallee(); callee != nil {
					roots[callee] = "goroutine body"
				}
			}
			// function values taken (not called)
			for _, op := range in.Operands(nil) {
				if fn, ok := (*op).(*ssa.Function); ok {
					if ci, isCall := in.(ssa.CallInstruction); isCall && ci.Common().Value == fn {
						continue
					}
					roots[fn] = "function value taken"
				}
			}
		})
	}
	for _, f := range k.funcs {
		if k.isLockWrapper(f) {
			continue
		}
		st := k.states[f]
		_, req := k.requires[f]
		allInstrs(f, func(in ssa.Instruction) {
			if g := k.guardedField(in); g != nil {
				owner := g == k.fRanges && recvNamed(f) == "dropState" || g != k.fRanges && recvNamed(f) == "sequencer"
				c.Check(owner || isFreshBase(in), "C28.field-owner", funcKey(f)+" · "+g.Name(), in.Pos(),
					"field referenced inside its owner type", "guarded field "+g.Name()+" referenced outside its owner type's methods")
				if isFreshBase(in) {
					return
				}
				key := funcKey(f) + " · " + g.Name()
				if st[in].must || req {
					c.OK("C28.guarded-state", key, in.Pos(), "lock must-held (locally or by every caller: requires(seq)=%v)", req)
				} else {
					c.Bad("C28.guarded-state", key, in.Pos(), "guarded field accessed without the sequencer lock")
				}
			}
			if ci, ok := in.(ssa.CallInstruction); ok {
				if callee := calleeFunc(ci); callee != nil {
					if _, r := k.requires[callee]; r {
						if _, isGo := in.(*ssa.Go); isGo {
							c.Bad("C28.guarded-state", funcKey(f)+" → go "+funcKey(callee), in.Pos(), "lock-requiring function launched as goroutine")
							return
						}
						key := funcKey(f) + " → " + funcKey(callee)
						if st[in].must || req {
							c.OK("C28.guarded-state", key, in.Pos(), "callee needs seq; held here")
						} else {
							c.Bad("C28.guarded-state", key, in.Pos(), "callee needs the sequencer lock (%s); not held here", k.requires[callee])
						}
					}
				}
			}
		})
		if why, r := k.requires[f]; r {
			if rw, isRoot := roots[f]; isRoot {
				c.Bad("C28.guarded-state", "root "+funcKey(f), f.Pos(), "%s (%s) reaches guarded state without the lock: %s", funcKey(f), rw, why)
			}
		}
	}
}

func recvNamed(f *ssa.Function) string {
	if f.Signature.Recv() == nil {
		return ""
	}
	if n := namedOf(f.Signature.Recv().Type()); n != nil {
		return n.Obj().Name()
	}
	return ""
}

// ruleNoReacquire: R2. A function that (transitively) acquires the sequencer
// lock is never called where the lock may be held; no double Lock.
func (k *c28) ruleNoReacquire() {
	c := k.c
	c.Rule("C28.no-reacquire", "no call of a function that (transitively) acquires the sequencer lock, and no Lock, at a point where the lock may already be held (self-deadlock blocks every emitter)", 8)
	for _, f := range k.funcs {
		if k.isLockWrapper(f) {
			continue
		}
		st := k.states[f]
		allInstrs(f, func(in ssa.Instruction) {
			if _, isDefer := in.(*ssa.Defer); isDefer {
				return
			}
			if _, isGo := in.(*ssa.Go); isGo {
				return
			}
			if k.isAcquire(in) {
				c.Check(!st[in].may, "C28.no-reacquire", funcKey(f)+" · Lock", in.Pos(), "lock not held before Lock", "Lock while the sequencer lock may already be held")
				return
			}
			if ci, ok := in.(ssa.CallInstruction); ok {
				if callee := calleeFunc(ci); callee != nil && k.acquires[callee] && !k.isLockWrapper(callee) {
					c.Check(!st[in].may, "C28.no-reacquire", funcKey(f)+" → "+funcKey(callee), in.Pos(),
						"callee acquires seq; not held here", "callee acquires the sequencer lock but it may already be held here (self-deadlock)")
				}
			}
		})
	}
}

var blockingPkgs = map[string]bool{"net": true, "io": true, "os": true, "bufio": true, "net/http": true, "crypto/tls": true, "os/exec": true, "syscall": true}

// blockingOp classifies a single instruction (not following in-package calls).
func (k *c28) blockingOp(in ssa.Instruction) string {
	switch x := in.(type) {
	case *ssa.Send:
		return "blocking channel send"
	case *ssa.UnOp:
		if x.Op == token.ARROW {
			return "blocking channel receive"
		}
	case *ssa.Select:
		if x.Blocking {
			return "blocking select (no default)"
		}
	case *ssa.Defer:
		return ""
	case *ssa.Go:
		return ""
	}
	ci, ok := in.(ssa.CallInstruction)
	if !ok {
		return ""
	}
	cc := ci.Common()
	if cc.IsInvoke() {
		if n := namedOf(cc.Value.Type()); n != nil && n.Obj().Pkg() != nil && blockingPkgs[n.Obj().Pkg().Path()] {
			return "call of " + n.Obj().Pkg().Path() + "." + n.Obj().Name() + "." + cc.Method.Name()
		}
		if cc.Method.Pkg() != nil && blockingPkgs[cc.Method.Pkg().Path()] {
			return "interface call " + cc.Method.FullName()
		}
		return ""
	}
	if _, isBuiltin := cc.Value.(*ssa.Builtin); isBuiltin {
		return ""
	}
	f := cc.StaticCallee()
	if f == nil {
		return "dynamic call of a function value (arbitrary code)"
	}
	if f.Pkg == nil {
		if f.Parent() != nil {
			return "" // closure defined here: analysed as in-package function
		}
		return ""
	}
	p := f.Pkg.Pkg.Path()
	if blockingPkgs[p] {
		return "call of " + f.String()
	}
	full := f.String()
	switch full {
	case "time.Sleep", "(*sync.WaitGroup).Wait", "(*sync.Cond).Wait", "(*sync.Once).Do",
		"(*sync.RWMutex).Lock", "(*sync.RWMutex).RLock":
		return "call of " + full
	case "(*sync.Mutex).Lock":
		if !k.isMuCall(in, "Lock") {
			return "Lock of a second mutex"
		}
	}
	return ""
}

func (k *c28) computeMayBlock() {
	k.mayBlock = map[*ssa.Function]string{}
	inPkg := map[*ssa.Function]bool{}
	for _, f := range k.funcs {
		inPkg[f] = true
	}
	for changed := true; changed; {
		changed = false
		for _, f := range k.funcs {
			if _, done := k.mayBlock[f]; done {
				continue
			}
			allInstrs(f, func(in ssa.Instruction) {
				if _, done := k.mayBlock[f]; done {
					return
				}
				if _, isGo := in.(*ssa.Go); isGo {
					return
				}
				if why := k.blockingOp(in); why != "" {
					k.mayBlock[f] = why + " at " + k.c.pos(in.Pos())
					changed = true
					return
				}
				if ci, ok := in.(ssa.CallInstruction); ok {
					if _, isDefer := in.(*ssa.Defer); isDefer {
						// deferred calls run at return: still part of the function
					}
					if callee := calleeFunc(ci); callee != nil && inPkg[callee] {
						if why, b := k.mayBlock[callee]; b {
							k.mayBlock[f] = "calls " + funcKey(callee) + " (" + why + ")"
							changed = true
						}
					}
				}
			})
		}
	}
}

// ruleNoBlocking: R4. Nothing that can block while seq may be held; nothing
// that can block at all in the emit paths.
func (k *c28) ruleNoBlocking() {
	c := k.c
	c.Rule("C28.no-block-under-lock", "no potentially blocking operation (channel op outside select-with-default, net/io call, sleep, wait, foreign lock, dynamic call) at a point where the sequencer lock may be held", 10)
	c.Rule("C28.emitters-never-block", "no function reachable from tcpClient's Client-interface emit methods contains a potentially blocking operation other than taking the sequencer lock", 5)
	for _, f := range k.funcs {
		if k.isLockWrapper(f) {
			continue
		}
		st := k.states[f]
		allInstrs(f, func(in ssa.Instruction) {
			if !st[in].may {
				return
			}
			if _, isGo := in.(*ssa.Go); isGo {
				return
			}
			why := k.blockingOp(in)
			key := ""
			if why == "" {
				if ci, ok := in.(ssa.CallInstruction); ok {
					if _, isDefer := in.(*ssa.Defer); isDefer {
						return
					}
					if callee := calleeFunc(ci); callee != nil {
						if k.isLockWrapper(callee) {
							return
						}
						key = funcKey(f) + " → " + funcKey(callee)
						if w, b := k.mayBlock[callee]; b {
							why = "callee may block: " + w
						}
					} else {
						return
					}
				} else if _, isSel := in.(*ssa.Select); isSel {
					key = funcKey(f) + " · select-with-default"
				} else {
					return
				}
			} else {
				key = funcKey(f) + " · " + why
			}
			c.Check(why == "", "C28.no-block-under-lock", key, in.Pos(), "non-blocking while seq held", "under the sequencer lock: "+why)
		})
	}
	// emitters
	tc := k.c.Obj(telPkg, "tcpClient")
	iface := k.c.Obj(telPkg, "Client")
	if tc == nil || iface == nil {
		return
	}
	it, _ := iface.Type().Underlying().(*types.Interface)
	if it == nil {
		k.c.Fatalf("telemetry.Client is not an interface")
		return
	}
	var work []*ssa.Function
	for i := 0; i < it.NumMethods(); i++ {
		m := it.Method(i)
		if m.Name() == "Close" {
			continue
		}
		mo, _, _ := types.LookupFieldOrMethod(types.NewPointer(tc.Type()), true, tc.Pkg(), m.Name())
		if fo, ok := mo.(*types.Func); ok {
			if f := k.c.SSA().FuncValue(fo); f != nil {
				work = append(work, f)
			}
		} else {
			k.c.Fatalf("tcpClient does not implement Client.%s", m.Name())
		}
	}
	inPkg := map[*ssa.Function]bool{}
	for _, f := range k.funcs {
		inPkg[f] = true
	}
	seen := map[*ssa.Function]bool{}
	for len(work) > 0 {
		f := work[len(work)-1]
		work = work[:len(work)-1]
		if seen[f] || !inPkg[f] || k.isLockWrapper(f) {
			continue
		}
		seen[f] = true
		bad := ""
		var badPos token.Pos
		allInstrs(f, func(in ssa.Instruction) {
			if _, isGo := in.(*ssa.Go); isGo {
				return
			}
			if why := k.blockingOp(in); why != "" && bad == "" {
				bad, badPos = why, in.Pos()
			}
			if ci, ok := in.(ssa.CallInstruction); ok {
				if callee := calleeFunc(ci); callee != nil {
					work = append(work, callee)
				}
			}
			// closures created here run elsewhere (writer goroutine): not followed
		})
		if bad == "" {
			c.OK("C28.emitters-never-block", funcKey(f), f.Pos(), "no blocking operation in emit path function")
		} else {
			c.Bad("C28.emitters-never-block", funcKey(f), badPos, "emit path contains %s", bad)
		}
	}
}

// ruleProducer: R3. Atomic section of every function that allocates an ID.
func (k *c28) ruleProducer() {
	c := k.c
	c.Rule("C28.producer-section", "in every function that calls nextID: the call is under the lock; every path from it to the release of the lock passes one non-blocking select that sends, on tcpClient.queue, an envelope whose id field is that ID; on the select's default outcome every path passes drops.record(thatID, ·) before the release and on the sent outcome none does; no second nextID in the section", 3)
	c.Rule("C28.followup-parent", "a function that takes a parent ID and allocates a child ID calls validateParentLocked(parent) and allocates only on its true edge, in the same critical section", 1)
	producers := 0
	// producer helpers: functions that allocate an ID and rely on their callers for the lock ("…Locked" helpers);
	// the guarded-state rule already demands that every call of such a function is made with the lock held
	helperOf := map[*ssa.Function]bool{}
	for _, f := range k.funcs {
		if _, req := k.requires[f]; req && f.Object() != k.nextID && len(callsIn(f, k.nextID)) > 0 {
			helperOf[f] = true
		}
	}
	isHelperCall := func(in ssa.Instruction) bool {
		ci, ok := in.(ssa.CallInstruction)
		if !ok {
			return false
		}
		g := calleeFunc(ci)
		return g != nil && helperOf[g]
	}
	for _, f := range k.funcs {
		calls := callsIn(f, k.nextID)
		if len(calls) == 0 || f.Object() == k.nextID {
			continue
		}
		producers++
		st := k.states[f]
		_, req := k.requires[f]
		for _, call := range calls {
			key := funcKey(f)
			idVal, _ := call.(ssa.Value)
			if !(st[call].must) && !req {
				c.Bad("C28.producer-section", key+" · nextID under lock", call.Pos(), "nextID is not called under a lock taken in this function")
				continue
			}
			carries := func(sent ssa.Value) bool { return k.envelopeCarries(sent, idVal) }
			isID := func(v ssa.Value) bool { return stripConv(v) == stripConv(idVal) }
			ok := true
			nsel := 0
			for _, p := range k.sectionCheck(f, call, carries, isID, true, &nsel) {
				c.Bad("C28.producer-section", key+" · "+p.what, p.pos, "%s", p.msg)
				ok = false
			}
			sels := make([]int, nsel)
			if ok && !req {
				c.OK("C28.producer-section", key, call.Pos(), "nextID under lock; every path sends envelope{id} non-blockingly or records the drop for that id, exactly once (%d select)", len(sels))
			} else if ok {
				c.OK("C28.producer-section", key, call.Pos(), "lock held by every caller (guarded-state); from nextID to the return every path sends envelope{id} non-blockingly or records the drop for that id, exactly once (%d select)", len(sels))
			}
			// follow-up parent validation
			if !req {
				k.checkFollowup(f, call)
			}
		}
	}
	// callers of a producer helper: the call is the allocation site of their critical section
	for _, g := range k.funcs {
		if helperOf[g] {
			continue
		}
		stg := k.states[g]
		allInstrs(g, func(in ssa.Instruction) {
			if !isHelperCall(in) {
				return
			}
			ci := in.(ssa.CallInstruction)
			key := funcKey(g) + " · via " + calleeFunc(ci).Name()
			if !stg[in].must {
				c.Bad("C28.producer-section", key, in.Pos(), "the ID-allocating helper %s is called without the sequencer lock taken in this function", calleeFunc(ci).Name())
				return
			}
			isRelease := func(x ssa.Instruction) bool {
				if _, isDefer := x.(*ssa.Defer); isDefer {
					return false
				}
				return k.isRelease(x) || isExit(x)
			}
			again := func(x ssa.Instruction) bool {
				if x == in {
					return false
				}
				if _, isSel := x.(*ssa.Select); isSel {
					return true
				}
				return isCallTo(x, k.nextID) || isCallTo(x, k.record) || isHelperCall(x)
			}
			if hit, found := findPath(pathQuery{start: in, target: again, blocker: isRelease}); found {
				c.Bad("C28.producer-section", key+" · single id", hit.Pos(), "after the helper allocated and enqueued an ID, the same critical section allocates, sends or records again")
				return
			}
			c.OK("C28.producer-section", key, in.Pos(), "helper called under the lock taken here; nothing else is allocated, sent or recorded before the release")
			k.checkFollowup(g, ci)
		})
	}
	c.extra["producer_functions"] = producers
}

// envelopeCarries: the value sent is (a load of) a local envelope whose id
// field is stored exactly from idVal.
func (k *c28) envelopeCarries(sent ssa.Value, idVal ssa.Value) bool {
	v := stripConv(sent)
	u, ok := v.(*ssa.UnOp)
	if !ok || u.Op != token.MUL {
		return false
	}
	a, ok := u.X.(*ssa.Alloc)
	if !ok {
		return false
	}
	vals := fieldStores(a, k.fEnvID)
	if len(vals) == 0 {
		return false
	}
	for _, s := range vals {
		if stripConv(s) != stripConv(idVal) {
			return false
		}
	}
	return true
}

type secProblem struct {
	what, msg string
	pos       token.Pos
}

// sectionCheck verifies the send-or-record discipline from start (a nextID
// call, or function entry when start==nil for a helper that receives the
// envelope) to the end of the critical section.
func (k *c28) sectionCheck(f *ssa.Function, start ssa.Instruction, carries func(ssa.Value) bool, isID func(ssa.Value) bool, allowHelper bool, nsel *int) []secProblem {
	var out []secProblem
	isRelease := func(in ssa.Instruction) bool {
		if _, isDefer := in.(*ssa.Defer); isDefer {
			return false
		}
		return k.isRelease(in) || isExit(in)
	}
	isQueueSelect := func(in ssa.Instruction) bool {
		sel, ok := in.(*ssa.Select)
		if !ok || sel.Blocking || len(sel.States) != 1 {
			return false
		}
		s := sel.States[0]
		if s.Dir != types.SendOnly {
			return false
		}
		if _, ok := fieldOf(s.Chan, k.fQueue); !ok {
			return false
		}
		return carries(s.Send)
	}
	isHelper := func(in ssa.Instruction) bool {
		if !allowHelper {
			return false
		}
		ci, ok := in.(*ssa.Call)
		if !ok {
			return false
		}
		callee := calleeFunc(ci)
		if callee == nil || len(callee.Blocks) == 0 || callee.Pkg != f.Pkg {
			return false
		}
		for i, a := range ci.Call.Args {
			if !carries(a) || i >= len(callee.Params) {
				continue
			}
			p := callee.Params[i]
			pc := func(sent ssa.Value) bool { return resolveLocal(sent) == ssa.Value(p) }
			pid := func(v ssa.Value) bool {
				base, ok := fieldOf(v, k.fEnvID)
				if !ok {
					return false
				}
				if base == ssa.Value(p) {
					return true
				}
				if a, ok := base.(*ssa.Alloc); ok {
					return singleStore(a) == ssa.Value(p)
				}
				return false
			}
			n := 0
			if probs := k.sectionCheck(callee, nil, pc, pid, false, &n); len(probs) == 0 && n > 0 {
				return true
			}
		}
		return false
	}
	isStep := func(in ssa.Instruction) bool { return isQueueSelect(in) || isHelper(in) }
	q := pathQuery{start: start, fn: f, target: isRelease, blocker: isStep}
	if hit, found := findPath(q); found {
		return append(out, secProblem{"id→select", "a path from the ID allocation reaches the end of the critical section without the non-blocking send of an envelope carrying that ID", hit.Pos()})
	}
	var sels []*ssa.Select
	allInstrs(f, func(in ssa.Instruction) {
		if isQueueSelect(in) {
			sels = append(sels, in.(*ssa.Select))
		} else if isHelper(in) {
			*nsel++
		}
	})
	*nsel += len(sels)
	isRecord := func(in ssa.Instruction) bool {
		if !isCallTo(in, k.record) {
			return false
		}
		args := in.(ssa.CallInstruction).Common().Args
		return len(args) >= 2 && isID(args[1])
	}
	anyRecord := func(in ssa.Instruction) bool { return isCallTo(in, k.record) }
	for _, sel := range sels {
		sentEdges, dropEdges := selectOutcomeEdges(sel)
		if len(sentEdges) == 0 || len(dropEdges) == 0 {
			out = append(out, secProblem{"select outcome", "cannot identify the sent/default edges of the queue select", sel.Pos()})
			continue
		}
		if hit, found := findPath(pathQuery{startEdges: dropEdges, target: isRelease, blocker: isRecord}); found {
			out = append(out, secProblem{"default→record", "queue-full outcome reaches the end of the critical section without drops.record(id, ts) for the allocated ID", hit.Pos()})
		}
		if hit, found := findPath(pathQuery{startEdges: sentEdges, target: anyRecord, blocker: isRelease}); found {
			out = append(out, secProblem{"sent→no record", "an enqueued ID is also recorded as dropped", hit.Pos()})
		}
	}
	if start != nil {
		if hit, found := findPath(pathQuery{start: start, target: func(in ssa.Instruction) bool { return isCallTo(in, k.nextID) }, blocker: isRelease}); found {
			out = append(out, secProblem{"single id", "a second ID is allocated in the same critical section", hit.Pos()})
		}
		// a second send/record step for the same ID
		for _, b := range f.Blocks {
			for _, in := range b.Instrs {
				if isStep(in) {
					if hit, found := findPath(pathQuery{start: in, target: isStep, blocker: func(x ssa.Instruction) bool { return isRelease(x) || isCallTo(x, k.nextID) }}); found {
						out = append(out, secProblem{"single send", "the same ID can be enqueued twice in one critical section", hit.Pos()})
					}
				}
			}
		}
	}
	return out
}

// selectOutcomeEdges finds the edges for "state 0 fired" and "default" of a
// single-state non-blocking select.
func selectOutcomeEdges(sel *ssa.Select) (sent, dflt []edge) {
	for _, ref := range *sel.Referrers() {
		ex, ok := ref.(*ssa.Extract)
		if !ok || ex.Index != 0 {
			continue
		}
		for _, r2 := range *ex.Referrers() {
			bo, ok := r2.(*ssa.BinOp)
			if !ok || bo.Op != token.EQL {
				continue
			}
			var cv int64
			var isC bool
			if bo.X == ex {
				cv, isC = constInt(bo.Y)
			} else {
				cv, isC = constInt(bo.X)
			}
			if !isC || cv != 0 {
				continue
			}
			for _, r3 := range *bo.Referrers() {
				if ifi, ok := r3.(*ssa.If); ok {
					sent = append(sent, edge{ifi.Block(), 0})
					dflt = append(dflt, edge{ifi.Block(), 1})
				}
			}
		}
	}
	return
}

func (k *c28) checkFollowup(f *ssa.Function, nextCall ssa.CallInstruction) {
	c := k.c
	// a parent parameter: any uint64 parameter passed to validateParentLocked, or named use of eventIDSeq(parent)
	vcalls := callsIn(f, k.validateParentLocked)
	takesParent := false
	for _, p := range f.Params {
		for _, ref := range *p.Referrers() {
			if isCallTo(ref, k.validateParentLocked, k.eventIDEpoch) {
				takesParent = true
			}
		}
	}
	if !takesParent && len(vcalls) == 0 {
		return
	}
	key := funcKey(f)
	var passing []edge
	for _, vc := range vcalls {
		vv, _ := vc.(ssa.Value)
		arg := vc.Common().Args[len(vc.Common().Args)-1]
		if _, isParam := stripConv(arg).(*ssa.Parameter); !isParam {
			continue
		}
		passing = append(passing, condEdges(f, func(v ssa.Value) (bool, bool) { return v == vv, true })...)
	}
	if !guardedBy(f, nextCall, passing) {
		c.Bad("C28.followup-parent", key, nextCall.Pos(), "child ID allocated on a path that did not pass validateParentLocked(parent)==true")
		return
	}
	// same critical section: no release between validate and nextID
	for _, vc := range vcalls {
		if hit, found := findPath(pathQuery{start: vc, target: func(in ssa.Instruction) bool { return in == nextCall },
			blocker: func(in ssa.Instruction) bool { return false }}); found {
			_ = hit
			// is there a path validate -> release -> nextID ?
			rel := func(in ssa.Instruction) bool {
				_, isDefer := in.(*ssa.Defer)
				return !isDefer && k.isRelease(in)
			}
			if r, foundRel := findPath(pathQuery{start: vc, target: rel, blocker: func(in ssa.Instruction) bool { return in == nextCall }}); foundRel {
				if _, again := findPath(pathQuery{start: r, target: func(in ssa.Instruction) bool { return in == nextCall }}); again {
					c.Bad("C28.followup-parent", key, r.Pos(), "lock released between parent validation and child ID allocation")
					return
				}
			}
		}
	}
	c.OK("C28.followup-parent", key, nextCall.Pos(), "nextID dominated by validateParentLocked(parent param)==true inside one critical section")
}

// errSuccessEdges: edges on which the error result of call is nil.
func errSuccessEdges(f *ssa.Function, call ssa.Value) []edge {
	isErrOf := func(v ssa.Value) bool {
		v = stripConv(v)
		if v == call {
			return true
		}
		if ex, ok := v.(*ssa.Extract); ok && ex.Tuple == call {
			return true
		}
		// err stored in a local cell (e.g. shared 'err' variable): load of alloc whose reaching store is the call — approximated by phi/any
		return false
	}
	return condEdges(f, func(v ssa.Value) (bool, bool) {
		bo, ok := v.(*ssa.BinOp)
		if !ok {
			return false, false
		}
		var other ssa.Value
		if isErrOf(bo.X) {
			other = bo.Y
		} else if isErrOf(bo.Y) {
			other = bo.X
		} else {
			return false, false
		}
		if cst, ok := other.(*ssa.Const); !ok || cst.Value != nil {
			return false, false
		}
		if bo.Op == token.NEQ {
			return true, false // err != nil : success on false edge
		}
		if bo.Op == token.EQL {
			return true, true
		}
		return false, false
	})
}

// ruleWriter: R5.
func (k *c28) ruleWriter() {
	c := k.c
	c.Rule("C28.claim-before-write", "every popFirst is preceded, since the most recent acquisition of the lock, by a peekFirst (peek and pop in one critical section); the range written by writeDropped is the peeked value", 2)
	c.Rule("C28.wire-counter", "the writer's expected wire ID is stored only as +1 on the success edge of writeEvent or +peeked.count on the success edge of writeDropped(peeked); each such success reaches the increment before the next peek/flush/write or return; writeEvent is guarded by eventIDSeq(pending.id)==expected", 5)
	for _, f := range k.funcs {
		pops := callsIn(f, k.popFirst)
		for _, p := range pops {
			key := funcKey(f) + " · popFirst"
			var acq []ssa.Instruction
			allInstrs(f, func(in ssa.Instruction) {
				if _, isDefer := in.(*ssa.Defer); !isDefer && k.isAcquire(in) {
					acq = append(acq, in)
				}
			})
			bad := false
			if len(acq) == 0 {
				// lock held by caller: peek must precede on every path from entry
				if _, found := findPath(pathQuery{fn: f, target: func(in ssa.Instruction) bool { return in == p },
					blocker: func(in ssa.Instruction) bool { return isCallTo(in, k.peekFirst) }}); found {
					bad = true
				}
			}
			for _, a := range acq {
				if _, found := findPath(pathQuery{start: a, target: func(in ssa.Instruction) bool { return in == p },
					blocker: func(in ssa.Instruction) bool { return isCallTo(in, k.peekFirst) }}); found {
					bad = true
				}
			}
			c.Check(!bad, "C28.claim-before-write", key, p.Pos(), "peekFirst precedes popFirst within the same critical section on every path",
				"popFirst reachable from a lock acquisition without a peekFirst in between (head may have changed since it was sampled)")
		}
		// writeDropped argument provenance
		for _, wd := range callsIn(f, k.writeDropped) {
			args := wd.Common().Args
			ok := k.isPeeked(f, wd, args[len(args)-1], 0)
			c.Check(ok, "C28.claim-before-write", funcKey(f)+" · writeDropped(arg)", wd.Pos(), "range written is the value returned by peekFirst",
				"range handed to writeDropped is not the value peeked under the lock")
			// the range is written only at its own position: eventIDSeq(range.firstID) == the expected wire ID
			isCounter := func(x ssa.Value) bool {
				u, isU := stripConv(x).(*ssa.UnOp)
				if !isU || u.Op != token.MUL {
					return false
				}
				p, isP := u.X.(*ssa.Parameter)
				if isP {
					pt, isPtr := p.Type().(*types.Pointer)
					if !isPtr {
						return false
					}
					b, isB := pt.Elem().Underlying().(*types.Basic)
					return isB && b.Kind() == types.Uint64
				}
				_, isA := u.X.(*ssa.Alloc)
				return isA
			}
			c.Check(k.dropAligned(f, wd, args[len(args)-1], isCounter, 0), "C28.wire-counter", funcKey(f)+" · writeDropped position", wd.Pos(),
				"a drop range is written only when eventIDSeq(range.firstID) equals the expected wire ID", "a drop range can be written although its first ID is not the expected wire ID (the receiver's implicit numbering shifts)")
		}
	}
	// wire counter cells
	wl := c.Fn(telPkg, "tcpClient.writeLoop")
	fr := c.Fn(telPkg, "tcpClient.flushReadyDrops")
	if wl == nil || fr == nil {
		return
	}
	var frCell ssa.Value
	frIdx := -1
	for i, p := range fr.Params {
		if pt, ok := p.Type().(*types.Pointer); ok {
			if b, ok := pt.Elem().Underlying().(*types.Basic); ok && b.Kind() == types.Uint64 {
				frCell, frIdx = p, i
			}
		}
	}
	if frCell == nil {
		c.Unknown("C28.wire-counter", "flushReadyDrops counter param", fr.Pos(), "no *uint64 parameter")
		return
	}
	var wlCell ssa.Value
	for _, call := range callsIn(wl, k.flushReadyDrops) {
		wlCell = call.Common().Args[frIdx]
	}
	if wlCell == nil {
		c.Bad("C28.wire-counter", "writeLoop → flushReadyDrops", wl.Pos(), "writeLoop does not call flushReadyDrops with its wire counter")
		return
	}
	type cellIn struct {
		f    *ssa.Function
		cell ssa.Value
	}
	for _, ci := range []cellIn{{wl, wlCell}, {fr, frCell}} {
		f := ci.f
		inc1, incC := map[ssa.Instruction]bool{}, map[ssa.Instruction]bool{}
		allInstrs(f, func(in ssa.Instruction) {
			st, ok := in.(*ssa.Store)
			if !ok || st.Addr != ci.cell {
				return
			}
			key := funcKey(f) + " · store expected"
			bo, ok := st.Val.(*ssa.BinOp)
			if !ok || bo.Op != token.ADD {
				c.Bad("C28.wire-counter", key, st.Pos(), "wire counter assigned something other than counter+δ")
				return
			}
			var delta ssa.Value
			if isLoadOf(bo.X, ci.cell) {
				delta = bo.Y
			} else if isLoadOf(bo.Y, ci.cell) {
				delta = bo.X
			} else {
				c.Bad("C28.wire-counter", key, st.Pos(), "wire counter assigned something other than counter+δ")
				return
			}
			if cv, isC := constInt(delta); isC {
				if cv != 1 {
					c.Bad("C28.wire-counter", key+" +const", st.Pos(), "wire counter advanced by constant %d", cv)
					return
				}
				c.OK("C28.wire-counter", key+" +1", st.Pos(), "store is counter+1")
				inc1[st] = true
				return
			}
			// + head.count
			base, isCount := fieldOf(delta, k.fCount)
			if !isCount {
				c.Bad("C28.wire-counter", key+" +δ", st.Pos(), "wire counter advanced by %s, expected 1 or peeked.count", exprStr(delta, exprOpts{}))
				return
			}
			okHead := false
			for _, wd := range callsIn(f, k.writeDropped) {
				args := wd.Common().Args
				arg := args[len(args)-1]
				if sameExpr(arg, base) || (localCell(arg) != nil && localCell(arg) == localCell(base)) {
					okHead = true
				}
			}
			c.Check(okHead, "C28.wire-counter", key+" +count", st.Pos(), "store is counter + count of the range handed to writeDropped",
				"counter advanced by a count that is not the written range's")
			incC[st] = true
		})
		// region analysis: between consecutive boundaries (peek/flush), a successful
		// writeEvent needs exactly one +1, a successful writeDropped exactly one
		// +count, and no write means no increment. Error paths are exempt.
		boundary := func(in ssa.Instruction) bool { return k.peeks(in, 0) }
		if f == wl {
			boundary = func(in ssa.Instruction) bool { return isCallTo(in, k.flushReadyDrops) }
		}
		for _, p := range wireRegions(f, boundary, k.writeEvent, k.writeDropped, inc1, incC) {
			c.Bad("C28.wire-counter", funcKey(f)+" · "+p.what, p.pos, "%s", p.msg)
		}
		c.OK("C28.wire-counter", funcKey(f)+" · regions explored", f.Pos(), "every boundary-to-boundary path explored with (write, +1, +count) counters")
	}
	// a write function reports success only when the frame went out: the counters above advance on nil
	for _, name := range []string{"tcpClient.writeEvent", "tcpClient.writeDropped"} {
		if wf := c.Fn(telPkg, name); wf != nil {
			bad := k.nilOnlyAfterWrite(wf, map[*ssa.Function]bool{})
			c.Check(bad == "", "C28.wire-counter", funcKey(wf)+" · nil means written", wf.Pos(), "every return that can be nil is the result of, or lies behind the success edge of, a call that writes to the connection (followed down to io.Writer.Write)", bad)
		}
	}
	// pending guard
	for _, we := range callsIn(wl, k.writeEvent) {
		args := we.Common().Args
		env := args[len(args)-1]
		pass := condEdges(wl, func(v ssa.Value) (bool, bool) {
			bo, ok := v.(*ssa.BinOp)
			if !ok || (bo.Op != token.EQL && bo.Op != token.NEQ) {
				return false, false
			}
			m := func(a, b ssa.Value) bool {
				call, ok := stripConv(a).(*ssa.Call)
				if !ok || !isCallTo(call, k.eventIDSeq) {
					return false
				}
				base, ok := fieldOf(call.Call.Args[0], k.fEnvID)
				if !ok || !sameExpr(base, env) {
					return false
				}
				return isLoadOf(b, wlCell)
			}
			// written as == (true edge) or as != with the write on the other side (false edge)
			return m(bo.X, bo.Y) || m(bo.Y, bo.X), bo.Op == token.EQL
		})
		c.Check(guardedBy(wl, we, pass), "C28.wire-counter", "writeLoop · writeEvent guard", we.Pos(),
			"event written only when eventIDSeq(env.id)==expected wire ID", "event write not guarded by eventIDSeq(env.id)==expectedWireID")
	}
}

// dropAligned: the use at `at` of the peeked range v lies behind the test eventIDSeq(v.firstID) == X with X
// accepted by isCounter — in f itself, or inside the (range, ok) helper that hands the range out, whose X is then a
// parameter that receives a counter value at the call.
func (k *c28) dropAligned(f *ssa.Function, at ssa.Instruction, v ssa.Value, isCounter func(ssa.Value) bool, depth int) bool {
	rng := resolveLocal(v)
	ex, isEx := rng.(*ssa.Extract)
	if !isEx || ex.Index != 0 {
		return false
	}
	call, isCall := ex.Tuple.(*ssa.Call)
	if !isCall {
		return false
	}
	if isCallTo(call, k.peekFirst) {
		sameRange := func(base ssa.Value) bool {
			if base == rng || resolveLocal(base) == rng {
				return true
			}
			if a, isA := base.(*ssa.Alloc); isA {
				if sv := singleStore(a); sv != nil && stripConv(sv) == rng {
					return true
				}
			}
			return false
		}
		pass := condEdges(f, func(cv ssa.Value) (bool, bool) {
			bo, ok := cv.(*ssa.BinOp)
			if !ok || (bo.Op != token.EQL && bo.Op != token.NEQ) {
				return false, false
			}
			m := func(a, b ssa.Value) bool {
				sc, ok := stripConv(a).(*ssa.Call)
				if !ok || !isCallTo(sc, k.eventIDSeq) {
					return false
				}
				base, ok := fieldOf(sc.Call.Args[0], k.fFirstID)
				return ok && sameRange(base) && isCounter(b)
			}
			if m(bo.X, bo.Y) || m(bo.Y, bo.X) {
				return true, bo.Op == token.EQL
			}
			return false, false
		})
		return guardedBy(f, at, pass)
	}
	g := calleeFunc(call)
	if g == nil || depth > 2 || len(g.Blocks) == 0 || g.Pkg != f.Pkg {
		return false
	}
	used := map[int]bool{}
	rets, good := 0, true
	allInstrs(g, func(in ssa.Instruction) {
		r, isR := in.(*ssa.Return)
		if !isR {
			return
		}
		res := retResults(r)
		if len(res) != 2 {
			return
		}
		if kc, isC := res[1].(*ssa.Const); isC && kc.Value != nil && kc.Value.String() == "false" {
			return
		}
		rets++
		isParam := func(x ssa.Value) bool {
			p, ok := stripConv(x).(*ssa.Parameter)
			if !ok {
				return false
			}
			for i, q := range g.Params {
				if q == p {
					used[i] = true
				}
			}
			return true
		}
		if !k.dropAligned(g, r, res[0], isParam, depth+1) {
			good = false
		}
	})
	if rets == 0 || !good || len(used) != 1 {
		return false
	}
	for i := range used {
		if i >= len(call.Call.Args) || !isCounter(call.Call.Args[i]) {
			return false
		}
	}
	return true
}

// isPeeked: v (used at instruction `at` of f) is the range returned by peekFirst, directly or as result #0 of a
// package helper returning (range, ok) whose every return that may report ok hands back the range it peeked
// itself; in the helper form the use must lie behind the helper's ok result.
func (k *c28) isPeeked(f *ssa.Function, at ssa.Instruction, v ssa.Value, depth int) bool {
	rng := resolveLocal(v)
	ex, isEx := rng.(*ssa.Extract)
	if !isEx || ex.Index != 0 {
		return false
	}
	call, isCall := ex.Tuple.(*ssa.Call)
	if !isCall {
		return false
	}
	if isCallTo(call, k.peekFirst) {
		return true
	}
	g := calleeFunc(call)
	if g == nil || depth > 2 || len(g.Blocks) == 0 || g.Pkg != f.Pkg || g.Signature.Results().Len() != 2 || !isBoolT(g.Signature.Results().At(1).Type()) {
		return false
	}
	rets, good := 0, true
	allInstrs(g, func(in ssa.Instruction) {
		r, isR := in.(*ssa.Return)
		if !isR {
			return
		}
		res := retResults(r) // results as stored before the deferred calls run
		if len(res) != 2 {
			return
		}
		if kc, isC := res[1].(*ssa.Const); isC && kc.Value != nil && kc.Value.String() == "false" {
			return
		}
		rets++
		if !k.isPeeked(g, nil, res[0], depth+1) {
			good = false
		}
	})
	if rets == 0 || !good {
		return false
	}
	if at == nil {
		return true
	}
	okEdge := condEdges(f, func(cv ssa.Value) (bool, bool) {
		e2, isE := cv.(*ssa.Extract)
		return isE && e2.Tuple == ssa.Value(call) && e2.Index == 1, true
	})
	return guardedBy(f, at, okEdge)
}

// nilOnlyAfterWrite: in f (which returns an error as its last result) a nil result is possible only when the
// frame was handed to the connection: each return yields a constructed (non-nil) error, the result of a
// writing call itself, or nil behind the success edge of a writing call. A writing call is a call of a package
// function for which the same holds, down to a function that invokes Write on an io.Writer. Returns "" or the reason.
func (k *c28) nilOnlyAfterWrite(f *ssa.Function, visiting map[*ssa.Function]bool) string {
	if visiting[f] {
		return ""
	}
	visiting[f] = true
	defer delete(visiting, f)
	invokesWrite := false
	allInstrs(f, func(in ssa.Instruction) {
		if ci, ok := in.(ssa.CallInstruction); ok && ci.Common().IsInvoke() && ci.Common().Method.Name() == "Write" {
			invokesWrite = true
		}
	})
	if invokesWrite {
		return "" // the base of the chain (writeAll): loops over io.Writer.Write
	}
	isWriter := func(v ssa.Value) bool {
		call, ok := v.(*ssa.Call)
		if !ok {
			return false
		}
		g := call.Call.StaticCallee()
		if g == nil || len(g.Blocks) == 0 || g.Pkg != f.Pkg {
			return false
		}
		rs := g.Signature.Results()
		if rs.Len() == 0 || !types.Identical(rs.At(rs.Len()-1).Type(), types.Universe.Lookup("error").Type()) {
			return false
		}
		return k.nilOnlyAfterWrite(g, visiting) == "" && k.reachesWrite(g, 0)
	}
	var writerCalls []ssa.Value
	allInstrs(f, func(in ssa.Instruction) {
		if v, ok := in.(ssa.Value); ok && isWriter(v) {
			writerCalls = append(writerCalls, v)
		}
	})
	if len(writerCalls) == 0 {
		return funcKey(f) + " never hands anything to the connection"
	}
	var succ []edge
	for _, w := range writerCalls {
		succ = append(succ, errSuccessEdges(f, w)...)
	}
	bad := ""
	var okValue func(v ssa.Value, at ssa.Instruction, d int) bool
	okValue = func(v ssa.Value, at ssa.Instruction, d int) bool {
		v = stripConv(v)
		if d > 4 {
			return false
		}
		switch x := v.(type) {
		case *ssa.Const:
			if x.Value != nil {
				return true
			}
			return guardedBy(f, at, succ) // nil: only behind a successful write
		case *ssa.Call:
			if isWriter(x) {
				return true
			}
			if sc := x.Call.StaticCallee(); sc != nil && (sc.String() == "fmt.Errorf" || sc.String() == "errors.New") {
				return true
			}
		case *ssa.MakeInterface:
			return true
		case *ssa.UnOp:
			if _, isG := x.X.(*ssa.Global); isG {
				return true // a package-level sentinel error
			}
		case *ssa.Phi:
			for i, e := range x.Edges {
				pred := x.Block().Preds[i]
				if !okValue(e, pred.Instrs[len(pred.Instrs)-1], d+1) {
					return false
				}
			}
			return true
		}
		return false
	}
	allInstrs(f, func(in ssa.Instruction) {
		r, isR := in.(*ssa.Return)
		if !isR || bad != "" {
			return
		}
		res := retResults(r)
		if len(res) == 0 {
			return
		}
		if !okValue(res[len(res)-1], r, 0) {
			bad = fmt.Sprintf("%s can return nil at %s without the frame having been written (a nil result lets the writer advance its expected wire ID although the receiver saw nothing)", funcKey(f), k.c.pos(r.Pos()))
		}
	})
	return bad
}

// reachesWrite: g (transitively, within its package) invokes Write on an io.Writer.
func (k *c28) reachesWrite(g *ssa.Function, d int) bool {
	if d > 4 {
		return false
	}
	found := false
	allInstrs(g, func(in ssa.Instruction) {
		ci, ok := in.(ssa.CallInstruction)
		if !ok || found {
			return
		}
		if ci.Common().IsInvoke() && ci.Common().Method.Name() == "Write" {
			found = true
			return
		}
		if h := calleeFunc(ci); h != nil && len(h.Blocks) > 0 && h.Pkg == g.Pkg && h != g {
			if k.reachesWrite(h, d+1) {
				found = true
			}
		}
	})
	return found
}

func isLoadOf(v ssa.Value, cell ssa.Value) bool {
	u, ok := stripConv(v).(*ssa.UnOp)
	return ok && u.Op == token.MUL && u.X == cell
}

// ruleConnect: R6.
func (k *c28) ruleConnect() {
	c := k.c
	c.Rule("C28.connect-protocol", "enabledFlag.Store(true) and writeLoop(conn) only after writeNodeInfo succeeded on the same conn; after writeLoop returns: Store(false) before bumpEpoch; no redial without a successful bumpEpoch followed by drops.reset and the queue drain under the lock; a failed bumpEpoch never redials", 7)
	isEnable := func(in ssa.Instruction, val bool) bool {
		ci, ok := in.(ssa.CallInstruction)
		if !ok {
			return false
		}
		cc := ci.Common()
		f := cc.StaticCallee()
		if f == nil || f.String() != "(*sync/atomic.Bool).Store" || len(cc.Args) != 2 {
			return false
		}
		fa, ok := cc.Args[0].(*ssa.FieldAddr)
		if !ok || structField(fa.X.Type(), fa.Field) != k.fEnabled {
			return false
		}
		cst, ok := cc.Args[1].(*ssa.Const)
		if !ok {
			return val // non-constant: treat as possibly enabling
		}
		return cst.Value != nil && (cst.Value.String() == "true") == val
	}
	enables := 0
	for _, f := range k.funcs {
		allInstrs(f, func(in ssa.Instruction) {
			if !isEnable(in, true) {
				return
			}
			enables++
			var pass []edge
			for _, w := range callsIn(f, k.writeNodeInfo) {
				pass = append(pass, errSuccessEdges(f, w.(ssa.Value))...)
			}
			c.Check(guardedBy(f, in, pass), "C28.connect-protocol", funcKey(f)+" · enable", in.Pos(),
				"emitters enabled only after the node-information frame was written", "enabledFlag.Store(true) not dominated by a successful writeNodeInfo")
		})
	}
	if enables == 0 {
		c.Bad("C28.connect-protocol", "enable", token.NoPos, "no enabledFlag.Store(true) found")
	}
	for _, f := range k.funcs {
		for _, w := range callsIn(f, k.writeLoop) {
			key := funcKey(f)
			var pass []edge
			sameConn := false
			for _, ni := range callsIn(f, k.writeNodeInfo) {
				pass = append(pass, errSuccessEdges(f, ni.(ssa.Value))...)
				a1 := ni.Common().Args
				a2 := w.Common().Args
				if sameExpr(a1[len(a1)-1], a2[1]) {
					sameConn = true
				}
			}
			c.Check(guardedBy(f, w, pass) && sameConn, "C28.connect-protocol", key+" · writeLoop after node info", w.Pos(),
				"writeLoop(conn) only after writeNodeInfo(conn) succeeded", "writeLoop not dominated by a successful writeNodeInfo on the same connection")

			isDial := func(in ssa.Instruction) bool {
				return k.mayDo(in, func(x ssa.Instruction) bool { return isCallTo(x, k.dial) }, 0)
			}
			isBump := func(in ssa.Instruction) bool { return isCallTo(in, k.bumpEpoch) }
			disables := func(in ssa.Instruction) bool {
				return k.mustDo(in, func(x ssa.Instruction) bool { return isEnable(x, false) }, 0)
			}
			enablesAgain := func(in ssa.Instruction) bool {
				return k.mayDo(in, func(x ssa.Instruction) bool { return isEnable(x, true) }, 0)
			}
			resets := func(in ssa.Instruction) bool {
				return k.mustDo(in, func(x ssa.Instruction) bool { return isCallTo(x, k.reset) }, 0)
			}
			drains := func(in ssa.Instruction) bool {
				return k.mustDo(in, func(x ssa.Instruction) bool { return isCallTo(x, k.drainQueueLocked) }, 0)
			}
			_, f1 := findPath(pathQuery{start: w, target: isBump, blocker: disables})
			c.Check(!f1, "C28.connect-protocol", key+" · disable before bump", w.Pos(), "Store(false) precedes bumpEpoch on every path", "bumpEpoch reachable after writeLoop without enabledFlag.Store(false)")
			_, f2 := findPath(pathQuery{start: w, target: isDial, blocker: isBump})
			c.Check(!f2, "C28.connect-protocol", key+" · bump before redial", w.Pos(), "no redial without bumpEpoch", "redial reachable after a connection ended without bumpEpoch")
			for _, b := range callsIn(f, k.bumpEpoch) {
				bv := b.(ssa.Value)
				okE := condEdges(f, func(v ssa.Value) (bool, bool) { return v == bv, true })
				failE := condEdges(f, func(v ssa.Value) (bool, bool) { return v == bv, false })
				if len(okE) == 0 {
					c.Bad("C28.connect-protocol", key+" · bump result", b.Pos(), "bumpEpoch result is not tested")
					continue
				}
				_, f3 := findPath(pathQuery{startEdges: failE, target: isDial})
				c.Check(!f3, "C28.connect-protocol", key+" · bump failure stops", b.Pos(), "epoch exhaustion never redials", "a failed bumpEpoch (epoch wrap) can reach a redial")
				_, f4 := findPath(pathQuery{startEdges: okE, target: isDial, blocker: resets})
				c.Check(!f4, "C28.connect-protocol", key+" · reset drops", b.Pos(), "drops.reset before redial", "redial reachable without drops.reset")
				_, f5 := findPath(pathQuery{startEdges: okE, target: isDial, blocker: drains})
				c.Check(!f5, "C28.connect-protocol", key+" · drain queue", b.Pos(), "queue drained before redial", "redial reachable without draining stale queue entries")
				_, f6 := findPath(pathQuery{startEdges: okE, target: enablesAgain, blocker: drains})
				c.Check(!f6, "C28.connect-protocol", key+" · drain before enable", b.Pos(), "no enable between bump and drain", "emitters can be re-enabled before the stale queue is drained")
			}
		}
	}
}

// ruleSequencerShapes: R8. Canonical shapes of the ID arithmetic.
func (k *c28) ruleSequencerShapes() {
	c := k.c
	c.Rule("C28.id-shapes", "canonical expression shapes: nextID returns makeEventID(epoch, seq) and stores seq+1; bumpEpoch refuses at 0xFFFF, else stores epoch+1 and seq=0; validateParentLocked is eventIDEpoch(parent)==currentEpoch (or false); makeEventID/eventIDEpoch/eventIDSeq split at bit 48", 8)
	retShapes := func(f *ssa.Function) []string {
		var out []string
		allInstrs(f, func(in ssa.Instruction) {
			if r, ok := in.(*ssa.Return); ok {
				if res := retResults(r); len(res) == 1 {
					out = append(out, exprStr(res[0], exprOpts{showConv: true}))
				}
			}
		})
		sort.Strings(out)
		return out
	}
	storeShapes := func(f *ssa.Function, fld *types.Var) []string {
		var out []string
		allInstrs(f, func(in ssa.Instruction) {
			if st, ok := in.(*ssa.Store); ok {
				if fa, ok := st.Addr.(*ssa.FieldAddr); ok && structField(fa.X.Type(), fa.Field) == fld {
					out = append(out, exprStr(st.Val, exprOpts{showConv: true}))
				}
			}
		})
		sort.Strings(out)
		return out
	}
	expect := func(key string, f *ssa.Function, got []string, want ...string) {
		sort.Strings(want)
		g, w := strings.Join(got, " ; "), strings.Join(want, " ; ")
		c.Check(g == w, "C28.id-shapes", key, f.Pos(), "shape "+g, "shape is ["+g+"], expected ["+w+"]")
	}
	// the ID layout, decided bit by bit (bit-provenance interpretation of the three helpers): an ID carries the
	// epoch in bits 48..63 and the low 48 bits of the sequence number in bits 0..47
	bitsOf := func(f *ssa.Function) (bfInt, string) {
		m := &bfMachine{maxSteps: 4000}
		args := make([]any, len(f.Params))
		base := 0
		for i, p := range f.Params {
			w, sgn, isInt := bfWidth(p.Type())
			if !isInt {
				return bfInt{}, "a parameter is not an integer"
			}
			v := bfInt{w: w, s: sgn}
			for j := 0; j < int(w); j++ {
				v.b[j] = bfBit{k: 2, i: uint16(base + j)}
			}
			args[i] = v
			base += 64
		}
		outs := m.call(f, args, bfHeap{}, 0)
		if len(outs) != 1 || outs[0].fault != "" || len(outs[0].results) != 1 {
			why := "no single result"
			if len(outs) > 0 && outs[0].fault != "" {
				why = outs[0].fault
			}
			return bfInt{}, why
		}
		r, isInt := outs[0].results[0].(bfInt)
		if !isInt {
			return bfInt{}, "the result is not an integer"
		}
		return r, ""
	}
	layout := func(key string, f *ssa.Function, want func(j int) bfBit, width int, doc string) {
		r, why := bitsOf(f)
		if why == "" {
			for j := 0; j < width; j++ {
				if r.b[j] != want(j) {
					why = fmt.Sprintf("result bit %d is %s, expected %s", j, bfBitString(r.b[j]), bfBitString(want(j)))
					break
				}
			}
		}
		c.Check(why == "", "C28.id-shapes", key, f.Pos(), doc, key+" does not have the ID layout: "+why)
	}
	if f := c.Fn(telPkg, "makeEventID"); f != nil && len(f.Params) == 2 {
		layout("makeEventID", f, func(j int) bfBit {
			if j < 48 {
				return bfBit{k: 2, i: uint16(64 + j)}
			}
			return bfBit{k: 2, i: uint16(j - 48)}
		}, 64, "ID = epoch in bits 48..63, sequence bits 0..47 below (bit by bit)")
	}
	if f := c.Fn(telPkg, "eventIDEpoch"); f != nil {
		layout("eventIDEpoch", f, func(j int) bfBit { return bfBit{k: 2, i: uint16(48 + j)} }, 16, "epoch = ID bits 48..63 (bit by bit)")
	}
	if f := c.Fn(telPkg, "eventIDSeq"); f != nil {
		layout("eventIDSeq", f, func(j int) bfBit {
			if j < 48 {
				return bfBit{k: 2, i: uint16(j)}
			}
			return bfBit{}
		}, 64, "sequence = ID bits 0..47 (bit by bit)")
	}
	if f := c.Fn(telPkg, "sequencer.nextID"); f != nil {
		expect("nextID return", f, retShapes(f), "internal/telemetry.makeEventID(p0.currentEpoch, p0.seqCounter)")
		expect("nextID seqCounter", f, storeShapes(f, k.fSeqCounter), "(1 + p0.seqCounter)")
		expect("nextID epoch untouched", f, storeShapes(f, k.fEpoch))
		// the returned seq must be read before the increment
		var ret ssa.Instruction
		var st ssa.Instruction
		allInstrs(f, func(in ssa.Instruction) {
			if isReturn(in) {
				ret = in
			}
			if s, ok := in.(*ssa.Store); ok {
				if fa, ok := s.Addr.(*ssa.FieldAddr); ok && structField(fa.X.Type(), fa.Field) == k.fSeqCounter {
					st = s
				}
			}
		})
		okOrder := false
		if ret != nil && st != nil {
			if call, ok := stripConv(ret.(*ssa.Return).Results[0]).(*ssa.Call); ok && len(call.Call.Args) == 2 {
				if ld, ok := stripConv(call.Call.Args[1]).(*ssa.UnOp); ok && ld.Block() == st.Block() {
					li, si := -1, -1
					for i, in := range ld.Block().Instrs {
						if in == ld {
							li = i
						}
						if in == st {
							si = i
						}
					}
					okOrder = li >= 0 && li < si
				}
			}
		}
		c.Check(okOrder, "C28.id-shapes", "nextID read-before-increment", f.Pos(), "returned seq is the pre-increment counter", "returned seq is not the value read before the increment")
	}
	if f := c.Fn(telPkg, "sequencer.bumpEpoch"); f != nil {
		// decided by valuation: the function is followed for each of the 65536 values of the 16-bit epoch (its tests and
		// stored values evaluated as expressions of that value): 0xFFFF refuses and stores nothing; every other
		// epoch e ends with epoch = e+1, seq = 0 and reports success
		isField := func(v ssa.Value, fld *types.Var) bool {
			fa, ok := v.(*ssa.FieldAddr)
			return ok && structField(fa.X.Type(), fa.Field) == fld
		}
		okAll, why := true, ""
		for e := int64(0); e <= 0xFFFF && okAll; e++ {
			cur := map[*types.Var]int64{k.fEpoch: e, k.fSeqCounter: 12345}
			stored := map[*types.Var]bool{}
			ret, sawRet, undec := int64(-1), false, false
			env := intEnv{lens: map[ssa.Value]int64{}, params: map[ssa.Value]int64{}, unknown: map[ssa.Value]bool{}}
			loads := map[ssa.Value]int64{}
			env.opaque = func(v ssa.Value) (int64, bool) {
				k, ok := loads[v]
				return k, ok
			}
			env.watch = func(in ssa.Instruction, en intEnv) {
				switch x := in.(type) {
				case *ssa.UnOp:
					if x.Op == token.MUL {
						for _, fld := range []*types.Var{k.fEpoch, k.fSeqCounter} {
							if isField(x.X, fld) {
								loads[x] = cur[fld]
							}
						}
					}
				case *ssa.Store:
					for _, fld := range []*types.Var{k.fEpoch, k.fSeqCounter} {
						if isField(x.Addr, fld) {
							v, ok := evalInt(x.Val, en, 0)
							if !ok {
								undec = true
								return
							}
							cur[fld] = wrapToType(v, fld.Type())
							stored[fld] = true
						}
					}
				case *ssa.Return:
					if rs := retResults(x); len(rs) == 1 {
						if v, ok := evalInt(rs[0], en, 0); ok {
							ret, sawRet = v, true
						}
					}
				}
			}
			n := 2000
			env.fuel = &n
			if walkBlocks(f.Blocks[0], nil, env, func(*ssa.BasicBlock) bool { return false }) == nil || undec || !sawRet {
				okAll, why = false, fmt.Sprintf("the function cannot be followed for epoch %#x", e)
				break
			}
			if e == 0xFFFF {
				if ret != 0 || stored[k.fEpoch] || stored[k.fSeqCounter] {
					okAll, why = false, "at epoch 0xFFFF the epoch wraps (or success is reported) instead of refusing with nothing stored"
				}
			} else if ret != 1 || cur[k.fEpoch] != e+1 || cur[k.fSeqCounter] != 0 {
				okAll, why = false, fmt.Sprintf("at epoch %#x: result %d, epoch %#x, seq %d — expected success with epoch+1 and seq 0", e, ret, cur[k.fEpoch], cur[k.fSeqCounter])
			}
		}
		c.Check(okAll, "C28.id-shapes", "bumpEpoch wrap guard", f.Pos(), "epoch==0xFFFF refuses with nothing stored; every other epoch succeeds storing epoch+1 and seq=0 (followed by valuation of the epoch)", "bumpEpoch can wrap the epoch, or reports success without advancing epoch and resetting seq: "+why)
	}
	if f := c.Fn(telPkg, "sequencer.validateParentLocked"); f != nil {
		got := retShapes(f)
		ok := len(got) > 0
		sawEq := false
		for _, g := range got {
			switch g {
			case "false":
			case "(internal/telemetry.eventIDEpoch(p1) == p0.currentEpoch)", "(p0.currentEpoch == internal/telemetry.eventIDEpoch(p1))":
				sawEq = true
			default:
				ok = false
			}
		}
		c.Check(ok && sawEq, "C28.id-shapes", "validateParentLocked", f.Pos(), "parent valid iff its epoch equals the current epoch", "validateParentLocked returns "+strings.Join(got, " ; ")+" — expected eventIDEpoch(parent)==currentEpoch or false")
	}
}

// wireRegions explores every CFG path between consecutive boundary calls
// with a small product state and reports regions whose increment count does
// not match the wire write performed.
// peeks: the instruction samples the head of the drop list (peekFirst, or a package function that calls it).
func (k *c28) peeks(in ssa.Instruction, depth int) bool {
	if isCallTo(in, k.peekFirst) {
		return true
	}
	ci, ok := in.(ssa.CallInstruction)
	if !ok || depth > 2 {
		return false
	}
	g := calleeFunc(ci)
	if g == nil || len(g.Blocks) == 0 || g.Pkg == nil || g.Pkg.Pkg.Path() != modPath+"/"+telPkg {
		return false
	}
	found := false
	allInstrs(g, func(x ssa.Instruction) {
		if k.peeks(x, depth+1) {
			found = true
		}
	})
	return found
}

func wireRegions(f *ssa.Function, boundary func(ssa.Instruction) bool, writeEvent, writeDropped types.Object, inc1, incC map[ssa.Instruction]bool) []secProblem {
	type st struct {
		b          *ssa.BasicBlock
		i          int
		c1, cc     int
		wroteE, wD bool
	}
	var out []secProblem
	reported := map[string]bool{}
	report := func(what, msg string, pos token.Pos) {
		if !reported[what] {
			reported[what] = true
			out = append(out, secProblem{what, msg, pos})
		}
	}
	// success / failure edges of the write calls
	type edgeInfo struct {
		isEvent bool
		succ    bool
	}
	einfo := map[edge]edgeInfo{}
	tested := map[ssa.Instruction]bool{}
	allInstrs(f, func(in ssa.Instruction) {
		isE, isD := isCallTo(in, writeEvent), isCallTo(in, writeDropped)
		if !isE && !isD {
			return
		}
		v, ok := in.(ssa.Value)
		if !ok {
			return
		}
		for _, e := range errSuccessEdges(f, v) {
			einfo[e] = edgeInfo{isE, true}
			einfo[edge{e.from, 1 - e.succ}] = edgeInfo{isE, false}
			tested[in] = true
		}
	})
	check := func(s st, pos token.Pos, where string) {
		switch {
		case s.wroteE && s.wD:
			report("two writes in one region", "an event and a dropped record are written without re-synchronising in between", pos)
		case s.wroteE:
			if s.c1 != 1 || s.cc != 0 {
				report("after writeEvent", fmt.Sprintf("a successful event write reaches %s with %d ×(+1) and %d ×(+count) — expected exactly one +1", where, s.c1, s.cc), pos)
			}
		case s.wD:
			if s.cc != 1 || s.c1 != 0 {
				report("after writeDropped", fmt.Sprintf("a successful dropped-record write reaches %s with %d ×(+count) and %d ×(+1) — expected exactly one +count", where, s.cc, s.c1), pos)
			}
		default:
			if s.c1 != 0 || s.cc != 0 {
				report("increment without write", fmt.Sprintf("the expected wire ID is advanced on a path to %s that wrote nothing", where), pos)
			}
		}
	}
	seen := map[st]bool{}
	var work []st
	work = append(work, st{b: f.Blocks[0]})
	for len(work) > 0 {
		s := work[len(work)-1]
		work = work[:len(work)-1]
		if seen[s] {
			continue
		}
		seen[s] = true
		cur := s
		stop := false
		for i := s.i; i < len(s.b.Instrs) && !stop; i++ {
			in := s.b.Instrs[i]
			switch {
			case boundary(in):
				check(cur, in.Pos(), "the next look at the drop list head")
				work = append(work, st{b: s.b, i: i + 1})
				stop = true
			case inc1[in]:
				if cur.c1 < 2 {
					cur.c1++
				}
			case incC[in]:
				if cur.cc < 2 {
					cur.cc++
				}
			case isCallTo(in, writeEvent) && !tested[in]:
				cur.wroteE = true
			case isCallTo(in, writeDropped) && !tested[in]:
				cur.wD = true
			}
			if r, ok := in.(*ssa.Return); ok {
				res := retResults(r)
				if res != nil && len(res) > 0 {
					last := res[len(res)-1]
					if cst, ok := last.(*ssa.Const); ok && cst.Value == nil {
						check(cur, in.Pos(), "a success return")
					} else if isCallTo(instrOf(last), writeEvent, writeDropped) {
						check(cur, in.Pos(), "a return of the write result")
					}
				}
				stop = true
			}
			if _, ok := in.(*ssa.Panic); ok {
				stop = true
			}
		}
		if stop {
			continue
		}
		for si, succ := range s.b.Succs {
			n := cur
			n.b, n.i = succ, 0
			if ei, ok := einfo[edge{s.b, si}]; ok {
				if !ei.succ {
					continue // error path: connection is dropped
				}
				if ei.isEvent {
					n.wroteE = true
				} else {
					n.wD = true
				}
			}
			work = append(work, n)
		}
	}
	return out
}

func instrOf(v ssa.Value) ssa.Instruction {
	in, _ := stripConv(v).(ssa.Instruction)
	return in
}

// mayDo: the instruction does what pred describes, or calls a package function in which some instruction may.
func (k *c28) mayDo(in ssa.Instruction, pred func(ssa.Instruction) bool, depth int) bool {
	if pred(in) {
		return true
	}
	g := k.pkgCallee(in)
	if g == nil || depth > 3 {
		return false
	}
	found := false
	allInstrs(g, func(x ssa.Instruction) {
		if !found && k.mayDo(x, pred, depth+1) {
			found = true
		}
	})
	return found
}

// mustDo: the instruction does what pred describes, or calls a package function that does it on every path from
// its entry to a return.
func (k *c28) mustDo(in ssa.Instruction, pred func(ssa.Instruction) bool, depth int) bool {
	if pred(in) {
		return true
	}
	g := k.pkgCallee(in)
	if g == nil || depth > 3 {
		return false
	}
	_, skips := findPath(pathQuery{fn: g, target: isReturn, blocker: func(x ssa.Instruction) bool { return k.mustDo(x, pred, depth+1) }})
	return !skips
}

// pkgCallee: the telemetry-package function statically called by in (not through go or defer).
func (k *c28) pkgCallee(in ssa.Instruction) *ssa.Function {
	call, ok := in.(*ssa.Call)
	if !ok {
		return nil
	}
	g := call.Call.StaticCallee()
	if g == nil || len(g.Blocks) == 0 {
		return nil
	}
	for _, f := range k.funcs {
		if f == g {
			return g
		}
	}
	return nil
}
