package main

import (
	"fmt"
	"go/constant"
	"go/token"
	"go/types"
	"strings"

	"golang.org/x/tools/go/ssa"
)

func isPagesLookup(in ssa.Instruction) bool {
	l, ok := in.(*ssa.Lookup)
	return ok && strings.HasSuffix(exprStr(l.X, shapeOpts), ".Pages")
}

// copyIntoPage: builtin copy whose destination derives from a Page's Value.
func copyIntoPage(in ssa.Instruction) bool {
	call, ok := in.(*ssa.Call)
	if !ok {
		return false
	}
	b, ok := call.Call.Value.(*ssa.Builtin)
	if !ok || b.Name() != "copy" {
		return false
	}
	return strings.Contains(exprStr(call.Call.Args[0], shapeOpts), ".Value")
}

func checkC05(c *Ctx) (string, []string) {
	e := newOmegaEnv(c)
	st := c.Fn("PVM", "storeIntoMemory")
	ld := c.Fn("PVM", "loadFromMemory")
	if len(c.fatal) > 0 {
		return "", nil
	}
	panicC, faultC := c.constStr("PVM", "ExitPanic"), c.constStr("PVM", "ExitPageFault")
	isFaultRet := func(in ssa.Instruction) bool {
		r, ok := in.(*ssa.Return)
		if !ok {
			return false
		}
		res := retResults(r)
		s := exprStr(res[len(res)-1], shapeOpts)
		return s == panicC || strings.Contains(s, faultC)
	}

	c.Rule("C05.store-checks-first", "in storeIntoMemory no byte is copied into a page on any path that can still reach a panic/page-fault return, and every copy into a page is dominated by that page's presence test and Access == ReadWrite", 3)
	allInstrs(st, func(in ssa.Instruction) {
		if !copyIntoPage(in) {
			return
		}
		call := in.(*ssa.Call)
		dst := exprStr(call.Call.Args[0], shapeOpts)
		_, after := findPath(pathQuery{start: in, target: isFaultRet})
		c.Check(!after, "C05.store-checks-first", "PVM.storeIntoMemory · copy → "+dst+" · no later fault", in.Pos(), "no fault/panic return reachable after this write", "a store can modify a page and then still fault (partial write of a faulting store)")
		// own page guards: the Lookup that produced this page, in this function or in a (page, ok) helper
		okG := pageGuarded(st, in, call.Call.Args[0])
		c.Check(okG, "C05.store-checks-first", "PVM.storeIntoMemory · copy → "+dst+" · page guards", in.Pos(), "page present and ReadWrite on every path to this write", "a page is written without a dominating presence test and Access == ReadWrite test of that same page")
	})

	// loads decide readability by the page's presence in the table: no page may then carry the access value
	// "inaccessible" (a revoked page must leave the table), unless the load tests the access of each page it reads
	c.Rule("C05.mapped-accessible", "loadFromMemory reads a page as soon as it is present in the page table, so every store to Page.Access and every Page literal in package PVM gives the page a value that is never MemoryInaccessible (constants ReadOnly/ReadWrite, through merges and parameters at every call site) — or loadFromMemory itself tests the access of each page it reads", 2)
	{
		loadTestsAccess := true
		allInstrs(ld, func(in ssa.Instruction) {
			lk, ok := in.(*ssa.Lookup)
			if !ok || !isPagesLookup(in) {
				return
			}
			tested := false
			for _, b := range ld.Blocks {
				if ifi, isIf := b.Instrs[len(b.Instrs)-1].(*ssa.If); isIf {
					if s := exprStr(ifi.Cond, shapeOpts); strings.Contains(s, ".Access") && derivesFromCond(ifi.Cond, lk) {
						tested = true
					}
				}
			}
			if !tested {
				loadTestsAccess = false
			}
		})
		inacc := int64(0)
		if k, ok := c.Obj("PVM", "MemoryInaccessible").(*types.Const); ok {
			inacc, _ = constant.Int64Val(k.Val())
		}
		var neverInacc func(v ssa.Value, d int) (bool, string)
		neverInacc = func(v ssa.Value, d int) (bool, string) {
			v = stripConv(v)
			if d > 5 {
				return false, "too deep"
			}
			switch x := v.(type) {
			case *ssa.Const:
				k, isC := constInt(x)
				return isC && k != inacc, fmt.Sprintf("constant %d", k)
			case *ssa.Phi:
				for _, e := range x.Edges {
					if ok, why := neverInacc(e, d+1); !ok {
						return false, why
					}
				}
				return true, ""
			case *ssa.Parameter:
				f := x.Parent()
				idx := -1
				for i, p := range f.Params {
					if p == x {
						idx = i
					}
				}
				n := 0
				for _, g := range c.SrcFuncs("PVM") {
					for _, gg := range withClosures(g) {
						for _, call := range callsIn(gg, f.Object()) {
							n++
							if ok, why := neverInacc(call.Common().Args[idx], d+1); !ok {
								return false, "argument at " + c.pos(call.Pos()) + ": " + why
							}
						}
					}
				}
				return n > 0 && f.Object() != nil && !f.Object().Exported(), "parameter of " + f.Name()
			case *ssa.Call:
				// a package helper: every value it returns
				g := x.Call.StaticCallee()
				if g == nil || len(g.Blocks) == 0 || g.Pkg == nil || !strings.HasSuffix(g.Pkg.Pkg.Path(), "/PVM") {
					return false, abbr(exprStr(v, shapeOpts))
				}
				okAll, n := true, 0
				why := ""
				allInstrs(g, func(in ssa.Instruction) {
					if r, isR := in.(*ssa.Return); isR && len(r.Results) >= 1 {
						n++
						if ok, w := neverInacc(retResults(r)[0], d+1); !ok {
							okAll, why = false, w
						}
					}
				})
				return okAll && n > 0, "returned by " + g.Name() + ": " + why
			case *ssa.UnOp:
				if a, isA := x.X.(*ssa.Alloc); isA && x.Op == token.MUL {
					okAll, n := true, 0
					for _, r := range *a.Referrers() {
						if st, isSt := r.(*ssa.Store); isSt && st.Addr == ssa.Value(a) {
							n++
							if ok, _ := neverInacc(st.Val, d+1); !ok {
								okAll = false
							}
						}
					}
					return okAll && n > 0, "local cell"
				}
			}
			return false, abbr(exprStr(v, shapeOpts))
		}
		nstores := 0
		for _, f := range c.SrcFuncs("PVM") {
			for _, g := range withClosures(f) {
				allInstrs(g, func(in ssa.Instruction) {
					st, ok := in.(*ssa.Store)
					if !ok {
						return
					}
					fa, isFA := st.Addr.(*ssa.FieldAddr)
					if !isFA || fieldName(fa.X.Type(), fa.Field) != "Access" || !hasSuffixType(derefType(fa.X.Type()), "PVM.Page") {
						return
					}
					nstores++
					key := fmt.Sprintf("%s · Page.Access ← %s", funcKey(g), abbr(exprStr(st.Val, shapeOpts)))
					ok2, why := neverInacc(st.Val, 0)
					c.Check(ok2 || loadTestsAccess, "C05.mapped-accessible", key, st.Pos(), "never the value MemoryInaccessible", "a page kept in the page table can be given the access value MemoryInaccessible ("+why+"), and loadFromMemory reads any page that is present: a revoked page stays readable")
				})
			}
		}
		c.extra["page_access_stores"] = nstores
	}

	c.Rule("C05.low-memory-panics", "in loadFromMemory and storeIntoMemory every page-table lookup is dominated by the false edge of address < 2^16, whose true edge returns ExitPanic; page-fault exits carry the access address", 4)
	for _, f := range []*ssa.Function{st, ld} {
		addr := "p2"
		low := condEdges(f, func(v ssa.Value) (bool, bool) { return exprStr(v, shapeOpts) == "("+addr+" < 65536)", true })
		notLow := make([]edge, len(low))
		for i, ed := range low {
			notLow[i] = edge{ed.from, 1 - ed.succ}
		}
		n := 0
		allInstrs(f, func(in ssa.Instruction) {
			if isPagesLookup(in) {
				n++
				c.Check(guardedBy(f, in, notLow), "C05.low-memory-panics", funcKey(f)+fmt.Sprintf(" · page lookup #%d", n), in.Pos(), "lookup only for addresses ≥ 2^16", "page table consulted for an address that was not tested against 2^16")
			}
			if r, ok := in.(*ssa.Return); ok {
				res := retResults(r)
				s := exprStr(res[len(res)-1], shapeOpts)
				if strings.Contains(s, faultC) {
					c.Check(s == "("+faultC+" | u64("+addr+"))", "C05.low-memory-panics", funcKey(f)+fmt.Sprintf(" · fault address b%d", in.Block().Index), in.Pos(), "page fault reports the access address", "page-fault exit carries "+s+" instead of the access address")
				}
				if s == panicC && len(low) > 0 {
					// the panic on the low edge
				}
			}
		})
		okLow := len(low) == 1
		if okLow {
			tgt := low[0].from.Succs[low[0].succ]
			okLow = false
			for _, in := range tgt.Instrs {
				if r, ok := in.(*ssa.Return); ok {
					res := retResults(r)
					okLow = exprStr(res[len(res)-1], shapeOpts) == panicC
				}
			}
		}
		c.Check(okLow, "C05.low-memory-panics", funcKey(f)+" · <2^16 → panic", f.Pos(), "address < 2^16 returns ExitPanic", "the first test is not address < 2^16 → ExitPanic")
	}

	c.Rule("C05.fault-leaves-register", "in every function that calls loadFromMemory, each store to the register file is dominated by the edge on which the load's exit reason is ExitContinue", 20)
	nload := 0
	for _, f := range c.SrcFuncs("PVM") {
		calls := callsIn(f, c.Obj("PVM", "loadFromMemory"))
		if len(calls) == 0 {
			continue
		}
		var pass []edge
		for _, k := range calls {
			kv := k.(ssa.Value)
			pass = append(pass, condEdges(f, func(v ssa.Value) (bool, bool) {
				b, ok := v.(*ssa.BinOp)
				if !ok || (b.Op != token.NEQ && b.Op != token.EQL) {
					return false, false
				}
				isExit := func(x ssa.Value) bool {
					ex, ok := stripConv(x).(*ssa.Extract)
					return ok && ex.Tuple == kv && ex.Index == 1
				}
				isZero := func(x ssa.Value) bool { k, ok := constU64(x); return ok && k == 0 }
				if (isExit(b.X) && isZero(b.Y)) || (isExit(b.Y) && isZero(b.X)) {
					return true, b.Op == token.EQL
				}
				return false, false
			})...)
		}
		allInstrs(f, func(in ssa.Instruction) {
			if _, _, _, ok := e.registerStore(in); !ok {
				return
			}
			nload++
			c.Check(guardedBy(f, in, pass), "C05.fault-leaves-register", funcKey(f)+" · register store", in.Pos(), "destination register written only after a successful load", "a load handler writes its destination register on a path where the memory access did not succeed")
		})
	}
	c.extra["load_handler_register_stores"] = nload

	c05HeapGrowth(c)

	c.Rule("C05.range-check-shape", "isReadable/isWriteable implement the GP range test (decided by evaluation on boundary starts and lengths) and differ only in the page predicate", 8)
	e.ruleRangeCheckShape("C05.range-check-shape")
	return "Guest-memory protection mechanisms decided on SSA: stores write nothing before all presence/Access tests of every page involved; the <2^16 panic precedes every page lookup and page faults carry the access address; load handlers leave the destination register untouched unless the load succeeded; the heap grows only through the two sbrk handlers under identical wrap and limit tests with fresh zeroed pages; the host-call range tests have the GP shape. Does not decide Access tests on reads (inaccessible pages are never materialised) nor the pages host call (C33).",
		[]string{"canonical expression rendering", "register operands of the two engines are normalised to REG for sibling comparison"}
}

// regNormalize replaces the engine-specific spelling of a register operand.
func regNormalize(s string) string {
	out := s
	for {
		i := strings.Index(out, "p0.Registers[")
		if i < 0 {
			break
		}
		depth := 0
		j := i + len("p0.Registers[") - 1
		for k := j; k < len(out); k++ {
			if out[k] == '[' {
				depth++
			} else if out[k] == ']' {
				depth--
				if depth == 0 {
					out = out[:i] + "REG" + out[k+1:]
					break
				}
			}
		}
		if depth != 0 {
			break
		}
	}
	return out
}

// pageGuarded: the page written at `at` (value pv) comes from a page-table
// lookup whose presence test and Access == ReadWrite test hold on every path
// to `at`. The lookup may sit in a helper returning (page, ok): then every
// ok-return of the helper is so guarded inside the helper, and `at` is
// guarded by the helper's ok result.
func pageGuarded(f *ssa.Function, at ssa.Instruction, pv ssa.Value) bool {
	if page := pageOf(pv); page != nil {
		found := condEdges(f, func(v ssa.Value) (bool, bool) {
			ex, ok := v.(*ssa.Extract)
			return ok && ex.Tuple == ssa.Value(page) && ex.Index == 1, true
		})
		rw := condEdges(f, func(v ssa.Value) (bool, bool) {
			b, ok := v.(*ssa.BinOp)
			if !ok || (b.Op != token.NEQ && b.Op != token.EQL) {
				return false, false
			}
			s := exprStr(b, shapeOpts)
			if !strings.Contains(s, ".Access") || !strings.Contains(s, "2") {
				return false, false
			}
			if !derivesFrom(b.X, page) && !derivesFrom(b.Y, page) {
				return false, false
			}
			return true, b.Op == token.EQL
		})
		return guardedBy(f, at, found) && guardedBy(f, at, rw)
	}
	hc := pageHelperCall(pv)
	if hc == nil {
		return false
	}
	h := hc.Call.StaticCallee()
	// the helper: every return that may report ok returns a guarded page of its own lookup
	okRets := 0
	sound := true
	allInstrs(h, func(in ssa.Instruction) {
		r, isR := in.(*ssa.Return)
		if !isR {
			return
		}
		res := retResults(r)
		if len(res) != 2 {
			return
		}
		if k, isC := res[1].(*ssa.Const); isC && k.Value != nil && k.Value.String() == "false" {
			return
		}
		okRets++
		if k, isC := res[1].(*ssa.Const); !isC || k.Value == nil || k.Value.String() != "true" {
			// ok forwarded from the lookup itself: the presence test is the result; the access test must still dominate
			sound = false
			return
		}
		if !pageGuarded(h, r, res[0]) {
			sound = false
		}
	})
	if okRets == 0 || !sound {
		return false
	}
	okEdge := condEdges(f, func(v ssa.Value) (bool, bool) {
		ex, ok := v.(*ssa.Extract)
		return ok && ex.Tuple == ssa.Value(hc) && ex.Index == 1, true
	})
	return guardedBy(f, at, okEdge)
}

// pageHelperCall: pv derives from result #0 of a call to a module helper returning (page, ok).
func pageHelperCall(v ssa.Value) *ssa.Call {
	for i := 0; i < 20 && v != nil; i++ {
		switch x := v.(type) {
		case *ssa.Extract:
			if call, ok := x.Tuple.(*ssa.Call); ok && x.Index == 0 {
				if g := call.Call.StaticCallee(); g != nil && len(g.Blocks) > 0 && g.Signature.Results().Len() == 2 && isBoolT(g.Signature.Results().At(1).Type()) {
					return call
				}
				return nil
			}
			v = x.Tuple
		case *ssa.UnOp:
			v = x.X
		case *ssa.FieldAddr:
			v = x.X
		case *ssa.Slice:
			v = x.X
		case *ssa.IndexAddr:
			v = x.X
		default:
			return nil
		}
	}
	return nil
}

// pageOf: the Pages lookup a page-value expression derives from.
func pageOf(v ssa.Value) *ssa.Lookup {
	for i := 0; i < 20 && v != nil; i++ {
		switch x := v.(type) {
		case *ssa.Lookup:
			return x
		case *ssa.Extract:
			v = x.Tuple
		case *ssa.UnOp:
			v = x.X
		case *ssa.FieldAddr:
			v = x.X
		case *ssa.Slice:
			v = x.X
		case *ssa.IndexAddr:
			v = x.X
		default:
			return nil
		}
	}
	return nil
}

func derivesFrom(v ssa.Value, l *ssa.Lookup) bool { return pageOf(stripConv(v)) == l }

var _ types.Type

// derivesFromCond: the condition mentions a value derived from the lookup lk.
func derivesFromCond(v ssa.Value, lk *ssa.Lookup) bool {
	seen := map[ssa.Value]bool{}
	var walk func(ssa.Value, int) bool
	walk = func(x ssa.Value, d int) bool {
		if x == nil || seen[x] || d > 8 {
			return false
		}
		seen[x] = true
		if x == ssa.Value(lk) {
			return true
		}
		in, ok := x.(ssa.Instruction)
		if !ok {
			return false
		}
		for _, op := range in.Operands(nil) {
			if *op != nil && walk(*op, d+1) {
				return true
			}
		}
		return false
	}
	return walk(v, 0)
}
