package main

import (
	"fmt"
	"strings"

	"golang.org/x/tools/go/ssa"
)

const mmrPkg = "internal/utilities/mmr"

func checkC19(c *Ctx) (string, []string) {
	fn := map[string]*ssa.Function{}
	for _, n := range []string{"MMR.AppendOne", "MMR.P", "MMR.Replace", "MMR.SuperPeak", "MMR.concatenateAndHash", "NewMMRFromPeaks", "NewMMR"} {
		fn[n] = c.Fn(mmrPkg, n)
	}
	rh := c.Fn(rhPkg, "AppendAndCommitMmr")
	if len(c.fatal) > 0 {
		return "", nil
	}
	M := "(*mmr.MMR)."
	keep := func(n string) bool { return strings.Contains(n, "mmr.") || strings.Contains(n, "hash.") }
	eff := func(n string) []string { return abbrAll(effectShapesOpt(fn[n], keep, true)) }
	ret := func(n string) map[string][]string { return abbrMap(returnShapes(fn[n])) }

	c.Rule("C19.append", "AppendOne skips only a nil item, works on a private copy of the current peaks (append(nil, m.Peaks...)), runs P from height 0 and installs/returns P's result; P appends at a new height, fills an empty slot through Replace, or clears the slot through Replace, merges (existing peak ⌢ carried item) and recurses one height up; Replace writes only into a fresh copy; concatenateAndHash returns a fresh hash cell of H(left ⌢ right)", 12)
	c.checkCondSet("C19.append", M+"AppendOne", fn["MMR.AppendOne"], []string{"(nil == p1)", "false"})
	pcall := M + "P(p0, append(nil, p0.Peaks), p1, 0)"
	c.checkEffects("C19.append", M+"AppendOne", fn["MMR.AppendOne"], eff("MMR.AppendOne"), []string{"call " + pcall, "store &p0.Peaks ← " + pcall})
	c.checkShapes("C19.append", M+"AppendOne", fn["MMR.AppendOne"], ret("MMR.AppendOne"), map[string][]string{"ret": {pcall, "p0.Peaks"}})
	c.checkCondSet("C19.append", M+"P", fn["MMR.P"], []string{"(len(p1) <= p3)", "(nil == p1[p3])"})
	rec := M + "P(p0, " + M + "Replace(p0, p1, p3, nil), " + M + "concatenateAndHash(p0, p1[p3], p2), (1 + p3))"
	c.checkEffects("C19.append", M+"P", fn["MMR.P"], eff("MMR.P"), []string{
		"call " + rec, "call " + M + "Replace(p0, p1, p3, nil)", "call " + M + "Replace(p0, p1, p3, p2)", "call " + M + "concatenateAndHash(p0, p1[p3], p2)",
	})
	c.checkShapes("C19.append", M+"P", fn["MMR.P"], ret("MMR.P"), map[string][]string{"ret": {rec, M + "Replace(p0, p1, p3, p2)", "append(p1, [p2][:])"}})
	c.checkCondSet("C19.append", M+"Replace", fn["MMR.Replace"], []string{"(p2 < len(p1))"})
	c.checkEffects("C19.append", M+"Replace", fn["MMR.Replace"], eff("MMR.Replace"), []string{"copy(make([]types.MmrPeak, len(p1)), p1)", "store &make([]types.MmrPeak, len(p1))[p2] ← p3"})
	c.checkShapes("C19.append", M+"Replace", fn["MMR.Replace"], ret("MMR.Replace"), map[string][]string{"ret": {"make([]types.MmrPeak, len(p1))"}})
	c.checkEffects("C19.append", M+"concatenateAndHash", fn["MMR.concatenateAndHash"], eff("MMR.concatenateAndHash"), []string{})
	c.checkShapes("C19.append", M+"concatenateAndHash", fn["MMR.concatenateAndHash"], ret("MMR.concatenateAndHash"), map[string][]string{"ret": {"cell(p0.hashFn(append(append(alloc:[64]byte[:0], p1[:]), p2[:])))"}})

	c.Rule("C19.no-shared-mutation", "no function of package mmr stores through a pointer, slice element or map reachable from its parameters or from m.Peaks (the only non-local store is the rebinding m.Peaks = new list); P is called only with a private list (AppendOne's copy or a Replace result), so its append cannot write into a caller's backing array", 8)
	for _, f := range c.SrcFuncs(mmrPkg) {
		nbad := 0
		allInstrs(f, func(in ssa.Instruction) {
			switch x := in.(type) {
			case *ssa.Store:
				if rootedInLocal(x.Addr) {
					return
				}
				s := exprStr(x.Addr, shapeOpts)
				if f == fn["MMR.AppendOne"] && s == "&p0.Peaks" {
					return
				}
				if f.Name() == "init" {
					return
				}
				nbad++
				c.Bad("C19.no-shared-mutation", funcKey(f)+" · store "+abbr(s), x.Pos(), "writes through memory reachable from a parameter / the peak list: peak lists handed out earlier change under their holders")
			case *ssa.MapUpdate:
				if !rootedInLocal(x.Map) {
					nbad++
					c.Bad("C19.no-shared-mutation", funcKey(f)+" · map update", x.Pos(), "updates a map reachable from a parameter")
				}
			}
		})
		if nbad == 0 {
			c.OK("C19.no-shared-mutation", funcKey(f), f.Pos(), "no store outside fresh local storage")
		}
	}
	// callers of P (whole module)
	pObj := c.Obj(mmrPkg, "MMR.P")
	ncall := 0
	for _, p := range c.Pkgs {
		if !strings.HasPrefix(p.PkgPath, modPath) {
			continue
		}
		rel := strings.TrimPrefix(strings.TrimPrefix(p.PkgPath, modPath), "/")
		for _, f0 := range c.SrcFuncs(rel) {
			for _, f := range withClosures(f0) {
				for _, ci := range callsIn(f, pObj) {
					ncall++
					a := abbr(exprStr(ci.Common().Args[1], shapeOpts))
					ok := a == "append(nil, p0.Peaks)" || strings.HasPrefix(a, M+"Replace(")
					c.Check(ok, "C19.no-shared-mutation", funcKey(f)+" · P called with "+a, ci.Pos(), "list is private to the call", "P may append into the spare capacity of a list its caller still shares")
				}
			}
		}
	}
	c.extra["calls_of_P"] = ncall

	c.Rule("C19.super-peak", "SuperPeak drops nil peaks, then: none ↦ zero hash, one ↦ that peak, otherwise Keccak($peak ⌢ SuperPeak(all but last) ⌢ last); AppendAndCommitMmr commits to exactly the list AppendOne returned", 5)
	h := "⊕(make([]types.MmrPeak, 0); [p1[*]][:])"
	c.checkCondSet("C19.super-peak", M+"SuperPeak", fn["MMR.SuperPeak"], []string{"(* < len(p1))", "(0 == len(" + h + "))", "(1 == len(" + h + "))", "(nil != p1[*])"})
	inner := M + "SuperPeak(p0, " + h + "[:(len(" + h + ") - 1)])"
	kec := "hash.KeccakHash(append(append(append(alloc:[68]byte[:0], \"peak\"), " + inner + "[:]), " + h + "[(len(" + h + ") - 1)][:]))"
	c.checkShapes("C19.super-peak", M+"SuperPeak", fn["MMR.SuperPeak"], ret("MMR.SuperPeak"), map[string][]string{"ret": {"*" + h + "[0]", kec, "nil"}})
	m := "phi(mmr.NewMMR(hash.KeccakHash) | mmr.NewMMRFromPeaks(p0.Peaks, hash.KeccakHash))"
	ap := M + "AppendOne(" + m + ", cell(p1))"
	c.checkShapes("C19.super-peak", "internal/recent_history.AppendAndCommitMmr", rh, abbrMap(returnShapes(rh)), map[string][]string{
		"ret#0.Peaks": {ap}, "ret#1": {M + "SuperPeak(" + m + ", " + ap + ")"},
	})
	c.checkShapes("C19.super-peak", "mmr.NewMMRFromPeaks", fn["NewMMRFromPeaks"], abbrMap(returnShapes(fn["NewMMRFromPeaks"])), map[string][]string{"ret": {"nil"}, "ret.Peaks": {"p0"}, "ret.hashFn": {"p1"}})
	_ = fmt.Sprint
	return "Mountain-range mechanisms decided statically: the append recursion (copy, carry/merge order, height step, slot clear/fill through Replace), absence of any store through shared peak storage in package mmr (who-may-write), privacy of every list handed to P (who-may-call, whole module), fresh result cell of the merge, the super-peak case analysis and operands, and that the commitment is taken over the list AppendOne returned.",
		[]string{"canonical SSA renderer; expected tables transcribed from GP E.2 (A, P, R, M_R)", "not decided: peak values / bit-count correspondence as numbers; the restored-with-nil-holes case beyond SuperPeak's nil filter"}
}
