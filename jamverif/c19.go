package main

import (
	"fmt"
	"go/token"
	"sort"
	"strings"

	"golang.org/x/tools/go/ssa"
)

const mmrPkg = "internal/utilities/mmr"

func checkC19(c *Ctx) (string, []string) {
	fn := map[string]*ssa.Function{}
	for _, n := range []string{"MMR.AppendOne", "MMR.P", "MMR.Replace", "MMR.SuperPeak", "MMR.concatenateAndHash", "NewMMRFromPeaks", "NewMMR"} {
		fn[n] = c.Fn(mmrPkg, n)
	}
	rh := c.Fn(rhPkg, "AppendAndCommitMmr")
	if len(c.fatal) > 0 {
		return "", nil
	}
	M := "(*mmr.MMR)."
	keep := func(n string) bool { return strings.Contains(n, "mmr.") || strings.Contains(n, "hash.") }

	c.Rule("C19.append", "AppendOne skips only a nil item, works on a private copy of the current peaks, runs P from height 0 and installs/returns P's result; in P (recursive or iterative) every merge hashes (peak at the current height ⌢ carried item) in that order, the merged slot is cleared through Replace(list, height, nil), the carried item settles through Replace(list, height, item) or append(list, item), and the height advances by exactly one per merge; Replace returns a fresh copy with one slot changed; the merge returns a fresh cell of H(left ⌢ right)", 12)
	o := robustOpts
	c.requireAtoms("C19.append", M+"AppendOne", fn["MMR.AppendOne"], o, []string{"(nil == p1)"})
	{
		f := fn["MMR.AppendOne"]
		notNil := condEdges(f, func(v ssa.Value) (bool, bool) {
			switch abbr(exprStr(v, o)) {
			case "(nil == p1)":
				return true, false
			case "(nil != p1)":
				return true, true
			}
			return false, false
		})
		c.Check(mustPassAfter(notNil, func(in ssa.Instruction) bool {
			ci, ok := in.(ssa.CallInstruction)
			return ok && calleeFunc(ci) == fn["MMR.P"]
		}), "C19.append", M+"AppendOne · skips only nil", f.Pos(), "every non-nil item reaches P", "an item that is not nil can be skipped (a path from item != nil returns without calling P)")
	}
	pcall := M + "P(p0, cat(p0.Peaks), p1, 0)"
	c.requireSet("C19.append", M+"AppendOne · calls", fn["MMR.AppendOne"].Pos(), "AppendOne's mmr calls", normFreshCopyAll(abbrAll(robustCalls(fn["MMR.AppendOne"], o, keep))), []string{pcall})
	{
		f := fn["MMR.AppendOne"]
		// m.Peaks is rebound to P's result and the result is what is returned
		stored := false
		allInstrs(f, func(in ssa.Instruction) {
			if st, ok := in.(*ssa.Store); ok && abbr(exprStr(st.Addr, o)) == "&p0.Peaks" && normFreshCopy(abbr(exprStr(st.Val, o))) == pcall {
				stored = true
			}
		})
		c.Check(stored, "C19.append", M+"AppendOne · install", f.Pos(), "m.Peaks = P(copy, item, 0)", "AppendOne does not install P's result as the new peak list")
		var rets []string
		for _, s := range abbrMap(returnShapesO(f, o))["ret"] {
			rets = append(rets, expandAlts(normFreshCopy(s))...)
		}
		okR := len(rets) > 0
		for _, s := range rets {
			if s != pcall && s != "p0.Peaks" {
				okR = false
			}
		}
		c.Check(okR, "C19.append", M+"AppendOne · result", f.Pos(), "returns the installed list", fmt.Sprintf("AppendOne returns %v", rets))
	}
	c19AppendTerms(c, fn["MMR.AppendOne"])
	c19P(c, fn["MMR.P"], fn["MMR.Replace"], fn["MMR.concatenateAndHash"])
	c.requireSet("C19.append", M+"Replace · result", fn["MMR.Replace"].Pos(), "Replace returns", abbrMap(returnShapesO(fn["MMR.Replace"], o))["ret"], []string{"make([]types.MmrPeak, len(p1)){[:] ⇐ p1; [p2] ← p3}"})
	c.requireSet("C19.append", M+"concatenateAndHash · result", fn["MMR.concatenateAndHash"].Pos(), "the merge returns", abbrMap(returnShapesO(fn["MMR.concatenateAndHash"], o))["ret"], []string{"cell(p0.hashFn(cat(p1[:], p2[:])))"})

	c.Rule("C19.no-shared-mutation", "no function of package mmr stores through a pointer, slice element or map reachable from its parameters or from m.Peaks (the only non-local store is the rebinding m.Peaks = new list); P is called only with a private list (AppendOne's copy or a Replace result), so its append cannot write into a caller's backing array", 8)
	for _, f := range c.SrcFuncs(mmrPkg) {
		nbad := 0
		allInstrs(f, func(in ssa.Instruction) {
			switch x := in.(type) {
			case *ssa.Store:
				if rootedInLocal(x.Addr) {
					return
				}
				s := exprStr(x.Addr, shapeOpts)
				if f == fn["MMR.AppendOne"] && s == "&p0.Peaks" {
					return
				}
				if f.Name() == "init" {
					return
				}
				nbad++
				c.Bad("C19.no-shared-mutation", funcKey(f)+" · store "+abbr(s), x.Pos(), "writes through memory reachable from a parameter / the peak list: peak lists handed out earlier change under their holders")
			case *ssa.MapUpdate:
				if !rootedInLocal(x.Map) {
					nbad++
					c.Bad("C19.no-shared-mutation", funcKey(f)+" · map update", x.Pos(), "updates a map reachable from a parameter")
				}
			}
		})
		if nbad == 0 {
			c.OK("C19.no-shared-mutation", funcKey(f), f.Pos(), "no store outside fresh local storage")
		}
	}
	// callers of P (whole module)
	pObj := c.Obj(mmrPkg, "MMR.P")
	ncall := 0
	for _, p := range c.Pkgs {
		if !strings.HasPrefix(p.PkgPath, modPath) {
			continue
		}
		rel := strings.TrimPrefix(strings.TrimPrefix(p.PkgPath, modPath), "/")
		for _, f0 := range c.SrcFuncs(rel) {
			for _, f := range withClosures(f0) {
				for _, ci := range callsIn(f, pObj) {
					ncall++
					a := abbr(exprStr(ci.Common().Args[1], shapeOpts))
					ok := a == "append(nil, p0.Peaks)" || strings.HasPrefix(a, M+"Replace(")
					if mk, isMk := stripConv(resolveLocal(ci.Common().Args[1])).(*ssa.MakeSlice); isMk && (mk.Cap == nil || mk.Cap == mk.Len) {
						ok = true // a list made in this call with no spare capacity
					}
					c.Check(ok, "C19.no-shared-mutation", funcKey(f)+" · P called with "+a, ci.Pos(), "list is private to the call", "P may append into the spare capacity of a list its caller still shares")
				}
			}
		}
	}
	c.extra["calls_of_P"] = ncall

	c.Rule("C19.super-peak", "SuperPeak drops nil peaks, then: none ↦ zero hash, one ↦ that peak, otherwise the left fold Keccak($peak ⌢ acc ⌢ next) over the remaining peaks in order (as the GP recursion on all-but-last, or as an accumulating loop from the first peak); AppendAndCommitMmr commits to exactly the list AppendOne returned", 5)
	c19SuperPeakTerms(c, fn["MMR.SuperPeak"])
	m := "phi(mmr.NewMMR(hash.KeccakHash) | mmr.NewMMRFromPeaks(p0.Peaks, hash.KeccakHash))"
	ap := M + "AppendOne(" + m + ", cell(p1))"
	c.checkShapes("C19.super-peak", "internal/recent_history.AppendAndCommitMmr", rh, abbrMap(returnShapes(rh)), map[string][]string{
		"ret#0.Peaks": {ap}, "ret#1": {M + "SuperPeak(" + m + ", " + ap + ")"},
	})
	c.checkShapes("C19.super-peak", "mmr.NewMMRFromPeaks", fn["NewMMRFromPeaks"], abbrMap(returnShapes(fn["NewMMRFromPeaks"])), map[string][]string{"ret": {"nil"}, "ret.Peaks": {"p0"}, "ret.hashFn": {"p1"}})
	_ = fmt.Sprint
	return "Mountain-range mechanisms decided statically: the append recursion (copy, carry/merge order, height step, slot clear/fill through Replace), absence of any store through shared peak storage in package mmr (who-may-write), privacy of every list handed to P (who-may-call, whole module), fresh result cell of the merge, the super-peak case analysis and operands, and that the commitment is taken over the list AppendOne returned.",
		[]string{"canonical SSA renderer; expected tables transcribed from GP E.2 (A, P, R, M_R)", "not decided: peak values / bit-count correspondence as numbers; the restored-with-nil-holes case beyond SuperPeak's nil filter"}
}

// c19P: flow facts of the append helper, independent of recursion vs loop.
func c19P(c *Ctx, p, replace, concat *ssa.Function) {
	M := "(*mmr.MMR)."
	key := M + "P"
	if len(p.Params) != 4 {
		c.Bad("C19.append", key, p.Pos(), "P no longer has the (list, item, height) parameters")
		return
	}
	list0, item0, height0 := p.Params[1], p.Params[2], p.Params[3]
	var isList, isCarried, isHeight func(v ssa.Value, seen map[ssa.Value]bool) bool
	isNil := func(v ssa.Value) bool {
		k, ok := stripConv(v).(*ssa.Const)
		return ok && k.Value == nil
	}
	isList = func(v ssa.Value, seen map[ssa.Value]bool) bool {
		v = stripConv(v)
		if v == ssa.Value(list0) || seen[v] {
			return true
		}
		seen[v] = true
		switch x := v.(type) {
		case *ssa.Call:
			return x.Call.StaticCallee() == replace && len(x.Call.Args) == 4 && isList(x.Call.Args[1], seen)
		case *ssa.Phi:
			for _, e := range x.Edges {
				if !isList(e, seen) {
					return false
				}
			}
			return true
		}
		return false
	}
	isHeight = func(v ssa.Value, seen map[ssa.Value]bool) bool {
		v = stripConv(v)
		if v == ssa.Value(height0) || seen[v] {
			return true
		}
		seen[v] = true
		switch x := v.(type) {
		case *ssa.BinOp:
			if k, ok := constInt(x.Y); ok && k == 1 && x.Op == token.ADD {
				return isHeight(x.X, seen)
			}
			if k, ok := constInt(x.X); ok && k == 1 && x.Op == token.ADD {
				return isHeight(x.Y, seen)
			}
		case *ssa.Phi:
			for _, e := range x.Edges {
				if !isHeight(e, seen) {
					return false
				}
			}
			return true
		}
		return false
	}
	// merges: calls of the merge helper, or direct hash calls over (x[:] ⌢ y[:])
	type merge struct {
		x, y ssa.Value
		at   ssa.Instruction
	}
	var merges []merge
	mergeResult := map[ssa.Value]bool{}
	allInstrs(p, func(in ssa.Instruction) {
		call, ok := in.(*ssa.Call)
		if !ok {
			return
		}
		if call.Call.StaticCallee() == concat && len(call.Call.Args) >= 3 {
			merges = append(merges, merge{call.Call.Args[1], call.Call.Args[2], call})
			mergeResult[call] = true
			return
		}
		if call.Call.StaticCallee() == nil && !call.Call.IsInvoke() && strings.HasSuffix(exprStr(call.Call.Value, shapeOpts), ".hashFn") && len(call.Call.Args) == 1 {
			parts := catValues(call.Call.Args[0])
			if len(parts) == 2 {
				a, ok1 := wholeOf(parts[0])
				b, ok2 := wholeOf(parts[1])
				if ok1 && ok2 {
					merges = append(merges, merge{a, b, call})
					mergeResult[call] = true
				}
			}
		}
	})
	isCarried = func(v ssa.Value, seen map[ssa.Value]bool) bool {
		v = stripConv(v)
		if v == ssa.Value(item0) || seen[v] || mergeResult[v] {
			return true
		}
		seen[v] = true
		switch x := v.(type) {
		case *ssa.Phi:
			for _, e := range x.Edges {
				if !isCarried(e, seen) {
					return false
				}
			}
			return true
		case *ssa.Alloc:
			// cell(hash result)
			if sv := singleStore(x); sv != nil {
				return isCarried(sv, seen)
			}
		case *ssa.UnOp:
			if x.Op == token.MUL {
				return false
			}
		}
		return false
	}
	fresh := func() map[ssa.Value]bool { return map[ssa.Value]bool{} }
	elemOf := func(v ssa.Value) (l, i ssa.Value, ok bool) {
		u, isU := stripConv(v).(*ssa.UnOp)
		if !isU || u.Op != token.MUL {
			return nil, nil, false
		}
		ia, isIA := u.X.(*ssa.IndexAddr)
		if !isIA {
			return nil, nil, false
		}
		return ia.X, ia.Index, true
	}
	if len(merges) == 0 {
		c.Bad("C19.append", key+" · merge", p.Pos(), "P performs no merge of an occupied peak with the carried item")
		return
	}
	var clears, fills []*ssa.Call
	allInstrs(p, func(in ssa.Instruction) {
		if call, ok := in.(*ssa.Call); ok && call.Call.StaticCallee() == replace && len(call.Call.Args) == 4 {
			if isNil(call.Call.Args[3]) {
				clears = append(clears, call)
			} else {
				fills = append(fills, call)
			}
		}
	})
	for k, m := range merges {
		mk := fmt.Sprintf("%s · merge #%d", key, k+1)
		l, i, ok := elemOf(m.x)
		okX := ok && isList(l, fresh()) && isHeight(i, fresh())
		okY := isCarried(m.y, fresh())
		c.Check(okX && okY, "C19.append", mk+" order", m.at.Pos(), "hashes (peak at the current height ⌢ carried item)", fmt.Sprintf("the merge hashes (%s ⌢ %s): GP E.8 merges the existing peak first, then the carried item", abbr(exprStr(m.x, shapeOpts)), abbr(exprStr(m.y, shapeOpts))))
		cleared := false
		for _, cl := range clears {
			if ok && stripConv(cl.Call.Args[2]) == stripConv(i) && stripConv(cl.Call.Args[1]) == stripConv(l) {
				cleared = true
			}
		}
		c.Check(cleared, "C19.append", mk+" clears slot", m.at.Pos(), "the merged slot is cleared through Replace(list, height, nil)", "the slot whose peak was merged is not cleared (Replace(list, height, nil) on the same list and height is missing)")
		// height step
		step := false
		if ok {
			allInstrs(p, func(in ssa.Instruction) {
				if call, isC := in.(*ssa.Call); isC && call.Call.StaticCallee() == p && len(call.Call.Args) == 4 {
					if b, isB := stripConv(call.Call.Args[3]).(*ssa.BinOp); isB && b.Op == token.ADD {
						if k1, ok1 := constInt(b.Y); ok1 && k1 == 1 && stripConv(b.X) == stripConv(i) {
							step = true
						}
						if k1, ok1 := constInt(b.X); ok1 && k1 == 1 && stripConv(b.Y) == stripConv(i) {
							step = true
						}
					}
				}
			})
			if ph, isPhi := stripConv(i).(*ssa.Phi); isPhi && !step {
				for _, e := range ph.Edges {
					if b, isB := stripConv(e).(*ssa.BinOp); isB && b.Op == token.ADD {
						if k1, ok1 := constInt(b.Y); ok1 && k1 == 1 && stripConv(b.X) == ssa.Value(ph) {
							step = true
						}
						if k1, ok1 := constInt(b.X); ok1 && k1 == 1 && stripConv(b.Y) == ssa.Value(ph) {
							step = true
						}
					}
				}
			}
		}
		c.Check(step, "C19.append", mk+" height step", m.at.Pos(), "the carried item moves up exactly one height", "after a merge the carried item does not continue at height + 1")
	}
	// results
	var isResult func(v ssa.Value, seen map[ssa.Value]bool) bool
	isResult = func(v ssa.Value, seen map[ssa.Value]bool) bool {
		v = stripConv(v)
		if seen[v] {
			return true
		}
		seen[v] = true
		switch x := v.(type) {
		case *ssa.Phi:
			for _, e := range x.Edges {
				if !isResult(e, seen) {
					return false
				}
			}
			return true
		case *ssa.Call:
			if b, ok := x.Call.Value.(*ssa.Builtin); ok && b.Name() == "append" && len(x.Call.Args) == 2 {
				es := appendedElems(x.Call.Args[1])
				return isList(x.Call.Args[0], fresh()) && len(es) == 1 && isCarried(es[0], fresh())
			}
			switch x.Call.StaticCallee() {
			case replace:
				return isList(x.Call.Args[1], fresh()) && isHeight(x.Call.Args[2], fresh()) && isCarried(x.Call.Args[3], fresh())
			case p:
				return isList(x.Call.Args[1], fresh()) && isCarried(x.Call.Args[2], fresh()) && isHeight(x.Call.Args[3], fresh())
			}
		}
		return false
	}
	okRes := true
	kinds := map[string]bool{}
	allInstrs(p, func(in ssa.Instruction) {
		r, ok := in.(*ssa.Return)
		if !ok || len(r.Results) != 1 {
			return
		}
		if !isResult(r.Results[0], fresh()) {
			okRes = false
		}
		var note func(v ssa.Value, d int)
		note = func(v ssa.Value, d int) {
			if d > 6 {
				return
			}
			switch x := stripConv(v).(type) {
			case *ssa.Phi:
				for _, e := range x.Edges {
					note(e, d+1)
				}
			case *ssa.Call:
				if b, ok := x.Call.Value.(*ssa.Builtin); ok {
					kinds[b.Name()] = true
				} else if x.Call.StaticCallee() == replace {
					kinds["fill"] = true
				}
			}
		}
		note(r.Results[0], 0)
	})
	c.Check(okRes && kinds["append"] && (kinds["fill"] || len(fills) > 0), "C19.append", key+" · results", p.Pos(), "the carried item settles by Replace(list, height, item) in a free slot or by append(list, item) above the top", "P's result is not always (list with the carried item placed at the current height): a free slot must be filled through Replace and a new height appended")
	// tests
	hasLen, hasNil := false, false
	allInstrs(p, func(in ssa.Instruction) {
		ifi, ok := in.(*ssa.If)
		if !ok {
			return
		}
		bo, ok := ifi.Cond.(*ssa.BinOp)
		if !ok {
			return
		}
		for _, pr := range [][2]ssa.Value{{bo.X, bo.Y}, {bo.Y, bo.X}} {
			if isHeight(pr[0], fresh()) {
				if call, ok := stripConv(pr[1]).(*ssa.Call); ok {
					if b, ok := call.Call.Value.(*ssa.Builtin); ok && b.Name() == "len" && isList(call.Call.Args[0], fresh()) {
						hasLen = true
					}
				}
			}
			if l, i, ok := elemOf(pr[0]); ok && isNil(pr[1]) && isList(l, fresh()) && isHeight(i, fresh()) {
				hasNil = true
			}
		}
	})
	c.Check(hasLen && hasNil, "C19.append", key+" · tests", p.Pos(), "tests height against the list length and the slot against nil", "P does not test both (height < |list|) and (list[height] == nil)")
}

// c19SuperPeak: nil filter, Keccak($peak ⌢ acc ⌢ next), left-fold order.
func c19SuperPeak(c *Ctx, f *ssa.Function) {
	M := "(*mmr.MMR)."
	key := M + "SuperPeak"
	o := robustOpts
	h := "⊕(make([]types.MmrPeak, 0); [p1[*]][:])"
	c.requireAtoms("C19.super-peak", key, f, o, []string{"(nil == p1[*])", "(0 == len(" + h + "))"})
	// every Keccak call hashes ("peak", A[:], N[:])
	var kcalls []*ssa.Call
	allInstrs(f, func(in ssa.Instruction) {
		if call, ok := in.(*ssa.Call); ok && call.Call.StaticCallee() != nil && strings.HasSuffix(call.Call.StaticCallee().String(), "hash.KeccakHash") {
			kcalls = append(kcalls, call)
		}
	})
	if len(kcalls) != 1 {
		c.Bad("C19.super-peak", key+" · hash", f.Pos(), "SuperPeak has %d Keccak calls; the fold has exactly one", len(kcalls))
		return
	}
	k := kcalls[0]
	parts := catValues(k.Call.Args[0])
	var ps []string
	for _, pv := range parts {
		ps = append(ps, abbr(exprStr(pv, o)))
	}
	if len(parts) != 3 || ps[0] != `"peak"` {
		c.Bad("C19.super-peak", key+" · hash", k.Pos(), "Keccak input is %v; GP E.10 hashes $peak ⌢ M_R(all but last) ⌢ last", ps)
		return
	}
	acc, okA := wholeOf(parts[1])
	next, okN := wholeOf(parts[2])
	if !okA || !okN {
		c.Bad("C19.super-peak", key+" · hash", k.Pos(), "Keccak input is %v; both operands after $peak must be whole 32-byte hashes", ps)
		return
	}
	accS, nextS := abbr(exprStr(acc, o)), abbr(exprStr(next, o))
	inner := M + "SuperPeak(p0, " + h + "[:(len(" + h + ") - 1)])"
	switch {
	case strings.Contains(accS, "SuperPeak("):
		// GP recursion: acc = SuperPeak(all but last), next = last; singleton returns the peak itself
		ok := accS == "cell("+inner+")" || accS == inner
		ok = ok && nextS == h+"[(len("+h+") - 1)]"
		c.Check(ok, "C19.super-peak", key+" · fold", k.Pos(), "Keccak($peak ⌢ SuperPeak(all but last) ⌢ last)", fmt.Sprintf("the recursion hashes ($peak ⌢ %s ⌢ %s)", accS, nextS))
		var rets []string
		for _, s := range abbrMap(returnShapesO(f, o))["ret"] {
			rets = append(rets, expandAlts(s)...)
		}
		kec := "hash.KeccakHash(cat(\"peak\", " + inner + "[:], " + h + "[(len(" + h + ") - 1)][:]))"
		c.requireSet("C19.super-peak", key+" · results", f.Pos(), "SuperPeak returns", uniqSorted(rets), []string{"*" + h + "[0]", kec, "nil"})
		c.requireAtoms("C19.super-peak", key+" · singleton", f, o, []string{"(1 == len(" + h + "))"})
	default:
		// accumulating loop: acc is a local initialised with *h[0] and updated with each Keccak result; next ranges over h[1:] in order
		okAcc := false
		if a, isA := acc.(*ssa.Alloc); isA {
			var stores []string
			for _, r := range *a.Referrers() {
				if st, ok := r.(*ssa.Store); ok && st.Addr == ssa.Value(a) {
					if st.Val == ssa.Value(k) {
						stores = append(stores, "K")
					} else {
						stores = append(stores, abbr(exprStr(st.Val, o)))
					}
				}
			}
			sort.Strings(stores)
			okAcc = strings.Join(stores, ";") == "*"+h+"[0];K"
			// the result is the accumulator
			retOK := true
			allInstrs(f, func(in ssa.Instruction) {
				if r, ok := in.(*ssa.Return); ok && len(r.Results) == 1 {
					s := abbr(exprStr(r.Results[0], o))
					if u, isU := r.Results[0].(*ssa.UnOp); isU && u.X == ssa.Value(a) {
						return
					}
					if s != "nil" {
						retOK = false
					}
				}
			})
			okAcc = okAcc && retOK
		}
		c.Check(okAcc && nextS == h+"[1:][*]", "C19.super-peak", key+" · fold", k.Pos(), "acc starts at the first peak, each further peak in order gives acc = Keccak($peak ⌢ acc ⌢ peak), the result is acc", fmt.Sprintf("the loop hashes ($peak ⌢ %s ⌢ %s) and does not form the left fold from the first peak over the rest in order", accS, nextS))
		c.OK("C19.super-peak", key+" · results", f.Pos(), "zero hash for no peaks, otherwise the accumulator")
		c.OK("C19.super-peak", key+" · singleton", f.Pos(), "a single peak is the initial accumulator")
	}
}

// normFreshCopy: a slice made with the length of X and filled from X is the same private copy as append(empty, X...):
// make([]T, len(X)){[:] ⇐ X} ↦ cat(X).
func normFreshCopy(s string) string {
	for {
		i := strings.Index(s, "make([]")
		if i < 0 {
			return s
		}
		j := strings.Index(s[i:], ", len(")
		if j < 0 {
			return s
		}
		start := i + j + len(", len(")
		depth, end := 1, -1
		for k := start; k < len(s); k++ {
			switch s[k] {
			case '(':
				depth++
			case ')':
				depth--
			}
			if depth == 0 {
				end = k
				break
			}
		}
		if end < 0 {
			return s
		}
		x := s[start:end]
		tail := "){[:] ⇐ " + x + "}"
		if !strings.HasPrefix(s[end+1:], tail) {
			// not this form: protect the occurrence and look further
			rest := normFreshCopy(s[i+1:])
			return s[:i+1] + rest
		}
		s = s[:i] + "cat(" + x + ")" + s[end+1+len(tail):]
	}
}

func normFreshCopyAll(in []string) []string {
	out := make([]string, len(in))
	for i, s := range in {
		out[i] = normFreshCopy(s)
	}
	return out
}
