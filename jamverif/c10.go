package main

import (
	"fmt"
	"os"
	"strings"

	"golang.org/x/tools/go/ssa"
)

func checkC10(c *Ctx) (string, []string) {
	e := newOmegaEnv(c)
	if len(c.fatal) > 0 {
		return "", nil
	}
	dump := os.Getenv("JAMVERIF_DUMP") != ""
	c.Rule("C10.deep-copy", "ResultContext.DeepCopy, PartialStateSet.DeepCopy and StateKeyVals.DeepCopy set every field of the copy and take from the original by value only reference-free data or []byte payloads; maps, non-byte slices and pointers are created fresh (type-directed flow analysis from the receiver)", 15)
	if f := c.Fn("PVM", "ResultContext.DeepCopy"); f != nil {
		c.checkDeepCopy("C10.deep-copy", f, nil)
	}
	if f := c.Fn("internal/types", "PartialStateSet.DeepCopy"); f != nil {
		c.checkDeepCopy("C10.deep-copy", f, nil)
	}
	if f := c.Fn("internal/types", "StateKeyVals.DeepCopy"); f != nil {
		c.checkDeepCopy("C10.deep-copy", f, nil)
	}

	c.Rule("C10.checkpoint-only", "the checkpoint context Y is assigned only in checkpoint, from X.DeepCopy() of the same call, after the gas charge; no host call writes through anything reached from Y", 3)
	e.ruleChargeFirst("C10.checkpoint-only", map[string]string{
		"hostCallOutOfGas": "returns out-of-gas without charging (gas already negative)",
		"wrapWithG$1":      "delegates to the wrapped host call",
	})
	for _, f := range e.funcs {
		allInstrs(f, func(in ssa.Instruction) {
			var target string
			switch x := in.(type) {
			case *ssa.Store:
				target = exprStr(x.Addr, shapeOpts)
			case *ssa.MapUpdate:
				target = exprStr(x.Map, shapeOpts)
			case *ssa.Call:
				if b, ok := x.Call.Value.(*ssa.Builtin); ok && b.Name() == "delete" {
					target = exprStr(x.Call.Args[0], shapeOpts)
				}
			}
			if !strings.Contains(target, "ResultContextY") {
				return
			}
			key := funcKey(f) + " · write " + abbr(target)
			st, isStore := in.(*ssa.Store)
			okAssign := isStore && f.Name() == "checkpoint" && strings.HasSuffix(target, "AccumulateArgs.ResultContextY") &&
				exprStr(st.Val, shapeOpts) == "(*PVM.ResultContext).DeepCopy(&cell(p0).Addition.AccumulateArgs.ResultContextX)"
			c.Check(okAssign, "C10.checkpoint-only", key, in.Pos(), "Y ← X.DeepCopy() in checkpoint", "the checkpoint context is written outside checkpoint, or not from X.DeepCopy(): "+in.String())
		})
	}

	c.Rule("C10.disjoint-contexts", "Psi_A builds X from deep copies of the partial state and of the raw key-val pool and Y from the originals, so the two contexts share no mutable storage", 2)
	if f := c.Fn("PVM", "Psi_A"); f != nil {
		I := c.Obj("PVM", "I")
		var shapes []string
		for _, call := range callsIn(f, I) {
			a := call.Common().Args
			shapes = append(shapes, abbr(exprStr(a[0], shapeOpts))+" | "+abbr(exprStr(a[4], shapeOpts)))
		}
		if dump {
			for _, s := range shapes {
				fmt.Println("ICALL", s)
			}
		}
		wantX := "*cell((*types.PartialStateSet).DeepCopy(alloc:types.PartialStateSet)) | cell((*types.StateKeyVals).DeepCopy(alloc:types.StateKeyVals))"
		wantY := "*alloc:types.PartialStateSet | alloc:types.StateKeyVals"
		hasX, hasY := false, false
		for _, s := range shapes {
			if s == wantX {
				hasX = true
			}
			if s == wantY {
				hasY = true
			}
		}
		c.Check(hasX && len(shapes) == 2, "C10.disjoint-contexts", "PVM.Psi_A · X", f.Pos(), "X is initialised from DeepCopy() of both the partial state and the key-val pool", "X is not built from deep copies: "+strings.Join(shapes, " ;; "))
		c.Check(hasY && len(shapes) == 2, "C10.disjoint-contexts", "PVM.Psi_A · Y", f.Pos(), "Y keeps the originals (never written)", "Y is not built from the original state: "+strings.Join(shapes, " ;; "))
	}

	c.Rule("C10.collapse", "C takes all six results from one context: Y for a system error, OUT_OF_GAS or PANIC, X otherwise; a 32-byte return value replaces X's yielded hash", 6)
	if f := c.Fn("PVM", "C"); f != nil {
		rs := abbrMap(returnShapes(f))
		if dump {
			dumpShapes("C", rs)
			for _, s := range condShapes(f) {
				fmt.Println("COND C |", abbr(s))
			}
		}
		c.checkShapes("C10.collapse", "PVM.C", f, rs, map[string][]string{
			"ret#0": {"p2.ResultContextX.PartialState", "p2.ResultContextY.PartialState"},
			"ret#1": {"p2.ResultContextX.DeferredTransfers", "p2.ResultContextY.DeferredTransfers"},
			"ret#2": {"alloc:types.OpaqueHash", "p2.ResultContextX.Exception", "p2.ResultContextY.Exception"},
			"ret#3": {"p0"},
			"ret#5": {"*p2.ResultContextX.StorageKeyVal", "*p2.ResultContextY.StorageKeyVal"},
		})
		// per return: all context-derived results come from the same context, and the arm matches
		allInstrs(f, func(in ssa.Instruction) {
			r, ok := in.(*ssa.Return)
			if !ok {
				return
			}
			res := retResults(r)
			ctx := ""
			consistent := true
			for _, i := range []int{0, 1, 2, 5} {
				s := exprStr(res[i], shapeOpts)
				var k string
				switch {
				case strings.Contains(s, "ResultContextX"):
					k = "X"
				case strings.Contains(s, "ResultContextY"):
					k = "Y"
				case i == 2:
					k = "X" // the 32-byte override belongs to the X arm
				}
				if ctx == "" {
					ctx = k
				} else if k != ctx {
					consistent = false
				}
			}
			// blobs: the range source
			blobs := exprStr(res[4], shapeOpts)
			if !strings.Contains(blobs, "ResultContext"+ctx+".ServiceBlobs") {
				consistent = false
			}
			c.Check(consistent, "C10.collapse", fmt.Sprintf("PVM.C · return b%d uses one context (%s)", in.Block().Index, ctx), in.Pos(), "all results from context "+ctx, "a return mixes results of the regular and the checkpoint context")
		})
	}

	c.Rule("C10.g-writes-x", "G (used by wrapWithG) writes only X's service map at X's own service id", 1)
	if f := c.Fn("PVM", "G"); f != nil {
		eff := abbrAll(effectShapes(f, nil))
		if dump {
			for _, s := range eff {
				fmt.Println("G |", s)
			}
		}
		c.checkEffects("C10.g-writes-x", "PVM.G", f, eff, []string{"mapset p0.Addition.AccumulateArgs.ResultContextX.PartialState.ServiceAccounts[p0.Addition.AccumulateArgs.ResultContextX.ServiceID] ← p1"})
	}
	return "Checkpoint/rollback mechanisms decided statically: type-directed flow analysis of the three DeepCopy methods (no mutable storage shared, every field set), the checkpoint context written only by checkpoint from X.DeepCopy() after the gas charge, disjoint roots of X and Y in Psi_A, the collapse function taking all results from one context per arm, G writing only X. Does not decide that each host call mutates the right fields.",
		[]string{"[]byte payloads are never written in place by host calls (so sharing them is not aliasing of mutable state)", "canonical expression rendering"}
}
