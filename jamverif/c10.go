package main

import (
	"fmt"
	"go/constant"
	"go/types"
	"os"
	"sort"
	"strings"

	"golang.org/x/tools/go/ssa"
)

func checkC10(c *Ctx) (string, []string) {
	e := newOmegaEnv(c)
	if len(c.fatal) > 0 {
		return "", nil
	}
	dump := os.Getenv("JAMVERIF_DUMP") != ""
	c.Rule("C10.deep-copy", "ResultContext.DeepCopy, PartialStateSet.DeepCopy and StateKeyVals.DeepCopy set every field of the copy and take from the original by value only reference-free data or []byte payloads; maps, non-byte slices and pointers are created fresh (type-directed flow analysis from the receiver)", 15)
	if f := c.Fn("PVM", "ResultContext.DeepCopy"); f != nil {
		c.checkDeepCopy("C10.deep-copy", f, nil)
	}
	if f := c.Fn("internal/types", "PartialStateSet.DeepCopy"); f != nil {
		c.checkDeepCopy("C10.deep-copy", f, nil)
	}
	if f := c.Fn("internal/types", "StateKeyVals.DeepCopy"); f != nil {
		c.checkDeepCopy("C10.deep-copy", f, nil)
	}

	c.Rule("C10.checkpoint-only", "the checkpoint context Y is assigned only in checkpoint, from X.DeepCopy() of the same call, after the gas charge; no host call writes through anything reached from Y", 3)
	e.ruleChargeFirst("C10.checkpoint-only", map[string]string{
		"hostCallOutOfGas": "returns out-of-gas without charging (gas already negative)",
		"wrapWithG$1":      "delegates to the wrapped host call",
	})
	for _, f := range e.funcs {
		allInstrs(f, func(in ssa.Instruction) {
			var target string
			switch x := in.(type) {
			case *ssa.Store:
				target = exprStr(x.Addr, shapeOpts)
			case *ssa.MapUpdate:
				target = exprStr(x.Map, shapeOpts)
			case *ssa.Call:
				if b, ok := x.Call.Value.(*ssa.Builtin); ok && b.Name() == "delete" {
					target = exprStr(x.Call.Args[0], shapeOpts)
				}
			}
			if !strings.Contains(target, "ResultContextY") {
				return
			}
			key := funcKey(f) + " · write " + abbr(target)
			st, isStore := in.(*ssa.Store)
			okAssign := isStore && f.Name() == "checkpoint" && strings.HasSuffix(target, "AccumulateArgs.ResultContextY") &&
				exprStr(st.Val, shapeOpts) == "(*PVM.ResultContext).DeepCopy(&cell(p0).Addition.AccumulateArgs.ResultContextX)"
			c.Check(okAssign, "C10.checkpoint-only", key, in.Pos(), "Y ← X.DeepCopy() in checkpoint", "the checkpoint context is written outside checkpoint, or not from X.DeepCopy(): "+in.String())
		})
	}

	c.Rule("C10.disjoint-contexts", "Psi_A builds X from deep copies of the partial state and of the raw key-val pool and Y from the originals, so the two contexts share no mutable storage", 2)
	if f := c.Fn("PVM", "Psi_A"); f != nil {
		I := c.Obj("PVM", "I")
		var shapes []string
		for _, call := range callsIn(f, I) {
			a := call.Common().Args
			shapes = append(shapes, abbr(exprStr(a[0], shapeOpts))+" | "+abbr(exprStr(a[4], shapeOpts)))
		}
		if dump {
			for _, s := range shapes {
				fmt.Println("ICALL", s)
			}
		}
		wantX := "*cell((*types.PartialStateSet).DeepCopy(alloc:types.PartialStateSet)) | cell((*types.StateKeyVals).DeepCopy(alloc:types.StateKeyVals))"
		wantY := "*alloc:types.PartialStateSet | alloc:types.StateKeyVals"
		hasX, hasY := false, false
		for _, s := range shapes {
			if s == wantX {
				hasX = true
			}
			if s == wantY {
				hasY = true
			}
		}
		c.Check(hasX && len(shapes) == 2, "C10.disjoint-contexts", "PVM.Psi_A · X", f.Pos(), "X is initialised from DeepCopy() of both the partial state and the key-val pool", "X is not built from deep copies: "+strings.Join(shapes, " ;; "))
		c.Check(hasY && len(shapes) == 2, "C10.disjoint-contexts", "PVM.Psi_A · Y", f.Pos(), "Y keeps the originals (never written)", "Y is not built from the original state: "+strings.Join(shapes, " ;; "))
		// everything else the invocation can write through — the general arguments (working account, account table,
		// key-val pool) and X — must come from the deep copies: a reference into the original partial state or
		// key-val pool that reaches them lets a host call write into what Y (the rollback target) holds
		var origs []ssa.Value
		for _, p := range f.Params {
			if ts := types.TypeString(p.Type(), nil); strings.HasSuffix(ts, "types.PartialStateSet") || strings.HasSuffix(ts, "types.StateKeyVals") {
				origs = append(origs, p)
			}
		}
		nargs := 0
		allInstrs(f, func(in ssa.Instruction) {
			st, ok := in.(*ssa.Store)
			if !ok {
				return
			}
			// field chain rooted at the HostCallArgs literal
			var chain []string
			v := st.Addr
			for {
				fa, isFA := v.(*ssa.FieldAddr)
				if !isFA {
					break
				}
				chain = append([]string{fieldName(fa.X.Type(), fa.Field)}, chain...)
				v = fa.X
			}
			a, isA := v.(*ssa.Alloc)
			if !isA || len(chain) == 0 || !hasSuffixType(derefType(a.Type()), "PVM.HostCallArgs") {
				return
			}
			path := strings.Join(chain, ".")
			if strings.Contains(path, "ResultContextY") || !hasRef(st.Val.Type()) {
				return
			}
			nargs++
			src := c10OriginalSource(st.Val, origs, map[ssa.Value]bool{}, 0)
			c.Check(src == "", "C10.disjoint-contexts", "PVM.Psi_A · "+path, st.Pos(), "built from the deep copies (or from inputs other than the state): no reference into the original partial state or key-val pool", path+" carries a reference into the original state ("+src+"): a host call writing through it changes what the checkpoint context Y holds, so a panic or out-of-gas no longer rolls back")
		})
		if nargs == 0 {
			c.Bad("C10.disjoint-contexts", "PVM.Psi_A · host-call arguments", f.Pos(), "the HostCallArgs literal of the invocation was not found")
		}
	}

	c.Rule("C10.collapse", "C takes all six results from one context: Y for a system error, OUT_OF_GAS or PANIC, X otherwise; a 32-byte return value replaces X's yielded hash", 6)
	if f := c.Fn("PVM", "C"); f != nil {
		rs := abbrMap(returnShapes(f))
		if dump {
			dumpShapes("C", rs)
			for _, s := range condShapes(f) {
				fmt.Println("COND C |", abbr(s))
			}
		}
		c.checkShapes("C10.collapse", "PVM.C", f, rs, map[string][]string{
			"ret#0": {"p2.ResultContextX.PartialState", "p2.ResultContextY.PartialState"},
			"ret#1": {"p2.ResultContextX.DeferredTransfers", "p2.ResultContextY.DeferredTransfers"},
			"ret#3": {"p0"},
			"ret#5": {"*p2.ResultContextX.StorageKeyVal", "*p2.ResultContextY.StorageKeyVal"},
		})
		// the yielded hash: a context's own, or the 32-byte return value of the invocation
		{
			ro := robustOpts
			okY := true
			var ys []string
			for _, s := range abbrMap(returnShapesO(f, ro))["ret#2"] {
				for _, a := range expandAlts(looseForm(s)) {
					ys = append(ys, a)
					if !(a == "p2.ResultContextX.Exception" || a == "p2.ResultContextY.Exception" || a == "alloc:types.OpaqueHash" || a == "nil" || strings.Contains(a, "p1.([]byte)")) {
						okY = false
					}
				}
			}
			c.Check(okY && len(ys) > 0, "C10.collapse", "PVM.C · ret#2", f.Pos(), "yielded hash is a context's own or the 32-byte return value", fmt.Sprintf("the yielded hash can be %v", uniqSorted(ys)))
		}
		// per return: all context-derived results come from the same context (helpers seen through); a context chosen once and handed to a helper is one context
		nret := 0
		allInstrs(f, func(in ssa.Instruction) {
			r, ok := in.(*ssa.Return)
			if !ok {
				return
			}
			nret++
			res := retResults(r)
			ctx := ""
			consistent := true
			ctxOf := func(s string) string {
				hasX, hasY := strings.Contains(s, "ResultContextX"), strings.Contains(s, "ResultContextY")
				switch {
				case hasX && hasY:
					// one pointer chosen between the two and used for every result is one context
					chooser := "phi(p2.ResultContextX | p2.ResultContextY)"
					if strings.Count(s, chooser) >= 1 && strings.Count(s, "ResultContextX") == strings.Count(s, chooser) && strings.Count(s, "ResultContextY") == strings.Count(s, chooser) {
						return "chosen once"
					}
					return "mixed"
				case hasX:
					return "X"
				case hasY:
					return "Y"
				}
				return ""
			}
			for _, i := range []int{0, 1, 2, 4, 5} {
				s := looseForm(abbr(exprStr(res[i], robustOpts)))
				if i == 2 && !strings.Contains(s, "ResultContext") {
					continue // the 32-byte override alone
				}
				k := ctxOf(s)
				if k == "" || k == "mixed" {
					consistent = false
					continue
				}
				if ctx == "" {
					ctx = k
				} else if k != ctx {
					// within one return, "X" from a direct arm and a chooser term never mix
					consistent = false
				}
			}
			var seen []string
			for _, i := range []int{0, 1, 2, 4, 5} {
				seen = append(seen, looseForm(abbr(exprStr(res[i], robustOpts))))
			}
			c.Check(consistent, "C10.collapse", fmt.Sprintf("PVM.C · return #%d uses one context", nret), in.Pos(), "all results from context "+ctx, "a return mixes results of the regular and the checkpoint context: "+strings.Join(seen, " ;; "))
		})
		c10Arms(c, f)
	}

	c.Rule("C10.g-writes-x", "G (used by wrapWithG) writes only X's service map at X's own service id", 1)
	if f := c.Fn("PVM", "G"); f != nil {
		eff := abbrAll(effectShapes(f, nil))
		if dump {
			for _, s := range eff {
				fmt.Println("G |", s)
			}
		}
		c.checkEffects("C10.g-writes-x", "PVM.G", f, eff, []string{"mapset p0.Addition.AccumulateArgs.ResultContextX.PartialState.ServiceAccounts[p0.Addition.AccumulateArgs.ResultContextX.ServiceID] ← p1"})
	}
	return "Checkpoint/rollback mechanisms decided statically: type-directed flow analysis of the three DeepCopy methods (no mutable storage shared, every field set), the checkpoint context written only by checkpoint from X.DeepCopy() after the gas charge, disjoint roots of X and Y in Psi_A, the collapse function taking all results from one context per arm, G writing only X. Does not decide that each host call mutates the right fields.",
		[]string{"[]byte payloads are never written in place by host calls (so sharing them is not aliasing of mutable state)", "canonical expression rendering"}
}

// c10Arms: the context is Y exactly for a system error, OUT_OF_GAS or PANIC, and X otherwise — decided as a
// table: C is followed with the dynamic type of its reason argument (and, for an exit reason, its value; for a
// byte string, its length) valued, and the context the returned partial state, transfers and key-values come from
// is read off the return reached, through local copies, helper parameters and pointer phis.
func c10Arms(c *Ctx, f *ssa.Function) {
	kv := map[string]int64{}
	for _, name := range []string{"OUT_OF_GAS", "PANIC", "HALT"} {
		if k, ok := c.Obj("PVM", name).(*types.Const); ok {
			if v, exact := constant.Int64Val(k.Val()); exact {
				kv[name] = v
			}
		}
	}
	type scen struct {
		name            string
		isErr, isExit   bool
		exit            int64
		isBytes         bool
		blen            int64
		wantExceptional bool
	}
	scens := []scen{
		{name: "system error", isErr: true, wantExceptional: true},
		{name: "OUT_OF_GAS", isExit: true, exit: kv["OUT_OF_GAS"], wantExceptional: true},
		{name: "PANIC", isExit: true, exit: kv["PANIC"], wantExceptional: true},
		{name: "HALT", isExit: true, exit: kv["HALT"]},
		{name: "another exit kind", isExit: true, exit: 77},
		{name: "32 returned bytes", isBytes: true, blen: 32},
		{name: "5 returned bytes", isBytes: true, blen: 5},
		{name: "0 returned bytes", isBytes: true, blen: 0},
		{name: "a value of another type"},
	}
	bad := ""
	for _, sc := range scens {
		var ret *ssa.Return
		var choice map[*ssa.Phi]ssa.Value
		r, ok := runWithAtomsChoice(f, shapeOpts, func(s string) (int64, bool) {
			b := func(x bool) (int64, bool) {
				if x {
					return 1, true
				}
				return 0, true
			}
			switch {
			case s == "p1.(error)#1":
				return b(sc.isErr)
			case s == "p1.(PVM.ExitReasonType)#1":
				return b(sc.isExit)
			case s == "p1.([]byte)#1" || s == "p1.(types.ByteSequence)#1" || s == "p1.(internal/types.ByteSequence)#1":
				return b(sc.isBytes)
			case s == "p1.(PVM.ExitReasonType)#0":
				return sc.exit, sc.isExit
			case strings.HasPrefix(s, "len(p1.(") && strings.HasSuffix(s, ")#0)"):
				return sc.blen, sc.isBytes
			}
			// comparison of the interface value itself with a constant of the exit-reason type
			for _, v := range kv {
				for _, form := range []string{"(%d == p1)", "(p1 == %d)"} {
					if s == fmt.Sprintf(form, v) {
						return b(sc.isExit && sc.exit == v)
					}
				}
			}
			return 0, false
		}, func(in ssa.Instruction, ch map[*ssa.Phi]ssa.Value) {
			if rr, isR := in.(*ssa.Return); isR {
				ret, choice = rr, ch
			}
		})
		if !ok || r == nil || ret == nil {
			bad = sc.name + ": the arm taken is not decided by the dynamic type and value of the reason (conditions: " + strings.Join(condShapes(f), " ; ") + ")"
			break
		}
		res := retResults(ret)
		roots := map[string]bool{}
		for _, i := range []int{0, 1, 5} {
			if i < len(res) {
				roots[c10ContextRoot(res[i], nil, choice, 0)] = true
			}
		}
		want := "ResultContextX"
		if sc.wantExceptional {
			want = "ResultContextY"
		}
		if len(roots) != 1 || !roots[want] {
			var got []string
			for k := range roots {
				if k == "" {
					k = "an unrecognised source"
				}
				got = append(got, k)
			}
			sort.Strings(got)
			bad = fmt.Sprintf("%s: partial state, transfers and key-values are taken from %s; the collapse selects %s", sc.name, strings.Join(got, " and "), want)
			break
		}
	}
	c.Check(bad == "", "C10.collapse", "PVM.C · arms", f.Pos(), "the checkpoint context for a system error, OUT_OF_GAS and PANIC, the regular one for HALT, other exit kinds, returned bytes of any length and other values (9/9 rows)", "the collapse does not select Y exactly for error, OUT_OF_GAS and PANIC: "+bad)
}

// c10ContextRoot: which dimension of the result context a returned value is read from.
func c10ContextRoot(v ssa.Value, subst map[*ssa.Parameter]ssa.Value, choice map[*ssa.Phi]ssa.Value, d int) string {
	for i := 0; i < 40 && v != nil && d < 6; i++ {
		switch x := v.(type) {
		case *ssa.FieldAddr:
			if n := fieldName(x.X.Type(), x.Field); n == "ResultContextX" || n == "ResultContextY" {
				return n
			}
			v = x.X
		case *ssa.Field:
			if n := fieldName(x.X.Type(), x.Field); n == "ResultContextX" || n == "ResultContextY" {
				return n
			}
			v = x.X
		case *ssa.UnOp:
			v = x.X
		case *ssa.Convert:
			v = x.X
		case *ssa.ChangeType:
			v = x.X
		case *ssa.MakeInterface:
			v = x.X
		case *ssa.Alloc:
			sv := singleStore(x)
			if sv == nil {
				return ""
			}
			v = sv
		case *ssa.Phi:
			e, ok := choice[x]
			if !ok {
				return ""
			}
			v = e
		case *ssa.Parameter:
			a, ok := subst[x]
			if !ok {
				return ""
			}
			v, subst = a, nil
		case *ssa.Extract:
			call, ok := x.Tuple.(*ssa.Call)
			if !ok {
				return ""
			}
			g := call.Call.StaticCallee()
			if g == nil || len(g.Blocks) == 0 {
				return ""
			}
			// every return of the helper must agree
			sub := map[*ssa.Parameter]ssa.Value{}
			for k, p := range g.Params {
				if k < len(call.Call.Args) {
					sub[p] = call.Call.Args[k]
				}
			}
			root := ""
			okAll := true
			allInstrs(g, func(in ssa.Instruction) {
				r, isR := in.(*ssa.Return)
				if !isR {
					return
				}
				res := retResults(r)
				if x.Index >= len(res) {
					return
				}
				// the helper's own phis are not on the path followed: only single-valued results are accepted
				k := c10ContextRootIn(res[x.Index], sub, subst, choice, d+1)
				if root == "" {
					root = k
				} else if k != root {
					okAll = false
				}
			})
			if !okAll {
				return ""
			}
			return root
		default:
			return ""
		}
	}
	return ""
}

// c10ContextRootIn resolves a value of a helper: its parameters stand for the call's arguments, which are
// values of the caller (resolved with the caller's own substitution).
func c10ContextRootIn(v ssa.Value, sub, outer map[*ssa.Parameter]ssa.Value, choice map[*ssa.Phi]ssa.Value, d int) string {
	for i := 0; i < 40 && v != nil; i++ {
		switch x := v.(type) {
		case *ssa.Parameter:
			a, ok := sub[x]
			if !ok {
				return ""
			}
			return c10ContextRoot(a, outer, choice, d)
		case *ssa.FieldAddr:
			if n := fieldName(x.X.Type(), x.Field); n == "ResultContextX" || n == "ResultContextY" {
				return n
			}
			v = x.X
		case *ssa.Field:
			if n := fieldName(x.X.Type(), x.Field); n == "ResultContextX" || n == "ResultContextY" {
				return n
			}
			v = x.X
		case *ssa.UnOp:
			v = x.X
		case *ssa.Convert:
			v = x.X
		case *ssa.ChangeType:
			v = x.X
		case *ssa.Alloc:
			sv := singleStore(x)
			if sv == nil {
				return ""
			}
			v = sv
		default:
			return ""
		}
	}
	return ""
}

// onlyInPhi: the address is computed ahead of the branches and only chosen by a phi.
func onlyInPhi(v ssa.Value) bool {
	if v.Referrers() == nil {
		return false
	}
	for _, r := range *v.Referrers() {
		if _, ok := r.(*ssa.Phi); !ok {
			return false
		}
	}
	return true
}

// c10OriginalSource: does v carry a reference that comes from one of the original (non-copied) state values?
// Returns a description of the source, or "". DeepCopy results are clean; values without references cannot alias.
func c10OriginalSource(v ssa.Value, origs []ssa.Value, seen map[ssa.Value]bool, d int) string {
	if v == nil || seen[v] || d > 14 {
		return ""
	}
	seen[v] = true
	for _, o := range origs {
		if v == o {
			return "parameter " + o.Name()
		}
	}
	if _, isTuple := v.Type().(*types.Tuple); !isTuple && !hasRef(v.Type()) {
		return ""
	}
	rec := func(x ssa.Value) string { return c10OriginalSource(x, origs, seen, d+1) }
	switch x := v.(type) {
	case *ssa.Call:
		if sc := x.Call.StaticCallee(); sc != nil && sc.Name() == "DeepCopy" {
			return ""
		}
		for _, a := range x.Call.Args {
			if s := rec(a); s != "" {
				return s
			}
		}
	case *ssa.Alloc:
		// whatever is stored into the cell or into parts of it
		var walk func(addr ssa.Value) string
		walk = func(addr ssa.Value) string {
			for _, r := range *addr.Referrers() {
				switch y := r.(type) {
				case *ssa.Store:
					if y.Addr == addr {
						if s := rec(y.Val); s != "" {
							return s
						}
					}
				case *ssa.FieldAddr:
					if y.X == addr {
						if s := walk(y); s != "" {
							return s
						}
					}
				case *ssa.IndexAddr:
					if y.X == addr {
						if s := walk(y); s != "" {
							return s
						}
					}
				}
			}
			return ""
		}
		return walk(x)
	case *ssa.UnOp:
		return rec(x.X)
	case *ssa.FieldAddr:
		return rec(x.X)
	case *ssa.Field:
		return rec(x.X)
	case *ssa.IndexAddr:
		return rec(x.X)
	case *ssa.Index:
		return rec(x.X)
	case *ssa.Lookup:
		return rec(x.X)
	case *ssa.Extract:
		return rec(x.Tuple)
	case *ssa.Slice:
		return rec(x.X)
	case *ssa.Convert:
		return rec(x.X)
	case *ssa.ChangeType:
		return rec(x.X)
	case *ssa.MakeInterface:
		return rec(x.X)
	case *ssa.Phi:
		for _, e := range x.Edges {
			if s := rec(e); s != "" {
				return s
			}
		}
	}
	return ""
}
