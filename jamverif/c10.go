package main

import (
	"fmt"
	"go/types"
	"os"
	"strings"

	"golang.org/x/tools/go/ssa"
)

func checkC10(c *Ctx) (string, []string) {
	e := newOmegaEnv(c)
	if len(c.fatal) > 0 {
		return "", nil
	}
	dump := os.Getenv("JAMVERIF_DUMP") != ""
	c.Rule("C10.deep-copy", "ResultContext.DeepCopy, PartialStateSet.DeepCopy and StateKeyVals.DeepCopy set every field of the copy and take from the original by value only reference-free data or []byte payloads; maps, non-byte slices and pointers are created fresh (type-directed flow analysis from the receiver)", 15)
	if f := c.Fn("PVM", "ResultContext.DeepCopy"); f != nil {
		c.checkDeepCopy("C10.deep-copy", f, nil)
	}
	if f := c.Fn("internal/types", "PartialStateSet.DeepCopy"); f != nil {
		c.checkDeepCopy("C10.deep-copy", f, nil)
	}
	if f := c.Fn("internal/types", "StateKeyVals.DeepCopy"); f != nil {
		c.checkDeepCopy("C10.deep-copy", f, nil)
	}

	c.Rule("C10.checkpoint-only", "the checkpoint context Y is assigned only in checkpoint, from X.DeepCopy() of the same call, after the gas charge; no host call writes through anything reached from Y", 3)
	e.ruleChargeFirst("C10.checkpoint-only", map[string]string{
		"hostCallOutOfGas": "returns out-of-gas without charging (gas already negative)",
		"wrapWithG$1":      "delegates to the wrapped host call",
	})
	for _, f := range e.funcs {
		allInstrs(f, func(in ssa.Instruction) {
			var target string
			switch x := in.(type) {
			case *ssa.Store:
				target = exprStr(x.Addr, shapeOpts)
			case *ssa.MapUpdate:
				target = exprStr(x.Map, shapeOpts)
			case *ssa.Call:
				if b, ok := x.Call.Value.(*ssa.Builtin); ok && b.Name() == "delete" {
					target = exprStr(x.Call.Args[0], shapeOpts)
				}
			}
			if !strings.Contains(target, "ResultContextY") {
				return
			}
			key := funcKey(f) + " · write " + abbr(target)
			st, isStore := in.(*ssa.Store)
			okAssign := isStore && f.Name() == "checkpoint" && strings.HasSuffix(target, "AccumulateArgs.ResultContextY") &&
				exprStr(st.Val, shapeOpts) == "(*PVM.ResultContext).DeepCopy(&cell(p0).Addition.AccumulateArgs.ResultContextX)"
			c.Check(okAssign, "C10.checkpoint-only", key, in.Pos(), "Y ← X.DeepCopy() in checkpoint", "the checkpoint context is written outside checkpoint, or not from X.DeepCopy(): "+in.String())
		})
	}

	c.Rule("C10.disjoint-contexts", "Psi_A builds X from deep copies of the partial state and of the raw key-val pool and Y from the originals, so the two contexts share no mutable storage", 2)
	if f := c.Fn("PVM", "Psi_A"); f != nil {
		I := c.Obj("PVM", "I")
		var shapes []string
		for _, call := range callsIn(f, I) {
			a := call.Common().Args
			shapes = append(shapes, abbr(exprStr(a[0], shapeOpts))+" | "+abbr(exprStr(a[4], shapeOpts)))
		}
		if dump {
			for _, s := range shapes {
				fmt.Println("ICALL", s)
			}
		}
		wantX := "*cell((*types.PartialStateSet).DeepCopy(alloc:types.PartialStateSet)) | cell((*types.StateKeyVals).DeepCopy(alloc:types.StateKeyVals))"
		wantY := "*alloc:types.PartialStateSet | alloc:types.StateKeyVals"
		hasX, hasY := false, false
		for _, s := range shapes {
			if s == wantX {
				hasX = true
			}
			if s == wantY {
				hasY = true
			}
		}
		c.Check(hasX && len(shapes) == 2, "C10.disjoint-contexts", "PVM.Psi_A · X", f.Pos(), "X is initialised from DeepCopy() of both the partial state and the key-val pool", "X is not built from deep copies: "+strings.Join(shapes, " ;; "))
		c.Check(hasY && len(shapes) == 2, "C10.disjoint-contexts", "PVM.Psi_A · Y", f.Pos(), "Y keeps the originals (never written)", "Y is not built from the original state: "+strings.Join(shapes, " ;; "))
	}

	c.Rule("C10.collapse", "C takes all six results from one context: Y for a system error, OUT_OF_GAS or PANIC, X otherwise; a 32-byte return value replaces X's yielded hash", 6)
	if f := c.Fn("PVM", "C"); f != nil {
		rs := abbrMap(returnShapes(f))
		if dump {
			dumpShapes("C", rs)
			for _, s := range condShapes(f) {
				fmt.Println("COND C |", abbr(s))
			}
		}
		c.checkShapes("C10.collapse", "PVM.C", f, rs, map[string][]string{
			"ret#0": {"p2.ResultContextX.PartialState", "p2.ResultContextY.PartialState"},
			"ret#1": {"p2.ResultContextX.DeferredTransfers", "p2.ResultContextY.DeferredTransfers"},
			"ret#3": {"p0"},
			"ret#5": {"*p2.ResultContextX.StorageKeyVal", "*p2.ResultContextY.StorageKeyVal"},
		})
		// the yielded hash: a context's own, or the 32-byte return value of the invocation
		{
			ro := robustOpts
			okY := true
			var ys []string
			for _, s := range abbrMap(returnShapesO(f, ro))["ret#2"] {
				for _, a := range expandAlts(looseForm(s)) {
					ys = append(ys, a)
					if !(a == "p2.ResultContextX.Exception" || a == "p2.ResultContextY.Exception" || a == "alloc:types.OpaqueHash" || a == "nil" || strings.Contains(a, "p1.([]byte)")) {
						okY = false
					}
				}
			}
			c.Check(okY && len(ys) > 0, "C10.collapse", "PVM.C · ret#2", f.Pos(), "yielded hash is a context's own or the 32-byte return value", fmt.Sprintf("the yielded hash can be %v", uniqSorted(ys)))
		}
		// per return: all context-derived results come from the same context (helpers seen through); a context chosen once and handed to a helper is one context
		nret := 0
		allInstrs(f, func(in ssa.Instruction) {
			r, ok := in.(*ssa.Return)
			if !ok {
				return
			}
			nret++
			res := retResults(r)
			ctx := ""
			consistent := true
			ctxOf := func(s string) string {
				hasX, hasY := strings.Contains(s, "ResultContextX"), strings.Contains(s, "ResultContextY")
				switch {
				case hasX && hasY:
					// one pointer chosen between the two and used for every result is one context
					chooser := "phi(p2.ResultContextX | p2.ResultContextY)"
					if strings.Count(s, chooser) >= 1 && strings.Count(s, "ResultContextX") == strings.Count(s, chooser) && strings.Count(s, "ResultContextY") == strings.Count(s, chooser) {
						return "chosen once"
					}
					return "mixed"
				case hasX:
					return "X"
				case hasY:
					return "Y"
				}
				return ""
			}
			for _, i := range []int{0, 1, 2, 4, 5} {
				s := looseForm(abbr(exprStr(res[i], robustOpts)))
				if i == 2 && !strings.Contains(s, "ResultContext") {
					continue // the 32-byte override alone
				}
				k := ctxOf(s)
				if k == "" || k == "mixed" {
					consistent = false
					continue
				}
				if ctx == "" {
					ctx = k
				} else if k != ctx {
					// within one return, "X" from a direct arm and a chooser term never mix
					consistent = false
				}
			}
			var seen []string
			for _, i := range []int{0, 1, 2, 4, 5} {
				seen = append(seen, looseForm(abbr(exprStr(res[i], robustOpts))))
			}
			c.Check(consistent, "C10.collapse", fmt.Sprintf("PVM.C · return #%d uses one context", nret), in.Pos(), "all results from context "+ctx, "a return mixes results of the regular and the checkpoint context: "+strings.Join(seen, " ;; "))
		})
		c10Arms(c, f)
	}

	c.Rule("C10.g-writes-x", "G (used by wrapWithG) writes only X's service map at X's own service id", 1)
	if f := c.Fn("PVM", "G"); f != nil {
		eff := abbrAll(effectShapes(f, nil))
		if dump {
			for _, s := range eff {
				fmt.Println("G |", s)
			}
		}
		c.checkEffects("C10.g-writes-x", "PVM.G", f, eff, []string{"mapset p0.Addition.AccumulateArgs.ResultContextX.PartialState.ServiceAccounts[p0.Addition.AccumulateArgs.ResultContextX.ServiceID] ← p1"})
	}
	return "Checkpoint/rollback mechanisms decided statically: type-directed flow analysis of the three DeepCopy methods (no mutable storage shared, every field set), the checkpoint context written only by checkpoint from X.DeepCopy() after the gas charge, disjoint roots of X and Y in Psi_A, the collapse function taking all results from one context per arm, G writing only X. Does not decide that each host call mutates the right fields.",
		[]string{"[]byte payloads are never written in place by host calls (so sharing them is not aliasing of mutable state)", "canonical expression rendering"}
}

// c10Arms: the context is Y exactly for a system error, OUT_OF_GAS or PANIC, and X otherwise —
// decided on the type switch of C: every PartialState result (or the context pointer handed
// to a helper) that is reached behind the "error value" or the OUT_OF_GAS / PANIC test is Y's.
func c10Arms(c *Ctx, f *ssa.Function) {
	// edges on which the invocation result is known to be an exceptional one
	exc := condEdges(f, func(v ssa.Value) (bool, bool) {
		s := abbr(exprStr(v, shapeOpts))
		switch {
		case strings.Contains(s, ".(error)#1"):
			return true, true
		case strings.Contains(s, "== PVM.OUT_OF_GAS") || strings.Contains(s, "PVM.OUT_OF_GAS ==") || strings.Contains(s, "== PVM.PANIC") || strings.Contains(s, "PVM.PANIC =="):
			return true, true
		}
		for _, name := range []string{"OUT_OF_GAS", "PANIC"} {
			if k, ok := c.Obj("PVM", name).(*types.Const); ok {
				kv := k.Val().ExactString()
				for _, opnd := range []string{"p1", "p1.(PVM.ExitReasonType)#0"} {
					if s == "("+kv+" == "+opnd+")" || s == "("+opnd+" == "+kv+")" {
						return true, true
					}
				}
			}
		}
		return false, false
	})
	// uses of a context: loads of fields of ResultContextX / ResultContextY, or their addresses passed on
	kinds := map[string]bool{}
	for _, e := range exc {
		if ifi, ok := e.from.Instrs[len(e.from.Instrs)-1].(*ssa.If); ok {
			kinds[abbr(exprStr(ifi.Cond, shapeOpts))] = true
		}
	}
	okArms := len(kinds) >= 3 // system error, OUT_OF_GAS and PANIC are each tested
	nX, nY := 0, 0
	allInstrs(f, func(in ssa.Instruction) {
		fa, ok := in.(*ssa.FieldAddr)
		if !ok {
			return
		}
		name := fieldName(fa.X.Type(), fa.Field)
		if name != "ResultContextX" && name != "ResultContextY" {
			return
		}
		behindExc := guardedBy(f, fa, exc)
		if name == "ResultContextY" {
			nY++
			if !behindExc && !onlyInPhi(fa) {
				okArms = false
			}
		} else {
			nX++
			if behindExc {
				okArms = false
			}
		}
	})
	c.Check(okArms && nX > 0 && nY > 0, "C10.collapse", "PVM.C · arms", f.Pos(), "the checkpoint context is used only behind the error / OUT_OF_GAS / PANIC tests, the regular context never behind them", "the collapse does not select Y exactly for error, OUT_OF_GAS and PANIC")
}

// onlyInPhi: the address is computed ahead of the branches and only chosen by a phi.
func onlyInPhi(v ssa.Value) bool {
	if v.Referrers() == nil {
		return false
	}
	for _, r := range *v.Referrers() {
		if _, ok := r.(*ssa.Phi); !ok {
			return false
		}
	}
	return true
}
