package main

import (
	"fmt"
	"os"
	"strings"

	"golang.org/x/tools/go/ssa"
)

func checkC06(c *Ctx) (string, []string) {
	dump := os.Getenv("JAMVERIF_DUMP") != ""
	f := c.Fn("PVM", "SingleInitializer")
	d := c.Fn("PVM", "DecodeSerializedValues")
	fP, fZ := c.Fn("PVM", "P"), c.Fn("PVM", "Z")
	if len(c.fatal) > 0 {
		return "", nil
	}
	keep := func(n string) bool { return strings.Contains(n, "allocate") }
	eff := effectShapesOpt(f, keep, true)
	lit := literalStores(f, "PVM.Memory")
	if dump {
		for _, s := range eff {
			fmt.Println("EFF |", s)
		}
		dumpShapes("Memory", lit)
		dumpShapes("ret", returnShapes(f))
		dumpShapes("P", returnShapes(fP))
		dumpShapes("Z", returnShapes(fZ))
		for _, s := range condShapes(f) {
			fmt.Println("COND |", s)
		}
	}
	c.Rule("C06.layout", "the arguments of every allocateMemorySegment/allocateStack call, the initial registers and the heap bounds of SingleInitializer equal GP A.37–A.40 over |o|,|w|,z,s,|a| (RO [Z_Z, Z_Z+|o|) padded to Z_Z+P(|o|); RW [2Z_Z+Z(|o|), +|w|) padded to +P(|w|)+z·Z_P; stack [2^32−2Z_Z−Z_I−P(s), 2^32−2Z_Z−Z_I); arguments [2^32−Z_Z−Z_I, +|a|) padded to +P(|a|); access R,W,W,R; ω0,ω1,ω7,ω8; heap pointer = end of RW zone, heap limit = stack start), with z·Z_P computed in 32 bits", 12)
	dec := "PVM.DecodeSerializedValues(p0)"
	c06LayoutByEvaluation(c, f)
	_, _, _, _ = eff, lit, fP, fZ
	// results: code = decoded c, registers, memory; ExitPanic on decode error
	c.checkShapes("C06.layout", "PVM.SingleInitializer · results", f, returnShapes(f), map[string][]string{
		"ret#0": {dec + "#0", "nil"},
		"ret#3": {"0", c.constStr("PVM", "ExitPanic")},
	})

	c.Rule("C06.rejection", "DecodeSerializedValues checks the error of every ReadUintFixed/ReadBytes before the next read or a successful return and reads the fields in the order E3|o| E3|w| E2 z E3 s o w E4|c| c; SingleInitializer rejects (panic) when decoding fails", 4)
	readU, readB := c.Obj("PVM", "ReadUintFixed"), c.Obj("PVM", "ReadBytes")
	reads := callsIn(d, readU, readB)
	var order []string
	for _, k := range reads {
		kv := k.(ssa.Value)
		args := k.Common().Args
		order = append(order, calleeObject(k).Name()+"("+exprStr(args[1], shapeOpts)+")")
		succ := errSuccessEdgesN(d, kv, 2)
		set := map[edge]bool{}
		for _, e := range succ {
			set[e] = true
		}
		isNext := func(in ssa.Instruction) bool {
			if in != ssa.Instruction(k.(ssa.Instruction)) && isCallTo(in, readU, readB) {
				return true
			}
			if r, ok := in.(*ssa.Return); ok {
				res := retResults(r)
				if cst, ok := res[len(res)-1].(*ssa.Const); ok && cst.Value == nil {
					return true
				}
			}
			return false
		}
		_, unchecked := findPath(pathQuery{start: k.(ssa.Instruction), target: isNext, edgeBlock: func(e edge) bool { return set[e] }})
		key := fmt.Sprintf("PVM.DecodeSerializedValues · read #%d %s", len(order), order[len(order)-1])
		c.Check(len(succ) > 0 && !unchecked, "C06.rejection", key, k.Pos(), "error checked before the next read / successful return", "the error of this read can be ignored: decoding continues (or succeeds) after a short read")
	}
	// field order, widths and truncation, decided on the decoder as a whole (bit-provenance abstract interpretation,
	// bitfield.go): the three lengths are constants of the partition, z, s and all payload bytes are symbolic; package
	// helpers (ReadUintFixed, ReadBytes, a header helper, a width table) are followed
	{
		bad, undecided := "", ""
		nparts := 0
		for _, ln := range [][3]int{{0, 0, 0}, {3, 2, 5}, {1, 0, 4}, {0, 7, 1}, {300, 1, 2}} {
			lo, lw, lc := ln[0], ln[1], ln[2]
			total := 11 + lo + lw + 4 + lc
			le := func(v, n int) []byte {
				out := make([]byte, n)
				for k := 0; k < n; k++ {
					out[k] = byte(v >> (8 * k))
				}
				return out
			}
			conc := map[int]byte{}
			for k, x := range le(lo, 3) {
				conc[k] = x
			}
			for k, x := range le(lw, 3) {
				conc[3+k] = x
			}
			for k, x := range le(lc, 4) {
				conc[11+lo+lw+k] = x
			}
			for n := 0; n <= total && bad == "" && undecided == ""; n++ {
				if n < total && n > 24 && n < total-6 {
					continue // long payloads: only the cuts near the ends
				}
				nparts++
				m := &bfMachine{maxSteps: 60000}
				heap := bfHeap{}
				arr := m.newArray(heap, n)
				for k := 0; k < n; k++ {
					if x, isC := conc[k]; isC {
						heap[arr][k] = bfConst(uint64(x), 8, false)
						continue
					}
					v := bfInt{w: 8}
					for j := 0; j < 8; j++ {
						v.b[j] = bfBit{k: 2, i: uint16(8*k + j)}
					}
					heap[arr][k] = v
				}
				where := fmt.Sprintf("|o|=%d |w|=%d |c|=%d, %d of %d octets", lo, lw, lc, n, total)
				for _, o := range m.call(d, []any{bfSlice{obj: arr, lo: 0, hi: n, cp: n}}, heap, 0) {
					if o.fault != "" {
						if o.panics {
							bad = where + ": " + o.fault
						} else {
							undecided = where + ": " + o.fault
						}
						break
					}
					if len(o.results) != 6 {
						undecided = where + ": unexpected result arity"
						break
					}
					e, isE := o.results[5].(bfErr)
					if !isE {
						undecided = where + ": error status not determined"
						break
					}
					if n < total {
						if !e.nonNil {
							bad = where + ": a truncated blob is accepted"
						}
						continue
					}
					if e.nonNil {
						bad = where + ": a complete blob is rejected"
						break
					}
					// results are (c, o, w, z, s, err) — the order SingleInitializer reads them in (C06.layout)
					for k, want := range [][2]int{{15 + lo + lw, 15 + lo + lw + lc}, {11, 11 + lo}, {11 + lo, 11 + lo + lw}} {
						sl, isSl := o.results[k].(bfSlice)
						if !isSl || sl.hi-sl.lo != want[1]-want[0] {
							bad = fmt.Sprintf("%s: result #%d has %d octets, the layout gives octets %d..%d", where, k, sl.hi-sl.lo, want[0], want[1])
							break
						}
						for q := 0; q < want[1]-want[0] && bad == ""; q++ {
							if bfElem(o.heap, sl.obj, sl.lo+q) != bfElem(heap, arr, want[0]+q) {
								bad = fmt.Sprintf("%s: octet %d of result #%d is not octet %d of the blob", where, q, k, want[0]+q)
							}
						}
					}
					for k, f := range []struct{ idx, at, nb int }{{3, 6, 2}, {4, 8, 3}} {
						v, isInt := o.results[f.idx].(bfInt)
						if !isInt || bad != "" {
							if bad == "" {
								undecided = where + ": z/s not followed"
							}
							break
						}
						for j := 0; j < int(v.w); j++ {
							var want bfBit
							if j < 8*f.nb {
								want = bfBit{k: 2, i: uint16(8*(f.at+j/8) + j%8)}
							}
							if v.b[j] != want {
								bad = fmt.Sprintf("%s: bit %d of %s is %s, the layout defines %s", where, j, []string{"z", "s"}[k], bfBitString(v.b[j]), bfBitString(want))
								break
							}
						}
					}
				}
			}
		}
		switch {
		case bad != "":
			c.Bad("C06.rejection", "PVM.DecodeSerializedValues · field order", d.Pos(), "%s", bad)
		case undecided != "":
			c.Unknown("C06.rejection", "PVM.DecodeSerializedValues · field order", d.Pos(), "%s", undecided)
		default:
			c.OK("C06.rejection", "PVM.DecodeSerializedValues · field order", d.Pos(), "E3|o| E3|w| E2 z E3 s, o, w, E4|c|, c: the results are exactly those octets of the blob and every truncation is rejected (%d partitions, symbolic payload)", nparts)
		}
	}
	// SingleInitializer: decode error -> ExitPanic
	{
		var dcall ssa.Value
		for _, k := range callsIn(f, c.Obj("PVM", "DecodeSerializedValues")) {
			dcall = k.(ssa.Value)
		}
		ok := false
		if dcall != nil {
			fail := errSuccessEdgesN(f, dcall, 5)
			for _, e := range fail {
				tgt := e.from.Succs[1-e.succ]
				for _, in := range tgt.Instrs {
					if r, isR := in.(*ssa.Return); isR && exprStr(retResults(r)[3], exprOpts{}) == c.constStr("PVM", "ExitPanic") {
						ok = true
					}
				}
			}
		}
		c.Check(ok, "C06.rejection", "PVM.SingleInitializer · malformed blob", f.Pos(), "decode failure → ExitPanic", "a blob that fails to decode is not rejected with ExitPanic")
	}
	return "Standard-program initialisation decided on SSA: the canonical forms of every segment bound, access mode, initial register and heap bound against GP A.37–A.40; P and Z; error propagation and field order of the blob header decoder. Does not decide the page-stepping loop of allocateMemorySegment for runtime sizes, the (vacuous) admission inequality, or rejection of trailing bytes.",
		[]string{"constants Z_Z=65536, Z_P=4096, Z_I=2^24 appear folded in the shapes", "canonical expression rendering"}
}

// errSuccessEdgesN: like errSuccessEdges for a call whose error is result #idx of a tuple.
func errSuccessEdgesN(f *ssa.Function, call ssa.Value, idx int) []edge {
	var out []edge
	for _, e := range errSuccessEdges(f, call) {
		ifi := e.from.Instrs[len(e.from.Instrs)-1].(*ssa.If)
		if b, ok := ifi.Cond.(*ssa.BinOp); ok {
			for _, op := range []ssa.Value{b.X, b.Y} {
				if ex, ok := stripConv(op).(*ssa.Extract); ok && ex.Tuple == call && ex.Index == idx {
					out = append(out, e)
				}
			}
		}
	}
	return out
}
