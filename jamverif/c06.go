package main

import (
	"fmt"
	"go/token"
	"os"
	"strings"

	"golang.org/x/tools/go/ssa"
)

func checkC06(c *Ctx) (string, []string) {
	dump := os.Getenv("JAMVERIF_DUMP") != ""
	f := c.Fn("PVM", "SingleInitializer")
	d := c.Fn("PVM", "DecodeSerializedValues")
	fP, fZ := c.Fn("PVM", "P"), c.Fn("PVM", "Z")
	if len(c.fatal) > 0 {
		return "", nil
	}
	keep := func(n string) bool { return strings.Contains(n, "allocate") }
	eff := effectShapesOpt(f, keep, true)
	lit := literalStores(f, "PVM.Memory")
	if dump {
		for _, s := range eff {
			fmt.Println("EFF |", s)
		}
		dumpShapes("Memory", lit)
		dumpShapes("ret", returnShapes(f))
		dumpShapes("P", returnShapes(fP))
		dumpShapes("Z", returnShapes(fZ))
		for _, s := range condShapes(f) {
			fmt.Println("COND |", s)
		}
	}
	c.Rule("C06.layout", "the arguments of every allocateMemorySegment/allocateStack call, the initial registers and the heap bounds of SingleInitializer equal GP A.37–A.40 over |o|,|w|,z,s,|a| (RO [Z_Z, Z_Z+|o|) padded to Z_Z+P(|o|); RW [2Z_Z+Z(|o|), +|w|) padded to +P(|w|)+z·Z_P; stack [2^32−2Z_Z−Z_I−P(s), 2^32−2Z_Z−Z_I); arguments [2^32−Z_Z−Z_I, +|a|) padded to +P(|a|); access R,W,W,R; ω0,ω1,ω7,ω8; heap pointer = end of RW zone, heap limit = stack start), with z·Z_P computed in 32 bits", 12)
	dec := "PVM.DecodeSerializedValues(p0)"
	o, w, z, s := "len("+dec+"#1)", "len("+dec+"#2)", dec+"#3", dec+"#4"
	mem := "cell(alloc:PVM.Memory)"
	_ = mem
	roS := "65536"
	roE := "(65536 + u32(" + o + "))"
	roP := "(65536 + PVM.P(" + o + "))"
	rwS := "(131072 + PVM.Z(" + o + "))"
	rwE := "(" + rwS + " + u32(" + w + "))"
	rwP := "((" + rwS + " + PVM.P(" + w + ")) + (4096 * u32(" + z + ")))"
	stE := "4278059008"
	stS := "(4278059008 - PVM.P(int(" + s + ")))"
	arS := "4278124544"
	arE := "(4278124544 + u32(len(p1)))"
	arP := "(4278124544 + PVM.P(len(p1)))"
	M := "alloc:PVM.Memory"
	want := []string{
		"call PVM.allocateMemorySegment(" + M + ", " + roS + ", " + roE + ", " + dec + "#1, 1)",
		"call PVM.allocateMemorySegment(" + M + ", " + roE + ", " + roP + ", nil, 1)",
		"call PVM.allocateMemorySegment(" + M + ", " + rwS + ", " + rwE + ", " + dec + "#2, 2)",
		"call PVM.allocateMemorySegment(" + M + ", " + rwE + ", " + rwP + ", nil, 2)",
		"call PVM.allocateStack(" + M + ", " + stS + ", " + stE + ")",
		"call PVM.allocateMemorySegment(" + M + ", " + arS + ", " + arE + ", p1, 1)",
		"call PVM.allocateMemorySegment(" + M + ", " + arE + ", " + arP + ", nil, 1)",
		"store &alloc:PVM.Registers[0] ← 4294901760",
		"store &alloc:PVM.Registers[1] ← 4278059008",
		"store &alloc:PVM.Registers[7] ← 4278124544",
		"store &alloc:PVM.Registers[8] ← u64(len(p1))",
	}
	c.checkEffects("C06.layout", "PVM.SingleInitializer", f, eff, want)
	c.checkShapes("C06.layout", "PVM.SingleInitializer · Memory", f, returnShapes(f), map[string][]string{
		"ret#2.heapPointer": {"u64(" + rwP + ")"},
		"ret#2.heapLimit":   {"u64(" + stS + ")"},
		"ret#2.Pages":       {"makemap"},
	})
	c.checkShapes("C06.layout", "PVM.P", fP, returnShapes(fP), map[string][]string{"ret": {"((((4096 + u32(p0)) - 1) / 4096) * 4096)"}})
	c.checkShapes("C06.layout", "PVM.Z", fZ, returnShapes(fZ), map[string][]string{"ret": {"((((65536 + u32(p0)) - 1) / 65536) * 65536)"}})
	// results: code = decoded c, registers, memory; ExitPanic on decode error
	c.checkShapes("C06.layout", "PVM.SingleInitializer · results", f, returnShapes(f), map[string][]string{
		"ret#0": {dec + "#0", "nil"},
		"ret#3": {"0", c.constStr("PVM", "ExitPanic")},
	})

	c.Rule("C06.rejection", "DecodeSerializedValues checks the error of every ReadUintFixed/ReadBytes before the next read or a successful return and reads the fields in the order E3|o| E3|w| E2 z E3 s o w E4|c| c; SingleInitializer rejects (panic) when decoding fails", 7)
	readU, readB := c.Obj("PVM", "ReadUintFixed"), c.Obj("PVM", "ReadBytes")
	reads := callsIn(d, readU, readB)
	var order []string
	for _, k := range reads {
		kv := k.(ssa.Value)
		args := k.Common().Args
		order = append(order, calleeObject(k).Name()+"("+exprStr(args[1], shapeOpts)+")")
		succ := errSuccessEdgesN(d, kv, 2)
		set := map[edge]bool{}
		for _, e := range succ {
			set[e] = true
		}
		isNext := func(in ssa.Instruction) bool {
			if in != ssa.Instruction(k.(ssa.Instruction)) && isCallTo(in, readU, readB) {
				return true
			}
			if r, ok := in.(*ssa.Return); ok {
				res := retResults(r)
				if cst, ok := res[len(res)-1].(*ssa.Const); ok && cst.Value == nil {
					return true
				}
			}
			return false
		}
		_, unchecked := findPath(pathQuery{start: k.(ssa.Instruction), target: isNext, edgeBlock: func(e edge) bool { return set[e] }})
		key := fmt.Sprintf("PVM.DecodeSerializedValues · read #%d %s", len(order), order[len(order)-1])
		c.Check(len(succ) > 0 && !unchecked, "C06.rejection", key, k.Pos(), "error checked before the next read / successful return", "the error of this read can be ignored: decoding continues (or succeeds) after a short read")
	}
	// field order as a sequence of reads in program order; a loop over a literal width table counts as its unrolling, and a
	// length taken from a local array slot filled by that loop is the result of the corresponding round
	{
		type rd struct {
			kind   string // "U<width>" or "B<provenance>"
			result string // name of the value this read produces
		}
		var seq []rd
		so := shapeOpts
		so.cat, so.seqLit = true, true
		nU := 0
		slotOf := map[string]string{} // "A[k]" -> "u#n"
		prov := func(v ssa.Value) string {
			// Extract#0 of a ReadUintFixed call, possibly converted
			if ex, ok := stripConv(v).(*ssa.Extract); ok && ex.Index == 0 {
				if call, ok := ex.Tuple.(*ssa.Call); ok {
					for i, k := range reads {
						if k.(ssa.Value) == ssa.Value(call) {
							return fmt.Sprintf("call#%d", i)
						}
					}
				}
			}
			if u, ok := stripConv(v).(*ssa.UnOp); ok && u.Op == token.MUL {
				if ia, ok := u.X.(*ssa.IndexAddr); ok {
					if k, ok := constInt(ia.Index); ok {
						return fmt.Sprintf("slot[%d]", k)
					}
				}
			}
			return exprStr(v, shapeOpts)
		}
		callName := map[int]string{}
		for i, k := range reads {
			args := k.Common().Args
			switch calleeObject(k).Name() {
			case "ReadUintFixed":
				ws := expandSeq(exprStr(args[1], so))
				stored := ""
				// result stored into A[loop index]?
				for _, r := range *k.(ssa.Value).Referrers() {
					if ex, ok := r.(*ssa.Extract); ok && ex.Index == 0 && ex.Referrers() != nil {
						for _, r2 := range *ex.Referrers() {
							if st, ok := r2.(*ssa.Store); ok {
								if ia, ok := st.Addr.(*ssa.IndexAddr); ok && exprStr(ia.Index, shapeOpts) == "*" {
									stored = "slot"
								}
							}
						}
					}
				}
				for j, w := range ws {
					w = strings.TrimPrefix(w, "*")
					name := fmt.Sprintf("u#%d", nU)
					nU++
					if stored == "slot" && len(ws) > 1 {
						slotOf[fmt.Sprintf("slot[%d]", j)] = name
					} else {
						callName[i] = name
					}
					seq = append(seq, rd{"U" + w, name})
				}
			case "ReadBytes":
				p := prov(args[1])
				if strings.HasPrefix(p, "call#") {
					var n int
					fmt.Sscanf(p, "call#%d", &n)
					p = callName[n]
				} else if nm, ok := slotOf[p]; ok {
					p = nm
				}
				seq = append(seq, rd{"B(" + p + ")", ""})
			}
		}
		var got []string
		for _, r := range seq {
			got = append(got, r.kind)
		}
		want := "U3 U3 U2 U3 B(u#0) B(u#1) U4 B(u#4)"
		c.Check(strings.Join(got, " ") == want, "C06.rejection", "PVM.DecodeSerializedValues · field order", d.Pos(), "fields read in GP order with GP widths: E3|o| E3|w| E2 z E3 s, o, w, E4|c|, c", "fields are read as ["+strings.Join(got, " ")+"], GP order is ["+want+"]")
	}
	// SingleInitializer: decode error -> ExitPanic
	{
		var dcall ssa.Value
		for _, k := range callsIn(f, c.Obj("PVM", "DecodeSerializedValues")) {
			dcall = k.(ssa.Value)
		}
		ok := false
		if dcall != nil {
			fail := errSuccessEdgesN(f, dcall, 5)
			for _, e := range fail {
				tgt := e.from.Succs[1-e.succ]
				for _, in := range tgt.Instrs {
					if r, isR := in.(*ssa.Return); isR && exprStr(retResults(r)[3], exprOpts{}) == c.constStr("PVM", "ExitPanic") {
						ok = true
					}
				}
			}
		}
		c.Check(ok, "C06.rejection", "PVM.SingleInitializer · malformed blob", f.Pos(), "decode failure → ExitPanic", "a blob that fails to decode is not rejected with ExitPanic")
	}
	return "Standard-program initialisation decided on SSA: the canonical forms of every segment bound, access mode, initial register and heap bound against GP A.37–A.40; P and Z; error propagation and field order of the blob header decoder. Does not decide the page-stepping loop of allocateMemorySegment for runtime sizes, the (vacuous) admission inequality, or rejection of trailing bytes.",
		[]string{"constants Z_Z=65536, Z_P=4096, Z_I=2^24 appear folded in the shapes", "canonical expression rendering"}
}

// errSuccessEdgesN: like errSuccessEdges for a call whose error is result #idx of a tuple.
func errSuccessEdgesN(f *ssa.Function, call ssa.Value, idx int) []edge {
	var out []edge
	for _, e := range errSuccessEdges(f, call) {
		ifi := e.from.Instrs[len(e.from.Instrs)-1].(*ssa.If)
		if b, ok := ifi.Cond.(*ssa.BinOp); ok {
			for _, op := range []ssa.Value{b.X, b.Y} {
				if ex, ok := stripConv(op).(*ssa.Extract); ok && ex.Tuple == call && ex.Index == idx {
					out = append(out, e)
				}
			}
		}
	}
	return out
}
