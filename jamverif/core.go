package main

import (
	"encoding/json"
	"fmt"
	"go/ast"
	"go/token"
	"go/types"
	"os"
	"os/exec"
	"path/filepath"
	"runtime/debug"
	"sort"
	"strconv"
	"strings"
	"time"

	"golang.org/x/tools/go/packages"
	"golang.org/x/tools/go/ssa"
	"golang.org/x/tools/go/ssa/ssautil"
)

const modPath = "github.com/New-JAMneration/JAM-Protocol"

// minPackages is the package count confirmed by hand on the pinned tree; a
// load that sees fewer means part of the build was not analysed.
const minPackages = 60

type Status int

const (
	Discharged Status = iota
	Violated
	Undecided
)

func (s Status) String() string {
	return [...]string{"discharged", "violated", "undecided"}[s]
}

// Obligation is one decided (or undecidable) instance of a rule. Key names the
// resolved construct (function / field / callee), never a line number.
type Obligation struct {
	Rule   string `json:"rule"`
	Key    string `json:"key"`
	Status string `json:"status"`
	Pos    string `json:"pos,omitempty"`
	Msg    string `json:"msg,omitempty"`
	Known  bool   `json:"known_finding,omitempty"`
	status Status
}

type Ctx struct {
	Prop     string
	Tier     string
	Seed     int
	Repo     string
	VerifDir string
	GOARCH   string

	Pkgs    []*packages.Package
	AllPkgs map[string]*packages.Package
	Fset    *token.FileSet
	prog    *ssa.Program
	ssaPkgs map[*types.Package]*ssa.Package

	Obls      []Obligation
	minCounts map[string]int
	ruleDocs  []string
	seenRules map[string]bool
	notes     []string
	extra     map[string]any
	fatal     []string
	start     time.Time
}

func repoRoot() string {
	if r := os.Getenv("JAMVERIF_REPO"); r != "" {
		return r
	}
	return "/repo"
}

func verifRoot() string {
	if r := os.Getenv("JAMVERIF_HOME"); r != "" {
		return r
	}
	exe, err := os.Executable()
	if err == nil {
		d := filepath.Dir(filepath.Dir(exe))
		if _, e := os.Stat(filepath.Join(d, "stubs", "vrf.go")); e == nil {
			return d
		}
	}
	return "/verif"
}

func newCtx(prop, tier string) *Ctx {
	seed, _ := strconv.Atoi(os.Getenv("VERIF_SEED"))
	return &Ctx{Prop: prop, Tier: tier, Seed: seed, Repo: repoRoot(), VerifDir: verifRoot(), GOARCH: os.Getenv("JAMVERIF_GOARCH"),
		minCounts: map[string]int{}, seenRules: map[string]bool{}, extra: map[string]any{}, start: time.Now()}
}

// Load type-checks the whole module (all packages, no tests) with the VRF
// signature stub supplied through the overlay.
func (c *Ctx) Load() {
	stub, err := os.ReadFile(filepath.Join(c.VerifDir, "stubs", "vrf.go"))
	if err != nil {
		c.Fatalf("cannot read VRF stub: %v", err)
		return
	}
	env := []string{}
	for _, e := range os.Environ() {
		if strings.HasPrefix(e, "GOFLAGS=") || strings.HasPrefix(e, "GOWORK=") || strings.HasPrefix(e, "GOPROXY=") ||
			strings.HasPrefix(e, "GOARCH=") || strings.HasPrefix(e, "GOTOOLCHAIN=") || strings.HasPrefix(e, "GOSUMDB=") {
			continue
		}
		env = append(env, e)
	}
	env = append(env, "GOFLAGS=-mod=mod", "GOPROXY=off", "GOWORK=off")
	if c.GOARCH != "" {
		env = append(env, "GOARCH="+c.GOARCH, "CGO_ENABLED=1")
	}
	overlay := map[string][]byte{}
	stubPath := filepath.Join(c.Repo, "pkg/Rust-VRF/vrf-func-ffi/src/vrf.go")
	if _, err := os.Stat(stubPath); err != nil {
		overlay[stubPath] = stub
	}
	cfg := &packages.Config{Mode: packages.LoadAllSyntax, Dir: c.Repo, Overlay: overlay, Env: env}
	pkgs, err := packages.Load(cfg, "./...")
	if err != nil {
		c.Fatalf("packages.Load: %v", err)
		return
	}
	c.Pkgs = pkgs
	c.AllPkgs = map[string]*packages.Package{}
	nerr := 0
	packages.Visit(pkgs, nil, func(p *packages.Package) {
		c.AllPkgs[p.PkgPath] = p
		if strings.HasPrefix(p.PkgPath, modPath) {
			for _, e := range p.Errors {
				nerr++
				if nerr < 10 {
					c.Fatalf("type/load error in %s: %v", p.PkgPath, e)
				}
			}
		}
	})
	if len(pkgs) < minPackages {
		c.Fatalf("only %d packages loaded (< %d confirmed)", len(pkgs), minPackages)
	}
	if len(pkgs) > 0 {
		c.Fset = pkgs[0].Fset
	}
}

// SSA builds (once) the SSA form of the whole program.
func (c *Ctx) SSA() *ssa.Program {
	if c.prog != nil {
		return c.prog
	}
	prog, spkgs := ssautil.AllPackages(c.Pkgs, ssa.InstantiateGenerics)
	prog.Build()
	c.prog = prog
	c.ssaPkgs = map[*types.Package]*ssa.Package{}
	for _, sp := range spkgs {
		if sp != nil {
			c.ssaPkgs[sp.Pkg] = sp
		}
	}
	return prog
}

func (c *Ctx) Fatalf(format string, a ...any) {
	c.fatal = append(c.fatal, fmt.Sprintf(format, a...))
}

func (c *Ctx) Note(format string, a ...any) { c.notes = append(c.notes, fmt.Sprintf(format, a...)) }

// Rule registers a rule description (goes into evidence) and its minimum
// instance count.
func (c *Ctx) Rule(id, doc string, min int) {
	if !c.seenRules[id] {
		c.seenRules[id] = true
		c.ruleDocs = append(c.ruleDocs, id+": "+doc)
	}
	c.minCounts[id] = min
}

func (c *Ctx) pos(p token.Pos) string {
	if !p.IsValid() || c.Fset == nil {
		return ""
	}
	pp := c.Fset.Position(p)
	f := pp.Filename
	if rel, err := filepath.Rel(c.Repo, f); err == nil && !strings.HasPrefix(rel, "..") {
		f = rel
	}
	return fmt.Sprintf("%s:%d", f, pp.Line)
}

func (c *Ctx) add(st Status, rule, key string, p token.Pos, format string, a ...any) {
	c.Obls = append(c.Obls, Obligation{Rule: rule, Key: key, Status: st.String(), status: st, Pos: c.pos(p), Msg: fmt.Sprintf(format, a...)})
	if pat := os.Getenv("JAMVERIF_LIST"); pat != "" && (pat == "1" || strings.Contains(rule, pat)) {
		o := c.Obls[len(c.Obls)-1]
		fmt.Fprintf(os.Stderr, "OBL %s %s [%s] %s: %s\n", o.Status, o.Rule, o.Key, o.Pos, o.Msg)
	}
}
func (c *Ctx) OK(rule, key string, p token.Pos, format string, a ...any) {
	c.add(Discharged, rule, key, p, format, a...)
}
func (c *Ctx) Bad(rule, key string, p token.Pos, format string, a ...any) {
	c.add(Violated, rule, key, p, format, a...)
}
func (c *Ctx) Unknown(rule, key string, p token.Pos, format string, a ...any) {
	c.add(Undecided, rule, key, p, format, a...)
}

// Check records a discharged obligation when ok, a violated one otherwise.
func (c *Ctx) Check(ok bool, rule, key string, p token.Pos, okMsg, badMsg string) {
	if ok {
		c.OK(rule, key, p, "%s", okMsg)
	} else {
		c.Bad(rule, key, p, "%s", badMsg)
	}
}

// ---- package / object lookup -------------------------------------------------

func (c *Ctx) Pkg(rel string) *packages.Package {
	path := modPath
	if rel != "" {
		path += "/" + rel
	}
	p := c.AllPkgs[path]
	if p == nil {
		c.Fatalf("anchor package %s not found", path)
	}
	return p
}

// Obj resolves "Name" or "Type.Method" in package rel.
func (c *Ctx) Obj(rel, name string) types.Object {
	p := c.Pkg(rel)
	if p == nil {
		return nil
	}
	parts := strings.SplitN(name, ".", 2)
	o := p.Types.Scope().Lookup(parts[0])
	if o == nil {
		c.Fatalf("anchor %s.%s not found", rel, name)
		return nil
	}
	if len(parts) == 1 {
		return o
	}
	m, _, _ := types.LookupFieldOrMethod(o.Type(), true, p.Types, parts[1])
	if m == nil {
		c.Fatalf("anchor %s.%s not found", rel, name)
		return nil
	}
	return m
}

// TryObj is Obj without raising a fatal error.
func (c *Ctx) TryObj(rel, name string) types.Object {
	path := modPath
	if rel != "" {
		path += "/" + rel
	}
	p := c.AllPkgs[path]
	if p == nil {
		return nil
	}
	parts := strings.SplitN(name, ".", 2)
	o := p.Types.Scope().Lookup(parts[0])
	if o == nil || len(parts) == 1 {
		return o
	}
	m, _, _ := types.LookupFieldOrMethod(o.Type(), true, p.Types, parts[1])
	return m
}

// Fn resolves an SSA function "Name" or "Type.Method".
func (c *Ctx) Fn(rel, name string) *ssa.Function {
	o := c.Obj(rel, name)
	if o == nil {
		return nil
	}
	fo, ok := o.(*types.Func)
	if !ok {
		c.Fatalf("anchor %s.%s is not a function", rel, name)
		return nil
	}
	f := c.SSA().FuncValue(fo)
	if f == nil || len(f.Blocks) == 0 {
		c.Fatalf("anchor %s.%s has no SSA body", rel, name)
		return nil
	}
	return f
}

func (c *Ctx) TryFn(rel, name string) *ssa.Function {
	o := c.TryObj(rel, name)
	fo, ok := o.(*types.Func)
	if !ok {
		return nil
	}
	f := c.SSA().FuncValue(fo)
	if f == nil || len(f.Blocks) == 0 {
		return nil
	}
	return f
}

// Field resolves a struct field object "Type.field" in package rel.
func (c *Ctx) Field(rel, name string) *types.Var {
	o := c.Obj(rel, name)
	v, ok := o.(*types.Var)
	if !ok || !v.IsField() {
		if o != nil {
			c.Fatalf("anchor %s.%s is not a field", rel, name)
		}
		return nil
	}
	return v
}

// FuncDecl returns the AST of a function object.
func (c *Ctx) FuncDecl(rel, name string) (*ast.FuncDecl, *packages.Package) {
	p := c.Pkg(rel)
	o := c.Obj(rel, name)
	if p == nil || o == nil {
		return nil, nil
	}
	for _, f := range p.Syntax {
		for _, d := range f.Decls {
			if fd, ok := d.(*ast.FuncDecl); ok && p.TypesInfo.Defs[fd.Name] == o {
				return fd, p
			}
		}
	}
	c.Fatalf("anchor %s.%s has no declaration", rel, name)
	return nil, nil
}

// SrcFuncs lists every source-level SSA function (including anonymous
// closures) of package rel.
func (c *Ctx) SrcFuncs(rel string) []*ssa.Function {
	p := c.Pkg(rel)
	if p == nil {
		return nil
	}
	c.SSA()
	sp := c.ssaPkgs[p.Types]
	if sp == nil {
		c.Fatalf("no SSA package for %s", rel)
		return nil
	}
	var out []*ssa.Function
	seen := map[*ssa.Function]bool{}
	var add func(f *ssa.Function)
	add = func(f *ssa.Function) {
		if f == nil || seen[f] || len(f.Blocks) == 0 {
			return
		}
		seen[f] = true
		out = append(out, f)
		for _, a := range f.AnonFuncs {
			add(a)
		}
	}
	for _, m := range sp.Members {
		switch m := m.(type) {
		case *ssa.Function:
			add(m)
		case *ssa.Type:
			for _, t := range []types.Type{m.Type(), types.NewPointer(m.Type())} {
				ms := c.prog.MethodSets.MethodSet(t)
				for i := 0; i < ms.Len(); i++ {
					f := c.prog.MethodValue(ms.At(i))
					if f != nil && f.Pkg == sp && f.Synthetic == "" {
						add(f)
					}
				}
			}
		}
	}
	sort.Slice(out, func(i, j int) bool { return out[i].String() < out[j].String() })
	return out
}

// ---- known findings -----------------------------------------------------------

type knownFinding struct {
	Property  string `json:"property"`
	Rule      string `json:"rule"`
	Key       string `json:"key"`
	WhatFails string `json:"what_fails"`
	Witness   string `json:"witness"`
}

type findingsFile struct {
	Known []knownFinding `json:"known_findings"`
	Fixed []string       `json:"fixed"`
}

func (c *Ctx) loadFindings() []knownFinding {
	b, err := os.ReadFile(filepath.Join(c.VerifDir, "known_findings.json"))
	if err != nil {
		return nil
	}
	var ff findingsFile
	if err := json.Unmarshal(b, &ff); err != nil {
		c.Fatalf("known_findings.json: %v", err)
		return nil
	}
	var out []knownFinding
	for _, k := range ff.Known {
		if k.Property == c.Prop {
			out = append(out, k)
		}
	}
	return out
}

// ---- finish: verdict, evidence, exit code -------------------------------------

func (c *Ctx) Finish(explanation string, assumptions []string) int {
	known := c.loadFindings()
	counts := map[string]int{}
	for _, o := range c.Obls {
		counts[o.Rule]++
	}
	for r, m := range c.minCounts {
		if counts[r] < m {
			c.Fatalf("rule %s matched %d instances, fewer than the %d confirmed by hand (vacuous pass refused)", r, counts[r], m)
		}
	}
	var viol, undec []Obligation
	usedKnown := map[int]bool{}
	discharged := 0
	keys := map[string]bool{}
	for i := range c.Obls {
		o := &c.Obls[i]
		keys[o.Rule+"|"+o.Key] = true
		switch o.status {
		case Discharged:
			discharged++
		case Violated:
			matched := false
			for ki, k := range known {
				if k.Rule == o.Rule && k.Key == o.Key {
					matched = true
					o.Known = true
					if !usedKnown[ki] {
						usedKnown[ki] = true
						fmt.Printf("KNOWN-FINDING: property=%s %s [%s %s]\n", c.Prop, k.WhatFails, o.Rule, o.Key)
					}
				}
			}
			if !matched {
				viol = append(viol, *o)
			}
		case Undecided:
			undec = append(undec, *o)
		}
	}
	outBase := c.VerifDir
	if s := os.Getenv("JAMVERIF_SCRATCH"); s != "" {
		outBase = s // mutant self-tests: keep evidence/ and out/ of the real tree untouched
	}
	outDir := filepath.Join(outBase, "out")
	os.MkdirAll(outDir, 0o755)
	replay := filepath.Join(outDir, c.Prop+".violations.json")
	os.Remove(replay)

	// evidence
	samples := []any{}
	perRule := map[string]int{}
	for _, o := range c.Obls {
		if perRule[o.Rule] < 3 && len(samples) < 40 {
			perRule[o.Rule]++
			samples = append(samples, o)
		}
	}
	ruleCounts := map[string]map[string]int{}
	for _, o := range c.Obls {
		if ruleCounts[o.Rule] == nil {
			ruleCounts[o.Rule] = map[string]int{}
		}
		ruleCounts[o.Rule][o.Status]++
	}
	sort.Strings(c.ruleDocs)
	cov := map[string]any{
		"explanation":         explanation + " Rules: " + strings.Join(c.ruleDocs, " | "),
		"obligations":         len(c.Obls),
		"discharged":          discharged,
		"evaluations":         len(c.Obls),
		"distinct_nontrivial": len(keys),
		"rule":                "one obligation per (rule, resolved construct); distinct = distinct (rule,construct) keys; every obligation required an SSA/AST/type decision (none is constant-true)",
		"samples":             samples,
		"per_rule":            ruleCounts,
		"packages_loaded":     len(c.Pkgs),
		"known_findings_hit":  len(usedKnown),
		"undecided":           len(undec),
		"checker_cmd":         "bin/jamverif check " + c.Prop + " --tier " + c.Tier,
		"trusted_base":        []string{"go/types", "go/ssa (x/tools v0.29.0)", "stubs/vrf.go signature stub", "rule tables in jamverif/*.go"},
	}
	if len(c.notes) > 0 {
		cov["notes"] = c.notes
	}
	for k, v := range c.extra {
		cov[k] = v
	}
	ev := map[string]any{
		"property_id": c.Prop, "tier": c.Tier, "seed": c.Seed, "level": "other",
		"coverage": cov, "assumptions": assumptions,
		"wall_s": time.Since(c.start).Seconds(), "violations": len(viol),
	}
	evDir := filepath.Join(outBase, "evidence")
	os.MkdirAll(evDir, 0o755)
	b, _ := json.MarshalIndent(ev, "", " ")
	if err := os.WriteFile(filepath.Join(evDir, c.Prop+".json"), b, 0o644); err != nil {
		c.Fatalf("write evidence: %v", err)
	}

	fmt.Printf("%s [%s]: %d obligations, %d discharged, %d violated (%d known), %d undecided, %d pkgs, %.1fs\n",
		c.Prop, c.Tier, len(c.Obls), discharged, len(viol)+countKnown(c.Obls), countKnown(c.Obls), len(undec), len(c.Pkgs), time.Since(c.start).Seconds())
	rules := make([]string, 0, len(ruleCounts))
	for r := range ruleCounts {
		rules = append(rules, r)
	}
	sort.Strings(rules)
	for _, r := range rules {
		fmt.Printf("  rule %-28s %v\n", r, ruleCounts[r])
	}
	for _, v := range viol {
		fmt.Printf("  violated: %s [%s] at %s: %s\n", v.Rule, v.Key, v.Pos, v.Msg)
	}
	for _, v := range undec {
		fmt.Printf("  UNDECIDED: %s [%s] at %s: %s\n", v.Rule, v.Key, v.Pos, v.Msg)
	}
	for _, f := range c.fatal {
		fmt.Printf("ERROR: %s\n", f)
	}
	if len(c.fatal) > 0 && len(viol) == 0 {
		return 2
	}
	if len(viol) > 0 {
		rb, _ := json.MarshalIndent(map[string]any{"property": c.Prop, "violations": viol}, "", " ")
		os.WriteFile(replay, rb, 0o644)
		fmt.Printf("VIOLATION property=%s replay=%s\n", c.Prop, replay)
		return 1
	}
	if len(undec) > 0 {
		return 2
	}
	return 0
}

func countKnown(os []Obligation) int {
	n := 0
	for _, o := range os {
		if o.Known {
			n++
		}
	}
	return n
}

// shared, when set, is a context whose loaded packages and SSA program the
// next runCheck reuses (mode "check all": one load for every property).
var shared *Ctx

func runCheck(prop, tier string, fn func(*Ctx) (string, []string)) (code int) {
	c := newCtx(prop, tier)
	defer func() {
		if r := recover(); r != nil {
			fmt.Printf("ERROR: analyser panic in %s: %v\n%s\n", prop, r, debug.Stack())
			code = 2
		}
	}()
	if shared != nil && len(shared.fatal) == 0 && shared.Pkgs != nil {
		c.Pkgs, c.AllPkgs, c.Fset = shared.Pkgs, shared.AllPkgs, shared.Fset
		shared.SSA()
		c.prog, c.ssaPkgs = shared.prog, shared.ssaPkgs
	} else {
		c.Load()
	}
	if len(c.fatal) > 0 {
		return c.Finish("load failed", nil)
	}
	expl, assume := fn(c)
	if tier == "thorough" && os.Getenv("JAMVERIF_NO_SELFTEST") == "" && len(c.fatal) == 0 {
		c.selfTest()
	}
	return c.Finish(expl, assume)
}

// Deep returns q in the quick tier and t in the thorough tier (evaluation
// ranges of the finite-tabulation rules).
func (c *Ctx) Deep(q, t int64) int64 {
	if c.Tier == "thorough" {
		return t
	}
	return q
}

// selfTest (thorough tier): every stored property-breaking change for this
// property (seeded/<ID>-*/patch.diff, mutants/<ID>/bad_*.diff) is applied to a
// throw-away copy of the current working tree outside /repo and /verif and
// the quick analysis is re-run on the copy: it must report a violation; the
// behaviour-preserving variants (mutants/<ID>/benign_*.diff) and seeds marked
// neutralised must stay silent. Static analysis of a modified copy of the
// source: nothing is executed. A mismatch fails the check (exit 2): it means
// the checker no longer decides what it decided when the change was confirmed.
func (c *Ctx) selfTest() {
	type tc struct {
		name, patch   string
		wantViolation bool
	}
	var cases []tc
	seeds, _ := filepath.Glob(filepath.Join(c.VerifDir, "seeded", c.Prop+"-*"))
	sort.Strings(seeds)
	for _, d := range seeds {
		want := true
		if b, err := os.ReadFile(filepath.Join(d, "meta.json")); err == nil {
			var m map[string]any
			if json.Unmarshal(b, &m) == nil {
				if st, _ := m["status"].(string); strings.HasPrefix(st, "neutralised") {
					want = false
				}
			}
		}
		cases = append(cases, tc{filepath.Base(d), filepath.Join(d, "patch.diff"), want})
	}
	own, _ := filepath.Glob(filepath.Join(c.VerifDir, "mutants", c.Prop, "*.diff"))
	sort.Strings(own)
	for _, p := range own {
		if strings.HasPrefix(filepath.Base(p), "untolerated_") {
			// a behaviour-preserving rewrite the rules are known not to see through (recorded in DESIGN.md §10.5): no expectation
			continue
		}
		cases = append(cases, tc{"own/" + filepath.Base(p), p, !strings.HasPrefix(filepath.Base(p), "benign_")})
	}
	exe, err := os.Executable()
	if err != nil {
		c.Fatalf("self-test: %v", err)
		return
	}
	var results []map[string]any
	for _, t := range cases {
		tmp, err := os.MkdirTemp("", "jamverif-selftest-")
		if err != nil {
			c.Fatalf("self-test: %v", err)
			return
		}
		res := map[string]any{"change": t.name, "expected": map[bool]string{true: "violation", false: "silent"}[t.wantViolation]}
		func() {
			defer os.RemoveAll(tmp)
			tree := filepath.Join(tmp, "tree")
			scratch := filepath.Join(tmp, "scratch")
			os.MkdirAll(scratch, 0o755)
			// copy the working tree without .git
			cp := exec.Command("rsync", "-a", "--exclude", ".git", c.Repo+"/", tree+"/")
			if out, err := cp.CombinedOutput(); err != nil {
				res["outcome"] = "copy failed: " + string(out)
				return
			}
			ap := exec.Command("git", "apply", "--whitespace=nowarn", t.patch)
			ap.Dir = tree
			if out, err := ap.CombinedOutput(); err != nil {
				res["outcome"] = "stale (patch does not apply to the current tree): " + strings.TrimSpace(string(out))
				return
			}
			run := exec.Command(exe, "check", c.Prop, "--tier", "quick")
			run.Env = append(os.Environ(), "JAMVERIF_REPO="+tree, "JAMVERIF_SCRATCH="+scratch, "JAMVERIF_HOME="+c.VerifDir)
			out, _ := run.CombinedOutput()
			code := run.ProcessState.ExitCode()
			res["exit"] = code
			first := ""
			for _, l := range strings.Split(string(out), "\n") {
				if strings.HasPrefix(strings.TrimSpace(l), "violated:") {
					first = strings.TrimSpace(l)
					if len(first) > 260 {
						first = first[:260]
					}
					break
				}
			}
			res["first_report"] = strings.ReplaceAll(first, tree+"/", "")
			switch {
			case t.wantViolation && code == 1:
				res["outcome"] = "caught"
			case !t.wantViolation && code == 0:
				res["outcome"] = "silent"
			default:
				res["outcome"] = "MISMATCH"
			}
		}()
		results = append(results, res)
		if res["outcome"] == "MISMATCH" {
			c.Fatalf("self-test: stored change %s expected %s but the analysis exited %v", t.name, res["expected"], res["exit"])
		}
	}
	c.extra["self_test"] = results
	c.Note("thorough tier: %d stored source changes re-analysed on throw-away copies of the working tree (expected verdict per change recorded under self_test)", len(results))
}
