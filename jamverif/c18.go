package main

import (
	"fmt"
	"go/ast"
	"go/token"
	"go/types"
	"os"
	"sort"
	"strings"

	"golang.org/x/tools/go/ssa"
)

const mtPkg = "internal/utilities/merkle_tree"

func checkC18(c *Ctx) (string, []string) {
	K := "merkle_tree."
	fn := map[string]*ssa.Function{}
	for _, n := range []string{"N", "Mb", "T", "Ps", "PI", "Jx", "Lx", "M", "C"} {
		fn[n] = c.Fn(mtPkg, n)
	}
	if len(c.fatal) > 0 {
		return "", nil
	}

	c.Rule("C18.split-agreement", "N, T, Ps and PI divide a sequence at the same point ⌈|v|/2⌉ (GP E.1): every slice bound applied to the input sequence, every comparison of the element index with the split and every index rebasing in these four functions evaluates to (n+1)/2 for all lengths n = 0..300", 8)
	for _, name := range []string{"N", "T", "Ps", "PI"} {
		f := fn[name]
		v := f.Params[0]
		var idx ssa.Value
		if len(f.Params) > 1 && isIntegerT(f.Params[1].Type()) {
			idx = f.Params[1]
		}
		type cand struct {
			val  ssa.Value
			what string
			pos  token.Pos
		}
		var cands []cand
		// the sequence under division: the parameter, or (iterative form) the half carried to the next round
		cur := map[ssa.Value]bool{v: true}
		idxs := map[ssa.Value]bool{}
		if idx != nil {
			idxs[idx] = true
		}
		for changed := true; changed; {
			changed = false
			allInstrs(f, func(in ssa.Instruction) {
				ph, ok := in.(*ssa.Phi)
				if !ok {
					return
				}
				if _, isSlice := ph.Type().Underlying().(*types.Slice); isSlice && !cur[ph] {
					all := len(ph.Edges) > 0
					for _, e := range ph.Edges {
						if cur[e] {
							continue
						}
						if sl, isSl := e.(*ssa.Slice); isSl && cur[sl.X] {
							continue
						}
						if inner, isPhi := e.(*ssa.Phi); isPhi && inner != ph {
							// a join of the two halves
							okInner := len(inner.Edges) > 0
							for _, e2 := range inner.Edges {
								if sl, isSl := e2.(*ssa.Slice); !(isSl && (cur[sl.X] || sl.X == ssa.Value(ph))) && !cur[e2] && e2 != ssa.Value(ph) {
									okInner = false
								}
							}
							if okInner {
								continue
							}
						}
						if sl, isSl := e.(*ssa.Slice); isSl && sl.X == ssa.Value(ph) {
							continue
						}
						all = false
					}
					if all {
						cur[ph] = true
						changed = true
					}
				}
				if isIntegerT(ph.Type()) && idx != nil && !idxs[ph] {
					all := len(ph.Edges) > 0
					for _, e := range ph.Edges {
						e = stripConv(e)
						if idxs[e] || e == ssa.Value(ph) {
							continue
						}
						if b, isB := e.(*ssa.BinOp); isB && b.Op == token.SUB && (idxs[stripConv(b.X)] || stripConv(b.X) == ssa.Value(ph)) {
							continue
						}
						if inner, isPhi := e.(*ssa.Phi); isPhi {
							okInner := true
							for _, e2 := range inner.Edges {
								e2 = stripConv(e2)
								if b, isB := e2.(*ssa.BinOp); isB && b.Op == token.SUB && (idxs[stripConv(b.X)] || stripConv(b.X) == ssa.Value(ph)) {
									continue
								}
								if !idxs[e2] && e2 != ssa.Value(ph) {
									okInner = false
								}
							}
							if okInner {
								continue
							}
						}
						all = false
					}
					if all {
						idxs[ph] = true
						changed = true
					}
				}
			})
		}
		isIdx := func(x ssa.Value) bool { return idxs[stripConv(x)] }
		allInstrs(f, func(in ssa.Instruction) {
			switch x := in.(type) {
			case *ssa.Slice:
				if !cur[x.X] {
					return
				}
				if x.Low != nil {
					cands = append(cands, cand{x.Low, "lower slice bound", x.Pos()})
				}
				if x.High != nil {
					cands = append(cands, cand{x.High, "upper slice bound", x.Pos()})
				}
			case *ssa.BinOp:
				if idx == nil {
					return
				}
				if isIdx(x.X) {
					if _, isC := stripConv(x.Y).(*ssa.Const); !isC {
						cands = append(cands, cand{x.Y, "index " + x.Op.String() + " split", x.Pos()})
					}
				} else if isIdx(x.Y) {
					if _, isC := stripConv(x.X).(*ssa.Const); !isC {
						cands = append(cands, cand{x.X, "split " + x.Op.String() + " index", x.Pos()})
					}
				}
			case *ssa.Return:
				if name == "PI" {
					for _, r := range x.Results {
						if _, isC := stripConv(r).(*ssa.Const); !isC {
							cands = append(cands, cand{r, "returned offset", x.Pos()})
						}
					}
				}
			}
		})
		if len(cands) == 0 {
			c.Bad("C18.split-agreement", K+name, f.Pos(), "no split point found in %s", name)
			continue
		}
		seen := map[string]bool{}
		for _, cd := range cands {
			key := K + name + " · " + cd.what
			if seen[key] {
				key += " (2)"
			}
			seen[key] = true
			bad := ""
			for n := int64(0); n <= c.Deep(300, 20000); n++ {
				lens := map[ssa.Value]int64{}
				for cv := range cur {
					lens[cv] = n // every split is taken relative to the sequence under division at that point
				}
				got, ok := evalInt(cd.val, intEnv{lens: lens, closed: true}, 0)
				if !ok {
					bad = "expression " + abbr(exprStr(cd.val, shapeOpts)) + " is not a pure function of len(v)"
					break
				}
				if got != (n+1)/2 {
					bad = fmt.Sprintf("%s evaluates to %d for |v|=%d, GP split is %d", abbr(exprStr(cd.val, shapeOpts)), got, n, (n+1)/2)
					break
				}
			}
			if bad == "" {
				c.OK("C18.split-agreement", key, cd.pos, "= ⌈|v|/2⌉ for |v| = 0..%d", c.Deep(300, 20000))
			} else {
				c.Bad("C18.split-agreement", key, cd.pos, "%s", bad)
			}
		}
	}

	c.Rule("C18.node-function", "N: empty (or nil-headed) sequence ↦ zero hash, singleton ↦ its element, otherwise H($node ⌢ N(left) ⌢ N(right)); Mb hashes a singleton and otherwise is N; T emits N(sibling half) and recurses into its own half with the rebased index; M = N over the leaf hashes of C; C hashes $leaf ⌢ v[i] and pads with the zero hash to the next power of two; both leaf hashers use the shared $leaf prefix. Decided on refactoring-tolerant views: helpers are seen through, tests are polarity-free atoms, buffers are flattened concatenations, split points and sizes are named after what they evaluate to", 18)
	optsFor := func(f *ssa.Function) exprOpts {
		o := robustOpts
		o.abstract = c18Abstract(f)
		return o
	}
	H := "⌈|p0|/2⌉"
	leaves := func(v, h string) string {
		return "make([]types.ByteSequence, len(" + K + "C(" + v + ", " + h + "))){[*] ← " + K + "C(" + v + ", " + h + ")[*][:]}"
	}
	{
		f, o := fn["N"], optsFor(fn["N"])
		c.requireAtoms("C18.node-function", K+"N", f, o, []string{"(0 == len(p0))", "(1 == len(p0))", "(nil == p0[0])"})
		node := "p1(cat(" + K + "nodePrefix, " + K + "N(p0[:" + H + "], p1), " + K + "N(p0[" + H + ":], p1)))"
		c.requireSet("C18.node-function", K+"N · results", f.Pos(), "N returns", abbrMap(returnShapesO(f, o))["ret"], []string{K + "zeroHash[:]", "p0[0]", node + "[:]"})
		c.requireSet("C18.node-function", K+"N · hashed", f.Pos(), "N hashes", abbrAll(robustCalls(f, o, func(n string) bool { return n == "p1" })), []string{node})
	}
	{
		f, o := fn["Mb"], optsFor(fn["Mb"])
		c.requireAtoms("C18.node-function", K+"Mb", f, o, []string{"(1 == len(p0))", "(nil == p0[0])"})
		c.requireSet("C18.node-function", K+"Mb · results", f.Pos(), "Mb returns", abbrMap(returnShapesO(f, o))["ret"], []string{"*" + K + "N(p0, p1)", "p1(p0[0])"})
	}
	c18T(c, fn["T"], fn["N"])
	{
		f, o := fn["M"], optsFor(fn["M"])
		c.requireSet("C18.node-function", K+"M · calls", f.Pos(), "M's Merkle calls", abbrAll(robustCalls(f, o, func(n string) bool { return strings.HasPrefix(n, "merkle_tree.") })), []string{
			K + "C(p0, p1)",
			K + "N(" + leaves("p0", "p1") + ", p1)",
		})
		c18ResultFrom(c, f, fn["N"])
	}
	{
		f, o := fn["C"], optsFor(fn["C"])
		c.requireSet("C18.node-function", K+"C · hashed", f.Pos(), "C hashes", abbrAll(robustCalls(f, o, func(n string) bool { return n == "p1" })), []string{"p1(cat(" + K + "leafPrefix, p0[*]))"})
		c18CFill(c, f, o)
	}
	// prefixes
	for g, want := range map[string]string{"nodePrefix": `[]byte("node")`, "leafPrefix": `[]byte("leaf")`} {
		got := c.globalInit(mtPkg, g)
		c.Check(got == want, "C18.node-function", K+g, token.NoPos, g+" = "+want, fmt.Sprintf("%s is initialised to %s, GP uses %s", g, got, want))
	}

	// the constant-depth leaf list handed on by M and Jx is C(v) in full: every slot of the converted list is filled
	// from the corresponding slot of C's result (the padding slots are zero *hashes*, not absent entries — N reads an
	// absent head as "empty", which is a different tree for a padded subtree of two or more slots)
	c.Rule("C18.padded-leaves", "in M and Jx the list handed to N / T has as many filled slots as C(v) has entries: the conversion loop runs over the whole result of C (evaluated for |v| = 3, 5, 6, 9 with |C(v)| = 4, 8, 8, 16)", 2)
	for _, name := range []string{"M", "Jx"} {
		f := c.Fn(mtPkg, name)
		if f == nil {
			continue
		}
		var cCall *ssa.Call
		allInstrs(f, func(in ssa.Instruction) {
			if call, ok := in.(*ssa.Call); ok && call.Call.StaticCallee() != nil && call.Call.StaticCallee().Name() == "C" {
				cCall = call
			}
		})
		if cCall == nil {
			c.Bad("C18.padded-leaves", mtPkg+"."+name, f.Pos(), "no call of the constant-depth leaf function C")
			continue
		}
		vName := "p0"
		for i, p := range f.Params {
			if strings.HasPrefix(typeStr(p.Type()), "[]") && strings.Contains(typeStr(p.Type()), "ByteSequence") {
				vName = fmt.Sprintf("p%d", i)
			}
		}
		bad := ""
		for _, sz := range [][2]int64{{3, 4}, {5, 8}, {6, 8}, {9, 16}} {
			stores := map[int64]bool{}
			var mk *ssa.MakeSlice
			env0 := func(s string) (int64, bool) { return 0, false }
			_ = env0
			_, ok := runWithAtomsEnv(f, shapeOpts, func(s string) (int64, bool) {
				switch {
				case s == "len("+vName+")":
					return sz[0], true
				case strings.HasPrefix(s, "len(") && strings.Contains(s, ".C("+vName):
					return sz[1], true
				}
				return 0, false
			}, func(in ssa.Instruction, env intEnv) {
				st, isSt := in.(*ssa.Store)
				if !isSt {
					return
				}
				ia, isIA := st.Addr.(*ssa.IndexAddr)
				if !isIA {
					return
				}
				m, isMk := stripConv(ia.X).(*ssa.MakeSlice)
				if !isMk || !strings.Contains(typeStr(m.Type()), "ByteSequence") {
					return
				}
				mk = m
				if k, okk := evalInt(ia.Index, env, 0); okk {
					stores[k] = true
				}
			})
			_ = ok
			if mk == nil {
				// built by append or by a helper: the rule cannot count slots — accepted when the list is each[C[*]…] on the robust view
				continue
			}
			if int64(len(stores)) != sz[1] {
				bad = fmt.Sprintf("|v| = %d: %d of the %d slots of the list handed on are filled (C(v) has %d entries; unfilled padding slots are read as an empty subtree)", sz[0], len(stores), sz[1], sz[1])
				break
			}
		}
		c.Check(bad == "", "C18.padded-leaves", mtPkg+"."+name, f.Pos(), "every slot of the converted list is filled from C(v)", bad)
	}

	c.Rule("C18.paging", "Jx takes the trace of leaf i·2^x (mod 2^32) over the constant-depth leaves C(v) and keeps max(0, ⌈log2 max(1,|v|)⌉ − x) entries; Lx hashes exactly the leaves [i·2^x, min(i·2^x + 2^x, |v|)) with the $leaf prefix. The index and the count are decided by evaluating the expressions over x, i and |v|", 5)
	{
		f, o := fn["Jx"], optsFor(fn["Jx"])
		var tcall *ssa.Call
		nT := 0
		allInstrs(f, func(in ssa.Instruction) {
			if call, ok := in.(*ssa.Call); ok && calleeFunc(call) == fn["T"] {
				tcall = call
				nT++
			}
		})
		if tcall == nil || nT != 1 {
			c.Bad("C18.paging", K+"Jx · trace index", f.Pos(), "Jx does not take exactly one trace T(…) (found %d)", nT)
		} else {
			bad := ""
			for x := int64(0); x <= 40 && bad == ""; x++ {
				for _, i := range []int64{0, 1, 2, 3, 5, 1<<16 + 1, 1 << 31, 1<<32 - 1} {
					got, ok := evalInt(tcall.Call.Args[1], intEnv{params: map[ssa.Value]int64{f.Params[0]: x, f.Params[2]: i}}, 0)
					want := int64(0)
					if x < 32 {
						want = int64(uint32(uint64(i) << uint(x)))
					}
					if !ok {
						bad = "trace index " + abbr(exprStr(tcall.Call.Args[1], o)) + " is not a pure function of x and i"
						break
					}
					if got != want {
						bad = fmt.Sprintf("trace index %s evaluates to %d for x=%d, i=%d; GP takes leaf i·2^x = %d", abbr(exprStr(tcall.Call.Args[1], o)), got, x, i, want)
						break
					}
				}
			}
			c.Check(bad == "", "C18.paging", K+"Jx · trace index", tcall.Pos(), "trace taken at leaf i·2^x (mod 2^32) for x = 0..40 and boundary i", bad)
			seq := abbr(exprStr(tcall.Call.Args[0], o))
			c.Check(seq == leaves("p1", "p3"), "C18.paging", K+"Jx · trace sequence", tcall.Pos(), "trace over the leaf hashes C(v)", "Jx traces over "+seq+" instead of the leaf hashes C(v)")
		}
		c18JxLen(c, f)
	}
	c18Lx(c, fn["Lx"], optsFor(fn["Lx"]))
	return "Binary Merkle mechanisms decided statically: the four functions that divide a sequence (N, T, Ps, PI) use split points that evaluate to ⌈n/2⌉ for every length 0..300 (pure-expression evaluation of each slice bound / index comparison / rebasing term), T's sibling and own halves are complementary; N/Mb/M/C have the GP E.1 arms and operands (empty ↦ H0, singleton, $node/$leaf prefixes); Jx traces leaf i·2^x over C(v) and truncates to max(0, ⌈log2 max(1,|v|)⌉ − x), Lx covers exactly its page.",
		[]string{"canonical SSA renderer with helper see-through; integer-expression evaluation over len(v), x, i (partial evaluation of pure integer code, no program state)", "not decided: hash values vs an independent reference, change-sensitivity, VerifyMerkleProof's fold"}
}

// c18Abstract names integer sub-expressions after what they evaluate to over
// the length of the function's sequence parameter: ⌈n/2⌉ and the next power of two.
func c18Abstract(f *ssa.Function) func(ssa.Value) (string, bool) {
	var seq ssa.Value
	pi := 0
	for i, p := range f.Params {
		if _, ok := p.Type().Underlying().(*types.Slice); ok {
			seq, pi = p, i
			break
		}
	}
	memo := map[ssa.Value]string{}
	return func(v ssa.Value) (string, bool) {
		if seq == nil || !isIntegerT(v.Type()) {
			return "", false
		}
		switch v.(type) {
		case *ssa.Const, *ssa.Parameter:
			return "", false
		}
		if s, ok := memo[v]; ok {
			return s, s != ""
		}
		half, pow := true, true
		for n := int64(0); n <= 40 && (half || pow); n++ {
			got, ok := evalInt(v, intEnv{lens: map[ssa.Value]int64{seq: n}}, 0)
			if !ok {
				half, pow = false, false
				break
			}
			if got != (n+1)/2 {
				half = false
			}
			p2 := int64(1)
			for p2 < n {
				p2 *= 2
			}
			if got != p2 {
				pow = false
			}
		}
		s := ""
		if half {
			s = fmt.Sprintf("⌈|p%d|/2⌉", pi)
		} else if pow {
			s = fmt.Sprintf("pow2⌈|p%d|⌉", pi)
		}
		memo[v] = s
		return s, s != ""
	}
}

// c18ResultFrom: M's result is the value of its N call (copied or converted into the returned hash).
func c18ResultFrom(c *Ctx, f, n *ssa.Function) {
	ok := false
	allInstrs(f, func(in ssa.Instruction) {
		r, isR := in.(*ssa.Return)
		if !isR || len(r.Results) != 1 {
			return
		}
		if flowsFromCall(r.Results[0], n, map[ssa.Value]bool{}, 0) {
			ok = true
		}
	})
	c.Check(ok, "C18.node-function", "merkle_tree.M · result", f.Pos(), "the returned hash is (a copy of) N's result", "M's returned hash does not come from its N call")
}

// flowsFromCall: v is the result of a call to callee, possibly converted,
// dereferenced, or copied into a local array that is then loaded.
func flowsFromCall(v ssa.Value, callee *ssa.Function, seen map[ssa.Value]bool, d int) bool {
	if v == nil || seen[v] || d > 12 {
		return false
	}
	seen[v] = true
	switch x := v.(type) {
	case *ssa.Call:
		return x.Call.StaticCallee() == callee
	case *ssa.ChangeType:
		return flowsFromCall(x.X, callee, seen, d+1)
	case *ssa.Convert:
		return flowsFromCall(x.X, callee, seen, d+1)
	case *ssa.SliceToArrayPointer:
		return flowsFromCall(x.X, callee, seen, d+1)
	case *ssa.Phi:
		for _, e := range x.Edges {
			if !flowsFromCall(e, callee, seen, d+1) {
				return false
			}
		}
		return len(x.Edges) > 0
	case *ssa.UnOp:
		if x.Op != token.MUL {
			return false
		}
		if a, ok := x.X.(*ssa.Alloc); ok {
			// local array filled by copy(a[:], call) or a single store
			for _, r := range *a.Referrers() {
				switch y := r.(type) {
				case *ssa.Store:
					if y.Addr == ssa.Value(a) && flowsFromCall(y.Val, callee, seen, d+1) {
						return true
					}
				case *ssa.Slice:
					for _, r2 := range *y.Referrers() {
						if ci, ok := r2.(ssa.CallInstruction); ok {
							if b, isB := ci.Common().Value.(*ssa.Builtin); isB && b.Name() == "copy" && ci.Common().Args[0] == ssa.Value(y) && flowsFromCall(ci.Common().Args[1], callee, seen, d+1) {
								return true
							}
						}
					}
				}
			}
			return false
		}
		return flowsFromCall(x.X, callee, seen, d+1)
	}
	return false
}

// c18CFill: C returns a fresh slice of pow2⌈|v|⌉ entries whose fills are the
// leaf hashes and the zero hash, the zero hash only at positions >= |v|.
func c18CFill(c *Ctx, f *ssa.Function, o exprOpts) {
	K := "merkle_tree."
	var ms *ssa.MakeSlice
	allInstrs(f, func(in ssa.Instruction) {
		if r, ok := in.(*ssa.Return); ok && len(r.Results) == 1 {
			if m, ok := stripConv(r.Results[0]).(*ssa.MakeSlice); ok {
				ms = m
			}
		}
	})
	if ms == nil {
		c.Bad("C18.node-function", K+"C · result", f.Pos(), "C does not return a freshly made slice")
		return
	}
	sz := abbr(exprStr(ms.Len, o))
	c.Check(sz == "pow2⌈|p0|⌉", "C18.node-function", K+"C · size", ms.Pos(), "the result has pow2⌈|v|⌉ entries (evaluated for |v| = 0..40)", "the result has "+sz+" entries, GP pads to the next power of two")
	r := &renderer{o: o, onStack: map[ssa.Value]bool{}}
	r.o.depth = 14
	vals := map[string]bool{}
	for _, fl := range r.fillsOf(ms, 0) {
		if k := strings.Index(fl, "← "); k >= 0 {
			vals[abbr(fl[k+len("← "):])] = true
		}
	}
	var vs []string
	for s := range vals {
		vs = append(vs, s)
	}
	c.requireSet("C18.node-function", K+"C · entries", ms.Pos(), "entries are filled with", vs, []string{K + "zeroHash", "p1(cat(" + K + "leafPrefix, p0[*]))"})
}

// checkCondSet: the set of branch conditions of f equals want.
func (c *Ctx) checkCondSet(rule, key string, f *ssa.Function, want []string) {
	var got []string
	for _, g := range abbrAll(condShapes(f)) {
		if g != "false" && g != "true" { // constant-folded (vacuous) tests carry no case
			got = append(got, g)
		}
	}
	var w2 []string
	for _, g := range want {
		if g != "false" && g != "true" {
			w2 = append(w2, g)
		}
	}
	want = w2
	sort.Strings(got)
	sort.Strings(want)
	c.Check(strings.Join(got, " ; ") == strings.Join(want, " ; "), rule, key+" · case analysis", f.Pos(), "cases: "+strings.Join(got, " ; "), fmt.Sprintf("case analysis is {%s}, specification has {%s}", strings.Join(got, " ; "), strings.Join(want, " ; ")))
}

// globalInit returns the source text of the initialiser of a package-level variable.
func (c *Ctx) globalInit(rel, name string) string {
	p := c.Pkg(rel)
	if p == nil {
		return ""
	}
	out := ""
	for _, file := range p.Syntax {
		ast.Inspect(file, func(n ast.Node) bool {
			vs, ok := n.(*ast.ValueSpec)
			if !ok {
				return true
			}
			for i, nm := range vs.Names {
				if nm.Name == name && i < len(vs.Values) && p.TypesInfo.Defs[nm] != nil && p.TypesInfo.Defs[nm].Parent() == p.Types.Scope() {
					out = types.ExprString(vs.Values[i])
				}
			}
			return true
		})
	}
	return out
}

// c18Halves: in T the slice passed to N (sibling) and the slice passed to T
// (own half) are selected by the same test and are complementary.
func c18Halves(c *Ctx, f *ssa.Function) {
	var nArg, tArg *ssa.Phi
	allInstrs(f, func(in ssa.Instruction) {
		call, ok := in.(*ssa.Call)
		if !ok || call.Call.StaticCallee() == nil {
			return
		}
		switch call.Call.StaticCallee().Name() {
		case "N":
			nArg, _ = call.Call.Args[0].(*ssa.Phi)
		case "T":
			tArg, _ = call.Call.Args[0].(*ssa.Phi)
		}
	})
	ok := nArg != nil && tArg != nil && nArg.Block() == tArg.Block() && len(nArg.Edges) == 2 && len(tArg.Edges) == 2
	if ok {
		for k := 0; k < 2; k++ {
			a, okA := nArg.Edges[k].(*ssa.Slice)
			b, okB := tArg.Edges[k].(*ssa.Slice)
			if !okA || !okB {
				ok = false
				break
			}
			// complementary: one has only High, the other only Low
			if !((a.Low == nil) != (b.Low == nil) && (a.High == nil) != (b.High == nil)) {
				ok = false
			}
		}
		// and the left half [:mid] is the own half exactly on the i < mid edge
	}
	c.Check(ok, "C18.node-function", "merkle_tree.T · halves", f.Pos(), "sibling half and own half are complementary on both arms", "T does not pair each arm's own half with the opposite sibling half")
}

// c18JxLen: the number of kept entries evaluates to max(0, ceil(log2(max(1,n))) - x).
func c18JxLen(c *Ctx, f *ssa.Function) {
	var ms *ssa.MakeSlice
	allInstrs(f, func(in ssa.Instruction) {
		if r, ok := in.(*ssa.Return); ok {
			if m, ok := stripConv(r.Results[0]).(*ssa.MakeSlice); ok {
				ms = m
			}
		}
	})
	if ms == nil {
		c.Bad("C18.paging", "merkle_tree.Jx · kept entries", f.Pos(), "returned slice is not a fresh make")
		return
	}
	bad := ""
	maxN := c.Deep(70, 1100)
	for n := int64(0); n <= maxN && bad == ""; n++ {
		lg := int64(0)
		for (int64(1) << uint(lg)) < max(1, n) {
			lg++
		}
		for x := int64(0); x <= 12; x++ {
			got, ok := evalInt(ms.Len, intEnv{lens: map[ssa.Value]int64{f.Params[1]: n}, params: map[ssa.Value]int64{f.Params[0]: x}}, 0)
			if !ok {
				bad = "kept-entry count " + abbr(exprStr(ms.Len, shapeOpts)) + " is not a pure function of |v| and x"
				break
			}
			if want := max(0, lg-x); got != want {
				bad = fmt.Sprintf("kept-entry count %s evaluates to %d for |v|=%d, x=%d; GP keeps max(0, ⌈log2 max(1,|v|)⌉ − x) = %d", abbr(exprStr(ms.Len, shapeOpts)), got, n, x, want)
				break
			}
		}
	}
	c.Check(bad == "", "C18.paging", "merkle_tree.Jx · kept entries", ms.Pos(), fmt.Sprintf("keeps max(0, ⌈log2 max(1,|v|)⌉ − x) entries (evaluated for |v| = 0..%d, x = 0..12)", maxN), bad)
}

// c18Lx: the page loop runs idx over [i·2^x, min(i·2^x + 2^x, |v|)) and hashes $leaf ⌢ v[idx].
func c18Lx(c *Ctx, f *ssa.Function, o exprOpts) {
	K := "merkle_tree."
	// the loop variable: the index used for v[…] inside the hashed buffer
	hashed := abbrAll(robustCalls(f, o, func(n string) bool { return n == "p3" }))
	var idxPhi *ssa.Phi
	visitWithHelpers(f, o, func(g *ssa.Function, subst map[ssa.Value]string, in ssa.Instruction) {
		if g != f {
			return
		}
		if ia, ok := in.(*ssa.IndexAddr); ok && ia.X == ssa.Value(f.Params[1]) {
			if p, ok := stripConv(ia.Index).(*ssa.Phi); ok {
				idxPhi = p
			}
		}
	})
	if idxPhi == nil || len(hashed) != 1 {
		c.Bad("C18.paging", K+"Lx · leaves", f.Pos(), "Lx does not hash one $leaf ⌢ v[idx] per loop iteration (hash calls: %v)", hashed)
		return
	}
	idxS := abbr(exprStr(idxPhi, o))
	c.Check(hashed[0] == "p3(cat("+K+"leafPrefix, p1["+idxS+"]))", "C18.paging", K+"Lx · leaves", f.Pos(), "hashes $leaf ⌢ v[idx] for each idx of the page", "Lx hashes "+hashed[0])
	// page range: start value of idx and the loop bound, evaluated
	var start ssa.Value
	for k, e := range idxPhi.Edges {
		if !idxPhi.Block().Dominates(idxPhi.Block().Preds[k]) {
			start = e
		}
	}
	var bound ssa.Value
	var strict bool
	if ifi, ok := idxPhi.Block().Instrs[len(idxPhi.Block().Instrs)-1].(*ssa.If); ok {
		if bo, ok := ifi.Cond.(*ssa.BinOp); ok {
			switch {
			case bo.Op == token.LSS && stripConv(bo.X) == ssa.Value(idxPhi):
				bound, strict = bo.Y, true
			case bo.Op == token.GTR && stripConv(bo.Y) == ssa.Value(idxPhi):
				bound, strict = bo.X, true
			}
		}
	}
	if start == nil || bound == nil || !strict {
		c.Bad("C18.paging", K+"Lx · page range", f.Pos(), "page loop `for idx := start; idx < end` not found")
		return
	}
	bad := ""
	for x := int64(0); x <= 6 && bad == ""; x++ {
		for i := int64(0); i <= 5 && bad == ""; i++ {
			for n := int64(0); n <= 70; n++ {
				env := intEnv{lens: map[ssa.Value]int64{f.Params[1]: n}, params: map[ssa.Value]int64{f.Params[0]: x, f.Params[2]: i}}
				s, ok1 := evalInt(start, env, 0)
				e, ok2 := evalInt(bound, env, 0)
				if !ok1 || !ok2 {
					bad = "page bounds are not pure functions of x, i and |v|"
					break
				}
				ws := i << uint(x)
				we := min(ws+(1<<uint(x)), n)
				if s != ws || (ws < we && e != we) || (ws >= we && e > s) {
					bad = fmt.Sprintf("page loop runs [%d, %d) for x=%d, i=%d, |v|=%d; GP page is [%d, %d)", s, e, x, i, n, ws, we)
					break
				}
			}
		}
	}
	c.Check(bad == "", "C18.paging", K+"Lx · page range", f.Pos(), "iterates idx over [i·2^x, min(i·2^x + 2^x, |v|)) (evaluated for x = 0..6, i = 0..5, |v| = 0..70)", bad)
	// every iteration contributes exactly its hash to the result
	rs := abbrMap(returnShapesO(f, o))
	wantR := "⊕(make([]types.OpaqueHash, 0); [" + hashed[0] + "][:])"
	c.Check(len(rs["ret"]) == 1 && rs["ret"][0] == wantR, "C18.paging", K+"Lx · result", f.Pos(), "appends each page leaf hash in order", fmt.Sprintf("Lx returns %v", rs["ret"]))
}

// c18T: the trace emits N(sibling half) for the half it does not descend into,
// in the recursive form (T(own half, rebased index)) or in the iterative form
// (the own half becomes the sequence of the next round). Split values are
// covered by C18.split-agreement; here: which half goes where.
func c18T(c *Ctx, t, n *ssa.Function) {
	key := "merkle_tree.T"
	v, idx := t.Params[0], t.Params[1]
	// the decision "index < split" and its two arms
	var ncalls []*ssa.Call
	allInstrs(t, func(in ssa.Instruction) {
		if call, ok := in.(*ssa.Call); ok && call.Call.StaticCallee() == n {
			ncalls = append(ncalls, call)
		}
	})
	if len(ncalls) == 0 {
		c.Bad("C18.node-function", key+" · calls", t.Pos(), "T never takes the Merkle root N(·) of a sibling half")
		return
	}
	// classify a slice value as the lower or the upper half of the sequence under division
	halfOf := func(val ssa.Value) []string {
		var out []string
		var walk func(x ssa.Value, d int)
		seen := map[ssa.Value]bool{}
		walk = func(x ssa.Value, d int) {
			if d > 6 || seen[x] {
				return
			}
			seen[x] = true
			switch y := x.(type) {
			case *ssa.Slice:
				switch {
				case y.Low == nil && y.High != nil:
					out = append(out, "lower")
				case y.Low != nil && y.High == nil:
					out = append(out, "upper")
				default:
					out = append(out, "?")
				}
			case *ssa.Phi:
				for _, e := range y.Edges {
					walk(e, d+1)
				}
			default:
				out = append(out, "?")
			}
		}
		walk(val, 0)
		return uniqSorted(out)
	}
	// for each N call: which half is the sibling on the edge where index < split, and which on the other edge
	lessEdges := condEdges(t, func(cv ssa.Value) (bool, bool) {
		bo, ok := cv.(*ssa.BinOp)
		if !ok {
			return false, false
		}
		x, y := stripConv(bo.X), stripConv(bo.Y)
		isI := func(z ssa.Value) bool {
			if z == ssa.Value(idx) {
				return true
			}
			_, isPhi := z.(*ssa.Phi)
			return isPhi && isIntegerT(z.Type())
		}
		switch {
		case bo.Op == token.LSS && isI(x):
			return true, true
		case bo.Op == token.GEQ && isI(x):
			return true, false
		case bo.Op == token.GTR && isI(y):
			return true, true
		case bo.Op == token.LEQ && isI(y):
			return true, false
		}
		return false, false
	})
	if len(lessEdges) != 1 {
		c.Bad("C18.node-function", key+" · tests", t.Pos(), "T does not make exactly one 'index < split' decision (found %d)", len(lessEdges))
		return
	}
	c.OK("C18.node-function", key+" · tests", t.Pos(), "one 'index < split' decision")
	less := lessEdges[0]
	notLess := edge{less.from, 1 - less.succ}
	// resolve a phi at the join by the edge taken
	pick := func(val ssa.Value, e edge) string {
		hs := halfOf(val)
		if len(hs) == 1 {
			return hs[0]
		}
		// phi in the join block of the decision: choose the edge whose predecessor is reached only through e
		if ph, ok := val.(*ssa.Phi); ok {
			for k, pe := range ph.Edges {
				pb := ph.Block().Preds[k]
				first := pb.Instrs[0]
				if guardedBy(t, first, []edge{e}) || (pb == e.from && ph.Block() == e.from.Succs[e.succ]) {
					h := halfOf(pe)
					if len(h) == 1 {
						return h[0]
					}
				}
			}
		}
		return "?"
	}
	okSib := true
	desc := ""
	for _, nc := range ncalls {
		arg := nc.Call.Args[0]
		if guardedBy(t, nc, []edge{less}) {
			h := pick(arg, less)
			desc += "index<split: N(" + h + ") "
			okSib = okSib && h == "upper"
		} else if guardedBy(t, nc, []edge{notLess}) {
			h := pick(arg, notLess)
			desc += "index≥split: N(" + h + ") "
			okSib = okSib && h == "lower"
		} else {
			hl, hr := pick(arg, less), pick(arg, notLess)
			desc += "index<split: N(" + hl + "), index≥split: N(" + hr + ") "
			okSib = okSib && hl == "upper" && hr == "lower"
		}
	}
	c.Check(okSib, "C18.node-function", key+" · halves", t.Pos(), "the sibling is the upper half when the index is below the split and the lower half otherwise", "T does not pair each arm's own half with the opposite sibling half ("+desc+")")
	// descent: recursion T(own, idx', h) or next-round sequence = own half; rebasing idx − split on the upper arm only
	var own ssa.Value
	var nextIdx ssa.Value
	allInstrs(t, func(in ssa.Instruction) {
		if call, ok := in.(*ssa.Call); ok && call.Call.StaticCallee() == t {
			own, nextIdx = call.Call.Args[0], call.Call.Args[1]
		}
	})
	form := "recursive"
	if own == nil {
		form = "iterative"
		allInstrs(t, func(in ssa.Instruction) {
			ph, ok := in.(*ssa.Phi)
			if !ok {
				return
			}
			for k, e := range ph.Edges {
				if ph.Block().Dominates(ph.Block().Preds[k]) { // back edge
					if _, isSlice := ph.Type().Underlying().(*types.Slice); isSlice && e != ssa.Value(v) {
						own = e
					}
					if isIntegerT(ph.Type()) && stripConv(e) != ssa.Value(idx) {
						for _, e0 := range ph.Edges {
							if stripConv(e0) == ssa.Value(idx) {
								nextIdx = e
							}
						}
					}
				}
			}
		})
	}
	okOwn := own != nil && pick(own, less) == "lower" && pick(own, notLess) == "upper"
	if form == "iterative" {
		// every back edge of the carried sequence: lower half behind index<split, upper half behind index≥split
		nl, nu := 0, 0
		okOwn = true
		allInstrs(t, func(in ssa.Instruction) {
			ph, ok := in.(*ssa.Phi)
			if !ok {
				return
			}
			if _, isSlice := ph.Type().Underlying().(*types.Slice); !isSlice {
				return
			}
			// only the carried sequence itself: a phi one of whose entry edges is the sequence parameter
			carriesV := false
			for _, e := range ph.Edges {
				if e == ssa.Value(v) {
					carriesV = true
				}
			}
			if !carriesV {
				return
			}
			for k, e := range ph.Edges {
				pb := ph.Block().Preds[k]
				if !ph.Block().Dominates(pb) {
					continue
				}
				switch {
				case guardedBy(t, pb.Instrs[0], []edge{less}):
					if h := halfOf(e); len(h) == 1 && h[0] == "lower" {
						nl++
					} else {
						okOwn = false
					}
				case guardedBy(t, pb.Instrs[0], []edge{notLess}):
					if h := halfOf(e); len(h) == 1 && h[0] == "upper" {
						nu++
					} else {
						okOwn = false
					}
				default:
					if pick(e, less) != "lower" || pick(e, notLess) != "upper" {
						okOwn = false
					} else {
						nl++
						nu++
					}
				}
			}
		})
		if os.Getenv("JAMVERIF_EVALDEBUG") != "" {
			fmt.Fprintf(os.Stderr, "c18T iterative: okOwn=%v nl=%d nu=%d\n", okOwn, nl, nu)
		}
		okOwn = okOwn && nl > 0 && nu > 0
	}
	c.Check(okOwn, "C18.node-function", key+" · descent", t.Pos(), "descends ("+form+") into the lower half when the index is below the split and into the upper half otherwise", "T does not continue in the half that holds the index")
	// rebasing
	okIdx := false
	if nextIdx != nil {
		var subs, same int
		var walk func(x ssa.Value, d int)
		walk = func(x ssa.Value, d int) {
			if d > 5 {
				return
			}
			x = stripConv(x)
			switch y := x.(type) {
			case *ssa.Phi:
				for _, e := range y.Edges {
					if stripConv(e) != ssa.Value(y) {
						walk(e, d+1)
					}
				}
			case *ssa.BinOp:
				if y.Op == token.SUB {
					subs++
				}
			default:
				same++
			}
		}
		walk(nextIdx, 0)
		okIdx = subs >= 1
		_ = same
	}
	c.Check(okIdx, "C18.node-function", key+" · rebasing", t.Pos(), "the index is rebased by the split when descending into the upper half", "the index is not rebased (index − split) on the upper arm")
}
