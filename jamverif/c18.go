package main

import (
	"fmt"
	"go/ast"
	"go/token"
	"go/types"
	"sort"
	"strings"

	"golang.org/x/tools/go/ssa"
)

const mtPkg = "internal/utilities/merkle_tree"

func checkC18(c *Ctx) (string, []string) {
	K := "merkle_tree."
	fn := map[string]*ssa.Function{}
	for _, n := range []string{"N", "Mb", "T", "Ps", "PI", "Jx", "Lx", "M", "C"} {
		fn[n] = c.Fn(mtPkg, n)
	}
	if len(c.fatal) > 0 {
		return "", nil
	}

	c.Rule("C18.split-agreement", "N, T, Ps and PI divide a sequence at the same point ⌈|v|/2⌉ (GP E.1): every slice bound applied to the input sequence, every comparison of the element index with the split and every index rebasing in these four functions evaluates to (n+1)/2 for all lengths n = 0..300", 8)
	for _, name := range []string{"N", "T", "Ps", "PI"} {
		f := fn[name]
		v := f.Params[0]
		var idx ssa.Value
		if len(f.Params) > 1 && isIntegerT(f.Params[1].Type()) {
			idx = f.Params[1]
		}
		type cand struct {
			val  ssa.Value
			what string
			pos  token.Pos
		}
		var cands []cand
		allInstrs(f, func(in ssa.Instruction) {
			switch x := in.(type) {
			case *ssa.Slice:
				if x.X != ssa.Value(v) {
					return
				}
				if x.Low != nil {
					cands = append(cands, cand{x.Low, "lower slice bound", x.Pos()})
				}
				if x.High != nil {
					cands = append(cands, cand{x.High, "upper slice bound", x.Pos()})
				}
			case *ssa.BinOp:
				if idx == nil {
					return
				}
				if stripConv(x.X) == idx {
					if _, isC := stripConv(x.Y).(*ssa.Const); !isC {
						cands = append(cands, cand{x.Y, "index " + x.Op.String() + " split", x.Pos()})
					}
				} else if stripConv(x.Y) == idx {
					if _, isC := stripConv(x.X).(*ssa.Const); !isC {
						cands = append(cands, cand{x.X, "split " + x.Op.String() + " index", x.Pos()})
					}
				}
			case *ssa.Return:
				if name == "PI" {
					for _, r := range x.Results {
						if _, isC := stripConv(r).(*ssa.Const); !isC {
							cands = append(cands, cand{r, "returned offset", x.Pos()})
						}
					}
				}
			}
		})
		if len(cands) == 0 {
			c.Bad("C18.split-agreement", K+name, f.Pos(), "no split point found in %s", name)
			continue
		}
		seen := map[string]bool{}
		for _, cd := range cands {
			key := K + name + " · " + cd.what
			if seen[key] {
				key += " (2)"
			}
			seen[key] = true
			bad := ""
			for n := int64(0); n <= c.Deep(300, 20000); n++ {
				got, ok := evalInt(cd.val, intEnv{lens: map[ssa.Value]int64{v: n}}, 0)
				if !ok {
					bad = "expression " + abbr(exprStr(cd.val, shapeOpts)) + " is not a pure function of len(v)"
					break
				}
				if got != (n+1)/2 {
					bad = fmt.Sprintf("%s evaluates to %d for |v|=%d, GP split is %d", abbr(exprStr(cd.val, shapeOpts)), got, n, (n+1)/2)
					break
				}
			}
			if bad == "" {
				c.OK("C18.split-agreement", key, cd.pos, "= ⌈|v|/2⌉ for |v| = 0..%d", c.Deep(300, 20000))
			} else {
				c.Bad("C18.split-agreement", key, cd.pos, "%s", bad)
			}
		}
	}

	c.Rule("C18.node-function", "N: empty (or nil-headed) sequence ↦ zero hash, singleton ↦ its element, otherwise H($node ⌢ N(left) ⌢ N(right)); Mb hashes a singleton and otherwise is N; T emits N(sibling half) followed by T(own half, rebased index); M = N over the leaf hashes of C; both leaf hashers use the shared $leaf prefix", 10)
	c.checkCondSet("C18.node-function", K+"N", fn["N"], []string{"(0 == len(p0))", "(1 == len(p0))", "(nil == p0[0])"})
	half := "((1 + len(p0)) / 2)"
	c.checkShapes("C18.node-function", K+"N", fn["N"], abbrMap(returnShapes(fn["N"])), map[string][]string{
		"ret": {K + "zeroHash[:]", "p0[0]", "p1(append(append(append(make([]byte, 0), " + K + "nodePrefix), " + K + "N(p0[:" + half + "], p1)), " + K + "N(p0[" + half + ":], p1)))[:]"},
	})
	c.checkCondSet("C18.node-function", K+"Mb", fn["Mb"], []string{"(1 == len(p0))", "(nil != p0[0])"})
	c.checkShapes("C18.node-function", K+"Mb", fn["Mb"], abbrMap(returnShapes(fn["Mb"])), map[string][]string{"ret": {"*" + K + "N(p0, p1)", "p1(p0[0])"}})
	uh := "u32(" + half + ")"
	own := "phi(p0[:" + uh + "] | p0[" + uh + ":])"
	c.checkEffects("C18.node-function", K+"T", fn["T"], abbrAll(effectShapesOpt(fn["T"], func(n string) bool { return strings.HasPrefix(n, mtPkg) }, false)), []string{
		"call " + K + "N(" + own + ", p2)",
		"call " + K + "T(" + own + ", phi((p1 - " + uh + ") | p1), p2)",
	})
	// sibling/own halves are opposite: checked structurally on the phis
	c18Halves(c, fn["T"])
	c.checkEffects("C18.node-function", K+"M", fn["M"], abbrAll(effectShapesOpt(fn["M"], func(n string) bool { return strings.HasPrefix(n, mtPkg) }, true)), []string{
		"call " + K + "C(p0, p1)",
		"call " + K + "N(make([]types.ByteSequence, len(" + K + "C(p0, p1))), p1)",
		"copy(alloc:types.OpaqueHash[:], " + K + "N(make([]types.ByteSequence, len(" + K + "C(p0, p1))), p1))",
		"store &make([]types.ByteSequence, len(" + K + "C(p0, p1)))[*] ← " + K + "C(p0, p1)[*][:]",
	})
	c.checkEffects("C18.node-function", K+"C", fn["C"], abbrAll(effectShapesOpt(fn["C"], nil, true)), []string{
		"store &make([]types.OpaqueHash, phi((2 * cyc) | 1))[*] ← " + K + "zeroHash",
		"store &make([]types.OpaqueHash, phi((2 * cyc) | 1))[*] ← p1(append(append(phi(nil | phi(cyc))[:0], " + K + "leafPrefix), p0[*]))",
	})
	// prefixes
	for g, want := range map[string]string{"nodePrefix": `[]byte("node")`, "leafPrefix": `[]byte("leaf")`} {
		got := c.globalInit(mtPkg, g)
		c.Check(got == want, "C18.node-function", K+g, token.NoPos, g+" = "+want, fmt.Sprintf("%s is initialised to %s, GP uses %s", g, got, want))
	}

	c.Rule("C18.paging", "Jx takes the trace of leaf i·2^x over the constant-depth leaves C(v) and keeps max(0, ⌈log2 max(1,|v|)⌉ − x) entries; Lx hashes exactly the leaves [i·2^x, min(i·2^x + 2^x, |v|)) with the $leaf prefix", 5)
	jxT := callArgShapes(fn["Jx"], func(ci ssa.CallInstruction) bool { return calleeFunc(ci) == fn["T"] }, 1)
	c.Check(len(jxT) == 1 && jxT[0] == "((1 << p0) * p2)", "C18.paging", K+"Jx · trace index", fn["Jx"].Pos(), "trace taken at leaf i·2^x", fmt.Sprintf("Jx takes the trace at %v, GP takes it at leaf i·2^x", jxT))
	jxSeq := callArgShapes(fn["Jx"], func(ci ssa.CallInstruction) bool { return calleeFunc(ci) == fn["T"] }, 0)
	c.Check(len(jxSeq) == 1 && abbr(jxSeq[0]) == "make([]types.ByteSequence, len("+K+"C(p1, p3)))", "C18.paging", K+"Jx · trace sequence", fn["Jx"].Pos(), "trace over the leaf hashes C(v)", fmt.Sprintf("Jx traces over %v instead of C(v)", jxSeq))
	c18JxLen(c, fn["Jx"])
	c18Lx(c, fn["Lx"])
	return "Binary Merkle mechanisms decided statically: the four functions that divide a sequence (N, T, Ps, PI) use split points that evaluate to ⌈n/2⌉ for every length 0..300 (pure-expression evaluation of each slice bound / index comparison / rebasing term), T's sibling and own halves are complementary; N/Mb/M/C have the GP E.1 arms and operands (empty ↦ H0, singleton, $node/$leaf prefixes); Jx traces leaf i·2^x over C(v) and truncates to max(0, ⌈log2 max(1,|v|)⌉ − x), Lx covers exactly its page.",
		[]string{"canonical SSA renderer; integer-expression evaluation over len(v) (no execution of program code)", "not decided: hash values vs an independent reference, change-sensitivity, VerifyMerkleProof's fold"}
}

// checkCondSet: the set of branch conditions of f equals want.
func (c *Ctx) checkCondSet(rule, key string, f *ssa.Function, want []string) {
	var got []string
	for _, g := range abbrAll(condShapes(f)) {
		if g != "false" && g != "true" { // constant-folded (vacuous) tests carry no case
			got = append(got, g)
		}
	}
	var w2 []string
	for _, g := range want {
		if g != "false" && g != "true" {
			w2 = append(w2, g)
		}
	}
	want = w2
	sort.Strings(got)
	sort.Strings(want)
	c.Check(strings.Join(got, " ; ") == strings.Join(want, " ; "), rule, key+" · case analysis", f.Pos(), "cases: "+strings.Join(got, " ; "), fmt.Sprintf("case analysis is {%s}, specification has {%s}", strings.Join(got, " ; "), strings.Join(want, " ; ")))
}

// globalInit returns the source text of the initialiser of a package-level variable.
func (c *Ctx) globalInit(rel, name string) string {
	p := c.Pkg(rel)
	if p == nil {
		return ""
	}
	out := ""
	for _, file := range p.Syntax {
		ast.Inspect(file, func(n ast.Node) bool {
			vs, ok := n.(*ast.ValueSpec)
			if !ok {
				return true
			}
			for i, nm := range vs.Names {
				if nm.Name == name && i < len(vs.Values) && p.TypesInfo.Defs[nm] != nil && p.TypesInfo.Defs[nm].Parent() == p.Types.Scope() {
					out = types.ExprString(vs.Values[i])
				}
			}
			return true
		})
	}
	return out
}

// c18Halves: in T the slice passed to N (sibling) and the slice passed to T
// (own half) are selected by the same test and are complementary.
func c18Halves(c *Ctx, f *ssa.Function) {
	var nArg, tArg *ssa.Phi
	allInstrs(f, func(in ssa.Instruction) {
		call, ok := in.(*ssa.Call)
		if !ok || call.Call.StaticCallee() == nil {
			return
		}
		switch call.Call.StaticCallee().Name() {
		case "N":
			nArg, _ = call.Call.Args[0].(*ssa.Phi)
		case "T":
			tArg, _ = call.Call.Args[0].(*ssa.Phi)
		}
	})
	ok := nArg != nil && tArg != nil && nArg.Block() == tArg.Block() && len(nArg.Edges) == 2 && len(tArg.Edges) == 2
	if ok {
		for k := 0; k < 2; k++ {
			a, okA := nArg.Edges[k].(*ssa.Slice)
			b, okB := tArg.Edges[k].(*ssa.Slice)
			if !okA || !okB {
				ok = false
				break
			}
			// complementary: one has only High, the other only Low
			if !((a.Low == nil) != (b.Low == nil) && (a.High == nil) != (b.High == nil)) {
				ok = false
			}
		}
		// and the left half [:mid] is the own half exactly on the i < mid edge
	}
	c.Check(ok, "C18.node-function", "merkle_tree.T · halves", f.Pos(), "sibling half and own half are complementary on both arms", "T does not pair each arm's own half with the opposite sibling half")
}

// c18JxLen: the number of kept entries evaluates to max(0, ceil(log2(max(1,n))) - x).
func c18JxLen(c *Ctx, f *ssa.Function) {
	var ms *ssa.MakeSlice
	allInstrs(f, func(in ssa.Instruction) {
		if r, ok := in.(*ssa.Return); ok {
			if m, ok := r.Results[0].(*ssa.MakeSlice); ok {
				ms = m
			}
		}
	})
	if ms == nil {
		c.Bad("C18.paging", "merkle_tree.Jx · kept entries", f.Pos(), "returned slice is not a fresh make")
		return
	}
	s := abbr(exprStr(ms.Len, shapeOpts))
	// max(0, (log - int(x))) where log is the loop counter of `for (1<<log) < max(1,len(v))`
	conds := abbrAll(condShapes(f))
	hasLoop := false
	for _, cd := range conds {
		if cd == "(* < max(1, len(p1)))" {
			hasLoop = true
		}
	}
	// the compared quantity must be 1 << counter
	okShift := false
	allInstrs(f, func(in ssa.Instruction) {
		if b, ok := in.(*ssa.BinOp); ok && b.Op == token.LSS {
			if sh, ok := stripConv(b.X).(*ssa.BinOp); ok && sh.Op == token.SHL {
				if one, ok := constInt(sh.X); ok && one == 1 {
					if p, ok := stripConv(sh.Y).(*ssa.Phi); ok {
						if init, ok := constInt(p.Edges[0]); ok && init == 0 {
							okShift = true
						}
					}
				}
			}
		}
	})
	c.Check(s == "max(0, (* - int(p0)))" && hasLoop && okShift, "C18.paging", "merkle_tree.Jx · kept entries", ms.Pos(), "keeps max(0, ⌈log2 max(1,|v|)⌉ − x) entries", fmt.Sprintf("kept-entry count is %s with loop conditions %v", s, conds))
}

func c18Lx(c *Ctx, f *ssa.Function) {
	conds := abbrAll(condShapes(f))
	want := "(phi((1 + cyc) | (p2 * u32((1 << p0)))) < min(((p2 * u32((1 << p0))) + u32((1 << p0))), u32(len(p1))))"
	c.Check(len(conds) == 1 && conds[0] == want, "C18.paging", "merkle_tree.Lx · page range", f.Pos(), "iterates idx from i·2^x while idx < min(i·2^x + 2^x, |v|)", fmt.Sprintf("page loop is %v", conds))
	rs := abbrMap(returnShapes(f))
	wantR := "⊕(make([]types.OpaqueHash, 0); [p3(append(append(phi(cyc | nil)[:0], merkle_tree.leafPrefix), p1[phi((1 + cyc) | (p2 * u32((1 << p0))))]))][:])"
	c.Check(len(rs["ret"]) == 1 && rs["ret"][0] == wantR, "C18.paging", "merkle_tree.Lx · leaves", f.Pos(), "appends H($leaf ⌢ v[idx]) for each idx of the page", fmt.Sprintf("Lx returns %v", rs["ret"]))
}
