package main

import (
	"fmt"
	"go/token"
	"os"
	"sort"
	"strings"

	"golang.org/x/tools/go/ssa"
)

func checkC33(c *Ctx) (string, []string) {
	e := newOmegaEnv(c)
	if len(c.fatal) > 0 {
		return "", nil
	}
	R := func(i int) string { return fmt.Sprintf("cell(p0).VM.Registers[%d]", i) }
	MAP := "cell(p0).Addition.RefineArgs.IntegratedPVMMap"
	M := MAP + "[" + R(7) + "]"

	// ---- typestate: programs come from deblob
	c.Rule("C33.program-from-deblob", "a PVM.Program value is populated only inside DeBlobProgramCode (and its pre-decoder); every NewHost/NewInterpreter receives a program that is a DeBlobProgramCode result", 3)
	for _, f := range c.SrcFuncs("PVM") {
		if f.Name() == "DeBlobProgramCode" || f.Name() == "preDecodeBlocks" {
			continue
		}
		allInstrs(f, func(in ssa.Instruction) {
			st, ok := in.(*ssa.Store)
			if !ok {
				return
			}
			fa, ok := st.Addr.(*ssa.FieldAddr)
			if !ok || !hasSuffixType(derefType(fa.X.Type()), "PVM.Program") {
				return
			}
			fld := fieldName(fa.X.Type(), fa.Field)
			if vs := exprStr(st.Val, shapeOpts); fld == "InstructionData" && strings.HasPrefix(vs, "PVM.zeroExtend(") && strings.HasSuffix(vs, ".InstructionData)") {
				c.OK("C33.program-from-deblob", funcKey(f)+" · zero-extended copy", in.Pos(), "code of an existing program, zero-extended for execution (GP A.3)")
				return
			}
			c.Bad("C33.program-from-deblob", funcKey(f)+" · Program."+fld, in.Pos(), "a Program's %s is assigned outside DeBlobProgramCode: the machine would run bytes that were never validated/pre-decoded", fld)
		})
		for _, k := range callsIn(f, c.Obj("PVM", "NewHost"), c.Obj("PVM", "NewInterpreter")) {
			s := exprStr(k.Common().Args[0], shapeOpts)
			c.Check(strings.HasPrefix(s, "cell(PVM.DeBlobProgramCode(") && strings.HasSuffix(s, ")#0)"), "C33.program-from-deblob", funcKey(f)+" → "+calleeObject(k).Name(), k.Pos(),
				"program is a DeBlobProgramCode result", "machine constructed with a program that does not come from DeBlobProgramCode: "+abbr(s))
		}
	}
	c.OK("C33.program-from-deblob", "scan", token.NoPos, "all functions of package PVM scanned for Program field stores")

	// ---- machine
	c.Rule("C33.machine", "machine validates the bytes it read with DeBlobProgramCode, stores exactly those bytes with a fresh allocated page table and the requested pc under the lowest unused identifier, and returns that identifier", 6)
	if f := c.Fn("PVM", "machine"); f != nil {
		bytes := "(*PVM.Memory).Read(cell(p0).VM.Memory, " + R(7) + ", " + R(8) + ")"
		c.checkShapes("C33.machine", "PVM.machine · record", f, literalStores(f, "PVM.IntegratedPVMType"), map[string][]string{
			"ProgramCode": {bytes}, "Memory.Pages": {"makemap"}, "PC": {"u32(" + R(9) + ")"},
		})
		var deb []string
		for _, k := range callsIn(f, c.Obj("PVM", "DeBlobProgramCode")) {
			deb = append(deb, exprStr(k.Common().Args[0], shapeOpts))
		}
		c.Check(len(deb) == 1 && deb[0] == bytes, "C33.machine", "PVM.machine · validated bytes", f.Pos(), "the stored bytes are the ones validated", "DeBlobProgramCode is applied to "+strings.Join(deb, ";")+", not to the stored bytes")
		keyOK, retOK, why := false, false, "no store into the machine map"
		isMap := func(x ssa.Value) bool { return exprStr(x, shapeOpts) == MAP }
		allInstrs(f, func(in ssa.Instruction) {
			if mu, ok := in.(*ssa.MapUpdate); ok && isMap(mu.Map) {
				keyOK, why = lowestAbsentKey(mu.Key, isMap, 0)
				// R7 receives the same value
				for _, rv := range e.registerValues(f) {
					if rv.k == 7 && sameExpr(rv.val, mu.Key) {
						retOK = true
					}
				}
			}
		})
		c.Check(keyOK, "C33.machine", "PVM.machine · identifier", f.Pos(), "identifier = first n from 0 not present in the machine map (counter from 0 by 1, advanced only past keys, left only at a non-key)", "the new machine's identifier is not the lowest identifier absent from the map (a live machine can be overwritten): "+why)
		c.Check(retOK, "C33.machine", "PVM.machine · returned identifier", f.Pos(), "register 7 receives the identifier used as the key", "register 7 does not receive the key under which the machine was stored")
	}

	// ---- invoke
	c.Rule("C33.invoke", "invoke runs the stored, deblobbed program on the stored memory with the guest-supplied gas and registers; nothing of the outer machine reaches the inner one; it writes E8(gas') and the 13 registers back, stores memory and pc (resume pc = pc+1+skip from the inner bitmask after a host call) under the same identifier, and maps each exit kind to its code", 14)
	if f := c.Fn("PVM", "invoke"); f != nil {
		prog := "cell(PVM.DeBlobProgramCode(" + M + ".ProgramCode)#0)"
		var hostArgs []string
		for _, k := range callsIn(f, c.Obj("PVM", "NewHost")) {
			for _, a := range k.Common().Args {
				hostArgs = append(hostArgs, exprStr(a, shapeOpts))
			}
		}
		okHost := len(hostArgs) == 6 && c33Loose(hostArgs[0]) == c33Loose(prog) && c33Loose(hostArgs[2]) == c33Loose(M+".Memory") && strings.HasPrefix(hostArgs[3], "i64(") && hostArgs[5] == "nil"
		c.Check(okHost, "C33.invoke", "PVM.invoke · inner machine", f.Pos(), "NewHost(deblob(stored program), decoded registers, stored memory, decoded gas, no host calls)", "inner machine is built from ["+abbr(strings.Join(hostArgs, " , "))+"]")
		leak := ""
		for _, s := range hostArgs {
			if strings.Contains(s, "Addition.Program") || strings.Contains(s, "VM.Memory") && !strings.Contains(s, "Read(") || strings.Contains(s, "HostCalls") {
				leak = s
			}
		}
		c.Check(leak == "", "C33.invoke", "PVM.invoke · isolation", f.Pos(), "no outer program, memory or host-call table handed to the inner machine", "outer machine state reaches the inner machine: "+abbr(leak))
		// inner gas/registers come from the 112-byte block
		decOK := 0
		for _, s := range condShapes(f) {
			if strings.Contains(s, "Decode(") && strings.Contains(s, "Read(cell(p0).VM.Memory, "+R(8)+", 112)") {
				decOK++
			}
		}
		decMsg := "gas and registers decoded from the 112-byte block at register 8"
		if decOK != 2 {
			// or by a helper: (g, w) = d(Read(outer memory, register 8, 112)) with d decided as the inverse of E8(g) ++ E8(w_0..12)
			for _, k := range callsIn(f, c.Obj("PVM", "NewHost")) {
				a := k.Common().Args
				ge, isG := stripConv(a[3]).(*ssa.Extract)
				we, isW := stripConv(a[1]).(*ssa.Extract)
				if !isG || !isW || ge.Tuple != we.Tuple {
					continue
				}
				dc, isCall := ge.Tuple.(*ssa.Call)
				if !isCall || dc.Call.StaticCallee() == nil || len(dc.Call.Args) != 1 {
					continue
				}
				if src := exprStr(dc.Call.Args[0], shapeOpts); !strings.Contains(src, "Read(cell(p0).VM.Memory, "+R(8)+", 112)") {
					continue
				}
				if ok, why := bfBlockCodec(dc.Call.StaticCallee(), false); ok {
					decOK = 2
					decMsg = "gas and registers are results of " + dc.Call.StaticCallee().Name() + "(112-byte block at register 8), decided as the inverse of E8(g) ++ E8(w0..w12) (bit provenance)"
				} else {
					decMsg = why
				}
			}
		}
		c.Check(decOK == 2, "C33.invoke", "PVM.invoke · arguments", f.Pos(), decMsg, "gas/registers are not decoded from the 112-byte argument block ("+decMsg+")")
		// resume pc uses the inner bitmask
		for _, k := range callsIn(f, c.Obj("PVM", "skip")) {
			s := exprStr(k.Common().Args[1], shapeOpts)
			c.Check(c33Loose(s) == c33Loose(prog+".Bitmasks"), "C33.invoke", "PVM.invoke · resume skip", k.Pos(), "skip distance from the inner program's bitmask", "skip distance after an inner host call is taken from "+abbr(s))
		}
		// write-back block
		var puts []string
		allInstrs(f, func(in ssa.Instruction) {
			call, ok := in.(*ssa.Call)
			if !ok || call.Call.StaticCallee() == nil || !strings.HasSuffix(call.Call.StaticCallee().String(), "PutUint64") {
				return
			}
			a := call.Call.Args
			dst, val := exprStr(a[len(a)-2], shapeOpts), exprStr(a[len(a)-1], shapeOpts)
			switch {
			case dst == "make([]byte, 112)[:8]" && strings.HasPrefix(val, "u64(PVM.NewHost(") && strings.HasSuffix(val, ".Interpreter.Gas)"):
				puts = append(puts, "gas")
			case dst == "make([]byte, 112)[*:*]" && strings.HasPrefix(val, "PVM.NewHost(") && strings.HasSuffix(val, ".Interpreter.Registers[*]"):
				puts = append(puts, "regs")
			default:
				puts = append(puts, "other:"+dst)
			}
		})
		sort.Strings(puts)
		hasLoop := false
		for _, s := range condShapes(f) {
			if s == "(* < (112 / 8))" {
				hasLoop = true
			}
		}
		wbOK, wbMsg := strings.Join(puts, ",") == "gas,regs" && hasLoop, "E8(gas') then 13 × E8(register) written into the 112-byte block"
		if !wbOK && len(puts) == 0 {
			// or by a helper: Write(outer memory, register 8, e(gas', registers')) with e decided as E8(g) ++ E8(w_0..12)
			for _, k := range callsIn(f, e.memWrite) {
				a := k.Common().Args
				hc, isCall := stripConv(a[len(a)-1]).(*ssa.Call)
				if !isCall || hc.Call.StaticCallee() == nil || len(hc.Call.Args) != 2 {
					continue
				}
				var srcs []string
				for _, x := range hc.Call.Args {
					srcs = append(srcs, c33Loose(exprStr(x, shapeOpts)))
				}
				sort.Strings(srcs)
				fromInner := strings.HasPrefix(srcs[0], "PVM.NewHost(") && strings.HasSuffix(srcs[0], ".Interpreter.Registers") && strings.HasPrefix(srcs[1], "u64(PVM.NewHost(") && strings.HasSuffix(srcs[1], ".Interpreter.Gas)")
				if !fromInner {
					wbMsg = "the block is built from " + strings.Join(srcs, " and ")
					continue
				}
				if ok, why := bfBlockCodec(hc.Call.StaticCallee(), true); ok {
					wbOK, wbMsg = true, hc.Call.StaticCallee().Name()+"(inner gas, inner registers) written at register 8, decided as E8(g') ++ E8(w'0..w'12) (bit provenance)"
				} else {
					wbMsg = why
				}
			}
		}
		c.Check(wbOK, "C33.invoke", "PVM.invoke · write-back", f.Pos(), wbMsg, "result block is filled by ["+strings.Join(puts, ",")+"] "+wbMsg)
		// record update
		var mu *ssa.MapUpdate
		allInstrs(f, func(in ssa.Instruction) {
			if m, ok := in.(*ssa.MapUpdate); ok && exprStr(m.Map, shapeOpts) == MAP {
				mu = m
			}
		})
		if mu == nil {
			c.Bad("C33.invoke", "PVM.invoke · store machine", f.Pos(), "the inner machine's state is never stored back")
		} else {
			c.Check(exprStr(mu.Key, shapeOpts) == R(7), "C33.invoke", "PVM.invoke · same identifier", mu.Pos(), "stored under the invoked identifier", "state stored under a different identifier")
			lit := literalStores(f, "PVM.IntegratedPVMType")
			c.Check(len(lit["Memory"]) == 1 && strings.HasSuffix(lit["Memory"][0], ".Interpreter.Memory"), "C33.invoke", "PVM.invoke · memory", mu.Pos(), "memory ← inner interpreter's memory", "stored memory is "+strings.Join(lit["Memory"], "|"))
			// pc stored on every path before the map update
			var run ssa.Instruction
			for _, k := range callsIn(f, c.Obj("PVM", "Interpreter.SingleStepInvoke")) {
				run = k.(ssa.Instruction)
			}
			isPC := func(in ssa.Instruction) bool {
				st, ok := in.(*ssa.Store)
				if !ok {
					return false
				}
				fa, ok := st.Addr.(*ssa.FieldAddr)
				return ok && fieldName(fa.X.Type(), fa.Field) == "PC" && hasSuffixType(derefType(fa.X.Type()), "PVM.IntegratedPVMType")
			}
			skipPC := run == nil
			if run != nil {
				// every store of the machine record must be preceded by the pc assignment
				allInstrs(f, func(x ssa.Instruction) {
					m2, ok := x.(*ssa.MapUpdate)
					if !ok || exprStr(m2.Map, shapeOpts) != MAP {
						return
					}
					if _, sk := findPath(pathQuery{start: run, target: func(in ssa.Instruction) bool { return in == x }, blocker: isPC}); sk {
						skipPC = true
					}
				})
			}
			c.Check(!skipPC, "C33.invoke", "PVM.invoke · pc", mu.Pos(), "new pc assigned on every path before the state is stored", "the stored machine keeps its old pc on some exit kinds (resuming restarts instead of continuing)")
		}
		// exit mapping
		want := map[int64]int64{0: 1, 1: 2, 2: 4, 3: 5, 4: 3} // code → reason type (HALT=1 PANIC=2 OOG=3 FAULT=4 HOST=5)
		seen := map[int64]bool{}
		allInstrs(f, func(in ssa.Instruction) {
			_, k, isC, ok := e.registerStore(in)
			if !ok || !isC || k != 7 {
				return
			}
			v, isV := constInt(in.(*ssa.Store).Val)
			if !isV || v < 0 || v > 4 {
				return
			}
			seen[v] = true
			pass := condEdges(f, func(x ssa.Value) (bool, bool) {
				s := exprStr(x, shapeOpts)
				return strings.HasPrefix(s, "((PVM.ExitReason).GetReasonType(") && strings.HasSuffix(s, fmt.Sprintf(" == %d)", want[v])), true
			})
			c.Check(guardedBy(f, in, pass), "C33.invoke", fmt.Sprintf("PVM.invoke · exit code %d", v), in.Pos(), "code selected by the matching exit kind", fmt.Sprintf("register 7 ← %d is not selected by exit kind %d", v, want[v]))
		})
		c.Check(len(seen) == 5, "C33.invoke", "PVM.invoke · all exit kinds", f.Pos(), "HALT, PANIC, FAULT, HOST, OOG all mapped", fmt.Sprintf("only %d of 5 exit kinds are mapped", len(seen)))
	}

	// ---- pages
	c.Rule("C33.pages", "pages, followed with the mode r, the range (p, c) and the state of the pages valued: rejects (HUH, no update) r > 4, p < 16, p + c ≥ 2^32/Z_P and, for r > 2, a range with an unmapped or inaccessible page; otherwise touches exactly the pages p..p+c−1: r = 0 removes them, r = 1, 2 installs a page whose contents are made in that iteration with access R / RW, r = 3, 4 changes only the access to R / RW; result OK", 8)
	if f := c.Fn("PVM", "pages"); f != nil {
		const OKv, HUHv = int64(0), int64(-9) // HUH = 2^64 − 9
		type row struct {
			name           string
			r, p, cnt      int64
			mapped, access int64
			huh            bool
			kind           string // "", "delete", "fresh", "access"
			acc            int64
		}
		rows := []row{
			{"r=5", 5, 20, 3, 1, 2, true, "", 0},
			{"r=7", 7, 20, 3, 1, 2, true, "", 0},
			{"p=15", 1, 15, 3, 1, 2, true, "", 0},
			{"p+c=2^20", 1, 1<<20 - 3, 3, 1, 2, true, "", 0},
			{"r=3, a page unmapped", 3, 20, 3, 0, 0, true, "", 0},
			{"r=4, a page inaccessible", 4, 20, 3, 1, 0, true, "", 0},
			{"r=0", 0, 20, 3, 1, 2, false, "delete", 0},
			{"r=0, pages unmapped", 0, 20, 3, 0, 0, false, "delete", 0},
			{"r=1", 1, 20, 3, 0, 0, false, "fresh", 1},
			{"r=2", 2, 20, 3, 1, 1, false, "fresh", 2},
			{"r=3", 3, 20, 3, 1, 2, false, "access", 1},
			{"r=4", 4, 20, 3, 1, 1, false, "access", 2},
			{"r=2, one page", 2, 16, 1, 0, 0, false, "fresh", 2},
		}
		isPagesMap := func(v ssa.Value) bool { return strings.Contains(exprStr(v, shapeOpts), ".Memory.Pages") }
		for _, rw := range rows {
			type upd struct {
				kind string
				key  int64
				acc  string
				at   ssa.Instruction
			}
			var ups []upd
			result := int64(-1)
			undecided := ""
			_, ok := runWithAtomsEnv(f, shapeOpts, func(s string) (int64, bool) {
				switch {
				case s == R(10):
					return rw.r, true
				case s == R(8):
					return rw.p, true
				case s == R(9):
					return rw.cnt, true
				case s == "(PVM.chargeGasAndCheck(cell(p0)) != nil)":
					return 0, true
				case s == MAP+"["+R(7)+"]#1":
					return 1, true
				case strings.HasSuffix(s, "]#1"):
					return rw.mapped, true
				case strings.HasSuffix(s, ".Access"):
					return rw.access, true
				}
				return 0, false
			}, func(in ssa.Instruction, env intEnv) {
				switch x := in.(type) {
				case *ssa.MapUpdate:
					if isPagesMap(x.Map) {
						k, okk := evalInt(x.Key, env, 0)
						if !okk {
							undecided = "the page number of an installed page is not determined"
						}
						acc := ""
						if flds := structLiteralFields(x.Value); flds != nil {
							if a, oka := evalInt(flds["Access"], env, 0); oka {
								acc = fmt.Sprint(a)
							}
							if !c33FreshInIteration(flds["Value"], x) {
								acc += " (contents not made in this iteration)"
							}
						}
						ups = append(ups, upd{"fresh", k, acc, in})
					}
				case *ssa.Call:
					// a result helper: sets register 7 to one of its parameters
					if g := x.Call.StaticCallee(); g != nil && len(g.Blocks) > 0 && g.Pkg == f.Pkg {
						allInstrs(g, func(y ssa.Instruction) {
							if _, kreg, isC, isReg := e.registerStore(y); isReg && isC && kreg == 7 {
								if p, isP := stripConv(y.(*ssa.Store).Val).(*ssa.Parameter); isP {
									for pi, q := range g.Params {
										if q == p && pi < len(x.Call.Args) {
											if v, okv := evalInt(x.Call.Args[pi], env, 0); okv {
												result = v
											}
										}
									}
								}
							}
						})
					}
					if b, isB := x.Call.Value.(*ssa.Builtin); isB && b.Name() == "delete" && isPagesMap(x.Call.Args[0]) {
						k, okk := evalInt(x.Call.Args[1], env, 0)
						if !okk {
							undecided = "the page number of a removed page is not determined"
						}
						ups = append(ups, upd{"delete", k, "", in})
					}
				case *ssa.Store:
					if s := exprStr(x.Addr, shapeOpts); strings.HasSuffix(s, "].Access") && strings.Contains(s, ".Memory.Pages[") {
						var k int64 = -1
						if fa, isFA := x.Addr.(*ssa.FieldAddr); isFA {
							if lk := pageOf(fa.X); lk != nil {
								if kk, okk := evalInt(lk.Index, env, 0); okk {
									k = kk
								}
							}
						}
						acc := ""
						if a, oka := evalInt(x.Val, env, 0); oka {
							acc = fmt.Sprint(a)
						}
						ups = append(ups, upd{"access", k, acc, in})
					}
					if _, kreg, isC, isReg := e.registerStore(in); isReg && isC && kreg == 7 {
						if v, okv := evalInt(x.Val, env, 0); okv {
							result = v
						}
					}
				}
			})
			key := "PVM.pages · " + rw.name
			switch {
			case !ok || undecided != "":
				c.Bad("C33.pages", key, f.Pos(), "the outcome is not decided by the mode, the range and the state of the pages (%s)", undecided)
				continue
			}
			bad := ""
			if rw.huh {
				if len(ups) != 0 || result != HUHv {
					bad = fmt.Sprintf("expected HUH without any page update; got result %d and %d update(s)", result, len(ups))
				}
			} else {
				want := map[int64]bool{}
				for k := rw.p; k < rw.p+rw.cnt; k++ {
					want[k] = true
				}
				got := map[int64]bool{}
				for _, u := range ups {
					if u.kind != rw.kind {
						bad = fmt.Sprintf("a page is updated by %q, the mode asks for %q", u.kind, rw.kind)
					}
					if rw.kind != "delete" && u.acc != fmt.Sprint(rw.acc) {
						bad = fmt.Sprintf("page %d gets access %s, the mode asks for %d", u.key, u.acc, rw.acc)
					}
					got[uint32key(u.key)] = true
				}
				if bad == "" && (len(got) != len(want) || result != OKv) {
					bad = fmt.Sprintf("%d distinct pages updated, result %d; expected the %d pages %d..%d and OK", len(got), result, rw.cnt, rw.p, rw.p+rw.cnt-1)
				}
				for k := range want {
					if bad == "" && !got[k] {
						bad = fmt.Sprintf("page %d of the range is not updated", k)
					}
				}
			}
			c.Check(bad == "", "C33.pages", key, f.Pos(), "as specified", bad)
		}
	}

	// ---- expunge
	c.Rule("C33.expunge", "expunge returns the machine's pc and removes exactly that machine", 2)
	if f := c.Fn("PVM", "expunge"); f != nil {
		okR, okD := false, false
		for _, rv := range e.registerValues(f) {
			if rv.k != 7 {
				continue
			}
			for _, leaf := range phiLeaves(rv.val) {
				if os.Getenv("JAMVERIF_C33DEBUG") != "" {
					fmt.Println("expunge leaf:", c33Loose(exprStr(leaf, shapeOpts)), "want", c33Loose("u64("+M+".PC)"))
				}
				if c33Loose(exprStr(leaf, shapeOpts)) == c33Loose("u64("+M+".PC)") {
					okR = true
				}
			}
		}
		allInstrs(f, func(in ssa.Instruction) {
			if call, ok := in.(*ssa.Call); ok {
				if b, ok := call.Call.Value.(*ssa.Builtin); ok && b.Name() == "delete" && exprStr(call.Call.Args[0], shapeOpts) == MAP && exprStr(call.Call.Args[1], shapeOpts) == R(7) {
					okD = true
				}
			}
		})
		c.Check(okR, "C33.expunge", "PVM.expunge · result", f.Pos(), "register 7 ← pc of machine n", "expunge does not return the machine's pc")
		c.Check(okD, "C33.expunge", "PVM.expunge · delete", f.Pos(), "machine n deleted", "expunge does not delete machine n")
	}

	c.Rule("C33.memory-guards", "peek/poke/invoke/machine read and write guest and inner memories only under matching isReadable/isWriteable guards", 8)
	var fs []*ssa.Function
	for _, n := range []string{"peek", "poke", "invoke", "machine", "export", "historicalLookup"} {
		if f := c.Fn("PVM", n); f != nil {
			fs = append(fs, f)
		}
	}
	e.ruleMemoryGuards("C33.memory-guards", "C33.memory-guards", fs)
	return "Inner-machine host calls decided on SSA: programs only come from DeBlobProgramCode; machine stores the validated bytes with an allocated page table under the lowest unused identifier; invoke runs the stored deblobbed program in isolation from the outer machine, writes gas and registers back, stores memory and pc on every exit kind under the same identifier and maps exit kinds to codes; pages applies each mode to exactly the requested pages; expunge; memory guards of peek/poke. Does not decide the inner machine's execution results.",
		[]string{"canonical expression rendering", "GP B.8 tables for machine/peek/poke/pages/invoke/expunge"}
}

// c33Loose: renderings compared up to what does not change the value: the local cell a value is copied into,
// address-of, and the value component of a two-result map lookup.
func c33Loose(s string) string {
	s = looseForm(s)
	for {
		i := strings.Index(s, "cell(")
		if i < 0 {
			return s
		}
		j := matchParen(s, i+len("cell"))
		if j < 0 {
			return s
		}
		s = s[:i] + s[i+len("cell("):j] + s[j+1:]
	}
}

// isLoopFrom: v is a counting loop variable starting at the constant k.
func isLoopFrom(v ssa.Value, k int64) bool {
	p, ok := stripConv(v).(*ssa.Phi)
	if !ok {
		return false
	}
	for _, e := range distinctEdges(p) {
		if c, isC := constInt(e); isC && c == k {
			return isLoopIndex(p)
		}
	}
	return false
}

func uint32key(k int64) int64 { return int64(uint32(k)) }

// c33FreshInIteration: the contents of an installed page are a slice made inside the innermost loop around the
// installation (or by a helper called there that returns a fresh make) — not a buffer shared between pages.
func c33FreshInIteration(v ssa.Value, at ssa.Instruction) bool {
	v = stripConv(v)
	loops := enclosingLoops(at.Block())
	inLoop := func(b *ssa.BasicBlock) bool { return len(loops) == 0 || loops[0][b] }
	switch x := v.(type) {
	case *ssa.MakeSlice:
		return inLoop(x.Block())
	case *ssa.Slice:
		if a, ok := x.X.(*ssa.Alloc); ok {
			return a.Heap && inLoop(a.Block())
		}
	case *ssa.Call:
		g := x.Call.StaticCallee()
		if g == nil || len(g.Blocks) == 0 || !inLoop(x.Block()) {
			return false
		}
		fresh, n := true, 0
		allInstrs(g, func(in ssa.Instruction) {
			if r, isR := in.(*ssa.Return); isR && len(r.Results) > 0 {
				n++
				if _, mk := stripConv(resolveLocal(retResults(r)[0])).(*ssa.MakeSlice); !mk {
					fresh = false
				}
			}
		})
		return fresh && n > 0
	}
	return false
}
