package main

import (
	"go/token"
	"go/types"

	"golang.org/x/tools/go/ssa"
)

// evalInt evaluates a pure integer SSA expression under an environment that
// fixes len(param) values and integer parameters. It is expression
// evaluation (constant folding with symbolic inputs instantiated), not
// execution of the program: no memory, no calls, no control flow except the
// min/max builtins. ok=false when the expression contains anything else.
type intEnv struct {
	lens    map[ssa.Value]int64 // len(v) for slice-typed values
	params  map[ssa.Value]int64
	globals map[string]int64 // package-level variable name -> value
}

func wrapToType(x int64, t types.Type) int64 {
	b, ok := t.Underlying().(*types.Basic)
	if !ok {
		return x
	}
	switch b.Kind() {
	case types.Uint8:
		return int64(uint8(x))
	case types.Uint16:
		return int64(uint16(x))
	case types.Uint32:
		return int64(uint32(x))
	case types.Int8:
		return int64(int8(x))
	case types.Int16:
		return int64(int16(x))
	case types.Int32:
		return int64(int32(x))
	}
	return x
}

func evalInt(v ssa.Value, env intEnv, d int) (int64, bool) {
	if d > 40 {
		return 0, false
	}
	if k, ok := env.params[v]; ok {
		return k, true
	}
	switch x := v.(type) {
	case *ssa.Const:
		return constInt(x)
	case *ssa.UnOp:
		if g, ok := x.X.(*ssa.Global); ok && x.Op == token.MUL {
			if k, ok := env.globals[g.Name()]; ok {
				return k, true
			}
		}
		return 0, false
	case *ssa.Convert:
		k, ok := evalInt(x.X, env, d+1)
		if !ok {
			return 0, false
		}
		return wrapToType(k, x.Type()), true
	case *ssa.ChangeType:
		return evalInt(x.X, env, d+1)
	case *ssa.BinOp:
		a, ok1 := evalInt(x.X, env, d+1)
		b, ok2 := evalInt(x.Y, env, d+1)
		if !ok1 || !ok2 {
			return 0, false
		}
		var r int64
		switch x.Op {
		case token.ADD:
			r = a + b
		case token.SUB:
			r = a - b
		case token.MUL:
			r = a * b
		case token.QUO:
			if b == 0 {
				return 0, false
			}
			r = a / b
		case token.REM:
			if b == 0 {
				return 0, false
			}
			r = a % b
		case token.SHL:
			if b < 0 || b > 62 {
				return 0, false
			}
			r = a << uint(b)
		case token.SHR:
			if b < 0 || b > 63 {
				return 0, false
			}
			r = a >> uint(b)
		case token.AND:
			r = a & b
		case token.OR:
			r = a | b
		default:
			return 0, false
		}
		return wrapToType(r, x.Type()), true
	case *ssa.Call:
		if bi, ok := x.Call.Value.(*ssa.Builtin); ok {
			switch bi.Name() {
			case "len":
				if k, ok := env.lens[x.Call.Args[0]]; ok {
					return k, true
				}
			case "min", "max":
				best, have := int64(0), false
				for _, a := range x.Call.Args {
					k, ok := evalInt(a, env, d+1)
					if !ok {
						return 0, false
					}
					if !have || (bi.Name() == "min" && k < best) || (bi.Name() == "max" && k > best) {
						best, have = k, true
					}
				}
				return best, have
			}
		}
	}
	return 0, false
}
