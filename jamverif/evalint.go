package main

import (
	"go/constant"
	"go/token"
	"go/types"
	"math/bits"
	"strings"

	"golang.org/x/tools/go/ssa"
)

// evalInt evaluates a pure integer SSA expression under an environment that
// fixes len(param) values and integer parameters. It is expression
// evaluation (constant folding with symbolic inputs instantiated), not
// execution of the program: no memory, no calls, no control flow except the
// min/max builtins. ok=false when the expression contains anything else.
type intEnv struct {
	lens    map[ssa.Value]int64 // len(v) for slice-typed values
	params  map[ssa.Value]int64
	globals map[string]int64 // package-level variable name -> value
	fuel    *int             // shared step budget for helper/loop evaluation
	stack   int              // helper inlining depth
	unknown map[ssa.Value]bool
	closed  bool // every phi that matters has been assigned by the walker
}

func wrapToType(x int64, t types.Type) int64 {
	b, ok := t.Underlying().(*types.Basic)
	if !ok {
		return x
	}
	switch b.Kind() {
	case types.Uint8:
		return int64(uint8(x))
	case types.Uint16:
		return int64(uint16(x))
	case types.Uint32:
		return int64(uint32(x))
	case types.Int8:
		return int64(int8(x))
	case types.Int16:
		return int64(int16(x))
	case types.Int32:
		return int64(int32(x))
	}
	return x
}

func evalInt(v ssa.Value, env intEnv, d int) (int64, bool) {
	if d > 40 {
		return 0, false
	}
	if k, ok := env.params[v]; ok {
		return k, true
	}
	switch x := v.(type) {
	case *ssa.Const:
		if x.Value != nil && x.Value.Kind() == constant.Bool {
			if constant.BoolVal(x.Value) {
				return 1, true
			}
			return 0, true
		}
		return constInt(x)
	case *ssa.UnOp:
		if g, ok := x.X.(*ssa.Global); ok && x.Op == token.MUL {
			if k, ok := env.globals[g.Name()]; ok {
				return k, true
			}
		}
		switch x.Op {
		case token.NOT:
			if k, ok := evalInt(x.X, env, d+1); ok {
				return 1 - k, true
			}
		case token.SUB:
			if k, ok := evalInt(x.X, env, d+1); ok {
				return wrapToType(-k, x.Type()), true
			}
		case token.XOR:
			if k, ok := evalInt(x.X, env, d+1); ok {
				return wrapToType(^k, x.Type()), true
			}
		}
		return 0, false
	case *ssa.Convert:
		k, ok := evalInt(x.X, env, d+1)
		if !ok {
			return 0, false
		}
		return wrapToType(k, x.Type()), true
	case *ssa.ChangeType:
		return evalInt(x.X, env, d+1)
	case *ssa.BinOp:
		a, ok1 := evalInt(x.X, env, d+1)
		b, ok2 := evalInt(x.Y, env, d+1)
		if !ok1 || !ok2 {
			return 0, false
		}
		var r int64
		switch x.Op {
		case token.ADD:
			r = a + b
		case token.SUB:
			r = a - b
		case token.MUL:
			r = a * b
		case token.QUO:
			if b == 0 {
				return 0, false
			}
			r = a / b
		case token.REM:
			if b == 0 {
				return 0, false
			}
			r = a % b
		case token.SHL:
			if b < 0 || b > 62 {
				return 0, false
			}
			r = a << uint(b)
		case token.SHR:
			if b < 0 || b > 63 {
				return 0, false
			}
			r = a >> uint(b)
		case token.AND:
			r = a & b
		case token.OR:
			r = a | b
		case token.XOR:
			r = a ^ b
		case token.AND_NOT:
			r = a &^ b
		case token.EQL, token.NEQ, token.LSS, token.LEQ, token.GTR, token.GEQ:
			cmp := 0
			if isUnsignedT(x.X.Type()) && intBits(x.X.Type()) == 64 {
				ua, ub := uint64(a), uint64(b)
				if ua < ub {
					cmp = -1
				} else if ua > ub {
					cmp = 1
				}
			} else if a < b {
				cmp = -1
			} else if a > b {
				cmp = 1
			}
			res := false
			switch x.Op {
			case token.EQL:
				res = cmp == 0
			case token.NEQ:
				res = cmp != 0
			case token.LSS:
				res = cmp < 0
			case token.LEQ:
				res = cmp <= 0
			case token.GTR:
				res = cmp > 0
			case token.GEQ:
				res = cmp >= 0
			}
			if res {
				return 1, true
			}
			return 0, true
		default:
			return 0, false
		}
		return wrapToType(r, x.Type()), true
	case *ssa.Call:
		if bi, ok := x.Call.Value.(*ssa.Builtin); ok {
			switch bi.Name() {
			case "len":
				if k, ok := lenOfValue(x.Call.Args[0], env, d+1); ok {
					return k, true
				}
			case "min", "max":
				best, have := int64(0), false
				for _, a := range x.Call.Args {
					k, ok := evalInt(a, env, d+1)
					if !ok {
						return 0, false
					}
					if !have || (bi.Name() == "min" && k < best) || (bi.Name() == "max" && k > best) {
						best, have = k, true
					}
				}
				return best, have
			}
			return 0, false
		}
		if sc := x.Call.StaticCallee(); sc != nil {
			if r, ok := evalBitsCall(sc.String(), x, env, d); ok {
				return r, true
			}
			if rs, ok := evalHelper(sc, x.Call.Args, env, d); ok && len(rs) == 1 {
				return rs[0], true
			}
		}
	case *ssa.Extract:
		if call, ok := x.Tuple.(*ssa.Call); ok {
			if sc := call.Call.StaticCallee(); sc != nil {
				if rs, ok := evalHelper(sc, call.Call.Args, env, d); ok && x.Index < len(rs) {
					return rs[x.Index], true
				}
			}
		}
	case *ssa.Phi:
		return evalPhi(x, env, d)
	}
	return 0, false
}

func evalBitsCall(name string, x *ssa.Call, env intEnv, d int) (int64, bool) {
	if !strings.HasPrefix(name, "math/bits.") || len(x.Call.Args) != 1 {
		return 0, false
	}
	a, ok := evalInt(x.Call.Args[0], env, d+1)
	if !ok {
		return 0, false
	}
	u := uint64(a)
	switch strings.TrimPrefix(name, "math/bits.") {
	case "Len", "Len64":
		return int64(bits.Len64(u)), true
	case "Len32":
		return int64(bits.Len32(uint32(u))), true
	case "Len16":
		return int64(bits.Len16(uint16(u))), true
	case "Len8":
		return int64(bits.Len8(uint8(u))), true
	case "LeadingZeros", "LeadingZeros64":
		return int64(bits.LeadingZeros64(u)), true
	case "LeadingZeros32":
		return int64(bits.LeadingZeros32(uint32(u))), true
	case "TrailingZeros", "TrailingZeros64":
		return int64(bits.TrailingZeros64(u)), true
	case "TrailingZeros32":
		return int64(bits.TrailingZeros32(uint32(u))), true
	case "OnesCount", "OnesCount64":
		return int64(bits.OnesCount64(u)), true
	}
	return 0, false
}

// lenOfValue: the length of a slice-typed operand under env (a value whose
// length is fixed by env, or a reslice of one).
func lenOfValue(v ssa.Value, env intEnv, d int) (int64, bool) {
	if k, ok := env.lens[v]; ok {
		return k, true
	}
	switch x := v.(type) {
	case *ssa.ChangeType:
		return lenOfValue(x.X, env, d+1)
	case *ssa.Slice:
		n, ok := lenOfValue(x.X, env, d+1)
		if !ok {
			return 0, false
		}
		lo, hi := int64(0), n
		if x.Low != nil {
			if lo, ok = evalInt(x.Low, env, d+1); !ok {
				return 0, false
			}
		}
		if x.High != nil {
			if hi, ok = evalInt(x.High, env, d+1); !ok {
				return 0, false
			}
		}
		if lo < 0 || hi < lo || hi > n {
			return 0, false
		}
		return hi - lo, true
	}
	return 0, false
}

// evalHelper evaluates a call to a module function whose result depends only
// on integer arguments and slice lengths: the callee's blocks are followed
// from the entry along the branch each (evaluable) condition selects, with a
// step budget; anything touching memory or an unknown condition gives ok=false.
func evalHelper(f *ssa.Function, args []ssa.Value, env intEnv, d int) ([]int64, bool) {
	if f == nil || len(f.Blocks) == 0 || f.Pkg == nil || !strings.HasPrefix(f.Pkg.Pkg.Path(), modPath) || env.stack > 6 || len(args) != len(f.Params) {
		return nil, false
	}
	sub := intEnv{lens: map[ssa.Value]int64{}, params: map[ssa.Value]int64{}, globals: env.globals, fuel: env.fuel, stack: env.stack + 1, closed: true, unknown: map[ssa.Value]bool{}}
	if sub.fuel == nil {
		n := 20000
		sub.fuel = &n
	}
	for i, p := range f.Params {
		if isIntegerT(p.Type()) || isBoolT(p.Type()) {
			k, ok := evalInt(args[i], env, d+1)
			if !ok {
				return nil, false
			}
			sub.params[p] = k
		} else if n, ok := lenOfValue(args[i], env, d+1); ok {
			sub.lens[p] = n
		}
	}
	ret := walkBlocks(f.Blocks[0], nil, sub, func(b *ssa.BasicBlock) bool { return false })
	if ret == nil {
		return nil, false
	}
	r, ok := ret.Instrs[len(ret.Instrs)-1].(*ssa.Return)
	if !ok {
		return nil, false
	}
	var out []int64
	for _, rv := range r.Results {
		k, ok := evalInt(rv, sub, 0)
		if !ok {
			return nil, false
		}
		out = append(out, k)
	}
	return out, true
}

// walkBlocks follows control flow from block b (entered from pred `from`),
// assigning phis on every block entry, until a block ends in Return / Panic or
// stop(b) holds. It returns the last block, or nil when a condition cannot be
// evaluated or the budget runs out.
func walkBlocks(b, from *ssa.BasicBlock, env intEnv, stop func(*ssa.BasicBlock) bool) *ssa.BasicBlock {
	for {
		if *env.fuel <= 0 {
			return nil
		}
		*env.fuel--
		if from != nil {
			pi := -1
			for i, p := range b.Preds {
				if p == from {
					pi = i
				}
			}
			if pi < 0 {
				return nil
			}
			vals := map[*ssa.Phi]int64{}
			var unknown []*ssa.Phi
			for _, in := range b.Instrs {
				p, ok := in.(*ssa.Phi)
				if !ok {
					break
				}
				if !isIntegerT(p.Type()) && !isBoolT(p.Type()) {
					if n, ok := lenOfValue(p.Edges[pi], env, 0); ok {
						env.lens[p] = n
					} else {
						delete(env.lens, p)
					}
					continue
				}
				if k, ok := evalInt(p.Edges[pi], env, 0); ok {
					vals[p] = k
				} else {
					unknown = append(unknown, p)
				}
			}
			for p, k := range vals {
				env.params[p] = k
			}
			for p := range vals {
				if env.unknown != nil {
					delete(env.unknown, p)
				}
			}
			for _, p := range unknown {
				delete(env.params, p)
				if env.unknown != nil {
					env.unknown[p] = true
				}
			}
		}
		if stop(b) {
			return b
		}
		switch t := b.Instrs[len(b.Instrs)-1].(type) {
		case *ssa.Return:
			return b
		case *ssa.Jump:
			from, b = b, b.Succs[0]
		case *ssa.If:
			k, ok := evalInt(t.Cond, env, 0)
			if !ok {
				return nil
			}
			if k != 0 {
				from, b = b, b.Succs[0]
			} else {
				from, b = b, b.Succs[1]
			}
		default:
			return nil
		}
	}
}

// evalPhi: a phi of the function under evaluation. Inside evalHelper the
// walker has already assigned it (env.params). Otherwise: a loop-header phi of
// a pure integer loop is obtained by following the loop from its entry values
// until it exits; an if/else merge is resolved by following the branch that
// the (evaluable) condition at the immediate dominator selects.
func evalPhi(p *ssa.Phi, env intEnv, d int) (int64, bool) {
	if env.unknown != nil && env.unknown[p] {
		return 0, false
	}
	if env.closed || env.stack > 4 || d > 30 {
		return 0, false // inside a helper every reachable phi is assigned by the walker
	}
	b := p.Block()
	sub := intEnv{lens: map[ssa.Value]int64{}, params: map[ssa.Value]int64{}, globals: env.globals, fuel: env.fuel, stack: env.stack + 1, unknown: map[ssa.Value]bool{}}
	for k, v := range env.lens {
		sub.lens[k] = v
	}
	for k, v := range env.params {
		sub.params[k] = v
	}
	if sub.fuel == nil {
		n := 20000
		sub.fuel = &n
	}
	// loop header?
	var backs, entries []*ssa.BasicBlock
	for _, pr := range b.Preds {
		if b.Dominates(pr) {
			backs = append(backs, pr)
		} else {
			entries = append(entries, pr)
		}
	}
	if len(backs) > 0 {
		if len(entries) != 1 {
			return 0, false
		}
		inLoop := map[*ssa.BasicBlock]bool{b: true}
		work := append([]*ssa.BasicBlock{}, backs...)
		for len(work) > 0 {
			x := work[len(work)-1]
			work = work[:len(work)-1]
			if inLoop[x] {
				continue
			}
			inLoop[x] = true
			work = append(work, x.Preds...)
		}
		// values the entry edge carries must themselves be evaluable outside the loop
		last := walkBlocks(b, entries[0], sub, func(x *ssa.BasicBlock) bool { return !inLoop[x] })
		if last == nil || inLoop[last] {
			return 0, false
		}
		k, ok := sub.params[p]
		return k, ok && !sub.unknown[p]
	}
	// merge: follow from the immediate dominator
	dom := b.Idom()
	if dom == nil {
		return 0, false
	}
	var arrivedFrom *ssa.BasicBlock
	cur, from := dom, (*ssa.BasicBlock)(nil)
	// step once out of dom, then walk until b
	first := true
	last := walkBlocks(cur, from, sub, func(x *ssa.BasicBlock) bool {
		if first {
			first = false
			return false
		}
		return x == b
	})
	_ = arrivedFrom
	if last != b {
		return 0, false
	}
	k, ok := sub.params[p]
	return k, ok && !sub.unknown[p]
}
