package main

import (
	"fmt"
	"go/constant"
	"go/token"
	"go/types"
	"math"
	"math/bits"
	"os"
	"strings"

	"golang.org/x/tools/go/ssa"
)

// evalInt evaluates a pure integer SSA expression under an environment that
// fixes len(param) values and integer parameters. It is expression
// evaluation (constant folding with symbolic inputs instantiated), not
// execution of the program: no memory, no calls, no control flow except the
// min/max builtins. ok=false when the expression contains anything else.
type intEnv struct {
	lens      map[ssa.Value]int64 // len(v) for slice-typed values
	params    map[ssa.Value]int64
	globals   map[string]int64 // package-level variable name -> value
	fuel      *int             // shared step budget for helper/loop evaluation
	stack     int              // helper inlining depth
	unknown   map[ssa.Value]bool
	closed    bool                          // every phi that matters has been assigned by the walker
	flens     map[string]int64              // len of a slice-typed struct field loaded through a parameter, by field name
	cells     map[ssa.Value]int64           // content of an address-valued operand (captured variable)
	opaque    func(ssa.Value) (int64, bool) // rule-supplied inputs for designated sub-expressions
	watch     func(ssa.Instruction, intEnv) // called for every instruction of every block the walker executes
	skipLoops bool                          // step over inner loops whose condition cannot be evaluated
	choice    map[*ssa.Phi]ssa.Value        // edge taken for phis that are neither integers nor slices
	offs      map[ssa.Value]int64           // for slice-valued phis: start offset within bases[phi]
	bases     map[ssa.Value]ssa.Value
}

func wrapToType(x int64, t types.Type) int64 {
	b, ok := t.Underlying().(*types.Basic)
	if !ok {
		return x
	}
	switch b.Kind() {
	case types.Uint8:
		return int64(uint8(x))
	case types.Uint16:
		return int64(uint16(x))
	case types.Uint32:
		return int64(uint32(x))
	case types.Int8:
		return int64(int8(x))
	case types.Int16:
		return int64(int16(x))
	case types.Int32:
		return int64(int32(x))
	}
	return x
}

func evalInt(v ssa.Value, env intEnv, d int) (int64, bool) {
	if d > 40 {
		return 0, false
	}
	if k, ok := env.params[v]; ok {
		return k, true
	}
	if env.opaque != nil {
		if k, ok := env.opaque(v); ok {
			return k, true
		}
	}
	switch x := v.(type) {
	case *ssa.Const:
		if x.Value != nil && x.Value.Kind() == constant.Bool {
			if constant.BoolVal(x.Value) {
				return 1, true
			}
			return 0, true
		}
		return constInt(x)
	case *ssa.UnOp:
		if g, ok := x.X.(*ssa.Global); ok && x.Op == token.MUL {
			if k, ok := env.globals[g.Name()]; ok {
				return k, true
			}
		}
		if x.Op == token.MUL {
			if k, ok := env.cells[x.X]; ok {
				return k, true
			}
			if a, ok := x.X.(*ssa.Alloc); ok {
				if sv := uniqueStore(a); sv != nil && (isIntegerT(sv.Type()) || isBoolT(sv.Type())) {
					return evalInt(sv, env, d+1)
				}
			}
			return 0, false
		}
		switch x.Op {
		case token.NOT:
			if k, ok := evalInt(x.X, env, d+1); ok {
				return 1 - k, true
			}
		case token.SUB:
			if k, ok := evalInt(x.X, env, d+1); ok {
				return wrapToType(-k, x.Type()), true
			}
		case token.XOR:
			if k, ok := evalInt(x.X, env, d+1); ok {
				return wrapToType(^k, x.Type()), true
			}
		}
		return 0, false
	case *ssa.Convert:
		if isFloatT(x.X.Type()) {
			fv, ok := evalFloat(x.X, env, d+1)
			if !ok || fv != fv || fv > 9e18 || fv < -9e18 {
				return 0, false
			}
			return wrapToType(int64(fv), x.Type()), true
		}
		k, ok := evalInt(x.X, env, d+1)
		if !ok {
			return 0, false
		}
		return wrapToType(k, x.Type()), true
	case *ssa.ChangeType:
		return evalInt(x.X, env, d+1)
	case *ssa.BinOp:
		a, ok1 := evalInt(x.X, env, d+1)
		b, ok2 := evalInt(x.Y, env, d+1)
		if !ok1 || !ok2 {
			return 0, false
		}
		var r int64
		switch x.Op {
		case token.ADD:
			r = a + b
		case token.SUB:
			r = a - b
		case token.MUL:
			r = a * b
		case token.QUO:
			if b == 0 {
				return 0, false
			}
			r = a / b
		case token.REM:
			if b == 0 {
				return 0, false
			}
			r = a % b
		case token.SHL:
			if b < 0 || b > 62 {
				return 0, false
			}
			r = a << uint(b)
		case token.SHR:
			if b < 0 || b > 63 {
				return 0, false
			}
			r = a >> uint(b)
		case token.AND:
			r = a & b
		case token.OR:
			r = a | b
		case token.XOR:
			r = a ^ b
		case token.AND_NOT:
			r = a &^ b
		case token.EQL, token.NEQ, token.LSS, token.LEQ, token.GTR, token.GEQ:
			cmp := 0
			if isUnsignedT(x.X.Type()) && intBits(x.X.Type()) == 64 {
				ua, ub := uint64(a), uint64(b)
				if ua < ub {
					cmp = -1
				} else if ua > ub {
					cmp = 1
				}
			} else if a < b {
				cmp = -1
			} else if a > b {
				cmp = 1
			}
			res := false
			switch x.Op {
			case token.EQL:
				res = cmp == 0
			case token.NEQ:
				res = cmp != 0
			case token.LSS:
				res = cmp < 0
			case token.LEQ:
				res = cmp <= 0
			case token.GTR:
				res = cmp > 0
			case token.GEQ:
				res = cmp >= 0
			}
			if res {
				return 1, true
			}
			return 0, true
		default:
			return 0, false
		}
		return wrapToType(r, x.Type()), true
	case *ssa.Call:
		if bi, ok := x.Call.Value.(*ssa.Builtin); ok {
			switch bi.Name() {
			case "len":
				if k, ok := lenOfValue(x.Call.Args[0], env, d+1); ok {
					return k, true
				}
			case "min", "max":
				best, have := int64(0), false
				for _, a := range x.Call.Args {
					k, ok := evalInt(a, env, d+1)
					if !ok {
						return 0, false
					}
					if !have || (bi.Name() == "min" && k < best) || (bi.Name() == "max" && k > best) {
						best, have = k, true
					}
				}
				return best, have
			}
			return 0, false
		}
		if sc := x.Call.StaticCallee(); sc != nil {
			if r, ok := evalBitsCall(sc.String(), x, env, d); ok {
				return r, true
			}
			mc, _ := x.Call.Value.(*ssa.MakeClosure)
			if rs, ok := evalHelperCall(sc, mc, x.Call.Args, env, d); ok && len(rs) == 1 {
				return rs[0], true
			}
		}
	case *ssa.Extract:
		if call, ok := x.Tuple.(*ssa.Call); ok {
			if sc := call.Call.StaticCallee(); sc != nil {
				if rs, ok := evalHelper(sc, call.Call.Args, env, d); ok && x.Index < len(rs) {
					return rs[x.Index], true
				}
			}
		}
	case *ssa.Phi:
		return evalPhi(x, env, d)
	}
	return 0, false
}

func evalBitsCall(name string, x *ssa.Call, env intEnv, d int) (int64, bool) {
	if !strings.HasPrefix(name, "math/bits.") || len(x.Call.Args) != 1 {
		return 0, false
	}
	a, ok := evalInt(x.Call.Args[0], env, d+1)
	if !ok {
		return 0, false
	}
	u := uint64(a)
	switch strings.TrimPrefix(name, "math/bits.") {
	case "Len", "Len64":
		return int64(bits.Len64(u)), true
	case "Len32":
		return int64(bits.Len32(uint32(u))), true
	case "Len16":
		return int64(bits.Len16(uint16(u))), true
	case "Len8":
		return int64(bits.Len8(uint8(u))), true
	case "LeadingZeros", "LeadingZeros64":
		return int64(bits.LeadingZeros64(u)), true
	case "LeadingZeros32":
		return int64(bits.LeadingZeros32(uint32(u))), true
	case "TrailingZeros", "TrailingZeros64":
		return int64(bits.TrailingZeros64(u)), true
	case "TrailingZeros32":
		return int64(bits.TrailingZeros32(uint32(u))), true
	case "OnesCount", "OnesCount64":
		return int64(bits.OnesCount64(u)), true
	}
	return 0, false
}

// lenOfValue: the length of a slice-typed operand under env (a value whose
// length is fixed by env, or a reslice of one).
func lenOfValue(v ssa.Value, env intEnv, d int) (int64, bool) {
	if k, ok := env.lens[v]; ok {
		return k, true
	}
	switch x := v.(type) {
	case *ssa.UnOp:
		if fa, ok := x.X.(*ssa.FieldAddr); ok && x.Op == token.MUL && env.flens != nil {
			if k, ok := env.flens[fieldName(fa.X.Type(), fa.Field)]; ok {
				return k, true
			}
		}
		if a, ok := x.X.(*ssa.Alloc); ok && x.Op == token.MUL {
			if sv := singleStore(a); sv != nil {
				return lenOfValue(sv, env, d+1)
			}
		}
	case *ssa.ChangeType:
		return lenOfValue(x.X, env, d+1)
	case *ssa.Slice:
		n, ok := lenOfValue(x.X, env, d+1)
		if !ok {
			return 0, false
		}
		lo, hi := int64(0), n
		if x.Low != nil {
			if lo, ok = evalInt(x.Low, env, d+1); !ok {
				return 0, false
			}
		}
		if x.High != nil {
			if hi, ok = evalInt(x.High, env, d+1); !ok {
				return 0, false
			}
		}
		if lo < 0 || hi < lo || hi > n {
			return 0, false
		}
		return hi - lo, true
	}
	return 0, false
}

// evalHelper evaluates a call to a module function whose result depends only
// on integer arguments and slice lengths: the callee's blocks are followed
// from the entry along the branch each (evaluable) condition selects, with a
// step budget; anything touching memory or an unknown condition gives ok=false.
func evalHelper(f *ssa.Function, args []ssa.Value, env intEnv, d int) ([]int64, bool) {
	return evalHelperCall(f, nil, args, env, d)
}

func inModule(f *ssa.Function) bool {
	pk := f.Pkg
	if pk == nil && f.Parent() != nil {
		pk = f.Parent().Pkg
	}
	return pk != nil && strings.HasPrefix(pk.Pkg.Path(), modPath)
}

func evalHelperCall(f *ssa.Function, closure *ssa.MakeClosure, args []ssa.Value, env intEnv, d int) ([]int64, bool) {
	if f == nil || len(f.Blocks) == 0 || !inModule(f) || env.stack > 6 || len(args) != len(f.Params) {
		return nil, false
	}
	sub := intEnv{lens: map[ssa.Value]int64{}, params: map[ssa.Value]int64{}, globals: env.globals, fuel: env.fuel, stack: env.stack + 1, closed: true, unknown: map[ssa.Value]bool{}, flens: env.flens, cells: map[ssa.Value]int64{}, opaque: env.opaque}
	if sub.fuel == nil {
		n := 20000
		sub.fuel = &n
	}
	for i, p := range f.Params {
		if isIntegerT(p.Type()) || isBoolT(p.Type()) {
			k, ok := evalInt(args[i], env, d+1)
			if !ok {
				return nil, false
			}
			sub.params[p] = k
		} else if n, ok := lenOfValue(args[i], env, d+1); ok {
			sub.lens[p] = n
		}
	}
	if closure != nil {
		for i, fv := range f.FreeVars {
			if i >= len(closure.Bindings) {
				break
			}
			b := closure.Bindings[i]
			if k, ok := env.cells[b]; ok {
				sub.cells[fv] = k
				continue
			}
			if a, ok := b.(*ssa.Alloc); ok {
				// a captured variable assigned once (the closure only reads it)
				var sv ssa.Value
				n := 0
				for _, r := range *a.Referrers() {
					if st, ok := r.(*ssa.Store); ok && st.Addr == ssa.Value(a) {
						sv = st.Val
						n++
					}
				}
				if n == 1 && (isIntegerT(sv.Type()) || isBoolT(sv.Type())) && !storesThroughFreeVar(f, fv) {
					if k, ok := evalInt(sv, env, d+1); ok {
						sub.cells[fv] = k
					}
				}
			}
		}
	}
	return runFunc(f, sub)
}

// runFunc follows f from its entry under env and evaluates the results of the
// return it reaches; results that are not integers are reported as 0.
func runFunc(f *ssa.Function, sub intEnv) ([]int64, bool) {
	if sub.fuel == nil {
		n := 20000
		sub.fuel = &n
	}
	ret := walkBlocks(f.Blocks[0], nil, sub, func(b *ssa.BasicBlock) bool { return false })
	if ret == nil {
		return nil, false
	}
	r, ok := ret.Instrs[len(ret.Instrs)-1].(*ssa.Return)
	if !ok {
		return nil, false
	}
	var out []int64
	for _, rv := range r.Results {
		if !isIntegerT(rv.Type()) && !isBoolT(rv.Type()) {
			out = append(out, 0)
			continue
		}
		k, ok := evalInt(rv, sub, 0)
		if !ok {
			return nil, false
		}
		out = append(out, k)
	}
	return out, true
}

func isFloatT(t types.Type) bool {
	b, ok := t.Underlying().(*types.Basic)
	return ok && b.Info()&types.IsFloat != 0
}

// evalFloat: float64 expressions over converted integers and math.Sqrt /
// Floor / Ceil / Round / Trunc (IEEE semantics of the host, as compiled code has).
func evalFloat(v ssa.Value, env intEnv, d int) (float64, bool) {
	if d > 40 {
		return 0, false
	}
	switch x := v.(type) {
	case *ssa.Const:
		if x.Value == nil {
			return 0, false
		}
		f, _ := constant.Float64Val(constant.ToFloat(x.Value))
		return f, true
	case *ssa.Convert:
		if isFloatT(x.X.Type()) {
			return evalFloat(x.X, env, d+1)
		}
		k, ok := evalInt(x.X, env, d+1)
		if !ok {
			return 0, false
		}
		if isUnsignedT(x.X.Type()) && intBits(x.X.Type()) == 64 {
			return float64(uint64(k)), true
		}
		return float64(k), true
	case *ssa.ChangeType:
		return evalFloat(x.X, env, d+1)
	case *ssa.BinOp:
		a, ok1 := evalFloat(x.X, env, d+1)
		b, ok2 := evalFloat(x.Y, env, d+1)
		if !ok1 || !ok2 {
			return 0, false
		}
		switch x.Op {
		case token.ADD:
			return a + b, true
		case token.SUB:
			return a - b, true
		case token.MUL:
			return a * b, true
		case token.QUO:
			return a / b, true
		}
	case *ssa.Call:
		sc := x.Call.StaticCallee()
		if sc == nil || len(x.Call.Args) != 1 {
			return 0, false
		}
		a, ok := evalFloat(x.Call.Args[0], env, d+1)
		if !ok {
			return 0, false
		}
		switch sc.String() {
		case "math.Sqrt":
			return math.Sqrt(a), true
		case "math.Floor":
			return math.Floor(a), true
		case "math.Ceil":
			return math.Ceil(a), true
		case "math.Round":
			return math.Round(a), true
		case "math.Trunc":
			return math.Trunc(a), true
		}
	}
	return 0, false
}

// walkBlocks follows control flow from block b (entered from pred `from`),
// assigning phis on every block entry, until a block ends in Return / Panic or
// stop(b) holds. It returns the last block, or nil when a condition cannot be
// evaluated or the budget runs out.
func walkBlocks(b, from *ssa.BasicBlock, env intEnv, stop func(*ssa.BasicBlock) bool) *ssa.BasicBlock {
	for {
		if *env.fuel <= 0 {
			return nil
		}
		*env.fuel--
		if from != nil {
			pi := -1
			for i, p := range b.Preds {
				if p == from {
					pi = i
				}
			}
			if pi < 0 {
				return nil
			}
			vals := map[*ssa.Phi]int64{}
			var unknown []*ssa.Phi
			for _, in := range b.Instrs {
				p, ok := in.(*ssa.Phi)
				if !ok {
					break
				}
				if !isIntegerT(p.Type()) && !isBoolT(p.Type()) {
					if env.choice != nil {
						env.choice[p] = p.Edges[pi]
					}
					if n, ok := lenOfValue(p.Edges[pi], env, 0); ok {
						env.lens[p] = n
						if env.offs != nil {
							if b, lo, _, ok := extentOf(p.Edges[pi], env, 0); ok {
								env.offs[p], env.bases[p] = lo, b
							} else {
								delete(env.offs, p)
								delete(env.bases, p)
							}
						}
					} else {
						delete(env.lens, p)
					}
					continue
				}
				if k, ok := evalInt(p.Edges[pi], env, 0); ok {
					vals[p] = k
				} else {
					unknown = append(unknown, p)
				}
			}
			for p, k := range vals {
				env.params[p] = k
			}
			for p := range vals {
				if env.unknown != nil {
					delete(env.unknown, p)
				}
			}
			for _, p := range unknown {
				delete(env.params, p)
				if env.unknown != nil {
					env.unknown[p] = true
				}
			}
		}
		if stop(b) {
			return b
		}
		if env.watch != nil {
			for _, in := range b.Instrs {
				env.watch(in, env)
			}
		}
		switch t := b.Instrs[len(b.Instrs)-1].(type) {
		case *ssa.Return:
			return b
		case *ssa.Jump:
			from, b = b, b.Succs[0]
		case *ssa.If:
			k, ok := evalInt(t.Cond, env, 0)
			if !ok {
				// an inner loop whose trip count is not an evaluable quantity is
				// stepped over: its header phis (and everything computed from
				// them) become unknown, control continues at the loop's exit
				if env.skipLoops {
					if _, in := natLoop(b); in != nil {
						if h, _ := natLoop(b); h == b {
							var exit *ssa.BasicBlock
							for _, s := range b.Succs {
								if !in[s] {
									exit = s
								}
							}
							if exit != nil {
								for lb := range in {
									for _, ins := range lb.Instrs {
										if p, isPhi := ins.(*ssa.Phi); isPhi {
											delete(env.params, p)
											delete(env.lens, p)
											if env.unknown != nil {
												env.unknown[p] = true
											}
										}
									}
								}
								from, b = b, exit
								continue
							}
						}
					}
				}
				if os.Getenv("JAMVERIF_EVALDEBUG") != "" {
					fmt.Fprintf(os.Stderr, "evaldebug: cannot evaluate %s in %s\n", exprStr(t.Cond, shapeOpts), b.Parent().Name())
				}
				return nil
			}
			if os.Getenv("JAMVERIF_EVALDEBUG") == "2" {
				fmt.Fprintf(os.Stderr, "evaldebug: %s = %d in %s\n", exprStr(t.Cond, shapeOpts), k, b.Parent().Name())
			}
			if k != 0 {
				from, b = b, b.Succs[0]
			} else {
				from, b = b, b.Succs[1]
			}
		default:
			return nil
		}
	}
}

// evalPhi: a phi of the function under evaluation. Inside evalHelper the
// walker has already assigned it (env.params). Otherwise: a loop-header phi of
// a pure integer loop is obtained by following the loop from its entry values
// until it exits; an if/else merge is resolved by following the branch that
// the (evaluable) condition at the immediate dominator selects.
func evalPhi(p *ssa.Phi, env intEnv, d int) (int64, bool) {
	if env.unknown != nil && env.unknown[p] {
		return 0, false
	}
	if env.closed || env.stack > 4 || d > 30 {
		return 0, false // inside a helper every reachable phi is assigned by the walker
	}
	b := p.Block()
	sub := intEnv{lens: map[ssa.Value]int64{}, params: map[ssa.Value]int64{}, globals: env.globals, fuel: env.fuel, stack: env.stack + 1, unknown: map[ssa.Value]bool{}, opaque: env.opaque, flens: env.flens, cells: env.cells, skipLoops: env.skipLoops}
	for k, v := range env.lens {
		sub.lens[k] = v
	}
	for k, v := range env.params {
		sub.params[k] = v
	}
	if sub.fuel == nil {
		n := 20000
		sub.fuel = &n
	}
	// loop header?
	var backs, entries []*ssa.BasicBlock
	for _, pr := range b.Preds {
		if b.Dominates(pr) {
			backs = append(backs, pr)
		} else {
			entries = append(entries, pr)
		}
	}
	if len(backs) > 0 {
		if len(entries) != 1 {
			return 0, false
		}
		inLoop := map[*ssa.BasicBlock]bool{b: true}
		work := append([]*ssa.BasicBlock{}, backs...)
		for len(work) > 0 {
			x := work[len(work)-1]
			work = work[:len(work)-1]
			if inLoop[x] {
				continue
			}
			inLoop[x] = true
			work = append(work, x.Preds...)
		}
		// values the entry edge carries must themselves be evaluable outside the loop
		last := walkBlocks(b, entries[0], sub, func(x *ssa.BasicBlock) bool { return !inLoop[x] })
		if last == nil || inLoop[last] {
			return 0, false
		}
		k, ok := sub.params[p]
		return k, ok && !sub.unknown[p]
	}
	// merge: follow from the immediate dominator
	dom := b.Idom()
	if dom == nil {
		return 0, false
	}
	var arrivedFrom *ssa.BasicBlock
	cur, from := dom, (*ssa.BasicBlock)(nil)
	// step once out of dom, then walk until b
	first := true
	last := walkBlocks(cur, from, sub, func(x *ssa.BasicBlock) bool {
		if first {
			first = false
			return false
		}
		return x == b
	})
	_ = arrivedFrom
	if last != b {
		return 0, false
	}
	k, ok := sub.params[p]
	return k, ok && !sub.unknown[p]
}

func storesThroughFreeVar(f *ssa.Function, fv *ssa.FreeVar) bool {
	if fv.Referrers() == nil {
		return false
	}
	for _, r := range *fv.Referrers() {
		if st, ok := r.(*ssa.Store); ok && st.Addr == ssa.Value(fv) {
			return true
		}
	}
	return false
}

// uniqueStore: the local cell is written exactly once and otherwise only
// loaded or captured by closures that do not write it.
func uniqueStore(a *ssa.Alloc) ssa.Value {
	var sv ssa.Value
	n := 0
	for _, r := range *a.Referrers() {
		switch x := r.(type) {
		case *ssa.Store:
			if x.Addr != ssa.Value(a) {
				return nil
			}
			sv = x.Val
			n++
		case *ssa.UnOp, *ssa.DebugRef:
		case *ssa.MakeClosure:
			fn, ok := x.Fn.(*ssa.Function)
			if !ok {
				return nil
			}
			for i, b := range x.Bindings {
				if b == ssa.Value(a) && i < len(fn.FreeVars) && storesThroughFreeVar(fn, fn.FreeVars[i]) {
					return nil
				}
			}
		default:
			return nil
		}
	}
	if n == 1 {
		return sv
	}
	return nil
}

// extentOf: v denotes base[lo:hi] for a value base whose length env fixes.
func extentOf(v ssa.Value, env intEnv, d int) (base ssa.Value, lo, hi int64, ok bool) {
	if d > 12 {
		return nil, 0, 0, false
	}
	if b, have := env.bases[v]; have {
		return b, env.offs[v], env.offs[v] + env.lens[v], true
	}
	switch x := v.(type) {
	case *ssa.ChangeType:
		return extentOf(x.X, env, d+1)
	case *ssa.Slice:
		b, l, h, ok := extentOf(x.X, env, d+1)
		if !ok {
			return nil, 0, 0, false
		}
		nl, nh := l, h
		if x.Low != nil {
			k, ok := evalInt(x.Low, env, 0)
			if !ok {
				return nil, 0, 0, false
			}
			nl = l + k
		}
		if x.High != nil {
			k, ok := evalInt(x.High, env, 0)
			if !ok {
				return nil, 0, 0, false
			}
			nh = l + k
		}
		if nl < l || nh < nl {
			return nil, 0, 0, false
		}
		return b, nl, nh, true
	}
	if n, ok := env.lens[v]; ok {
		return v, 0, n, true
	}
	return nil, 0, 0, false
}
