package main

import (
	"fmt"
	"go/ast"
	"go/constant"
	"go/token"
	"go/types"
	"regexp"
	"sort"
	"strings"

	"golang.org/x/tools/go/ssa"
)

// Host-call (Omega) engine shared by C04, C07, C08, C09, C10, C33.

type omegaEnv struct {
	c                               *Ctx
	funcs                           []*ssa.Function // every function with signature func(OmegaInput) OmegaOutput (incl. closures)
	charge, isReadable, isWriteable types.Object
	memRead, memWrite               types.Object
	errNames                        map[uint64]string
	registersT                      types.Type
}

func newOmegaEnv(c *Ctx) *omegaEnv {
	e := &omegaEnv{c: c}
	e.charge = c.Obj("PVM", "chargeGasAndCheck")
	e.isReadable = c.Obj("PVM", "isReadable")
	e.isWriteable = c.Obj("PVM", "isWriteable")
	e.memRead = c.Obj("PVM", "Memory.Read")
	e.memWrite = c.Obj("PVM", "Memory.Write")
	in := c.Obj("PVM", "OmegaInput")
	out := c.Obj("PVM", "OmegaOutput")
	if ro := c.Obj("PVM", "Registers"); ro != nil {
		e.registersT = ro.Type()
	}
	if len(c.fatal) > 0 {
		return e
	}
	for _, f := range c.SrcFuncs("PVM") {
		sig := f.Signature
		if sig.Params().Len() == 1 && sig.Results().Len() == 1 && sig.Recv() == nil &&
			types.Identical(sig.Params().At(0).Type(), in.Type()) && types.Identical(sig.Results().At(0).Type(), out.Type()) {
			e.funcs = append(e.funcs, f)
		}
	}
	e.errNames = map[uint64]string{}
	for _, n := range []string{"NONE", "WHAT", "OOB", "WHO", "FULL", "CORE", "CASH", "LOW", "HUH"} {
		if o, ok := c.Obj("PVM", n).(*types.Const); ok {
			if v, exact := constant.Uint64Val(o.Val()); exact {
				e.errNames[v] = n
			}
		}
	}
	return e
}

func omegaKey(f *ssa.Function) string { return funcKey(f) }

// registerStore: if in stores into input.VM.Registers[k] (or any *Registers element), returns k's rendering and constant.
func (e *omegaEnv) registerStore(in ssa.Instruction) (idx string, k int64, isConst bool, ok bool) {
	st, isSt := in.(*ssa.Store)
	if !isSt {
		return "", 0, false, false
	}
	ia, isIA := st.Addr.(*ssa.IndexAddr)
	if !isIA {
		return "", 0, false, false
	}
	if e.registersT == nil || !types.Identical(derefType(ia.X.Type()), e.registersT) {
		return "", 0, false, false
	}
	k, isConst = constInt(ia.Index)
	return exprStr(ia.Index, shapeOpts), k, isConst, true
}

func constU64(v ssa.Value) (uint64, bool) {
	c, ok := stripConv(v).(*ssa.Const)
	if !ok || c.Value == nil || c.Value.Kind() != constant.Int {
		return 0, false
	}
	return constant.Uint64Val(c.Value)
}

// errorStore: store of one of the host-call error constants into Registers[7].
func (e *omegaEnv) errorStore(in ssa.Instruction) (string, bool) {
	_, k, isConst, ok := e.registerStore(in)
	if !ok || !isConst || k != 7 {
		return "", false
	}
	v, isC := constU64(in.(*ssa.Store).Val)
	if !isC {
		return "", false
	}
	n, isErr := e.errNames[v]
	return n, isErr
}

func memKey(v ssa.Value) string {
	s := exprStr(v, shapeOpts)
	return strings.NewReplacer("&", "", "*", "", "cell", "", "(", "", ")", "").Replace(s)
}

// dataLen renders the length of the byte slice value as a canonical string.
func (e *omegaEnv) dataLen(v ssa.Value) string {
	v = stripConv(v)
	switch x := v.(type) {
	case *ssa.Slice:
		if x.High != nil && x.Low != nil {
			if b, ok := stripConv(x.High).(*ssa.BinOp); ok && b.Op == token.ADD {
				if sameExpr(b.X, x.Low) {
					return exprStr(b.Y, shapeOpts)
				}
				if sameExpr(b.Y, x.Low) {
					return exprStr(b.X, shapeOpts)
				}
			}
			return "(" + exprStr(x.High, shapeOpts) + " - " + exprStr(x.Low, shapeOpts) + ")"
		}
		if x.High != nil && x.Low == nil {
			return exprStr(x.High, shapeOpts)
		}
	case *ssa.Call:
		if isCallTo(x, e.memRead) {
			args := x.Call.Args
			return exprStr(args[len(args)-1], shapeOpts)
		}
		// a module helper that always returns the same number of bytes, whatever its arguments
		if n, ok := bfConstResultLen(x.Call.StaticCallee()); ok {
			return fmt.Sprint(n)
		}
	case *ssa.MakeSlice:
		return exprStr(x.Len, shapeOpts)
	}
	return "len(" + exprStr(v, shapeOpts) + ")"
}

// ruleChargeFirst (HC1).
func (e *omegaEnv) ruleChargeFirst(rule string, exempt map[string]string) {
	c := e.c
	inner := e.innerHelpers()
	for _, f := range e.funcs {
		key := omegaKey(f)
		if why, ok := exempt[f.Name()]; ok {
			c.OK(rule, key, f.Pos(), "exempt: %s", why)
			continue
		}
		if callers, ok := inner[f]; ok {
			// not a host call but a part of host calls: never used as a value (it cannot be dispatched), and every
			// caller is a host-call function, which is itself held to "the charge is the first effect"
			c.OK(rule, key, f.Pos(), "helper of charged host calls (never used as a function value; called only by %s)", strings.Join(callers, ", "))
			continue
		}
		entry := f.Blocks[0]
		var call *ssa.Call
		bad := ""
		for _, in := range entry.Instrs {
			if isCallTo(in, e.charge) {
				call, _ = in.(*ssa.Call)
				break
			}
			switch x := in.(type) {
			case *ssa.Alloc, *ssa.FieldAddr, *ssa.DebugRef, *ssa.IndexAddr:
			case *ssa.UnOp:
				if x.Op != token.MUL {
					bad = "computation before the gas charge: " + in.String()
				}
			case *ssa.Store:
				if _, isParam := x.Val.(*ssa.Parameter); !isParam {
					bad = "store before the gas charge: " + in.String()
				}
			default:
				bad = "effect before the gas charge: " + in.String()
			}
			if bad != "" {
				break
			}
		}
		if bad != "" || call == nil {
			if bad == "" {
				bad = "entry block does not call chargeGasAndCheck"
			}
			c.Bad(rule, key, f.Pos(), "%s", bad)
			continue
		}
		// argument is &input (the function's own parameter cell)
		argOK := false
		if a := localCell(call.Call.Args[0]); a != nil {
			if sv := initStore(a); sv != nil {
				_, argOK = sv.(*ssa.Parameter)
			}
		}
		// non-nil result returned unchanged: If(result != nil) true edge leads to return of *result without stores
		pass := condEdges(f, func(v ssa.Value) (bool, bool) {
			b, ok := v.(*ssa.BinOp)
			if !ok || (b.Op != token.NEQ && b.Op != token.EQL) {
				return false, false
			}
			var other ssa.Value
			if b.X == ssa.Value(call) {
				other = b.Y
			} else if b.Y == ssa.Value(call) {
				other = b.X
			} else {
				return false, false
			}
			cst, ok := other.(*ssa.Const)
			if !ok || cst.Value != nil {
				return false, false
			}
			return true, b.Op == token.NEQ
		})
		retOK := len(pass) == 1
		if retOK {
			tgt := pass[0].from.Succs[pass[0].succ]
			sawRet := false
			for _, in := range tgt.Instrs {
				switch x := in.(type) {
				case *ssa.Return:
					sawRet = true
					res := retResults(x)
					if len(res) != 1 {
						retOK = false
						break
					}
					ld, ok := stripConv(res[0]).(*ssa.UnOp)
					if !ok || ld.Op != token.MUL || ld.X != ssa.Value(call) {
						retOK = false
					}
				case *ssa.Store:
					// spill of the result into the named result cell is fine
					if rootedInLocal(x.Addr) {
						continue
					}
					retOK = false
				case *ssa.UnOp, *ssa.DebugRef, *ssa.RunDefers, *ssa.FieldAddr:
				default:
					retOK = false
				}
			}
			retOK = retOK && sawRet
		}
		c.Check(argOK && retOK, rule, key, call.Pos(), "first effect is chargeGasAndCheck(&input); its non-nil result is returned unchanged",
			"chargeGasAndCheck is not applied to the call's own input, or its out-of-gas result is not returned unchanged")
	}
}

// omegaSources: where a dispatched host-call function value can come from: named functions, getOmega results, nil —
// through phis and through package functions that return such a value.
func omegaSources(v ssa.Value, home *ssa.Function, out map[string]bool, d int) {
	if d > 8 || v == nil {
		out["?"] = true
		return
	}
	switch x := stripConv(v).(type) {
	case *ssa.Phi:
		for _, e := range x.Edges {
			if e != v {
				omegaSources(e, home, out, d+1)
			}
		}
	case *ssa.Function:
		out[x.Name()] = true
	case *ssa.Const:
		if x.Value == nil {
			out["nil"] = true
		} else {
			out["?"] = true
		}
	case *ssa.Extract:
		omegaSources(x.Tuple, home, out, d+1)
	case *ssa.Call:
		g := x.Call.StaticCallee()
		switch {
		case g == nil:
			out["?"] = true
		case g.Name() == "getOmega":
			out["getOmega"] = true
		case len(g.Blocks) > 0 && g.Pkg == home.Pkg:
			allInstrs(g, func(in ssa.Instruction) {
				if r, ok := in.(*ssa.Return); ok {
					for _, rv := range retResults(r) {
						if strings.Contains(types.TypeString(rv.Type(), nil), "Omega") {
							omegaSources(rv, g, out, d+1)
						}
					}
				}
			})
		default:
			out["?"] = true
		}
	default:
		out["?"+exprStr(v, exprOpts{})] = true
	}
}

// innerHelpers: functions with the host-call signature that are not host calls: nothing in the module uses them as
// a function value (so no table or dispatcher can reach them) and every static caller is itself a function with
// the host-call signature. Value: the callers' names.
func (e *omegaEnv) innerHelpers() map[*ssa.Function][]string {
	isOmega := map[*ssa.Function]bool{}
	for _, f := range e.funcs {
		isOmega[f] = true
	}
	asValue := map[*ssa.Function]bool{}
	callers := map[*ssa.Function]map[*ssa.Function]bool{}
	for _, g := range e.c.moduleFuncs() {
		allInstrs(g, func(in ssa.Instruction) {
			var callee ssa.Value
			if call, ok := in.(ssa.CallInstruction); ok {
				callee = call.Common().Value
				if h := call.Common().StaticCallee(); h != nil && isOmega[h] {
					if _, isGo := in.(*ssa.Go); isGo {
						asValue[h] = true
					}
					if _, isDefer := in.(*ssa.Defer); isDefer {
						asValue[h] = true
					}
					if callers[h] == nil {
						callers[h] = map[*ssa.Function]bool{}
					}
					callers[h][g] = true
				}
			}
			for _, op := range in.Operands(nil) {
				if op == nil || *op == nil {
					continue
				}
				v := *op
				if mc, isMC := v.(*ssa.MakeClosure); isMC {
					v = mc.Fn
				}
				h, isF := v.(*ssa.Function)
				if !isF || !isOmega[h] || *op == callee {
					continue
				}
				asValue[h] = true
			}
			if mc, isMC := in.(*ssa.MakeClosure); isMC {
				if h, isF := mc.Fn.(*ssa.Function); isF && isOmega[h] {
					asValue[h] = true
				}
			}
		})
	}
	out := map[*ssa.Function][]string{}
	for _, f := range e.funcs {
		if asValue[f] || len(callers[f]) == 0 || f.Parent() != nil {
			continue
		}
		ok := true
		var names []string
		for g := range callers[f] {
			if !isOmega[g] {
				ok = false
			}
			names = append(names, g.Name())
		}
		if ok {
			sort.Strings(names)
			out[f] = names
		}
	}
	return out
}

// ruleMemoryGuards (HC2/HC3).
func (e *omegaEnv) ruleMemoryGuards(ruleW, ruleR string, funcs []*ssa.Function) {
	c := e.c
	for _, f := range funcs {
		allInstrs(f, func(in ssa.Instruction) {
			call, ok := in.(*ssa.Call)
			if !ok {
				return
			}
			isW, isR := isCallTo(call, e.memWrite), isCallTo(call, e.memRead)
			if !isW && !isR {
				return
			}
			args := call.Call.Args
			recv, off := args[0], args[1]
			var wantLen string
			guardObj := e.isReadable
			rule := ruleR
			kind := "Read"
			if isW {
				wantLen = e.dataLen(args[2])
				guardObj = e.isWriteable
				rule = ruleW
				kind = "Write"
			} else {
				wantLen = exprStr(args[2], shapeOpts)
			}
			offS, memS := exprStr(off, shapeOpts), memKey(recv)
			var pass []edge
			var cands []string
			allInstrs(f, func(g ssa.Instruction) {
				gc, ok := g.(*ssa.Call)
				// a range known writable is also readable
				if !ok || !(isCallTo(gc, guardObj) || (isR && isCallTo(gc, e.isWriteable))) {
					return
				}
				ga := gc.Call.Args
				gs := fmt.Sprintf("%s(%s, %s, %s)", calleeObject(gc).Name(), exprStr(ga[0], shapeOpts), exprStr(ga[1], shapeOpts), memKey(ga[2]))
				cands = append(cands, gs)
				if exprStr(ga[0], shapeOpts) != offS || exprStr(ga[1], shapeOpts) != wantLen || memKey(ga[2]) != memS {
					return
				}
				pass = append(pass, condEdges(f, func(v ssa.Value) (bool, bool) { return v == ssa.Value(gc), true })...)
			})
			// a zero-length access touches nothing: edges establishing len == 0 also discharge
			pass = append(pass, condEdges(f, func(v ssa.Value) (bool, bool) {
				k, pol := condKey(v)
				if k == "(0 == "+wantLen+")" || k == "("+wantLen+" == 0)" {
					return true, pol
				}
				return false, false
			})...)
			key := fmt.Sprintf("%s · Memory.%s(%s, %s, len=%s)", omegaKey(f), kind, memS, offS, wantLen)
			if guardedByF(f, in, pass) {
				c.OK(rule, key, in.Pos(), "dominated by the passing edge of %s on the same memory, offset and length", guardObj.Name())
			} else {
				c.Bad(rule, key, in.Pos(), "guest memory %s is not dominated by %s(%s, %s, same memory)==true; guards present: %s", kind, guardObj.Name(), offS, wantLen, strings.Join(cands, " ; "))
			}
		})
	}
}

// ruleRegisters (HC4).
func (e *omegaEnv) ruleRegisters(rule string, allowed map[string][]int64, dflt []int64) {
	c := e.c
	for _, f := range e.funcs {
		set := dflt
		if a, ok := allowed[f.Name()]; ok {
			set = a
		}
		seen := map[string]bool{}
		var visit func(fn *ssa.Function, depth int)
		visit = func(fn *ssa.Function, depth int) {
			allInstrs(fn, func(in ssa.Instruction) {
				idx, k, isConst, ok := e.registerStore(in)
				if ok {
					key := omegaKey(f) + " · Registers[" + idx + "]"
					if seen[key] {
						return
					}
					seen[key] = true
					okk := false
					if isConst {
						for _, a := range set {
							if a == k {
								okk = true
							}
						}
					}
					c.Check(okk, rule, key, in.Pos(), "register index within the call's specified output set", fmt.Sprintf("host call writes register %s; the specification allows only %v", idx, set))
					return
				}
				// helpers that receive the register file
				if call, isCall := in.(*ssa.Call); isCall && depth < 2 {
					if callee := call.Call.StaticCallee(); callee != nil && callee.Pkg == f.Pkg && len(callee.Blocks) > 0 {
						for _, a := range call.Call.Args {
							if e.registersT != nil && types.Identical(derefType(a.Type()), e.registersT) {
								visit(callee, depth+1)
							}
						}
					}
				}
			})
		}
		visit(f, 0)
		if len(seen) == 0 {
			c.OK(rule, omegaKey(f)+" · no register store", f.Pos(), "function stores no register")
		}
	}
}

// registryFuncs evaluates the Omegas registries: for each package-level
// []Omega variable, index -> function object name (from init-time stores).
func (e *omegaEnv) registries() map[string]map[int64]string {
	out := map[string]map[int64]string{}
	c := e.c
	var inits []*ssa.Function
	for _, f := range c.SrcFuncs("PVM") {
		inits = append(inits, f)
	}
	if p := c.Pkg("PVM"); p != nil {
		if sp := c.ssaPkgs[p.Types]; sp != nil {
			if f := sp.Func("init"); f != nil {
				inits = append(inits, f)
				inits = append(inits, f.AnonFuncs...)
			}
		}
	}
	for _, f := range inits {
		allInstrs(f, func(in ssa.Instruction) {
			st, ok := in.(*ssa.Store)
			if !ok {
				return
			}
			ia, ok := st.Addr.(*ssa.IndexAddr)
			if !ok {
				return
			}
			k, isConst := constInt(ia.Index)
			if !isConst {
				return
			}
			// which registry?
			name := ""
			switch b := stripConv(ia.X).(type) {
			case *ssa.UnOp:
				if g, ok := b.X.(*ssa.Global); ok {
					name = g.Name()
				}
			case *ssa.MakeSlice:
				// local slice in the HostCallFunctions initialiser closure
				name = "HostCallFunctions"
			case *ssa.Slice:
				if _, isAlloc := b.X.(*ssa.Alloc); isAlloc {
					name = "HostCallFunctions"
				}
			}
			if name == "" || !strings.Contains(types.TypeString(ia.X.Type(), nil), "Omega") {
				return
			}
			val := exprStr(st.Val, exprOpts{})
			if out[name] == nil {
				out[name] = map[int64]string{}
			}
			out[name][k] = val
		})
	}
	return out
}

func sortedKeys(m map[int64]string) []int64 {
	var ks []int64
	for k := range m {
		ks = append(ks, k)
	}
	sort.Slice(ks, func(i, j int) bool { return ks[i] < ks[j] })
	return ks
}

// ---- HC5/HC6: no mutation before an error code / panic ---------------------------

type mutation struct {
	in   ssa.Instruction
	desc string
}

// mutators: in-package functions that (transitively) write through their
// pointer/map/slice parameters or globals.
func (e *omegaEnv) mutatorSummary() map[*ssa.Function]string {
	c := e.c
	sum := map[*ssa.Function]string{}
	funcs := c.SrcFuncs("PVM")
	for changed := true; changed; {
		changed = false
		for _, f := range funcs {
			if _, done := sum[f]; done {
				continue
			}
			allInstrs(f, func(in ssa.Instruction) {
				if _, done := sum[f]; done {
					return
				}
				if d := e.directMutation(in, sum, false); d != "" {
					sum[f] = d
					changed = true
				}
			})
		}
	}
	return sum
}

// directMutation describes in as a state mutation, or "".
func (e *omegaEnv) directMutation(in ssa.Instruction, sum map[*ssa.Function]string, inOmega bool) string {
	switch x := in.(type) {
	case *ssa.MapUpdate:
		if rootedInFresh(x.Map) {
			return ""
		}
		return "map update " + exprStr(x.Map, shapeOpts) + "[…]"
	case *ssa.Store:
		if _, _, _, isReg := e.registerStore(in); isReg {
			return ""
		}
		if isGasCell(x.Addr) {
			return ""
		}
		if rootedInLocal(x.Addr) {
			if inOmega && throughField(x.Addr, "Addition") && rootIsParamCell(x.Addr) {
				return "store to returned context " + exprStr(x.Addr, shapeOpts)
			}
			return ""
		}
		return "store through " + exprStr(x.Addr, shapeOpts)
	case ssa.CallInstruction:
		cc := x.Common()
		if b, ok := cc.Value.(*ssa.Builtin); ok {
			if b.Name() == "delete" && !rootedInFresh(cc.Args[0]) {
				return "delete from " + exprStr(cc.Args[0], shapeOpts)
			}
			return ""
		}
		if isCallTo(x, e.memWrite) {
			return "guest memory write"
		}
		if callee := cc.StaticCallee(); callee != nil {
			if why, ok := sum[callee]; ok && callee.Object() != e.charge {
				if allRefArgsFresh(cc.Args) && !strings.Contains(why, "global") {
					return "" // callee only writes through references to objects created here
				}
				return "call " + relName(callee.String()) + " (" + why + ")"
			}
		}
	}
	return ""
}

// allRefArgsFresh: every reference-typed argument points to storage created in
// the calling function (fresh alloc / make).
func allRefArgsFresh(args []ssa.Value) bool {
	for _, a := range args {
		switch a.Type().Underlying().(type) {
		case *types.Pointer, *types.Map, *types.Slice, *types.Interface, *types.Chan, *types.Signature:
			if !(rootedInLocal(a) || rootedInFresh(a)) {
				return false
			}
		}
	}
	return true
}

// ---- raw key-val pool migration idiom -------------------------------------------

// poolHelper: in-package function with a *types.StateKeyVals parameter (it
// works on the raw, unattributed key-value pool).
func poolHelper(f *ssa.Function) bool {
	if f == nil {
		return false
	}
	for _, p := range f.Params {
		if strings.HasSuffix(types.TypeString(p.Type(), nil), "types.StateKeyVals") {
			return true
		}
	}
	return false
}

// poolRemover: a pool helper that takes an entry out of the pool (writes through its pool parameter).
func poolRemover(f *ssa.Function) bool {
	if !poolHelper(f) || len(f.Blocks) == 0 {
		return false
	}
	writes := false
	allInstrs(f, func(in ssa.Instruction) {
		if st, ok := in.(*ssa.Store); ok && !rootedInLocal(st.Addr) {
			writes = true
		}
		if ci, ok := in.(ssa.CallInstruction); ok {
			if g := ci.Common().StaticCallee(); g != nil && g != f && poolHelper(g) && poolRemoverDepth(g, 1) {
				writes = true
			}
		}
	})
	return writes
}

func poolRemoverDepth(f *ssa.Function, d int) bool {
	if d > 3 || !poolHelper(f) || len(f.Blocks) == 0 {
		return false
	}
	w := false
	allInstrs(f, func(in ssa.Instruction) {
		if st, ok := in.(*ssa.Store); ok && !rootedInLocal(st.Addr) {
			w = true
		}
	})
	return w
}

// poolDerived: the value flows from the result of a pool helper (directly,
// through a dereference/conversion, or through an out-parameter of a call that
// consumed a pool-derived value, e.g. decoder.Decode(raw, &x)).
func poolDerived(v ssa.Value, d int) bool {
	if d > 6 || v == nil {
		return false
	}
	v = stripConv(v)
	switch x := v.(type) {
	case *ssa.Call:
		if poolHelper(x.Call.StaticCallee()) {
			return true
		}
	case *ssa.Extract:
		return poolDerived(x.Tuple, d+1)
	case *ssa.UnOp:
		if x.Op == token.MUL {
			if a, ok := x.X.(*ssa.Alloc); ok {
				// out-parameter: &a handed to a call together with a pool-derived value
				var refs []ssa.Instruction
				for _, ref := range *a.Referrers() {
					refs = append(refs, ref)
					if mi, ok := ref.(*ssa.MakeInterface); ok {
						refs = append(refs, *mi.Referrers()...)
					}
				}
				for _, ref := range refs {
					if ci, ok := ref.(ssa.CallInstruction); ok {
						for _, arg := range ci.Common().Args {
							if stripConv(arg) != ssa.Value(a) && poolDerived(arg, d+1) {
								return true
							}
						}
					}
					if st, ok := ref.(*ssa.Store); ok && st.Addr == ssa.Value(a) && poolDerived(st.Val, d+1) {
						return true
					}
				}
				return false
			}
			return poolDerived(x.X, d+1)
		}
	case *ssa.Phi:
		for _, ed := range x.Edges {
			if poolDerived(ed, d+1) {
				return true
			}
		}
	case *ssa.Slice:
		return poolDerived(x.X, d+1)
	}
	return false
}

// migrationExempt: in is part of the representation-preserving migration of
// an entry from the raw pool into an account dictionary.
func (e *omegaEnv) migrationExempt(in ssa.Instruction) (bool, string) {
	switch x := in.(type) {
	case ssa.CallInstruction:
		if poolHelper(x.Common().StaticCallee()) {
			return true, "raw key-val pool helper (representation-preserving migration of an unattributed entry)"
		}
	case *ssa.MapUpdate:
		if poolDerived(x.Value, 0) {
			return true, "dictionary entry populated from the raw key-val pool (same entry, new representation)"
		}
		// write-back of the account struct right after such a migration, in the same block
		if strings.HasSuffix(types.TypeString(x.Value.Type(), nil), "types.ServiceAccount") {
			for _, prev := range in.Block().Instrs {
				if prev == in {
					break
				}
				if mu, ok := prev.(*ssa.MapUpdate); ok && poolDerived(mu.Value, 0) {
					return true, "write-back of the account whose dictionary just received the migrated entry"
				}
			}
		}
	}
	return false, ""
}

func isGasCell(addr ssa.Value) bool {
	s := exprStr(addr, shapeOpts)
	return strings.HasSuffix(s, ".VM.Gas") || strings.HasSuffix(s, ".Gas)") && strings.Contains(s, "VM")
}

func throughField(addr ssa.Value, name string) bool {
	v := addr
	for i := 0; i < 30; i++ {
		switch x := v.(type) {
		case *ssa.FieldAddr:
			if fieldName(x.X.Type(), x.Field) == name {
				return true
			}
			v = x.X
		case *ssa.IndexAddr:
			v = x.X
		default:
			return false
		}
	}
	return false
}

// rootedInFresh: map/slice created in this function (make / composite literal).
func rootedInFresh(v ssa.Value) bool {
	for i := 0; i < 10; i++ {
		switch x := stripConv(v).(type) {
		case *ssa.MakeMap, *ssa.MakeSlice:
			return true
		case *ssa.UnOp:
			if a, ok := x.X.(*ssa.Alloc); ok {
				if sv := singleStore(a); sv != nil {
					v = sv
					continue
				}
			}
			return false
		case *ssa.Phi:
			for _, ed := range x.Edges {
				if !rootedInFresh(ed) {
					return false
				}
			}
			return true
		default:
			return false
		}
	}
	return false
}

// errorExits lists the error-code stores and panic returns of f.
func (e *omegaEnv) errorExits(f *ssa.Function) []mutation {
	var out []mutation
	exitPanic := e.c.Obj("PVM", "ExitPanic")
	_ = exitPanic
	allInstrs(f, func(in ssa.Instruction) {
		if n, ok := e.errorStore(in); ok {
			out = append(out, mutation{in, n})
			return
		}
		if r, ok := in.(*ssa.Return); ok {
			res := retResults(r)
			if len(res) == 1 {
				if flds := structLiteralFields(res[0]); flds != nil {
					if er, ok := flds["ExitReason"]; ok && exprStr(er, exprOpts{}) == e.c.constStr("PVM", "ExitPanic") {
						out = append(out, mutation{in, "PANIC"})
					}
				}
			}
		}
	})
	return out
}

// ruleNoMutationBeforeError (HC5/HC6).
func (e *omegaEnv) ruleNoMutationBeforeError(rule string, exempt map[string]string) {
	e.ruleNoMutationBeforeErrorF(rule, exempt, nil)
}

// helperFuncs: in-package non-omega functions that receive the register file
// (they set result codes on behalf of a host call).
func (e *omegaEnv) helperFuncs() []*ssa.Function {
	var out []*ssa.Function
	isOmega := map[*ssa.Function]bool{}
	for _, f := range e.funcs {
		isOmega[f] = true
	}
	for _, f := range e.c.SrcFuncs("PVM") {
		if isOmega[f] {
			continue
		}
		for _, p := range f.Params {
			if e.registersT != nil && types.Identical(derefType(p.Type()), e.registersT) {
				if _, isPtr := p.Type().Underlying().(*types.Pointer); isPtr {
					out = append(out, f)
				}
			}
		}
	}
	return out
}

func (e *omegaEnv) ruleNoMutationBeforeErrorF(rule string, exempt map[string]string, keep func(exit string) bool) {
	c := e.c
	sum := e.mutatorSummary()
	funcs := append([]*ssa.Function{}, e.funcs...)
	funcs = append(funcs, e.helperFuncs()...)
	for _, f := range funcs {
		exits := e.errorExits(f)
		var muts []mutation
		allInstrs(f, func(in ssa.Instruction) {
			if d := e.directMutation(in, sum, true); d != "" {
				muts = append(muts, mutation{in, d})
			}
		})
		for _, x := range exits {
			if keep != nil && !keep(x.desc) {
				continue
			}
			bad := 0
			for _, m := range muts {
				// a helper that writes only on the ways out that report success (…, ok): the mutation happened only if
				// the caller then sees ok == true, so paths through the "not ok" edge of that result carry no mutation
				notOK := e.notOKEdges(f, m.in, sum)
				if _, reach := findPathF(pathQuery{start: m.in, target: func(in ssa.Instruction) bool { return in == x.in }, edgeBlock: func(ed edge) bool { return notOK[ed] }}); !reach {
					continue
				}
				key := fmt.Sprintf("%s · %s after %s", omegaKey(f), x.desc, m.desc)
				if ok, why := e.migrationExempt(m.in); ok {
					// removing an entry from the raw pool is representation-preserving only when the entry lives on in the
					// dictionary: on the way to this error exit the removal must be followed by a dictionary insert of the
					// pool-derived entry (otherwise the failing call has destroyed it)
					lost := false
					if ci, isCall := m.in.(ssa.CallInstruction); isCall && poolRemover(ci.Common().StaticCallee()) && x.desc != "PANIC" {
						// (a PANIC exit discards the whole working context, pool included: C10)
						isReinsert := func(y ssa.Instruction) bool {
							mu, isMU := y.(*ssa.MapUpdate)
							return isMU && poolDerived(mu.Value, 0)
						}
						// nothing was removed on the edges where the helper handed back nothing
						nothing := map[edge]bool{}
						if cv, isVal := m.in.(ssa.Value); isVal {
							for _, ed := range condEdges(f, func(v ssa.Value) (bool, bool) {
								bo, isB := v.(*ssa.BinOp)
								if !isB || (bo.Op != token.EQL && bo.Op != token.NEQ) {
									return false, false
								}
								isNil := func(z ssa.Value) bool { k, isC := z.(*ssa.Const); return isC && k.Value == nil }
								if bo.X == cv && isNil(bo.Y) || bo.Y == cv && isNil(bo.X) {
									return true, bo.Op == token.EQL
								}
								return false, false
							}) {
								nothing[ed] = true
							}
						}
						blockEdge := func(ed edge) bool { return notOK[ed] || nothing[ed] }
						_, after := findPathF(pathQuery{start: m.in, target: func(y ssa.Instruction) bool { return y == x.in }, blocker: isReinsert, edgeBlock: blockEdge})
						_, before := findPathF(pathQuery{fn: f, target: func(y ssa.Instruction) bool { return y == m.in }, blocker: isReinsert})
						if after && before {
							lost = true
						}
					}
					if !lost {
						c.OK(rule, key, m.in.Pos(), "exempt by shape: %s", why)
						continue
					}
					bad++
					c.Bad(rule, key, m.in.Pos(), "the entry is removed from the raw key-val pool and a path then reaches the %s exit at %s without the entry having been put into the dictionary: a failing call loses stored state", x.desc, c.pos(x.in.Pos()))
					continue
				}
				ek := f.Name() + " · " + x.desc + " · " + mutKind(m.desc)
				if why, ok := exempt[ek]; ok {
					c.OK(rule, key, m.in.Pos(), "reviewed: %s", why)
					continue
				}
				bad++
				c.Bad(rule, key, m.in.Pos(), "a path reaches the %s exit at %s after this state mutation (%s) [exemption key: %s]", x.desc, c.pos(x.in.Pos()), m.desc, ek)
			}
			if bad == 0 {
				c.OK(rule, fmt.Sprintf("%s · %s exit @%s", omegaKey(f), x.desc, blockName(x.in)), x.in.Pos(), "no state mutation on any path to this exit")
			}
		}
	}
}

// notOKEdges: if in is a call of a package helper g that has a boolean result which is the constant true on
// every return of g that a state mutation inside g can reach, the edges of the caller on which that result is
// false. (Empty otherwise.)
func (e *omegaEnv) notOKEdges(f *ssa.Function, in ssa.Instruction, sum map[*ssa.Function]string) map[edge]bool {
	out := map[edge]bool{}
	call, ok := in.(*ssa.Call)
	if !ok {
		return out
	}
	g := call.Call.StaticCallee()
	if g == nil || len(g.Blocks) == 0 {
		return out
	}
	rs := g.Signature.Results()
	for k := 0; k < rs.Len(); k++ {
		if !isBoolT(rs.At(k).Type()) {
			continue
		}
		// returns reachable after a mutation inside g
		good := true
		var muts []ssa.Instruction
		allInstrs(g, func(x ssa.Instruction) {
			if d := e.directMutation(x, sum, false); d != "" {
				muts = append(muts, x)
			}
		})
		if len(muts) == 0 {
			continue
		}
		allInstrs(g, func(x ssa.Instruction) {
			r, isR := x.(*ssa.Return)
			if !isR || !good {
				return
			}
			res := retResults(r)
			if k >= len(res) {
				good = false
				return
			}
			for _, mu := range muts {
				if _, reach := findPathF(pathQuery{start: mu, target: func(y ssa.Instruction) bool { return y == x }}); reach {
					if kc, isC := res[k].(*ssa.Const); !isC || kc.Value == nil || kc.Value.String() != "true" {
						good = false
					}
				}
			}
		})
		if !good {
			continue
		}
		for _, r := range *call.Referrers() {
			ex, isEx := r.(*ssa.Extract)
			if !isEx || ex.Index != k {
				continue
			}
			for _, ed := range condEdges(f, func(v ssa.Value) (bool, bool) { return v == ssa.Value(ex), false }) {
				out[ed] = true
			}
		}
	}
	return out
}

func blockName(in ssa.Instruction) string { return fmt.Sprintf("b%d", in.Block().Index) }

func mutKind(desc string) string {
	if i := strings.Index(desc, " ("); i > 0 && strings.HasPrefix(desc, "call ") {
		return desc[:i]
	}
	f := strings.Fields(desc)
	if len(f) >= 2 {
		return f[0] + " " + f[1]
	}
	return desc
}

// ---- HC9: arithmetic feeding range checks ------------------------------------------

// uncheckedArith reports an arithmetic sub-expression on non-constant
// operands inside v that could wrap, or "".
func (e *omegaEnv) uncheckedArith(v ssa.Value, d int) string {
	if d > 8 || v == nil {
		return ""
	}
	v = stripConv(v)
	switch x := v.(type) {
	case *ssa.BinOp:
		switch x.Op {
		case token.ADD, token.MUL, token.SHL, token.SUB:
			cx, cy := isParamConst(x.X), isParamConst(x.Y)
			if cx && cy {
				return ""
			}
			if x.Op == token.SUB && isMinOf(x.Y, x.X) {
				// X - min(_, X) cannot wrap
				return e.uncheckedArith(x.X, d+1)
			}
			return exprStr(x, shapeOpts)
		}
		if s := e.uncheckedArith(x.X, d+1); s != "" {
			return s
		}
		return e.uncheckedArith(x.Y, d+1)
	case *ssa.Phi:
		for _, ed := range x.Edges {
			if ed == ssa.Value(x) {
				continue
			}
			if s := e.uncheckedArith(ed, d+1); s != "" {
				return s
			}
		}
	case *ssa.Call:
		if b, ok := x.Call.Value.(*ssa.Builtin); ok && (b.Name() == "min" || b.Name() == "max") {
			for _, a := range x.Call.Args {
				if s := e.uncheckedArith(a, d+1); s != "" {
					return s
				}
			}
		}
	case *ssa.UnOp:
		if x.Op == token.MUL {
			if a, ok := x.X.(*ssa.Alloc); ok {
				if sv := singleStore(a); sv != nil {
					return e.uncheckedArith(sv, d+1)
				}
			}
		}
	}
	return ""
}

// isParamConst: a constant or a load of a package-level protocol parameter.
func isParamConst(v ssa.Value) bool {
	v = stripConv(v)
	if _, ok := v.(*ssa.Const); ok {
		return true
	}
	if u, ok := v.(*ssa.UnOp); ok && u.Op == token.MUL {
		_, isG := u.X.(*ssa.Global)
		return isG
	}
	return false
}

func isMinOf(v, bound ssa.Value) bool {
	c, ok := stripConv(v).(*ssa.Call)
	if !ok {
		return false
	}
	b, ok := c.Call.Value.(*ssa.Builtin)
	if !ok || b.Name() != "min" {
		return false
	}
	for _, a := range c.Call.Args {
		if sameExpr(a, bound) {
			return true
		}
	}
	return false
}

func (e *omegaEnv) ruleRangeArith(rule string) {
	c := e.c
	checkOverflow := c.Obj("PVM", "checkOverflow")
	for _, f := range e.funcs {
		allInstrs(f, func(in ssa.Instruction) {
			gc, ok := in.(*ssa.Call)
			if !ok || !(isCallTo(gc, e.isReadable) || isCallTo(gc, e.isWriteable)) {
				return
			}
			for ai := 0; ai < 2; ai++ {
				arg := gc.Call.Args[ai]
				key := fmt.Sprintf("%s · %s arg%d %s", omegaKey(f), calleeObject(gc).Name(), ai, exprStr(arg, shapeOpts))
				// product checked by checkOverflow?
				if ex, ok := stripConv(arg).(*ssa.Extract); ok && ex.Index == 0 {
					if call, ok := ex.Tuple.(*ssa.Call); ok && isCallTo(call, checkOverflow) {
						pass := condEdges(f, func(v ssa.Value) (bool, bool) {
							e2, ok := v.(*ssa.Extract)
							return ok && e2.Tuple == ex.Tuple && e2.Index == 1, false
						})
						c.Check(guardedBy(f, in, pass), rule, key, in.Pos(), "product comes from checkOverflow and the range check runs only on its no-overflow edge",
							"product from checkOverflow is used in a range check without testing the overflow flag first")
						continue
					}
				}
				if s := e.uncheckedArith(arg, 0); s != "" {
					c.Bad(rule, key, in.Pos(), "range-check operand is computed with wrapping arithmetic on guest-controlled values (%s) without an overflow check", s)
				} else {
					c.OK(rule, key, in.Pos(), "operand is a register, constant, bounded min() or checked product")
				}
			}
		})
	}
}

// ruleRangeCheckShape: isReadable / isWriteable are siblings with the GP
// range test and differ only in the access predicate.
var pageAccessCallRe = regexp.MustCompile(`^(\(\*?[\w.]+\)\.)?GetPageAccess\(`)

func (e *omegaEnv) ruleRangeCheckShape(rule string) {
	c := e.c
	const ZP, RAM = int64(4096), int64(1) << 32
	for _, n := range []string{"isReadable", "isWriteable"} {
		f := c.Fn("PVM", n)
		if f == nil {
			continue
		}
		// where a page's state is consulted: the access query, or a direct look-up in the page table
		var queries []ssa.Instruction
		pageArg := map[ssa.Instruction]ssa.Value{}
		allInstrs(f, func(in ssa.Instruction) {
			switch x := in.(type) {
			case *ssa.Call:
				if sc := x.Call.StaticCallee(); sc != nil && sc.Name() == "GetPageAccess" {
					queries = append(queries, in)
					pageArg[in] = x.Call.Args[len(x.Call.Args)-1]
				}
			case *ssa.Lookup:
				if _, isMap := x.X.Type().Underlying().(*types.Map); isMap && strings.Contains(exprStr(x.X, shapeOpts), ".Pages") {
					queries = append(queries, in)
					pageArg[in] = x.Index
				}
			}
		})
		if len(queries) == 0 {
			c.Bad(rule, "PVM."+n+" · range test", f.Pos(), "no page-access query")
			continue
		}
		// the state of every page, as the rule values it: (mapped, access)
		pageState := func(mapped, access int64) atomFn {
			return func(s string) (int64, bool) {
				switch {
				case pageAccessCallRe.MatchString(s):
					if mapped == 0 {
						return 0, true
					}
					return access, true
				case strings.Contains(s, ".Pages[") && strings.HasSuffix(s, "]#1"):
					return mapped, true
				case strings.Contains(s, ".Pages[") && strings.HasSuffix(s, ".Access"):
					return access, true
				}
				return 0, false
			}
		}
		withRange := func(start, ln int64, st atomFn) atomFn {
			return func(s string) (int64, bool) {
				switch s {
				case "p0":
					return start, true
				case "p1":
					return ln, true
				}
				if st != nil {
					return st(s)
				}
				return 0, false
			}
		}
		// (1) the range guard: a page is consulted exactly when 0 < len <= 2^32 and start <= 2^32 − len; len = 0 gives true, a rejected range false
		bad := ""
		vals := []int64{0, 1, ZP - 1, ZP, ZP + 1, RAM - ZP, RAM - 1, RAM, RAM + 1, int64(^uint64(0) >> 1), -1 /* 2^64−1 */}
		for _, start := range vals {
			for _, ln := range vals {
				if bad != "" {
					break
				}
				us, ul := uint64(start), uint64(ln)
				rejected := ul > uint64(RAM) || us > uint64(RAM)-ul
				av := withRange(start, ln, nil)
				consulted := false
				for _, q := range queries {
					if some, _ := reachFromEntry(q, shapeOpts, av); some {
						consulted = true
					}
				}
				want := ul != 0 && !rejected
				if consulted != want {
					bad = fmt.Sprintf("start=%d len=%d: pages are consulted=%v; the GP range test (len ≤ 2^32 ∧ start ≤ 2^32 − len, len ≠ 0) gives %v", us, ul, consulted, want)
					break
				}
				if !want {
					// the constant result on this input
					r, ok := runWithAtoms(f, shapeOpts, av, nil)
					if !ok || len(r.Results) != 1 {
						bad = fmt.Sprintf("start=%d len=%d: the result is not decided by the range test alone", us, ul)
						break
					}
					k, isC := r.Results[0].(*ssa.Const)
					if !isC || k.Value == nil || (k.Value.String() == "true") != (ul == 0) {
						bad = fmt.Sprintf("start=%d len=%d: result %s; an empty range is accessible and an invalid range is not", us, ul, exprStr(r.Results[0], shapeOpts))
					}
				}
			}
		}
		c.Check(bad == "", rule, "PVM."+n+" · range test", f.Pos(), "len = 0 → true; len > 2^32 or start > 2^32 − len → false; otherwise pages are consulted (121 boundary valuations)", bad)
		// (2) the pages consulted, every page passing: exactly ⌊start/ZP⌋ .. ⌊(start+len−1)/ZP⌋, in whatever order
		bad = ""
		for _, st := range []int64{0, 1, ZP - 1, ZP, 5*ZP + 7, RAM - 3*ZP - 1} {
			for _, ln := range []int64{1, 2, ZP, ZP + 1, 3 * ZP} {
				if bad != "" || uint64(st) > uint64(RAM)-uint64(ln) {
					continue
				}
				seen := map[int64]int{}
				undecided := false
				r, ok := runWithAtomsEnv(f, shapeOpts, withRange(st, ln, pageState(1, 2)), func(in ssa.Instruction, env intEnv) {
					if a, isQ := pageArg[in]; isQ {
						if k, okk := evalInt(a, env, 0); okk {
							seen[int64(uint32(k))]++
						} else {
							undecided = true
						}
					}
				})
				first, last := st/ZP, (st+ln-1)/ZP
				good := ok && !undecided && int64(len(seen)) == last-first+1
				for p := first; p <= last && good; p++ {
					good = seen[p] > 0
				}
				if good && r != nil {
					if k, isC := r.Results[0].(*ssa.Const); !isC || k.Value == nil || k.Value.String() != "true" {
						good = false
					}
				}
				if !good {
					var ps []string
					for p := range seen {
						ps = append(ps, fmt.Sprint(p))
					}
					sort.Strings(ps)
					bad = fmt.Sprintf("start=%d len=%d, every page read-write: pages {%s} are consulted (evaluable=%v) and the result is not true for exactly the pages %d..%d", st, ln, strings.Join(ps, ","), ok && !undecided, first, last)
				}
			}
		}
		c.Check(bad == "", rule, "PVM."+n+" · pages", f.Pos(), "consults exactly the pages ⌊start/ZP⌋ .. ⌊(start+len−1)/ZP⌋ (26 ranges evaluated, any order)", bad)
		// (3) the page predicate: a page rejects the range iff it is unmapped or inaccessible (read) / not read-write (write)
		bad = ""
		for _, row := range [][2]int64{{0, 0}, {0, 2}, {1, 0}, {1, 1}, {1, 2}} {
			mapped, access := row[0], row[1]
			r, ok := runWithAtoms(f, shapeOpts, withRange(5*ZP+7, 1, pageState(mapped, access)), nil)
			wantOK := mapped == 1 && access != 0
			if n == "isWriteable" {
				wantOK = mapped == 1 && access == 2
			}
			if !ok || len(r.Results) != 1 {
				bad = fmt.Sprintf("page mapped=%d access=%d: the result does not follow from the page's state", mapped, access)
				break
			}
			k, isC := r.Results[0].(*ssa.Const)
			if !isC || k.Value == nil || (k.Value.String() == "true") != wantOK {
				bad = fmt.Sprintf("page mapped=%d access=%d: result %s, expected %v", mapped, access, exprStr(r.Results[0], shapeOpts), wantOK)
				break
			}
		}
		c.Check(bad == "", rule, "PVM."+n+" · access predicate", f.Pos(), "a page rejects the range exactly when it is "+map[string]string{"isReadable": "unmapped or inaccessible", "isWriteable": "unmapped or not read-write"}[n]+" (5/5 rows)", bad)
		// returns: constants only
		rs := returnShapes(f)["ret"]
		c.Check(strings.Join(rs, ",") == "false,true", rule, "PVM."+n+" · results", f.Pos(), "returns only constants true/false", "unexpected return shapes "+strings.Join(rs, ","))
	}
}

// ---- HC7/HC8: unknown identifiers, registries ----------------------------------------

// ruleOperationIndex: every slice indexed by a host-call identifier
// (OperationType) is bounds-guarded against len of that slice.
func (e *omegaEnv) ruleOperationIndex(rule string) {
	c := e.c
	opT := c.Obj("PVM", "OperationType")
	if opT == nil {
		return
	}
	n := 0
	for _, f := range c.SrcFuncs("PVM") {
		allInstrs(f, func(in ssa.Instruction) {
			ia, ok := in.(*ssa.IndexAddr)
			if !ok {
				return
			}
			if _, isSlice := ia.X.Type().Underlying().(*types.Slice); !isSlice {
				return
			}
			if _, isC := stripConv(ia.Index).(*ssa.Const); isC {
				return
			}
			// index derives from an OperationType value
			idx := ia.Index
			isOp := false
			for v, d := idx, 0; d < 4; d++ {
				if types.Identical(v.Type(), opT.Type()) {
					isOp = true
					break
				}
				switch x := v.(type) {
				case *ssa.Convert:
					v = x.X
				case *ssa.ChangeType:
					v = x.X
				default:
					d = 4
				}
			}
			// or the table is one of the identifier-indexed registries itself (a list of host-call functions, or
			// the package-level name table), whatever the index was converted to on the way
			if !isOp {
				ts := types.TypeString(ia.X.Type(), nil)
				if strings.HasSuffix(ts, "PVM.Omegas") || strings.HasSuffix(ts, "[]PVM.Omega") {
					isOp = true
				}
				if u, isU := ia.X.(*ssa.UnOp); isU {
					if g, isG := u.X.(*ssa.Global); isG && g.Name() == "hostCallName" {
						isOp = true
					}
				}
			}
			if !isOp {
				return
			}
			n++
			pass := condEdges(f, func(v ssa.Value) (bool, bool) {
				b, ok := v.(*ssa.BinOp)
				if !ok {
					return false, false
				}
				isLen := func(x ssa.Value) bool {
					call, ok := stripConv(x).(*ssa.Call)
					if !ok {
						return false
					}
					bi, ok := call.Call.Value.(*ssa.Builtin)
					return ok && bi.Name() == "len" && sameExpr(call.Call.Args[0], ia.X)
				}
				isIdx := func(x ssa.Value) bool { return sameExpr(x, idx) }
				switch {
				case b.Op == token.LSS && isIdx(b.X) && isLen(b.Y): // idx < len
					return true, true
				case b.Op == token.GTR && isLen(b.X) && isIdx(b.Y): // len > idx
					return true, true
				case b.Op == token.GEQ && isIdx(b.X) && isLen(b.Y): // idx >= len
					return true, false
				case b.Op == token.LEQ && isLen(b.X) && isIdx(b.Y): // len <= idx
					return true, false
				}
				return false, false
			})
			key := fmt.Sprintf("%s · %s[%s]", funcKey(f), exprStr(ia.X, shapeOpts), exprStr(idx, shapeOpts))
			okIdx := guardedBy(f, in, pass)
			if !okIdx {
				// or proven in range by the bounds prover (guards in a helper that reports (index, ok))
				for _, st := range checkBounds(f) {
					if st.in == in && st.ok {
						okIdx = true
					}
				}
			}
			c.Check(okIdx, rule, key, in.Pos(), "index by host-call identifier guarded by len of the same table",
				"table indexed by a raw host-call identifier without a bounds check against its length (unknown identifiers crash instead of returning WHAT)")
		})
	}
	c.extra["operation_indexed_tables"] = n
}

func (e *omegaEnv) ruleUnknownID(rule string) {
	c := e.c
	f := c.Fn("PVM", "Host.HostCall")
	if f == nil {
		return
	}
	// the dynamic call of the selected omega
	found := false
	allInstrs(f, func(in ssa.Instruction) {
		call, ok := in.(*ssa.Call)
		if !ok || call.Call.StaticCallee() != nil || call.Call.IsInvoke() {
			return
		}
		if !strings.Contains(types.TypeString(call.Call.Value.Type(), nil), "Omega") {
			return
		}
		found = true
		s := exprStr(call.Call.Value, exprOpts{})
		okShape := strings.HasPrefix(s, "phi(PVM.getOmega(") && strings.Contains(s, " | PVM.hostCallException") && strings.Contains(s, " | PVM.hostCallOutOfGas")
		if !okShape {
			// the same set of sources reached through merges and package helpers that select the function
			leaves := map[string]bool{}
			omegaSources(call.Call.Value, f, leaves, 0)
			okShape = leaves["getOmega"] && leaves["hostCallException"]
			for l := range leaves {
				if l != "getOmega" && l != "hostCallException" && l != "hostCallOutOfGas" && l != "nil" {
					okShape = false
				}
			}
		}
		c.Check(okShape, rule, "PVM.(*Host).HostCall · dispatch", in.Pos(), "dispatches getOmega's result, else hostCallException (or hostCallOutOfGas)", "unknown identifiers are not routed to hostCallException: callee is "+s)
		// id passed to getOmega is the full host-call id of the exit reason
	})
	if !found {
		c.Bad(rule, "PVM.(*Host).HostCall · dispatch", f.Pos(), "no dynamic dispatch of an Omega found")
	}
	// hostCallException stores WHAT
	if hx := c.Fn("PVM", "hostCallException"); hx != nil {
		var names []string
		allInstrs(hx, func(in ssa.Instruction) {
			if n, ok := e.errorStore(in); ok {
				names = append(names, n)
			}
		})
		c.Check(len(names) == 1 && names[0] == "WHAT", rule, "PVM.hostCallException · WHAT", hx.Pos(), "stores WHAT into register 7", fmt.Sprintf("stores %v into register 7, expected WHAT", names))
	}
	// the negative-gas selector: hostCallOutOfGas only when Gas < 0
	if g := c.Fn("PVM", "getOmega"); g != nil {
		conds := condShapes(g)
		want := []string{"(len(p0) <= p1)", "(p1 < 0)"}
		okB := strings.Join(conds, " ; ") == strings.Join(want, " ; ")
		if !okB {
			// or: every index into the registry is proven inside it from the tests that dominate it
			sites := checkBounds(g)
			okB = len(sites) > 0
			for _, st := range sites {
				if !st.ok {
					okB = false
				}
			}
		}
		c.Check(okB, rule, "PVM.getOmega · bounds", g.Pos(), "nil for identifiers outside the registry", "getOmega's bounds test is "+strings.Join(conds, " ; "))
	}
}

func (e *omegaEnv) ruleRegistries(rule string) {
	c := e.c
	regs := e.registries()
	base := regs["HostCallFunctions"]
	if len(base) < 28 {
		c.Bad(rule, "PVM.HostCallFunctions", token.NoPos, "only %d entries resolved in the base registry", len(base))
		return
	}
	// wrapper globals: name -> wrapped function
	wrapped := map[string]string{}
	if p := c.Pkg("PVM"); p != nil {
		if sp := c.ssaPkgs[p.Types]; sp != nil {
			if initf := sp.Func("init"); initf != nil {
				allInstrs(initf, func(in ssa.Instruction) {
					st, ok := in.(*ssa.Store)
					if !ok {
						return
					}
					g, ok := st.Addr.(*ssa.Global)
					if !ok {
						return
					}
					if call, ok := stripConv(st.Val).(*ssa.Call); ok {
						if sc := call.Call.StaticCallee(); sc != nil && sc.Name() == "wrapWithG" && len(call.Call.Args) == 1 {
							wrapped["PVM."+g.Name()] = exprStr(call.Call.Args[0], exprOpts{})
						}
					}
				})
			}
		}
	}
	for _, name := range []string{"AccumulateOmegas", "RefineOmegas", "IsAuthorizedOmegas"} {
		m := regs[name]
		if len(m) == 0 {
			c.Bad(rule, "PVM."+name, token.NoPos, "registry not resolved")
			continue
		}
		for _, k := range sortedKeys(m) {
			v := m[k]
			key := fmt.Sprintf("PVM.%s[%d]", name, k)
			want := base[k]
			switch {
			case v == fmt.Sprintf("PVM.HostCallFunctions[%d]", k):
				c.OK(rule, key, token.NoPos, "same slot of the base registry (%s)", want)
			case v == want:
				c.OK(rule, key, token.NoPos, "same function as the base registry (%s)", want)
			case wrapped[v] != "" && wrapped[v] == want:
				c.OK(rule, key, token.NoPos, "wrapWithG of the base registry's function (%s)", want)
			default:
				c.Bad(rule, key, token.NoPos, "registry entry %s is neither HostCallFunctions[%d] (%s) nor its wrapWithG wrapper", v, k, want)
			}
		}
	}
	// name table covers every registered id
	if p := c.Pkg("PVM"); p != nil {
		names := map[int64]bool{}
		maxIdx := int64(-1)
		for _, file := range p.Syntax {
			for _, d := range file.Decls {
				gd, ok := d.(*ast.GenDecl)
				if !ok {
					continue
				}
				for _, sp := range gd.Specs {
					vs, ok := sp.(*ast.ValueSpec)
					if !ok || len(vs.Names) != 1 || vs.Names[0].Name != "hostCallName" || len(vs.Values) != 1 {
						continue
					}
					if cl, ok := vs.Values[0].(*ast.CompositeLit); ok {
						next := int64(0)
						for _, el := range cl.Elts {
							if kv, ok := el.(*ast.KeyValueExpr); ok {
								if tv, ok := p.TypesInfo.Types[kv.Key]; ok && tv.Value != nil {
									if i, exact := constant.Int64Val(tv.Value); exact {
										next = i
									}
								}
							}
							names[next] = true
							if next > maxIdx {
								maxIdx = next
							}
							next++
						}
					}
				}
			}
		}
		for _, k := range sortedKeys(base) {
			c.Check(names[k], rule, fmt.Sprintf("PVM.hostCallName[%d]", k), token.NoPos, "registered identifier has a name", "registered host-call identifier has no entry in hostCallName")
		}
	}
}

// constStr renders the exact value of a package-level constant the way the
// canonical renderer prints constants.
func (c *Ctx) constStr(rel, name string) string {
	if o, ok := c.Obj(rel, name).(*types.Const); ok {
		return o.Val().ExactString()
	}
	return "<unresolved " + name + ">"
}

// rootIsParamCell: the address is rooted in the local cell that holds a
// by-value parameter (the host call's own OmegaInput copy).
func rootIsParamCell(addr ssa.Value) bool {
	v := addr
	for i := 0; i < 30; i++ {
		switch x := v.(type) {
		case *ssa.FieldAddr:
			v = x.X
		case *ssa.IndexAddr:
			v = x.X
		case *ssa.Alloc:
			iv := initStore(x)
			_, isParam := iv.(*ssa.Parameter)
			return isParam
		default:
			return false
		}
	}
	return false
}
