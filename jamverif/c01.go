package main

import (
	"fmt"
	"go/ast"
	"go/token"
	"sort"
	"strings"

	"golang.org/x/tools/go/ssa"
)

// minClamps extracts every balanced "min(4, …)" sub-expression of s.
func minClamps(s string) []string {
	var out []string
	for i := 0; i+7 <= len(s); i++ {
		if !strings.HasPrefix(s[i:], "min(4, ") {
			continue
		}
		depth := 0
		for j := i + 3; j < len(s); j++ {
			if s[j] == '(' {
				depth++
			} else if s[j] == ')' {
				depth--
				if depth == 0 {
					out = append(out, s[i:j+1])
					break
				}
			}
		}
	}
	return out
}

func gpCategory(k int64) string {
	switch {
	case k == 0 || k == 1:
		return "InstrCatNoArg"
	case k == 10:
		return "InstrCatOneImm"
	case k == 20:
		return "InstrCatOneRegExtImm"
	case k >= 30 && k <= 33:
		return "InstrCatTwoImm"
	case k == 40:
		return "InstrCatOneOffset"
	case k >= 50 && k <= 62:
		return "InstrCatOneRegOneImm"
	case k >= 70 && k <= 73:
		return "InstrCatOneRegTwoImm"
	case k >= 80 && k <= 90:
		return "InstrCatOneRegImmOff"
	case k >= 100 && k <= 111:
		return "InstrCatTwoReg"
	case k >= 120 && k <= 161:
		return "InstrCatTwoRegOneImm"
	case k >= 170 && k <= 175:
		return "InstrCatTwoRegOneOff"
	case k == 180:
		return "InstrCatTwoRegTwoImm"
	case k >= 190 && k <= 230:
		return "InstrCatThreeReg"
	}
	return "InstrCatInvalid"
}

func gpTerminator(k int64) bool {
	return k == 0 || k == 1 || k == 40 || k == 50 || (k >= 80 && k <= 90) || (k >= 170 && k <= 175) || k == 180
}

func checkC01(c *Ctx) (string, []string) {
	e := newOmegaEnv(c)
	t := c.loadOpTables()
	if len(c.fatal) > 0 || t == nil {
		return "", nil
	}
	// ---- opcode tables
	c.Rule("C01.opcode-tables", "opcodeInfoTable (valid entries), zeta, execInstructions (non-nil) and the cases of instrMetaExecForOpcode have the same key set (139 opcodes); each opcode's operand category and block-terminator flag equal GP A.5; the default arm of instrMetaExecForOpcode is the trap handler; decodeOperands handles every category", 139)
	keys := map[int64]bool{}
	for k := range t.info {
		keys[k] = true
	}
	for k := range t.zeta {
		keys[k] = true
	}
	for k := range t.legacy {
		keys[k] = true
	}
	for k := range t.meta {
		keys[k] = true
	}
	var ks []int64
	for k := range keys {
		ks = append(ks, k)
	}
	sort.Slice(ks, func(i, j int) bool { return ks[i] < ks[j] })
	for _, k := range ks {
		oi, inInfo := t.info[k]
		valid := inInfo && oi.category != "InstrCatInvalid" && oi.category != ""
		problems := []string{}
		if valid != t.zeta[k] {
			problems = append(problems, fmt.Sprintf("zeta has it: %v", t.zeta[k]))
		}
		if valid != (t.legacy[k] != nil) {
			problems = append(problems, fmt.Sprintf("single-step handler present: %v", t.legacy[k] != nil))
		}
		if valid != (t.meta[k] != nil) {
			problems = append(problems, fmt.Sprintf("pre-decoded handler present: %v", t.meta[k] != nil))
		}
		if valid && oi.category != gpCategory(k) {
			problems = append(problems, "category "+oi.category+" but GP A.5 has "+gpCategory(k))
		}
		if !valid && gpCategory(k) != "InstrCatInvalid" {
			problems = append(problems, "GP opcode missing from opcodeInfoTable")
		}
		if valid && oi.terminator != gpTerminator(k) {
			problems = append(problems, fmt.Sprintf("IsTerminator=%v but GP basic-block terminators say %v", oi.terminator, gpTerminator(k)))
		}
		c.Check(len(problems) == 0, "C01.opcode-tables", fmt.Sprintf("opcode %d %s", k, oi.name), token.NoPos, "tables agree", "opcode tables disagree (valid="+fmt.Sprint(valid)+"): "+strings.Join(problems, "; "))
	}
	c.Check(t.metaDflt != nil && t.meta[0] != nil && t.metaDflt == t.meta[0], "C01.opcode-tables", "instrMetaExecForOpcode · default arm", token.NoPos, "invalid opcodes execute trap", "the default arm of instrMetaExecForOpcode is not the trap handler")
	if f := c.Fn("PVM", "ProgramCode.isOpcode"); f != nil {
		rs := returnShapes(f)["ret"]
		c.Check(strings.Join(rs, "|") == "0|u64(p0[p1])", "C01.opcode-tables", "ProgramCode.isOpcode", f.Pos(), "invalid opcode bytes are executed as opcode 0 (trap) by the single-step engine", "isOpcode returns "+strings.Join(rs, "|"))
	}
	if fd, p := c.FuncDecl("PVM", "decodeOperands"); fd != nil {
		cats := map[string]bool{}
		ast.Inspect(fd.Body, func(n ast.Node) bool {
			if cc, ok := n.(*ast.CaseClause); ok {
				for _, x := range cc.List {
					cats[exprText(p.Fset, x)] = true
				}
			}
			return true
		})
		for _, k := range ks {
			if cat := gpCategory(k); cat != "InstrCatInvalid" && !cats[cat] {
				c.Bad("C01.opcode-tables", "decodeOperands · "+cat, fd.Pos(), "operand category %s has no arm in decodeOperands", cat)
				cats[cat] = true
			}
		}
	}

	// ---- decode forms
	c.Rule("C01.decode-forms", "every operand decoder yields register indices min(12, ·) from the GP nibble/byte, immediate lengths with the GP clamps (min(4, b mod 8), min(4, max(0, ℓ − l_X − k))) and sign-extended immediates", 30)
	b1, b2 := "p0[(1 + p1)]", "p0[(2 + p1)]"
	rMod, rFloor := "min(12, ("+b1+" % 16))", "min(12, ("+b1+" >> 4))"
	type spec struct {
		regs   map[string]string
		clamps []string
		sext   bool
	}
	lx7 := "min(4, u32(((" + b1 + " >> 4) % 8)))"
	lx8 := "min(4, ((" + b1 + " >> 4) % 8))"
	lx4 := "min(4, (" + b1 + " % 8))"
	lx11 := "min(4, (" + b2 + " % 8))"
	specs := map[string]spec{
		"getRegModIndex":                            {regs: map[string]string{"ret": rMod}},
		"getRegFloorIndex":                          {regs: map[string]string{"ret": rFloor}},
		"decodeOneImmediate":                        {clamps: []string{"min(4, p2)"}, sext: true},
		"decodeTwoImmediates":                       {clamps: []string{lx4, "min(4, max(0, ((p2 - u32(" + lx4 + ")) - 1)))"}, sext: true},
		"decodeOneOffset":                           {clamps: []string{"min(4, p2)"}, sext: true},
		"decodeOneRegisterAndOneImmediate":          {regs: map[string]string{"ret#0": rMod}, clamps: []string{"min(4, max(0, (p2 - 1)))"}, sext: true},
		"decodeOneRegisterAndTwoImmediates":         {regs: map[string]string{"ret#0": "i8(" + rMod + ")"}, clamps: []string{lx7, "min(4, max(0, ((p2 - " + lx7 + ") - 1)))"}, sext: true},
		"decodeOneRegisterOneImmediateAndOneOffset": {regs: map[string]string{"ret#0": rMod}, clamps: []string{lx8, "min(4, max(0, ((p2 - u32(" + lx8 + ")) - 1)))"}, sext: true},
		"decodeTwoRegisters":                        {regs: map[string]string{"ret#0": "PVM.getRegModIndex(p0, p1)", "ret#1": "PVM.getRegFloorIndex(p0, p1)"}},
		"decodeTwoRegistersAndOneImmediate":         {regs: map[string]string{"ret#0": "min(12, (15 & " + b1 + "))", "ret#1": rFloor}, clamps: []string{"min(4, max(0, (p2 - 1)))"}, sext: true},
		"decodeTwoRegistersAndOneOffset":            {regs: map[string]string{"ret#0": rMod, "ret#1": rFloor}, clamps: []string{"min(4, max(0, (p2 - 1)))"}, sext: true},
		"decodeTwoRegistersAndTwoImmediates":        {regs: map[string]string{"ret#0": rMod, "ret#1": rFloor}, clamps: []string{lx11, "min(4, max(0, ((p2 - u32(" + lx11 + ")) - 2)))"}, sext: true},
		"decodeThreeRegisters":                      {regs: map[string]string{"ret#0": "PVM.getRegModIndex(p0, p1)", "ret#1": "PVM.getRegFloorIndex(p0, p1)", "ret#2": "min(12, " + b2 + ")"}},
	}
	var names []string
	for n := range specs {
		names = append(names, n)
	}
	sort.Strings(names)
	for _, n := range names {
		sp := specs[n]
		f := c.Fn("PVM", n)
		if f == nil {
			continue
		}
		rs := returnShapes(f)
		for slot, want := range sp.regs {
			got := []string{}
			for _, s := range rs[slot] {
				if s != "0" {
					got = append(got, s)
				}
			}
			c.Check(len(got) == 1 && got[0] == want, "C01.decode-forms", "PVM."+n+" · register "+slot, f.Pos(), "register index "+want, "register index is "+strings.Join(got, "|")+", GP form is "+want)
		}
		if sp.clamps != nil {
			set := map[string]bool{}
			for slot, ss := range rs {
				if strings.HasPrefix(slot, "ret") {
					for _, s := range ss {
						if strings.Contains(s, "fmt.Errorf") {
							continue
						}
						for _, m := range minClamps(s) {
							if !strings.Contains(m, "…") { // depth-truncated renderings of the same clamp deeper in the tree
								set[m] = true
							}
						}
					}
				}
			}
			var got []string
			for m := range set {
				got = append(got, m)
			}
			sort.Strings(got)
			want := append([]string{}, sp.clamps...)
			sort.Strings(want)
			c.Check(strings.Join(got, " ; ") == strings.Join(want, " ; "), "C01.decode-forms", "PVM."+n+" · immediate lengths", f.Pos(), "length clamps "+strings.Join(got, " ; "), "immediate length clamps are ["+strings.Join(got, " ; ")+"], GP forms are ["+strings.Join(want, " ; ")+"]")
		}
		if sp.sext {
			// every immediate/offset result flows through a sign-extending reader
			okS := true
			bad := ""
			for slot, ss := range rs {
				for _, s := range ss {
					if s == "0" || s == "nil" || strings.Contains(s, "Errorf") || strings.HasSuffix(slot, fmt.Sprint(len(rs)-1)) {
						continue
					}
					if strings.Contains(s, "min(12") || strings.Contains(s, "getReg") {
						continue
					}
					if strings.Contains(s, "#2") || strings.Contains(s, "#1") && !strings.Contains(s, "#0") {
						continue // error results
					}
					if !(strings.Contains(s, "SignExtend") || strings.Contains(s, "ReadIntFixed") || strings.Contains(s, "ReadUintSignExtended")) {
						okS = false
						bad = slot + " ← " + s
					}
				}
			}
			c.Check(okS, "C01.decode-forms", "PVM."+n+" · sign extension", f.Pos(), "immediates are sign-extended", "an immediate is returned without sign extension: "+bad)
		}
	}

	// ---- ecalli identifier
	c.Rule("C01.ecalli-id", "ecalli's immediate reaches the host-call dispatch without narrowing below 32 bits and cannot touch the reason-type byte: both handlers return hostCallExit(imm); hostCallExit ORs ExitHostCall with a value ≤ 2^32-1; Psi_H and invoke read it back with a 32-bit accessor", 5)
	hc := c.constStr("PVM", "ExitHostCall")
	if f := c.Fn("PVM", "hostCallExit"); f != nil {
		rs := returnShapes(f)["ret"]
		c.Check(strings.Join(rs, "|") == "("+hc+" | phi(4294967295 | p0))", "C01.ecalli-id", "PVM.hostCallExit", f.Pos(), "identifier clamped to 32 bits before packing", "hostCallExit returns "+strings.Join(rs, "|"))
		cs := condShapes(f)
		c.Check(strings.Join(cs, ";") == "(4294967295 < p0)", "C01.ecalli-id", "PVM.hostCallExit · clamp test", f.Pos(), "values above 2^32-1 are replaced", "clamp test is "+strings.Join(cs, ";"))
	}
	if f := c.Fn("PVM", "ExitReason.GetHostCallIndex"); f != nil {
		rs := returnShapes(f)["ret"]
		c.Check(strings.Join(rs, "|") == "u32(p0)", "C01.ecalli-id", "PVM.ExitReason.GetHostCallIndex", f.Pos(), "32-bit accessor", "accessor returns "+strings.Join(rs, "|"))
	}
	for _, h := range []string{"instEcalli", "instEcalliMeta"} {
		if f := c.Fn("PVM", h); f != nil {
			ok := false
			for _, s := range returnShapes(f)["ret#0"] {
				if strings.HasPrefix(s, "PVM.hostCallExit(") {
					ok = true
				} else if s != c.constStr("PVM", "ExitPanic") {
					ok = false
					break
				}
			}
			c.Check(ok, "C01.ecalli-id", "PVM."+h, f.Pos(), "returns hostCallExit(immediate)", "ecalli handler does not pack its immediate through hostCallExit: "+strings.Join(returnShapes(f)["ret#0"], "|"))
		}
	}
	for _, fn := range []string{"Host.HostCall", "invoke"} {
		f := c.Fn("PVM", fn)
		if f == nil {
			continue
		}
		narrow := callsIn(f, c.Obj("PVM", "ExitReason.GetHostCallID"))
		wide := callsIn(f, c.Obj("PVM", "ExitReason.GetHostCallIndex"))
		c.Check(len(narrow) == 0 && len(wide) >= 1, "C01.ecalli-id", "PVM."+fn+" · accessor", f.Pos(), "reads the identifier with the 32-bit accessor", "the host-call identifier is read back through the 8-bit GetHostCallID (identifiers ≥ 256 alias low ones)")
	}

	// the decoded program is immutable at run time: block starts, instruction index, bitmask and code are what deblob
	// and the pre-decoder built — an engine that writes into these tables changes which pcs count as block starts
	c.Rule("C01.program-immutable", "elements of a Program's tables (BlockAt, InstrIdxAt, Instrs, Bitmasks, InstructionData, jump table) are stored only by the deblob path (DeBlobProgramCode, MakeBitMasks, preDecodeBlocks and the helpers they call, executable/zeroExtend on their private copies); no instruction handler or engine writes into them", 1)
	{
		allowed := map[string]bool{"DeBlobProgramCode": true, "MakeBitMasks": true, "preDecodeBlocks": true, "decodeOperands": true, "executable": true, "zeroExtend": true}
		tables := map[string]bool{"BlockAt": true, "InstrIdxAt": true, "Instrs": true, "Bitmasks": true, "InstructionData": true}
		nok := 0
		for _, f0 := range c.SrcFuncs("PVM") {
			for _, f := range withClosures(f0) {
				allInstrs(f, func(in ssa.Instruction) {
					st, ok := in.(*ssa.Store)
					if !ok {
						return
					}
					ia, isIA := st.Addr.(*ssa.IndexAddr)
					if !isIA {
						return
					}
					// the indexed value is a load of a Program field
					u, isU := stripConv(ia.X).(*ssa.UnOp)
					if !isU || u.Op != token.MUL {
						return
					}
					fa, isFA := u.X.(*ssa.FieldAddr)
					if !isFA || !tables[fieldName(fa.X.Type(), fa.Field)] || !hasSuffixType(derefType(fa.X.Type()), "PVM.Program") {
						return
					}
					name := fieldName(fa.X.Type(), fa.Field)
					if allowed[f.Name()] || f.Parent() != nil && allowed[f.Parent().Name()] {
						nok++
						return
					}
					c.Bad("C01.program-immutable", funcKey(f)+" · "+name+"[…] ←", st.Pos(), "%s stores into Program.%s at run time: the table that decides block starts / instruction boundaries is no longer the one built from the blob (a pc can become a legal jump target after the machine was resumed there)", f.Name(), name)
				})
			}
		}
		c.Check(nok > 0, "C01.program-immutable", "PVM · table writers", token.NoPos, fmt.Sprintf("%d element stores, all inside the deblob path", nok), "no store into the program tables found at all (the pre-decoder was not recognised)")
	}

	c01MulUpperBorrow(c, e)

	c.Rule("C01.reads-before-writes", "within every instruction handler of either engine all register reads precede the register write (operands refer to the prior state even when source and destination registers coincide)", 200)
	e.ruleReadsBeforeWrites("C01.reads-before-writes", t)

	return "PVM conformance mechanisms decided statically: agreement of the four opcode registries with each other and with GP A.5 categories/terminators, trap for invalid opcodes in both engines, the GP forms of every operand decoder (register nibbles, immediate-length clamps, sign extension), the full-width ecalli identifier path, and read-before-write in all 248 handlers. Does not decide per-instruction arithmetic results, zero-extension of code at the blob end (see C03), or memory results.",
		[]string{"GP A.5 category ranges and the terminator set are embedded as the specification table", "canonical expression rendering"}
}

var _ ssa.Value
