package main

import (
	"fmt"
	"go/token"
	"go/types"
	"sort"
	"strings"

	"golang.org/x/tools/go/ssa"
)

// exprOpts controls canonical rendering of SSA expression trees.
type exprOpts struct {
	showConv bool // render integer conversions as uN(...)/iN(...)
	sums     bool // render accumulation phis as Σ(init; term) and loop indices as *
	depth    int
	swap     [2]int // when swap[0] != swap[1]: render parameter swap[0] as swap[1] and vice versa (symmetry checks)
	// inline: calls to module helpers accepted by this predicate are rendered
	// as the helper's returned expression with the arguments substituted
	// (loop-free, non-recursive helpers only), so extracting or inlining a
	// helper does not change the rendering.
	inline func(*ssa.Function) bool
	// abstract: consulted first for every value; lets a rule replace a
	// sub-expression it has decided semantically (e.g. "⌈n/2⌉") by a name.
	abstract func(ssa.Value) (string, bool)
	// cat: append chains are flattened to cat(part, part, …); empty bases
	// (nil, make(T,0,…), x[:0]) vanish.
	cat bool
	// fills: a make([]T, n) is rendered together with the element stores and
	// copy() calls that fill it, so a slice built by a loop is one term.
	fills bool
	// loops: with inline set, helpers containing loops are inlined as well
	// (rendering is by value and does not depend on control flow).
	loops bool
	// seqLit: an element of a literal array selected by a loop counter is
	// rendered seq(a, b, …) in literal order (default: the sorted set phi(a | b)).
	seqLit bool
}

// exprStr renders a pure SSA expression as a canonical string that is
// insensitive to local variable names, temporaries, statement order and
// operand order of commutative operators. Parameters are p0,p1,... (receiver
// is p0 for methods), free variables are fv<name-independent index>.
func exprStr(v ssa.Value, o exprOpts) string {
	r := &renderer{o: o, onStack: map[ssa.Value]bool{}}
	if r.o.depth == 0 {
		r.o.depth = 14
	}
	r.markRoot(v)
	return r.render(v, 0)
}

// markRoot: the function the rendered value belongs to is never inlined into itself.
func (r *renderer) markRoot(v ssa.Value) {
	if v == nil || r.o.inline == nil {
		return
	}
	if f := v.Parent(); f != nil {
		if r.inlining == nil {
			r.inlining = map[*ssa.Function]bool{}
		}
		r.inlining[f] = true
	}
}

type renderer struct {
	o        exprOpts
	onStack  map[ssa.Value]bool
	subst    map[ssa.Value]string
	inlining map[*ssa.Function]bool
}

// helperInlinable is the default inline predicate: unexported (or closure)
// functions of the module, without loops, of moderate size.
func helperInlinable(f *ssa.Function) bool {
	if f == nil || len(f.Blocks) == 0 || f.Pkg == nil && f.Parent() == nil {
		return false
	}
	pk := f.Pkg
	if pk == nil && f.Parent() != nil {
		pk = f.Parent().Pkg
	}
	if pk == nil || !strings.HasPrefix(pk.Pkg.Path(), modPath) {
		return false
	}
	if f.Parent() == nil && token.IsExported(f.Name()) {
		return false
	}
	n := 0
	for _, b := range f.Blocks {
		n += len(b.Instrs)
		for _, s := range b.Succs {
			if s.Dominates(b) {
				return false // loop
			}
		}
	}
	return n <= 120
}

// helperInlinableLoops: as helperInlinable, loops allowed.
func helperInlinableLoops(f *ssa.Function) bool {
	if f == nil || len(f.Blocks) == 0 {
		return false
	}
	pk := f.Pkg
	if pk == nil && f.Parent() != nil {
		pk = f.Parent().Pkg
	}
	if pk == nil || !strings.HasPrefix(pk.Pkg.Path(), modPath) {
		return false
	}
	if f.Parent() == nil && token.IsExported(f.Name()) {
		return false
	}
	n := 0
	for _, b := range f.Blocks {
		n += len(b.Instrs)
	}
	return n <= 200
}

// fillsOf lists the stores and copies that fill a freshly made slice.
func (r *renderer) fillsOf(m ssa.Value, d int) []string {
	set := map[string]bool{}
	var visit func(v ssa.Value, off string, depth int)
	visit = func(v ssa.Value, off string, depth int) {
		if depth > 4 || v.Referrers() == nil {
			return
		}
		for _, ref := range *v.Referrers() {
			switch x := ref.(type) {
			case *ssa.IndexAddr:
				if x.X != v {
					continue
				}
				for _, r2 := range *x.Referrers() {
					if st, ok := r2.(*ssa.Store); ok && st.Addr == ssa.Value(x) {
						set[off+"["+r.idx(x.Index, d+1)+"] ← "+r.render(st.Val, d+1)] = true
					}
					if sl, ok := r2.(*ssa.Slice); ok {
						// copy(ret[i][:], src): element filled by copy
						for _, r3 := range *sl.Referrers() {
							if ci, ok := r3.(ssa.CallInstruction); ok {
								if b, isB := ci.Common().Value.(*ssa.Builtin); isB && b.Name() == "copy" && ci.Common().Args[0] == ssa.Value(sl) {
									set[off+"["+r.idx(x.Index, d+1)+"] ⇐ "+r.render(ci.Common().Args[1], d+1)] = true
								}
							}
						}
					}
				}
			case *ssa.Slice:
				if x.X != v {
					continue
				}
				lo := ""
				if x.Low != nil {
					lo = r.render(x.Low, d+1)
				}
				hi := ""
				if x.High != nil {
					hi = r.render(x.High, d+1)
				}
				for _, r2 := range *x.Referrers() {
					if ci, ok := r2.(ssa.CallInstruction); ok {
						if b, isB := ci.Common().Value.(*ssa.Builtin); isB && b.Name() == "copy" && ci.Common().Args[0] == ssa.Value(x) {
							set[off+"["+lo+":"+hi+"] ⇐ "+r.render(ci.Common().Args[1], d+1)] = true
						}
					}
				}
			case *ssa.ChangeType:
				visit(x, off, depth+1)
			case ssa.CallInstruction:
				if b, isB := x.Common().Value.(*ssa.Builtin); isB && b.Name() == "copy" && x.Common().Args[0] == v {
					set[off+"[:] ⇐ "+r.render(x.Common().Args[1], d+1)] = true
				}
			case *ssa.Phi:
				// carried round a loop unchanged
			}
		}
	}
	visit(m, "", 0)
	var out []string
	for s := range set {
		out = append(out, s)
	}
	sort.Strings(out)
	return out
}

// renderInlined renders result #idx of a call to an inlinable helper.
func (r *renderer) renderInlined(call *ssa.Call, f *ssa.Function, idx int, d int) (string, bool) {
	if r.inlining[f] || len(call.Call.Args) != len(f.Params) {
		return "", false
	}
	saved := r.subst
	ns := map[ssa.Value]string{}
	for k, v := range saved {
		ns[k] = v
	}
	for i, p := range f.Params {
		ns[p] = r.render(call.Call.Args[i], d+1)
	}
	if mc, ok := call.Call.Value.(*ssa.MakeClosure); ok {
		for i, fv := range f.FreeVars {
			if i < len(mc.Bindings) {
				ns[fv] = r.render(mc.Bindings[i], d+1)
			}
		}
	}
	r.subst = ns
	if r.inlining == nil {
		r.inlining = map[*ssa.Function]bool{}
	}
	r.inlining[f] = true
	seen := map[string]bool{}
	var alts []string
	okAll := true
	// (value, ok) helpers: when every use of the value lies behind the ok result being true, the returns that report failure contribute no alternative
	okIdx := -1
	if rs := f.Signature.Results(); rs.Len() >= 2 && idx < rs.Len() {
		for k := 0; k < rs.Len(); k++ {
			if k != idx && isBoolT(rs.At(k).Type()) {
				okIdx = k
			}
		}
	}
	dropFailures := false
	if okIdx >= 0 && call.Parent() != nil && call.Referrers() != nil {
		var okVal, val ssa.Value
		for _, r := range *call.Referrers() {
			if ex, isEx := r.(*ssa.Extract); isEx {
				if ex.Index == okIdx {
					okVal = ex
				}
				if ex.Index == idx {
					val = ex
				}
			}
		}
		if okVal != nil && val != nil && val.Referrers() != nil {
			pass := condEdges(call.Parent(), func(cv ssa.Value) (bool, bool) {
				if cv == okVal {
					return true, true
				}
				if u, isU := cv.(*ssa.UnOp); isU && u.Op == token.NOT && u.X == okVal {
					return true, false
				}
				return false, false
			})
			dropFailures = len(pass) > 0
			for _, u := range *val.Referrers() {
				if _, isDbg := u.(*ssa.DebugRef); isDbg {
					continue
				}
				if !guardedBy(call.Parent(), u, pass) {
					dropFailures = false
				}
			}
		}
	}
	for _, b := range f.Blocks {
		ret, isR := b.Instrs[len(b.Instrs)-1].(*ssa.Return)
		if !isR {
			continue
		}
		res := retResults(ret)
		if idx >= len(res) {
			okAll = false
			break
		}
		if dropFailures {
			if k, isC := res[okIdx].(*ssa.Const); isC && k.Value != nil && k.Value.String() == "false" {
				continue
			}
		}
		s := r.render(res[idx], d+1)
		if !seen[s] {
			seen[s] = true
			alts = append(alts, s)
		}
	}
	delete(r.inlining, f)
	r.subst = saved
	if !okAll || len(alts) == 0 {
		return "", false
	}
	for _, a := range alts {
		rest := a
		for _, p := range f.Params {
			if as := ns[p]; len(as) > 3 {
				rest = strings.ReplaceAll(rest, as, "")
			}
		}
		if strings.Contains(rest, "alloc:") {
			return "", false // the helper builds its result in local storage the renderer cannot express: keep the call
		}
	}
	sort.Strings(alts)
	if len(alts) == 1 {
		return alts[0], true
	}
	return "phi(" + strings.Join(alts, " | ") + ")", true
}

// catParts flattens an append chain into its parts.
func (r *renderer) catParts(v ssa.Value, d int) []string {
	if d > r.o.depth {
		return []string{"…"}
	}
	if _, ok := r.subst[v]; ok {
		return []string{r.render(v, d)}
	}
	switch x := v.(type) {
	case *ssa.ChangeType:
		return r.catParts(x.X, d)
	case *ssa.Convert:
		if _, isSlice := x.Type().Underlying().(*types.Slice); isSlice {
			if _, fromSlice := x.X.Type().Underlying().(*types.Slice); fromSlice {
				return r.catParts(x.X, d)
			}
		}
	case *ssa.Const:
		if x.Value == nil {
			return nil
		}
	case *ssa.MakeSlice:
		if k, ok := constInt(x.Len); ok && k == 0 {
			return nil
		}
	case *ssa.Slice:
		if x.High != nil {
			if k, ok := constInt(x.High); ok && k == 0 {
				return nil
			}
		}
	case *ssa.Call:
		if b, ok := x.Call.Value.(*ssa.Builtin); ok && b.Name() == "append" && len(x.Call.Args) == 2 {
			return append(r.catParts(x.Call.Args[0], d+1), r.render(x.Call.Args[1], d+1))
		}
	case *ssa.Phi:
		if r.onStack[v] {
			return nil // the buffer carried round a loop and reset: its old content is dropped by [:0]
		}
		r.onStack[v] = true
		defer delete(r.onStack, v)
		var first []string
		same := true
		for i, e := range x.Edges {
			p := r.catParts(e, d+1)
			if i == 0 {
				first = p
			} else if strings.Join(p, "\x00") != strings.Join(first, "\x00") {
				same = false
			}
		}
		if same {
			return first
		}
		delete(r.onStack, v)
	}
	return []string{r.render(v, d)}
}

func relName(s string) string { return strings.ReplaceAll(s, modPath+"/", "") }

func intTypeName(t types.Type) string {
	b, ok := t.Underlying().(*types.Basic)
	if !ok {
		return ""
	}
	switch b.Kind() {
	case types.Int8:
		return "i8"
	case types.Int16:
		return "i16"
	case types.Int32:
		return "i32"
	case types.Int64:
		return "i64"
	case types.Int:
		return "int"
	case types.Uint8:
		return "u8"
	case types.Uint16:
		return "u16"
	case types.Uint32:
		return "u32"
	case types.Uint64:
		return "u64"
	case types.Uint:
		return "uint"
	case types.Uintptr:
		return "uintptr"
	}
	return ""
}

func (r *renderer) render(v ssa.Value, d int) string {
	if v == nil {
		return "nil"
	}
	if s, ok := r.subst[v]; ok {
		return s
	}
	if r.o.abstract != nil {
		if s, ok := r.o.abstract(v); ok {
			return s
		}
	}
	if d > r.o.depth {
		return "…"
	}
	if r.onStack[v] {
		return "cyc"
	}
	r.onStack[v] = true
	defer delete(r.onStack, v)
	switch x := v.(type) {
	case *ssa.Const:
		if x.Value == nil {
			return "nil"
		}
		return x.Value.ExactString()
	case *ssa.Parameter:
		for i, p := range x.Parent().Params {
			if p == x {
				if r.o.swap[0] != r.o.swap[1] {
					if i == r.o.swap[0] {
						i = r.o.swap[1]
					} else if i == r.o.swap[1] {
						i = r.o.swap[0]
					}
				}
				return fmt.Sprintf("p%d", i)
			}
		}
		return "p?"
	case *ssa.FreeVar:
		for i, p := range x.Parent().FreeVars {
			if p == x {
				return fmt.Sprintf("fv%d", i)
			}
		}
		return "fv?"
	case *ssa.Global:
		return relName(x.String())
	case *ssa.Function:
		return relName(x.String())
	case *ssa.Builtin:
		return x.Name()
	case *ssa.ChangeType:
		return r.render(x.X, d)
	case *ssa.MakeInterface:
		return r.render(x.X, d)
	case *ssa.ChangeInterface:
		return r.render(x.X, d)
	case *ssa.Convert:
		if r.o.showConv {
			if n := intTypeName(x.Type()); n != "" {
				if m := intTypeName(x.X.Type()); m != n {
					return n + "(" + r.render(x.X, d+1) + ")"
				}
			}
		}
		return r.render(x.X, d)
	case *ssa.BinOp:
		if r.o.sums && loopVarying(x, 0) {
			return "*"
		}
		a, b := r.render(x.X, d+1), r.render(x.Y, d+1)
		op := x.Op
		switch op {
		case token.ADD, token.MUL, token.AND, token.OR, token.XOR, token.EQL, token.NEQ:
			if isStringType(x.X.Type()) && op == token.ADD {
				break
			}
			if a > b {
				a, b = b, a
			}
		case token.GTR: // a > b  ==  b < a
			a, b, op = b, a, token.LSS
		case token.GEQ:
			a, b, op = b, a, token.LEQ
		}
		return "(" + a + " " + op.String() + " " + b + ")"
	case *ssa.UnOp:
		if x.Op == token.MUL {
			// load
			switch a := x.X.(type) {
			case *ssa.FieldAddr:
				return r.base(a.X, d+1) + "." + fieldName(a.X.Type(), a.Field)
			case *ssa.IndexAddr:
				if r.o.cat {
					if es := literalElems(a.X); es != nil && r.idx(a.Index, d+1) == "*" {
						return r.altsOf(es, d)
					}
				}
				return r.base(a.X, d+1) + "[" + r.idx(a.Index, d+1) + "]"
			case *ssa.Alloc:
				if sv := singleStore(a); sv != nil {
					return r.render(sv, d+1)
				}
				return "*" + r.render(a, d+1)
			case *ssa.Global:
				return relName(a.String())
			}
			return "*" + r.render(x.X, d+1)
		}
		return x.Op.String() + r.render(x.X, d+1)
	case *ssa.FieldAddr:
		return "&" + r.base(x.X, d+1) + "." + fieldName(x.X.Type(), x.Field)
	case *ssa.Field:
		return r.render(x.X, d+1) + "." + fieldName(x.X.Type(), x.Field)
	case *ssa.IndexAddr:
		return "&" + r.base(x.X, d+1) + "[" + r.idx(x.Index, d+1) + "]"
	case *ssa.Index:
		if r.o.cat {
			if es := literalElems(x.X); es != nil && r.idx(x.Index, d+1) == "*" {
				return r.altsOf(es, d)
			}
		}
		return r.render(x.X, d+1) + "[" + r.idx(x.Index, d+1) + "]"
	case *ssa.Lookup:
		return r.render(x.X, d+1) + "[" + r.render(x.Index, d+1) + "]"
	case *ssa.Slice:
		s := r.render(x.X, d+1)
		if r.o.cat || r.o.fills {
			s = strings.TrimPrefix(s, "&") // a[:] of an addressable array element: same view as the value's
		}
		s += "["
		if x.Low != nil {
			s += r.render(x.Low, d+1)
		}
		s += ":"
		if x.High != nil {
			s += r.render(x.High, d+1)
		}
		return s + "]"
	case *ssa.Extract:
		if call, ok := x.Tuple.(*ssa.Call); ok && r.o.inline != nil {
			if f := call.Call.StaticCallee(); f != nil && r.o.inline(f) {
				if s, ok := r.renderInlined(call, f, x.Index, d); ok {
					return s
				}
			}
		}
		return r.render(x.Tuple, d+1) + "#" + fmt.Sprint(x.Index)
	case *ssa.Call:
		if r.o.inline != nil && !x.Call.IsInvoke() {
			if f := x.Call.StaticCallee(); f != nil && f.Signature.Results().Len() == 1 && r.o.inline(f) {
				if s, ok := r.renderInlined(x, f, 0, d); ok {
					return s
				}
			}
		}
		if r.o.cat {
			if b, ok := x.Call.Value.(*ssa.Builtin); ok && b.Name() == "append" && len(x.Call.Args) == 2 {
				return "cat(" + strings.Join(r.catParts(x, d), ", ") + ")"
			}
		}
		var args []string
		for _, a := range x.Call.Args {
			args = append(args, r.render(a, d+1))
		}
		name := ""
		if x.Call.IsInvoke() {
			name = r.render(x.Call.Value, d+1) + "." + x.Call.Method.Name()
		} else if f := x.Call.StaticCallee(); f != nil {
			name = relName(f.String())
			if f.Origin() != nil {
				name = relName(f.Origin().String())
			}
		} else {
			name = r.render(x.Call.Value, d+1)
		}
		return name + "(" + strings.Join(args, ", ") + ")"
	case *ssa.Phi:
		if r.o.sums {
			if init, term, ok := sumPhi(x); ok {
				return "Σ(" + r.render(init, d+1) + "; " + r.render(term, d+1) + ")"
			}
			if init, elems, ok := appendPhi(x); ok {
				return "⊕(" + r.render(init, d+1) + "; " + r.render(elems, d+1) + ")"
			}
			if isLoopIndex(x) {
				return "*"
			}
		}
		var es []string
		seen := map[string]bool{}
		for _, e := range x.Edges {
			s := r.render(e, d+1)
			if !seen[s] {
				seen[s] = true
				es = append(es, s)
			}
		}
		sort.Strings(es)
		return "phi(" + strings.Join(es, " | ") + ")"
	case *ssa.Alloc:
		// a local cell holding one value (spilled by-value parameter, range
		// variable, tuple component): render the value it holds
		if sv := singleStore(x); sv != nil {
			return r.render(sv, d+1)
		}
		if es := arrayLiteral(x); es != nil {
			var parts []string
			for _, e := range es {
				parts = append(parts, r.render(e, d+1))
			}
			return "[" + strings.Join(parts, ", ") + "]"
		}
		if iv := initStore(x); iv != nil {
			// a variable initialised once and then handed out by address
			return "cell(" + r.render(iv, d+1) + ")"
		}
		return "alloc:" + relName(types.TypeString(derefType(x.Type()), nil))
	case *ssa.TypeAssert:
		return r.render(x.X, d+1) + ".(" + relName(types.TypeString(x.AssertedType, nil)) + ")"
	case *ssa.MakeSlice:
		ms := "make([]" + relName(types.TypeString(x.Type().Underlying().(*types.Slice).Elem(), nil)) + ", " + r.render(x.Len, d+1) + ")"
		if r.o.fills {
			if fl := r.fillsOf(x, d); len(fl) > 0 {
				ms += "{" + strings.Join(fl, "; ") + "}"
			}
		}
		return ms
	case *ssa.MakeMap:
		return "makemap"
	case *ssa.MakeClosure:
		return "closure:" + relName(x.Fn.String())
	case *ssa.Range:
		return "range(" + r.render(x.X, d+1) + ")"
	case *ssa.Next:
		return "next(" + r.render(x.Iter, d+1) + ")"
	case *ssa.SliceToArrayPointer:
		return r.render(x.X, d+1)
	}
	return fmt.Sprintf("?%T", v)
}

func isStringType(t types.Type) bool {
	b, ok := t.Underlying().(*types.Basic)
	return ok && b.Info()&types.IsString != 0
}

func fieldName(t types.Type, i int) string {
	if f := structField(t, i); f != nil {
		return f.Name()
	}
	return fmt.Sprintf("f%d", i)
}

// singleStore: if the alloc is a local cell written by exactly one Store of
// a whole value (and never address-escaped other than loads), return that value.
func singleStore(a *ssa.Alloc) ssa.Value {
	var val ssa.Value
	n := 0
	for _, ref := range *a.Referrers() {
		switch x := ref.(type) {
		case *ssa.Store:
			if x.Addr == a {
				n++
				val = x.Val
			} else {
				return nil
			}
		case *ssa.UnOp:
		case *ssa.DebugRef:
		case *ssa.Slice:
			// slicing a local array cell (x[:]) — a read-only view for rendering purposes
		case *ssa.FieldAddr:
			// read-only field addresses are fine
			if !readOnlyAddr(x, 0) {
				return nil
			}
		default:
			return nil
		}
	}
	if n == 1 {
		return val
	}
	return nil
}

// storesTo lists the values stored into a local struct alloc's field (by
// field object). Returns nil,false when the alloc escapes in a way that
// prevents tracking.
func fieldStores(a *ssa.Alloc, fld *types.Var) []ssa.Value {
	var out []ssa.Value
	for _, ref := range *a.Referrers() {
		if fa, ok := ref.(*ssa.FieldAddr); ok && structField(fa.X.Type(), fa.Field) == fld {
			for _, r2 := range *fa.Referrers() {
				if st, ok := r2.(*ssa.Store); ok && st.Addr == fa {
					out = append(out, st.Val)
				}
			}
		}
	}
	return out
}

// idx renders an index operand; with sums enabled any index that varies with
// a loop counter is rendered as "*" ("every element").
func (r *renderer) idx(v ssa.Value, d int) string {
	if r.o.sums && loopVarying(v, 0) {
		return "*"
	}
	return r.render(v, d)
}

func loopVarying(v ssa.Value, d int) bool {
	if d > 4 {
		return false
	}
	switch x := stripConv(v).(type) {
	case *ssa.Phi:
		return isLoopIndex(x)
	case *ssa.BinOp:
		_, cx := stripConv(x.X).(*ssa.Const)
		_, cy := stripConv(x.Y).(*ssa.Const)
		if cy {
			return loopVarying(x.X, d+1)
		}
		if cx {
			return loopVarying(x.Y, d+1)
		}
	case *ssa.Extract:
		// key of a range-over-map/string Next
		if _, ok := x.Tuple.(*ssa.Next); ok {
			return true
		}
	}
	return false
}

// isLoopIndex: phi(const, phi±const) — a counting loop variable.
func isLoopIndex(p *ssa.Phi) bool {
	edges := distinctEdges(p)
	if len(edges) != 2 {
		return false
	}
	for i := 0; i < 2; i++ {
		if _, ok := stripConv(edges[i]).(*ssa.Const); !ok {
			continue
		}
		b, ok := stripConv(edges[1-i]).(*ssa.BinOp)
		if !ok || (b.Op != token.ADD && b.Op != token.SUB) {
			continue
		}
		if stripConv(b.X) == ssa.Value(p) {
			if _, ok := stripConv(b.Y).(*ssa.Const); ok {
				return true
			}
		}
	}
	// a counter running down from a loop-invariant start (for i := len(x)-1; i >= 0; i--)
	for i := 0; i < 2; i++ {
		b, ok := stripConv(edges[1-i]).(*ssa.BinOp)
		if !ok || stripConv(b.X) != ssa.Value(p) {
			continue
		}
		k, isC := constInt(b.Y)
		if !isC || !(b.Op == token.SUB && k > 0 || b.Op == token.ADD && k < 0) {
			continue
		}
		if init := stripConv(edges[i]); init != ssa.Value(p) && !mentionsPhi(init, 0) {
			return true
		}
	}
	return false
}

// mentionsPhi: the expression depends on a phi (is not invariant in the loops of its function).
func mentionsPhi(v ssa.Value, d int) bool {
	if d > 6 {
		return true
	}
	switch x := v.(type) {
	case *ssa.Phi:
		return true
	case *ssa.BinOp:
		return mentionsPhi(x.X, d+1) || mentionsPhi(x.Y, d+1)
	case *ssa.Convert:
		return mentionsPhi(x.X, d+1)
	case *ssa.UnOp:
		return mentionsPhi(x.X, d+1)
	case *ssa.Call:
		for _, a := range x.Call.Args {
			if mentionsPhi(a, d+1) {
				return true
			}
		}
	}
	return false
}

// sumPhi: phi(init, phi + term) with term not a constant — an accumulation.
func sumPhi(p *ssa.Phi) (init, term ssa.Value, ok bool) {
	edges := distinctEdges(p)
	if len(edges) != 2 {
		return nil, nil, false
	}
	for i := 0; i < 2; i++ {
		b, isB := stripConv(edges[1-i]).(*ssa.BinOp)
		if !isB || b.Op != token.ADD {
			continue
		}
		var t ssa.Value
		if stripConv(b.X) == ssa.Value(p) {
			t = b.Y
		} else if stripConv(b.Y) == ssa.Value(p) {
			t = b.X
		} else {
			continue
		}
		if _, isC := stripConv(t).(*ssa.Const); isC {
			continue
		}
		return edges[i], t, true
	}
	return nil, nil, false
}

// structLiteralFields returns, for a struct value built in a local alloc
// (composite literal or field-by-field assignment), the value stored into each
// field, keyed by dotted field path; nested struct-valued fields are
// flattened. Fields never stored are absent (zero value).
func structLiteralFields(v ssa.Value) map[string]ssa.Value {
	out := map[string]ssa.Value{}
	a := localCell(v)
	if a == nil {
		return nil
	}
	var walk func(addr ssa.Value, prefix string)
	walk = func(addr ssa.Value, prefix string) {
		refs := addr.Referrers()
		if refs == nil {
			return
		}
		for _, ref := range *refs {
			fa, ok := ref.(*ssa.FieldAddr)
			if !ok || fa.X != addr {
				continue
			}
			name := prefix + fieldName(fa.X.Type(), fa.Field)
			stored := false
			for _, r2 := range *fa.Referrers() {
				if st, ok := r2.(*ssa.Store); ok && st.Addr == fa {
					stored = true
					if inner := localCell(st.Val); inner != nil && isStructType(derefType(inner.Type())) && len(structLiteralFields(st.Val)) > 0 {
						for k, vv := range structLiteralFields(st.Val) {
							out[name+"."+k] = vv
						}
					} else {
						out[name] = st.Val
					}
				}
			}
			if !stored {
				walk(fa, name+".")
			}
		}
	}
	walk(a, "")
	return out
}

func isStructType(t types.Type) bool {
	_, ok := t.Underlying().(*types.Struct)
	return ok
}

// literalElems: v is a literal array (or a copy of one): its element values.
func literalElems(v ssa.Value) []ssa.Value {
	for i := 0; i < 4; i++ {
		switch x := v.(type) {
		case *ssa.Alloc:
			if es := arrayLiteral(x); es != nil {
				return es
			}
			if sv := singleStore(x); sv != nil {
				v = sv
				continue
			}
			return nil
		case *ssa.UnOp:
			if x.Op == token.MUL {
				v = x.X
				continue
			}
			return nil
		case *ssa.Global:
			return globalArrayLiteral(x)
		default:
			return nil
		}
	}
	return nil
}

// altsOf renders "any element of a literal list" as the set of alternatives.
func (r *renderer) altsOf(es []ssa.Value, d int) string {
	seen := map[string]bool{}
	var parts []string
	for _, e := range es {
		s := r.render(e, d+1)
		if !seen[s] || r.o.seqLit {
			seen[s] = true
			parts = append(parts, s)
		}
	}
	if r.o.seqLit {
		return "seq(" + strings.Join(parts, ", ") + ")"
	}
	sort.Strings(parts)
	if len(parts) == 1 {
		return parts[0]
	}
	return "phi(" + strings.Join(parts, " | ") + ")"
}
