package main

import (
	"fmt"
	"go/ast"
	"go/constant"
	"go/token"
	"go/types"
	"os"
	"sort"
	"strings"

	"golang.org/x/tools/go/ssa"
)

// handlerSignature: abstract effect signature of an instruction handler
// (E11): operators applied to machine values with their result types,
// width/sign-changing conversions of machine values, semantic helper calls
// with their constant arguments, and the number of register writes.
func (e *omegaEnv) handlerSignature(f *ssa.Function) []string {
	tainted := map[ssa.Value]bool{}
	var isT func(v ssa.Value, d int) bool
	isT = func(v ssa.Value, d int) bool {
		if v == nil || d > 30 {
			return false
		}
		if t, ok := tainted[v]; ok {
			return t
		}
		tainted[v] = false
		r := false
		switch x := v.(type) {
		case *ssa.UnOp:
			if x.Op == token.MUL {
				s := exprStr(x.X, exprOpts{})
				// loads of register values and of pre-decoded immediates
				if strings.Contains(s, ".Registers[") || strings.Contains(s, ".Imm[") {
					r = true
				} else if a, ok := x.X.(*ssa.Alloc); ok {
					for _, ref := range *a.Referrers() {
						if st, ok := ref.(*ssa.Store); ok && st.Addr == ssa.Value(a) && isT(st.Val, d+1) {
							r = true
						}
					}
				}
			} else {
				r = isT(x.X, d+1)
			}
		case *ssa.BinOp:
			r = isT(x.X, d+1) || isT(x.Y, d+1)
		case *ssa.Convert:
			r = isT(x.X, d+1)
		case *ssa.ChangeType:
			r = isT(x.X, d+1)
		case *ssa.Phi:
			for _, ed := range x.Edges {
				if isT(ed, d+1) {
					r = true
				}
			}
		case *ssa.Extract:
			if call, ok := x.Tuple.(*ssa.Call); ok {
				if sc := call.Call.StaticCallee(); sc != nil {
					n := sc.Name()
					switch {
					case strings.HasPrefix(n, "decode"):
						// immediates / offsets are machine values; register indices (uint8/int8) are not
						bt, _ := x.Type().Underlying().(*types.Basic)
						r = bt != nil && bt.Kind() != types.Uint8 && bt.Kind() != types.Int8 && x.Type().String() != "error"
					case n == "loadFromMemory":
						r = x.Index == 0
					default:
						for _, a := range call.Call.Args {
							if isT(a, d+1) {
								r = true
							}
						}
					}
				}
			}
		case *ssa.Call:
			for _, a := range x.Call.Args {
				if isT(a, d+1) {
					r = true
				}
			}
		case *ssa.Index, *ssa.IndexAddr:
			r = false
		}
		tainted[v] = r
		return r
	}
	var sig []string
	regw := 0
	allInstrs(f, func(in ssa.Instruction) {
		switch x := in.(type) {
		case *ssa.BinOp:
			if isT(x, 0) {
				t := intTypeName(x.X.Type())
				if t == "" {
					t = intTypeName(x.Type())
				}
				op := x.Op
				// normalise mirrored comparisons, and x % 2^k == x & (2^k-1) on unsigned values
				switch op {
				case token.GTR:
					op = token.LSS
				case token.GEQ:
					op = token.LEQ
				case token.REM:
					if k, ok := constU64(x.Y); ok && k != 0 && k&(k-1) == 0 && strings.HasPrefix(t, "u") {
						op = token.AND
					}
				}
				sig = append(sig, "op "+op.String()+" "+t)
			}
		case *ssa.UnOp:
			if x.Op != token.MUL && isT(x, 0) {
				sig = append(sig, "unop "+x.Op.String()+" "+intTypeName(x.Type()))
			}
		case *ssa.Convert:
			if isT(x, 0) {
				a, b := intTypeName(x.X.Type()), intTypeName(x.Type())
				if strings.HasSuffix(x.Type().String(), "ProgramCounter") {
					return // a pre-decoded branch target stored in a 64-bit immediate slot
				}
				if a != "" && b != "" && a != b {
					sig = append(sig, "conv "+a+"→"+b)
				}
			}
		case *ssa.Call:
			sc := x.Call.StaticCallee()
			if sc == nil {
				return
			}
			n := sc.Name()
			full := sc.String()
			if strings.HasPrefix(n, "decode") || strings.HasPrefix(n, "getReg") || strings.Contains(full, "Logger") || strings.HasPrefix(full, "fmt.") || n == "skip" {
				return
			}
			if sc.Pkg != nil && (sc.Pkg.Pkg.Path() == "math/bits" || strings.HasSuffix(sc.Pkg.Pkg.Path(), "/PVM")) {
				var cargs []string
				for _, a := range x.Call.Args {
					if k, ok := constInt(a); ok {
						cargs = append(cargs, fmt.Sprint(k))
					}
				}
				if n == "SignExtend" && len(cargs) == 0 {
					return // variable-width extension of an immediate: operand decoding (done at pre-decode time in the block engine)
				}
				sig = append(sig, "call "+relName(full)+"("+strings.Join(cargs, ",")+")")
			}
		case *ssa.Store:
			if _, _, _, ok := e.registerStore(in); ok {
				regw++
			}
		}
	})
	if regw > 0 {
		sig = append(sig, "regwrite")
	}
	sort.Strings(sig)
	return sig
}

func checkC02(c *Ctx) (string, []string) {
	e := newOmegaEnv(c)
	t := c.loadOpTables()
	if len(c.fatal) > 0 || t == nil {
		return "", nil
	}
	dump := os.Getenv("JAMVERIF_DUMP") != ""
	c.Rule("C02.sibling-handlers", "for every opcode the single-step handler (execInstructions[k]) and the pre-decoded handler (instrMetaExecForOpcode(k)) have the same abstract effect signature: operators applied to machine values with operand types, width/sign-changing conversions, semantic helper calls with constant arguments (memory width, sign-extension width, branch/djump, math/bits), register write", 139)
	var ks []int64
	for k := range t.legacy {
		ks = append(ks, k)
	}
	sort.Slice(ks, func(i, j int) bool { return ks[i] < ks[j] })
	mism := 0
	for _, k := range ks {
		lf, mf := t.legacy[k], t.meta[k]
		key := fmt.Sprintf("opcode %d", k)
		if lf == nil || mf == nil {
			c.Bad("C02.sibling-handlers", key, token.NoPos, "opcode has a handler in only one engine")
			continue
		}
		ls, ms := c.SSA().FuncValue(lf), c.SSA().FuncValue(mf)
		if ls == nil || ms == nil {
			c.Bad("C02.sibling-handlers", key, token.NoPos, "handler has no body")
			continue
		}
		a, b := e.handlerSignature(ls), e.handlerSignature(ms)
		key = fmt.Sprintf("opcode %d %s ~ %s", k, lf.Name(), mf.Name())
		if strings.Join(a, ";") == strings.Join(b, ";") {
			c.OK("C02.sibling-handlers", key, ms.Pos(), "signatures equal: %s", strings.Join(a, "; "))
		} else {
			mism++
			if dump && mism <= 40 {
				fmt.Printf("MISMATCH %s\n   L: %s\n   M: %s\n", key, strings.Join(a, "; "), strings.Join(b, "; "))
			}
			c.Bad("C02.sibling-handlers", key, ms.Pos(), "the two engines' handlers differ: single-step [%s] vs pre-decoded [%s]", strings.Join(a, "; "), strings.Join(b, "; "))
		}
	}
	c.extra["handler_pairs"] = len(ks)
	_ = ast.Inspect

	c.Rule("C02.reads-before-writes", "within every instruction handler of either engine all register reads precede the register write", 200)
	e.ruleReadsBeforeWrites("C02.reads-before-writes", t)

	c.Rule("C02.engine-step", "both engines charge one unit per dispatched instruction and return out-of-gas only on the Gas < 1 edge (no block-level gas shortcut in one engine only)", 8)
	ruleEngineStep(c, "C02.engine-step")

	c.Rule("C02.decode-agreement", "the operand decoder a single-step handler calls is the one decodeOperands uses for that opcode's category", 100)
	catDecoder := map[string]string{}
	if fd, p := c.FuncDecl("PVM", "decodeOperands"); fd != nil {
		ast.Inspect(fd.Body, func(n ast.Node) bool {
			cc, ok := n.(*ast.CaseClause)
			if !ok || len(cc.List) != 1 {
				return true
			}
			cat := exprText(p.Fset, cc.List[0])
			for _, st := range cc.Body {
				ast.Inspect(st, func(m ast.Node) bool {
					if call, ok := m.(*ast.CallExpr); ok {
						if name, _ := calleeName(p.TypesInfo, call); strings.Contains(name, ".decode") {
							catDecoder[cat] = name[strings.LastIndex(name, ".")+1:]
						}
					}
					return true
				})
			}
			return true
		})
	}
	for _, k := range ks {
		lf := t.legacy[k]
		if lf == nil {
			continue
		}
		ls := c.SSA().FuncValue(lf)
		want := catDecoder[t.info[k].category]
		var used []string
		allInstrs(ls, func(in ssa.Instruction) {
			if call, ok := in.(*ssa.Call); ok {
				if sc := call.Call.StaticCallee(); sc != nil && strings.HasPrefix(sc.Name(), "decode") {
					used = append(used, sc.Name())
				}
			}
		})
		key := fmt.Sprintf("opcode %d %s", k, lf.Name())
		switch {
		case want == "" && len(used) == 0:
			c.OK("C02.decode-agreement", key, ls.Pos(), "no operands / inline operands in both engines (category %s)", t.info[k].category)
		case len(used) == 0:
			// the single-step handler decodes inline: both engines must take the same octets of the code for every skip
			// distance (slice extents relative to pc, evaluated for skip = 0..24)
			if dOps := c.Fn("PVM", "decodeOperands"); dOps != nil {
				diff := ""
				for s := int64(0); s <= 24 && diff == ""; s++ {
					a := c02CodeOctets(ls, nil, s)
					b := c02CodeOctets(dOps, func(in ssa.Instruction) bool { return c02UnderCategory(c, dOps, in, t.info[k].category) }, s)
					if a != b && a != "?" && b != "?" {
						diff = fmt.Sprintf("skip %d: the single-step handler takes code octets %s (relative to pc), the block engine %s", s, a, b)
					}
				}
				if diff != "" {
					c.Bad("C02.decode-agreement", key, ls.Pos(), "the two engines read different operand octets (category %s): %s", t.info[k].category, diff)
					continue
				}
			}
			c.OK("C02.decode-agreement", key, ls.Pos(), "single-step handler decodes inline (category %s): same code octets as the block engine for skip 0..24; its signature is compared under C02.sibling-handlers", t.info[k].category)
		default:
			ok := true
			for _, u := range used {
				if u != want {
					ok = false
				}
			}
			c.Check(ok, "C02.decode-agreement", key, ls.Pos(), "both engines decode with "+want, "single-step handler decodes with "+strings.Join(used, ",")+" but the block engine uses "+want+" for category "+t.info[k].category)
		}
	}
	return "Sibling agreement of the two PVM engines decided statically: equal abstract effect signatures for all 139 opcode handler pairs, read-before-write in every handler, identical per-instruction gas discipline, and the same operand decoder per category. Does not decide equality of results on every encoding (needs execution); differences in bounds handling are surfaced by C01/C03.",
		[]string{"x % 2^k and x & (2^k-1) on unsigned values, mirrored comparisons, variable-width sign extension of inline-decoded immediates and the 64→32-bit conversion of a pre-decoded branch target are treated as equal"}
}

// ruleReadsBeforeWrites: within one instruction handler every register read
// precedes every register write (all operands refer to the prior state; with
// aliasing operands a read after a write observes the new value).
func (e *omegaEnv) ruleReadsBeforeWrites(rule string, t *opTables) int {
	c := e.c
	seen := map[*types.Func]bool{}
	n := 0
	check := func(fo *types.Func) {
		if fo == nil || seen[fo] {
			return
		}
		seen[fo] = true
		f := c.SSA().FuncValue(fo)
		if f == nil {
			return
		}
		n++
		isRegLoad := func(in ssa.Instruction) bool {
			u, ok := in.(*ssa.UnOp)
			if !ok || u.Op != token.MUL {
				return false
			}
			ia, ok := u.X.(*ssa.IndexAddr)
			return ok && e.registersT != nil && types.Identical(derefType(ia.X.Type()), e.registersT)
		}
		bad := token.NoPos
		allInstrs(f, func(in ssa.Instruction) {
			if _, _, _, ok := e.registerStore(in); !ok {
				return
			}
			if hit, found := findPath(pathQuery{start: in, target: isRegLoad}); found && bad == token.NoPos {
				bad = hit.Pos()
			}
		})
		c.Check(bad == token.NoPos, rule, funcKey(f), f.Pos(), "all register reads precede the register write", "a register is read after a register was written in the same instruction (with the same register as source and destination the new value is used): read at "+c.pos(bad))
	}
	for _, fo := range t.legacy {
		check(fo)
	}
	for _, fo := range t.meta {
		check(fo)
	}
	return n
}

// c02UnderCategory: the instruction of decodeOperands lies in the arm of the given operand category
// (dominated by the true edge of the comparison of the category with that constant).
func c02UnderCategory(c *Ctx, f *ssa.Function, in ssa.Instruction, category string) bool {
	k, ok := c.Obj("PVM", category).(*types.Const)
	if !ok {
		return false
	}
	kv, _ := constant.Int64Val(k.Val())
	pass := condEdges(f, func(v ssa.Value) (bool, bool) {
		bo, isB := v.(*ssa.BinOp)
		if !isB || bo.Op != token.EQL {
			return false, false
		}
		if x, isC := constInt(bo.Y); isC && x == kv && strings.Contains(exprStr(bo.X, shapeOpts), "Category") {
			return true, true
		}
		if x, isC := constInt(bo.X); isC && x == kv && strings.Contains(exprStr(bo.Y, shapeOpts), "Category") {
			return true, true
		}
		return false, false
	})
	return len(pass) > 0 && guardedBy(f, in, pass)
}

// c02CodeOctets: the code octets (offsets relative to pc) that slices of the instruction data in f — and in the
// operand decoders it calls — take, for one skip distance; "?" when an extent cannot be evaluated.
func c02CodeOctets(f *ssa.Function, keep func(ssa.Instruction) bool, skip int64) string {
	const PC = int64(1000)
	octets := map[int64]bool{}
	unknown := false
	var visit func(g *ssa.Function, keep func(ssa.Instruction) bool, env intEnv, d int)
	visit = func(g *ssa.Function, keep func(ssa.Instruction) bool, env intEnv, d int) {
		isCode := func(v ssa.Value) bool {
			s := exprStr(v, shapeOpts)
			return strings.HasSuffix(s, ".InstructionData") || (isByteSlice(v.Type()) || strings.HasSuffix(v.Type().String(), "ProgramCode")) && (s == "p0" || s == "p1")
		}
		allInstrs(g, func(in ssa.Instruction) {
			if keep != nil && !keep(in) {
				return
			}
			switch x := in.(type) {
			case *ssa.Slice:
				if !isCode(x.X) || x.Low == nil || x.High == nil {
					return
				}
				lo, ok1 := evalInt(x.Low, env, 0)
				hi, ok2 := evalInt(x.High, env, 0)
				if !ok1 || !ok2 {
					unknown = true
					return
				}
				for o := lo; o < hi && o < lo+64; o++ {
					octets[o-PC] = true
				}
			case *ssa.Call:
				h := x.Call.StaticCallee()
				if h == nil || len(h.Blocks) == 0 || !strings.HasPrefix(h.Name(), "decode") || d > 2 {
					return
				}
				sub := intEnv{params: map[ssa.Value]int64{}, lens: map[ssa.Value]int64{}, unknown: map[ssa.Value]bool{}, cells: map[ssa.Value]int64{}}
				n := 0
				for i, p := range h.Params {
					if strings.HasSuffix(p.Type().String(), "ProgramCounter") && i < len(x.Call.Args) {
						if v, ok := evalInt(x.Call.Args[i], env, 0); ok {
							sub.params[p] = v
							n++
						}
					}
					if isByteSlice(p.Type()) || strings.HasSuffix(p.Type().String(), "ProgramCode") {
						sub.lens[p] = 5000
					}
				}
				if n < 2 {
					unknown = true
					return
				}
				visit(h, nil, sub, d+1)
			}
		})
	}
	env := intEnv{params: map[ssa.Value]int64{}, lens: map[ssa.Value]int64{}, unknown: map[ssa.Value]bool{}, cells: map[ssa.Value]int64{}}
	npc := 0
	for _, p := range f.Params {
		if strings.HasSuffix(p.Type().String(), "ProgramCounter") {
			if npc == 0 {
				env.params[p] = PC
			} else {
				env.params[p] = skip
			}
			npc++
		}
		if isByteSlice(p.Type()) || strings.HasSuffix(p.Type().String(), "ProgramCode") {
			env.lens[p] = 5000
		}
	}
	env.opaque = func(v ssa.Value) (int64, bool) {
		switch s := exprStr(v, shapeOpts); {
		case strings.HasSuffix(s, ".PC"):
			return PC, true
		case strings.HasSuffix(s, ".SkipLen"):
			return skip, true
		case strings.HasPrefix(s, "len(") && (strings.Contains(s, "InstructionData") || strings.HasSuffix(s, "p1)")):
			return 5000, true
		}
		return 0, false
	}
	visit(f, keep, env, 0)
	if unknown {
		return "?"
	}
	var ks []int64
	for o := range octets {
		ks = append(ks, o)
	}
	sort.Slice(ks, func(i, j int) bool { return ks[i] < ks[j] })
	return fmt.Sprint(ks)
}
